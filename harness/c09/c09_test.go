//go:build verif

// C09: per-recipient results name exactly the recipients that were accepted.
//
// Three groups of histories, each run against the real code with scripted
// next hops (verifkit/smtpd) or scripted leaf targets (mx.ScriptTarget):
//
//	index 0..            remote  - the real target.remote delivery, pooling ON (conn_reuse_limit 10)
//	index 1_000_000..    lmtp    - the real target.lmtp delivery (and target.smtp: no per-recipient interface)
//	index 2_000_000..    pipe    - msgpipeline with 1-to-N replace_rcpt rewriting over scripted targets
//
// The monitor is the module.StatusCollector handed to BodyNonAtomic.
package c09

import (
	"context"
	"errors"
	"fmt"
	"hash/fnv"
	"io"
	"net"
	"os"
	"sort"
	"strings"
	"sync"
	"sync/atomic"
	"testing"
	"time"

	"github.com/emersion/go-message/textproto"
	"github.com/emersion/go-smtp"
	"github.com/foxcpp/maddy/framework/buffer"
	"github.com/foxcpp/maddy/framework/log"
	"github.com/foxcpp/maddy/framework/module"
	_ "github.com/foxcpp/maddy/internal/table"
	"github.com/foxcpp/maddy/internal/target/remote"
	smtp_downstream "github.com/foxcpp/maddy/internal/target/smtp"
	"github.com/foxcpp/maddy/internal/zzverif/mx"
	"verifkit/prng"
	"verifkit/rep"
	"verifkit/smtpd"
)

const (
	baseRemote = 0
	baseLMTP   = 1_000_000
	basePipe   = 2_000_000

	// slowCall: a BodyNonAtomic that took this long has probably run into a
	// client-side command time-out (60 s); such a case is not judged.
	slowCall = 30 * time.Second
)

func TestVerif(t *testing.T) {
	r := rep.Open("C09")
	defer r.Close()
	// target.smtp / target.lmtp log through the default logger; the (expected)
	// "QUIT error" lines after scripted connection drops would swamp the shard logs.
	log.DefaultLogger.Out = log.NopOutput{}
	// remote and lmtp histories open listeners and TCP connections; their
	// thorough counts are bounded by the machine's shared ephemeral port range.
	nRemote := r.N(5000, 30000)
	nLMTP := r.N(3000, 15000)
	nPipe := r.N(4000, 60000)
	for i := 0; i < nRemote; i++ {
		idx := baseRemote + i
		r.Run(idx, fmt.Sprintf("remote-%d", i), func(c *rep.Case) { runRemote(t, r, c, idx) })
	}
	for i := 0; i < nLMTP; i++ {
		idx := baseLMTP + i
		r.Run(idx, fmt.Sprintf("lmtp-%d", i), func(c *rep.Case) { runLMTP(t, r, c, idx) })
	}
	for i := 0; i < nPipe; i++ {
		idx := basePipe + i
		r.Run(idx, fmt.Sprintf("pipe-%d", i), func(c *rep.Case) { runPipe(t, r, c, idx) })
	}
}

// ---------------------------------------------------------------- helpers

// failBuffer is a message body whose Open fails (spool file gone, I/O error).
type failBuffer struct{}

func (failBuffer) Open() (io.ReadCloser, error) {
	return nil, errors.New("verif: body cannot be opened")
}
func (failBuffer) Len() int      { return 10 }
func (failBuffer) Remove() error { return nil }

func testHeader() textproto.Header {
	h := textproto.Header{}
	h.Add("Subject", "c09")
	h.Add("From", "<sender@src.example>")
	return h
}

func testBody(p *prng.R) buffer.Buffer {
	return buffer.MemoryBuffer{Slice: []byte("line one\r\n.leading dot\r\nlast\r\n")}
}

func anyNonASCII(as []string) bool {
	for _, a := range as {
		if !isASCII(a) {
			return true
		}
	}
	return false
}

func report(r *rep.Reporter, c *rep.Case, fs []finding, witness any) {
	seen := map[string]bool{}
	for _, f := range fs {
		if seen[f.Sig] {
			continue
		}
		seen[f.Sig] = true
		c.Violation(f.Sig, f.What, witness)
	}
}

func countCalls(r *rep.Reporter, kind string, calls []call) {
	var nilN, failN, late int64
	for _, k := range calls {
		if k.Nil {
			nilN++
		} else {
			failN++
		}
		if k.Late {
			late++
		}
	}
	r.Count("setstatus_"+kind+"_nil", nilN)
	r.Count("setstatus_"+kind+"_failure", failN)
	if late > 0 {
		// The contract says "should not be called after BodyNonAtomic returns";
		// the statement does not, so this is an observation only.
		r.Count("setstatus_after_return_observed", late)
	}
}

// sample keeps two literal cases per group and process for the evidence file.
var sampleN sync.Map

func sample(r *rep.Reporter, group string, v any) {
	n, _ := sampleN.LoadOrStore(group, new(int32))
	if atomic.AddInt32(n.(*int32), 1) <= 2 {
		r.Sample(v)
	}
}

func firstOf(hist []any) any {
	if len(hist) == 0 {
		return nil
	}
	return hist[0]
}

func sortedKeys[V any](m map[string]V) []string {
	ks := make([]string, 0, len(m))
	for k := range m {
		ks = append(ks, k)
	}
	sort.Strings(ks)
	return ks
}

// ---------------------------------------------------------------- remote

type fakeResolver struct{ mx map[string]string }

func (f *fakeResolver) LookupMX(ctx context.Context, name string) ([]*net.MX, error) {
	h, ok := f.mx[strings.TrimSuffix(name, ".")]
	if !ok {
		return nil, &net.DNSError{Err: "no such host", Name: name, IsNotFound: true}
	}
	return []*net.MX{{Host: h, Pref: 10}}, nil
}
func (f *fakeResolver) LookupAddr(ctx context.Context, addr string) ([]string, error) {
	return nil, &net.DNSError{Err: "no such host", Name: addr, IsNotFound: true}
}
func (f *fakeResolver) LookupHost(ctx context.Context, host string) ([]string, error) {
	return []string{"127.0.0.1"}, nil
}
func (f *fakeResolver) LookupTXT(ctx context.Context, name string) ([]string, error) {
	return nil, &net.DNSError{Err: "no such host", Name: name, IsNotFound: true}
}
func (f *fakeResolver) LookupIPAddr(ctx context.Context, host string) ([]net.IPAddr, error) {
	return []net.IPAddr{{IP: net.IPv4(127, 0, 0, 1)}}, nil
}

func runRemote(t *testing.T, r *rep.Reporter, c *rep.Case, idx int) {
	p := prng.New(r.Seed(), uint64(idx), "c09-remote")
	pool, spellings := genRcptPool(p, false)
	nTx := p.Range(1, 4)
	var cur atomic.Int32

	// mid-DATA faults: a dimension of its own (separate PRNG stream)
	pm := prng.New(r.Seed(), uint64(idx), "c09-remote-middata")
	mids := map[int]*midPlan{}
	for tx := 1; tx <= nTx; tx++ {
		if m := genMid(pm, spellings); m != nil {
			mids[tx] = m
		}
	}

	hops := map[string]*hop{}
	hostAddr := map[string]string{}
	res := &fakeResolver{mx: map[string]string{}}
	plansOut := map[string]map[int]*hopPlan{}
	for i, sp := range spellings {
		plans := map[int]*hopPlan{}
		for tx := 1; tx <= nTx; tx++ {
			if p.Chance(3, 5) {
				plans[tx] = genPlan(p, false)
			}
		}
		h, err := newHop(sp, false, p.Chance(2, 5), &cur, plans, mids)
		if err != nil {
			c.Inconclusive("environment: cannot start a scripted next hop: " + err.Error())
			return
		}
		defer h.srv.Close()
		hops[sp] = h
		host := fmt.Sprintf("mx%d.hop.invalid", i)
		hostAddr[host] = h.srv.Addr()
		res.mx[sp] = host + "."
		plansOut[sp] = plans
	}
	dialer := func(ctx context.Context, network, addr string) (net.Conn, error) {
		host, _, err := net.SplitHostPort(addr)
		if err != nil {
			return nil, err
		}
		a, ok := hostAddr[strings.TrimSuffix(host, ".")]
		if !ok {
			return nil, fmt.Errorf("verif dialer: unknown host %q", addr)
		}
		conn, err := (&net.Dialer{}).DialContext(ctx, "tcp", a)
		if err != nil {
			// environment (port exhaustion): the recipient is simply not accepted
			r.Count("env_dial_errors_observed", 1)
		}
		return conn, err
	}
	tgt, err := remote.VerifNewTarget(remote.VerifTargetOpts{
		Name: fmt.Sprintf("c09r%d", idx), Resolver: res, Dialer: dialer, ConnReuseLimit: 10,
		CommandTimeout: 60 * time.Second, SubmissionTimeout: 60 * time.Second, ConnectTimeout: 60 * time.Second,
	})
	if err != nil {
		t.Fatal(err)
	}
	defer tgt.Close()

	// quarantine raised between RCPT and DATA: a dimension of its own (separate
	// PRNG stream), see quarantine_test.go
	qp := genQuar(r.Seed(), idx, nTx)
	var src starter = tgt
	if qp.ViaPipeline {
		pl, cleanup, err := behindPipeline(tgt, qp, &cur)
		if err != nil {
			t.Fatalf("pipeline in front of target.remote rejected: %v", err)
		}
		defer cleanup()
		src = pl
	}

	ctx := context.Background()
	earlier := map[string]bool{}
	var shape []string
	nontrivial := false
	var hist []any

	for tx := 1; tx <= nTx; tx++ {
		cur.Store(int32(tx))
		rcpts := genTxnRcpts(p, pool)
		if qp.ViaPipeline {
			rcpts = dedupe(rcpts)
		}
		openFail := p.Chance(1, 25)
		callBodyAnyway := p.Bool()
		abortAtEnd := p.Chance(1, 10)
		meta := &module.MsgMetadata{ID: fmt.Sprintf("c09r%dt%d", idx, tx)}
		meta.SMTPOpts.UTF8 = anyNonASCII(rcpts) || p.Chance(1, 3)

		d, err := src.Start(ctx, meta, "sender@src.example")
		if err != nil {
			t.Fatalf("remote Start: %v", err)
		}
		lt := &leafTxn{Kind: "remote", Earlier: map[string]bool{}}
		for k := range earlier {
			lt.Earlier[k] = true
		}
		rcptErr := map[string]string{}
		for _, a := range rcpts {
			lt.Supplied = append(lt.Supplied, a)
			if err := d.AddRcpt(ctx, a, smtp.RcptOptions{}); err != nil {
				rcptErr[a] = err.Error()
				continue
			}
			lt.Accepted = append(lt.Accepted, a)
		}
		r.Count("remote_rcpt_supplied", int64(len(lt.Supplied)))
		r.Count("remote_rcpt_accepted", int64(len(lt.Accepted)))
		quar := qp.stage(tx)
		if quar == "flag" {
			// what the pipeline's check runner does when the body arrives, after
			// every recipient went through AddRcpt
			meta.Quarantine = true
		}

		pd, isPartial := d.(module.PartialDelivery)
		if !isPartial {
			t.Fatal("remote delivery does not implement PartialDelivery")
		}
		judged := false
		var body buffer.Buffer = testBody(p)
		mid := mids[tx]
		gb := midBody(mid)
		if gb != nil {
			body = gb
		}
		if openFail {
			body = failBuffer{}
		}
		var calls []call
		bodyCalled := false
		if len(lt.Accepted) > 0 || callBodyAnyway {
			bodyCalled = true
			col := &collector{}
			t0 := time.Now()
			pd.BodyNonAtomic(ctx, col, midHeader(mid), body)
			slow := time.Since(t0) > slowCall
			calls = col.finish()
			judged = !slow
			if slow {
				c.Inconclusive("BodyNonAtomic took longer than the watchdog; not judged")
			}
		}
		if abortAtEnd {
			d.Abort(ctx)
		} else {
			d.Commit(ctx)
		}

		// next-hop truth for this logical transaction
		type hopFacts struct {
			committed, reachedData bool
			reachedData354         bool
			accepted               int
			recs                   []smtpd.TxnRecord
		}
		facts := map[string]*hopFacts{}
		for sp, h := range hops {
			f := &hopFacts{recs: h.newTxns()}
			for _, rec := range f.recs {
				if rec.Committed {
					f.committed = true
				}
				if rec.DataCmdCode != 0 {
					f.reachedData = true
				}
				if rec.DataCmdCode/100 == 3 {
					f.reachedData354 = true
				}
				f.accepted += len(rec.AcceptedRcpts())
				if rec.N > 1 {
					r.Count("remote_hop_txn_on_reused_connection", 1)
				}
				r.Count("remote_hop_txns", 1)
			}
			facts[sp] = f
		}
		accPerSp := map[string]int{}
		for _, a := range lt.Accepted {
			_, sp := splitAddr(a)
			accPerSp[sp]++
		}
		consistent := true
		for sp, f := range facts {
			if f.accepted != accPerSp[sp] {
				consistent = false
			}
		}
		stages := map[string]bool{}
		for _, a := range lt.Accepted {
			_, sp := splitAddr(a)
			f := facts[sp]
			pl := hops[sp].plans[tx]
			switch {
			case openFail:
				lt.Fates = append(lt.Fates, fateFailed)
			case pl != nil && pl.DotDrop == "after":
				lt.Fates = append(lt.Fates, fateAmbiguous)
			case f.committed && mid.cutsStream():
				// The client could not produce the whole message, yet the next hop
				// committed something (a truncated message): which report is right is
				// not C09's business. Never seen on the unchanged tree.
				lt.Fates = append(lt.Fates, fateAmbiguous)
				r.Count("remote_hop_committed_a_cut_message_observed", 1)
			case f.committed:
				lt.Fates = append(lt.Fates, fateCommitted)
			default:
				lt.Fates = append(lt.Fates, fateFailed)
			}
			for _, s := range pl.faults() {
				stages[s] = true
			}
		}
		lt.Calls = calls

		wit := map[string]any{
			"group": "remote", "transaction": tx, "of": nTx, "supplied": lt.Supplied, "accepted": lt.Accepted,
			"addrcpt_errors": rcptErr, "smtputf8_requested": meta.SMTPOpts.UTF8, "body_open_fails": openFail,
			"setstatus_calls": calls, "earlier_transactions": hist, "mid_data_fault": mid,
			"behind_pipeline": qp.ViaPipeline, "quarantine_raised_between_rcpt_and_data_by": quar, "quarantine_flag_after_body": meta.Quarantine,
		}
		hw := map[string]any{}
		for sp, f := range facts {
			var ws []any
			for _, rec := range f.recs {
				ws = append(ws, wire(rec))
			}
			hw[sp] = map[string]any{"smtputf8": hops[sp].utf8, "plan": plansOut[sp][tx], "wire": ws}
		}
		wit["next_hops"] = hw

		if judged && !consistent {
			// The target accepted more recipients (AddRcpt -> nil) than the next hop was ever
			// offered and accepted in this transaction: at least the difference was never
			// transmitted, so at least that many accepted recipients of that next hop must
			// carry a failure result (a caller reads "no result" as delivered). Anything else
			// about such a transaction is not judged.
			var fs []finding
			for sp, f := range facts {
				if f.accepted < accPerSp[sp] {
					var acc []string
					for _, a := range lt.Accepted {
						if _, asp := splitAddr(a); asp == sp {
							acc = append(acc, a)
						}
					}
					var wireAcc []string
					for _, rec := range f.recs {
						wireAcc = append(wireAcc, rec.AcceptedRcpts()...)
					}
					fs = append(fs, neverOffered("remote", acc, wireAcc, calls)...)
				}
			}
			if len(fs) > 0 {
				report(r, c, fs, wit)
			} else {
				c.Inconclusive("accepted-recipient count differs between harness and next-hop transcript; not judged")
			}
			judged = false
		}
		if judged {
			countCalls(r, "remote", calls)
			r.Count("remote_transactions_judged", 1)
			if openFail {
				r.Count("remote_body_open_failures", 1)
			}
			if qp.ViaPipeline {
				r.Count("remote_transactions_judged_behind_pipeline", 1)
			}
			if quar != "" && meta.Quarantine && bodyCalled {
				// the flag was up when BodyNonAtomic ran (a fact of the metadata, not of the plan)
				hopRefused := false
				for _, f := range facts {
					for _, rec := range f.recs {
						if len(rec.AcceptedRcpts()) < len(rec.Rcpts) {
							hopRefused = true
						}
					}
				}
				mixed := hopRefused && len(lt.Accepted) > 0
				if quar == "flag" {
					r.Count("remote_transactions_quarantined_between_rcpt_and_data", 1)
					if mixed {
						r.Count("remote_quarantined_with_rcpt_refused_by_hop_and_another_accepted", 1)
					}
				} else {
					r.Count("remote_transactions_quarantined_by_pipeline_check", 1)
					r.Distinct("fault_stages", "remote:quarantine-by-check-at-"+quar)
					if mixed {
						r.Count("remote_quarantined_by_pipeline_check_with_rcpt_refused_by_hop_and_another_accepted", 1)
					}
				}
				if len(lt.Accepted) < len(lt.Supplied) && len(lt.Accepted) > 0 {
					r.Count("remote_quarantined_with_some_rcpt_not_accepted_and_another_accepted", 1)
				}
			}
			countMid(r, "remote", mid, gb, openFail, func() (reached, failedAfter int) {
				for i, a := range lt.Accepted {
					_, sp := splitAddr(a)
					if !facts[sp].reachedData354 {
						continue
					}
					if mid.cutsStream() || mid.abortsAt(sp) {
						reached++
						if lt.Fates[i] == fateFailed {
							failedAfter++
						}
					}
				}
				return
			})
			accNow := map[string]bool{}
			for _, a := range lt.Accepted {
				accNow[a] = true
			}
			staleOpp := false
			for a := range earlier {
				_, sp := splitAddr(a)
				if accNow[a] {
					continue
				}
				for _, rec := range facts[sp].recs {
					if rec.N > 1 {
						staleOpp = true
					}
				}
			}
			if staleOpp {
				r.Count("remote_transactions_on_reused_connection_with_other_rcpts", 1)
			}
			fs := judgeLeaf(lt)
			report(r, c, fs, wit)
			for i, a := range lt.Accepted {
				r.Distinct("recipient_classes_accepted", addrClass(a))
				switch lt.Fates[i] {
				case fateFailed:
					r.Count("remote_accepted_rcpt_failed_at_hop", 1)
				case fateCommitted:
					r.Count("remote_accepted_rcpt_committed_at_hop", 1)
				default:
					r.Count("remote_accepted_rcpt_ambiguous", 1)
				}
				_, sp := splitAddr(a)
				if c := converted(a); c != "" && c != a && !hops[sp].utf8 {
					r.Count("remote_idn_rcpt_converted_for_hop", 1)
				}
			}
			if tx > 1 {
				r.Count("remote_transactions_after_first", 1)
			}
			nontrivial = true
		}
		hist = append(hist, map[string]any{"transaction": tx, "accepted": lt.Accepted, "setstatus_calls": calls})
		for _, a := range lt.Accepted {
			earlier[a] = true
		}
		var cls []string
		cm := map[string]bool{}
		for _, a := range lt.Accepted {
			_, sp := splitAddr(a)
			k := addrClass(a)
			if !hops[sp].utf8 {
				k += "/noutf8"
			}
			if !cm[k] {
				cm[k] = true
				cls = append(cls, k)
			}
		}
		sort.Strings(cls)
		shape = append(shape, fmt.Sprintf("[%s|%s|open=%v|mid=%s|quar=%s]", strings.Join(cls, ","), strings.Join(sortedKeys(stages), ","), openFail, mid.kind(), quar))
		for s := range stages {
			r.Distinct("fault_stages", "remote:"+s)
		}
	}
	if r.Replaying() {
		fmt.Printf("remote case %d: %d transactions, recipients pool %q\n", idx, nTx, pool)
	}
	sample(r, "remote", map[string]any{"group": "remote", "index": idx, "transactions": nTx, "pool": pool, "first_transaction": firstOf(hist)})
	c.Done("remote:"+strings.Join(shape, ">"), nontrivial)
}

// ---------------------------------------------------------------- lmtp / smtp downstream

func runLMTP(t *testing.T, r *rep.Reporter, c *rep.Case, idx int) {
	p := prng.New(r.Seed(), uint64(idx), "c09-lmtp")
	pool, _ := genRcptPool(p, true)
	nTx := p.Range(1, 4)
	plainSMTP := p.Chance(1, 12) // target.smtp: must not offer per-recipient results at all
	var cur atomic.Int32
	plans := map[int]*hopPlan{}
	for tx := 1; tx <= nTx; tx++ {
		if p.Chance(4, 5) {
			plans[tx] = genPlan(p, !plainSMTP)
		}
	}
	pm := prng.New(r.Seed(), uint64(idx), "c09-lmtp-middata")
	mids := map[int]*midPlan{}
	for tx := 1; tx <= nTx; tx++ {
		if m := genMid(pm, nil); m != nil {
			mids[tx] = m
		}
	}
	// quarantine flag raised between RCPT and DATA (target.lmtp delivers quarantined
	// messages; the flag must not change whom results are reported for)
	pql := prng.New(r.Seed(), uint64(idx), "c09-lmtp-quarantine")
	quarTx := map[int]bool{}
	for tx := 1; tx <= nTx; tx++ {
		quarTx[tx] = pql.Chance(1, 8)
	}
	h, err := newHop("lmtp", !plainSMTP, p.Chance(2, 5), &cur, plans, mids)
	if err != nil {
		c.Inconclusive("environment: cannot start a scripted next hop: " + err.Error())
		return
	}
	defer h.srv.Close()

	modName, cfg := "target.lmtp", "hostname mx.example.org\ncommand_timeout 60s\nsubmission_timeout 60s\nconnect_timeout 60s\n"
	if plainSMTP {
		modName = "target.smtp"
		cfg += "starttls no\n"
	}
	mod, err := smtp_downstream.NewDownstream(modName, fmt.Sprintf("c09l%d", idx), nil, []string{"tcp://" + h.srv.Addr()})
	if err != nil {
		t.Fatal(err)
	}
	if err := mx.InitModule(mod, cfg, nil); err != nil {
		t.Fatal(err)
	}
	tgt := mod.(module.DeliveryTarget)

	ctx := context.Background()
	var shape []string
	nontrivial := false
	earlier := map[string]bool{}
	var hist []any
	for tx := 1; tx <= nTx; tx++ {
		cur.Store(int32(tx))
		rcpts := genTxnRcpts(p, pool)
		openFail := p.Chance(1, 20)
		meta := &module.MsgMetadata{ID: fmt.Sprintf("c09l%dt%d", idx, tx)}
		meta.SMTPOpts.UTF8 = anyNonASCII(rcpts) || p.Chance(1, 3)

		d, err := tgt.Start(ctx, meta, "sender@src.example")
		if err != nil {
			r.Count("lmtp_start_refused", 1)
			h.newTxns()
			shape = append(shape, "[start-refused]")
			continue
		}
		// target.lmtp opens a connection per delivery: there is no reuse, so no
		// "earlier transaction" cause class (Earlier stays empty).
		lt := &leafTxn{Kind: "lmtp", Earlier: map[string]bool{}}
		rcptErr := map[string]string{}
		for _, a := range rcpts {
			lt.Supplied = append(lt.Supplied, a)
			if err := d.AddRcpt(ctx, a, smtp.RcptOptions{}); err != nil {
				rcptErr[a] = err.Error()
				continue
			}
			lt.Accepted = append(lt.Accepted, a)
		}
		pd, isPartial := d.(module.PartialDelivery)
		if plainSMTP {
			if isPartial {
				t.Fatal("target.smtp delivery implements PartialDelivery; harness assumption broken")
			}
			// No per-recipient results are offered: the statement does not apply.
			// The mid-DATA faults are exercised all the same (observation only).
			if len(lt.Accepted) > 0 {
				mid := mids[tx]
				var body buffer.Buffer = testBody(p)
				if gb := midBody(mid); gb != nil {
					body = gb
				}
				berr := d.Body(ctx, midHeader(mid), body)
				d.Commit(ctx)
				committed := false
				for _, rec := range h.newTxns() {
					if rec.Committed {
						committed = true
					}
				}
				if mid != nil {
					r.Count("smtp_downstream_mid_data_fault_transactions", 1)
				}
				if berr == nil && !committed {
					r.Count("smtp_downstream_body_ok_but_hop_did_not_commit_observed", 1)
				}
			} else {
				d.Abort(ctx)
				h.newTxns()
			}
			r.Count("smtp_downstream_transactions_without_partial_interface", 1)
			shape = append(shape, "[plain-smtp]")
			continue
		}
		if !isPartial {
			t.Fatal("target.lmtp delivery does not implement PartialDelivery")
		}
		r.Count("lmtp_rcpt_supplied", int64(len(lt.Supplied)))
		r.Count("lmtp_rcpt_accepted", int64(len(lt.Accepted)))
		if len(lt.Accepted) == 0 {
			d.Abort(ctx)
			h.newTxns()
			shape = append(shape, "[none-accepted]")
			continue
		}
		var body buffer.Buffer = testBody(p)
		mid := mids[tx]
		gb := midBody(mid)
		if gb != nil {
			body = gb
		}
		if openFail {
			body = failBuffer{}
		}
		if quarTx[tx] {
			meta.Quarantine = true
			r.Count("lmtp_transactions_with_quarantine_raised_between_rcpt_and_data", 1)
		}
		col := &collector{}
		wit := map[string]any{
			"quarantine_raised_between_rcpt_and_data": quarTx[tx],
			"group": "lmtp", "transaction": tx, "of": nTx, "supplied": lt.Supplied, "accepted": lt.Accepted,
			"addrcpt_errors": rcptErr, "smtputf8_requested": meta.SMTPOpts.UTF8, "next_hop_smtputf8": h.utf8,
			"body_open_fails": openFail, "plan": plans[tx], "earlier_transactions": hist, "mid_data_fault": mid,
		}
		t0 := time.Now()
		panicked := func() (pv any) {
			defer func() { pv = recover() }()
			pd.BodyNonAtomic(ctx, col, midHeader(mid), body)
			return nil
		}()
		slow := time.Since(t0) > slowCall
		calls := col.finish()
		if panicked != nil {
			cause := "other"
			if openFail {
				cause = "body-open-error"
			} else if mid != nil && mid.Kind != "big-ok" {
				cause = "mid-data-" + mid.Kind
			}
			wit["setstatus_calls"] = calls
			c.Violation("leaf/panic/lmtp/"+cause, fmt.Sprintf("BodyNonAtomic panicked (%v) after reporting %d result(s); the remaining recipients never get a result", panicked, len(calls)), wit)
			d.Abort(ctx)
			h.newTxns()
			shape = append(shape, "[panic]")
			nontrivial = true
			continue
		}
		if p.Chance(1, 10) {
			d.Abort(ctx)
		} else {
			d.Commit(ctx)
		}
		recs := h.newTxns()
		var ws []any
		var rec *smtpd.TxnRecord
		for i := range recs {
			ws = append(ws, wire(recs[i]))
			if recs[i].MailCode/100 == 2 {
				rec = &recs[i]
			}
		}
		wit["wire"] = ws
		wit["setstatus_calls"] = calls
		if slow {
			c.Inconclusive("BodyNonAtomic took longer than the watchdog; not judged")
			continue
		}
		if rec == nil || len(rec.AcceptedRcpts()) != len(lt.Accepted) {
			var wireAcc []string
			if rec != nil {
				wireAcc = rec.AcceptedRcpts()
			}
			if fs := neverOffered("lmtp", lt.Accepted, wireAcc, calls); len(fs) > 0 {
				report(r, c, fs, wit)
			} else {
				c.Inconclusive("accepted-recipient count differs between harness and next-hop transcript; not judged")
			}
			continue
		}
		for i := range lt.Accepted {
			switch {
			case openFail:
				lt.Fates = append(lt.Fates, fateFailed)
			case i < len(rec.RcptDotCodes) && rec.RcptDotCodes[i]/100 == 2 && mid.cutsStream():
				// see runRemote: a truncated message was committed; not judged
				lt.Fates = append(lt.Fates, fateAmbiguous)
				r.Count("lmtp_hop_committed_a_cut_message_observed", 1)
			case i < len(rec.RcptDotCodes) && rec.RcptDotCodes[i]/100 == 2:
				lt.Fates = append(lt.Fates, fateCommitted)
			default:
				lt.Fates = append(lt.Fates, fateFailed)
			}
		}
		lt.Calls = calls
		countCalls(r, "lmtp", calls)
		r.Count("lmtp_transactions_judged", 1)
		if openFail {
			r.Count("lmtp_body_open_failures", 1)
		}
		countMid(r, "lmtp", mid, gb, openFail, func() (reached, failedAfter int) {
			if rec.DataCmdCode/100 != 3 || !(mid.cutsStream() || mid.abortsAt("lmtp")) {
				return 0, 0
			}
			for i := range lt.Accepted {
				reached++
				if lt.Fates[i] == fateFailed {
					failedAfter++
				}
			}
			return
		})
		report(r, c, judgeLeaf(lt), wit)
		nontrivial = true
		mixed := map[fate]bool{}
		cm := map[string]bool{}
		for i, a := range lt.Accepted {
			r.Distinct("recipient_classes_accepted", addrClass(a))
			mixed[lt.Fates[i]] = true
			switch lt.Fates[i] {
			case fateFailed:
				r.Count("lmtp_accepted_rcpt_failed_at_hop", 1)
			case fateCommitted:
				r.Count("lmtp_accepted_rcpt_committed_at_hop", 1)
			default:
				r.Count("lmtp_accepted_rcpt_ambiguous", 1)
			}
			if cv := converted(a); cv != "" && cv != a && !h.utf8 {
				r.Count("lmtp_idn_rcpt_converted_for_hop", 1)
			}
			k := addrClass(a)
			if !h.utf8 {
				k += "/noutf8"
			}
			cm[k] = true
		}
		if len(mixed) > 1 {
			r.Count("lmtp_transactions_with_mixed_per_rcpt_outcome", 1)
		}
		for _, s := range plans[tx].faults() {
			r.Distinct("fault_stages", "lmtp:"+s)
		}
		hist = append(hist, map[string]any{"transaction": tx, "accepted": lt.Accepted, "setstatus_calls": calls})
		for _, a := range lt.Accepted {
			earlier[a] = true
		}
		shape = append(shape, fmt.Sprintf("[%s|%s|open=%v|mixed=%v|mid=%s]", strings.Join(sortedKeys(cm), ","), strings.Join(plans[tx].faults(), ","), openFail, len(mixed) > 1, mid.kind()))
	}
	sample(r, "lmtp", map[string]any{"group": "lmtp", "index": idx, "transactions": nTx, "pool": pool, "next_hop_smtputf8": h.utf8, "first_transaction": firstOf(hist)})
	c.Done("lmtp:"+strings.Join(shape, ">"), nontrivial)
}

// ---------------------------------------------------------------- pipeline

// The configuration grammar has no way to reference an existing modifier
// instance inside a modify block, so the scripted body modifier is reached
// through a module factory keyed by the case tag: "c09_bodymod <tag>".
var (
	bodyModsMu sync.Mutex
	bodyMods   = map[string]*mx.ScriptModifier{}
)

func init() {
	module.Register("modify.c09_bodymod", func(_, _ string, _, inlineArgs []string) (module.Module, error) {
		if len(inlineArgs) != 1 {
			return nil, errors.New("c09_bodymod: one argument expected")
		}
		bodyModsMu.Lock()
		defer bodyModsMu.Unlock()
		m := bodyMods[inlineArgs[0]]
		if m == nil {
			return nil, errors.New("c09_bodymod: unknown tag " + inlineArgs[0])
		}
		return m, nil
	})
}

// judgeNested: failures inside the nested reroute pipeline of a client
// recipient whose own address is a possible rewrite output (chains) are judged
// like all others since 43fc457 (msgpipeline keeps a reverse map per pipeline
// object). VERIF_C09_JUDGE_NESTED=0 turns that class into a counter again
// (debugging on trees without that fix).
var judgeNested = os.Getenv("VERIF_C09_JUDGE_NESTED") != "0"

// judgeRefusedShared (default ON since fix 235eda5; VERIF_C09_JUDGE_REFUSED_SHARED=0 switches the class off):
// a client-supplied recipient b whose AddRcpt the pipeline REFUSED, of whose
// expansion no target accepted anything, still gets a result when it shares an
// effective address x with an accepted recipient a on one partial target (the
// target took x for a, then refused x for b - e.g. a recipient limit): msgpipeline
// appends b to delivery.originalRcpts[x] BEFORE it asks the target and never takes
// it back, so the status of x goes out under a AND b. That breaks "none for any
// other address"; it was found on the unchanged tree in round 7 and repaired by
// 235eda5. With the switch off the class is counted
// (pipe_result_for_refused_rcpt_nothing_accepted_observed_not_judged) instead of
// judged. VERIF_C09_JUDGE_REFUSED_SHARED=1 judges it
// (pipeline/foreign-key/refused-recipient/...), for use once msgpipeline is
// repaired and as a break drill.
var judgeRefusedShared = os.Getenv("VERIF_C09_JUDGE_REFUSED_SHARED") != "0" // judged by default since fix 235eda5 landed in /repo

// modelEv is one predicted target call of the pipeline routing model.
type modelEv struct {
	target string
	rcpt   string
	final  string // outer final address it comes from
	nested bool   // the target sits inside the reroute
}

func hash01(parts ...string) float64 {
	h := fnv.New64a()
	for _, s := range parts {
		h.Write([]byte(s))
		h.Write([]byte{0})
	}
	// final avalanche so that near-identical inputs decorrelate
	x := h.Sum64()
	x ^= x >> 33
	x *= 0xff51afd7ed558ccd
	x ^= x >> 33
	return float64(x>>11) / (1 << 53)
}

func variantCase(p *prng.R, a string) string {
	if !isASCII(a) || !p.Chance(1, 3) {
		return a
	}
	b := []byte(a)
	for i := range b {
		if b[i] >= 'a' && b[i] <= 'z' && p.Chance(1, 3) {
			b[i] -= 32
		}
	}
	return string(b)
}

func q(s string) string { return `"` + strings.ReplaceAll(s, `"`, `\"`) + `"` }

func tableText(ind string, m map[string][]string) string {
	if len(m) == 0 {
		return ""
	}
	var sb strings.Builder
	sb.WriteString(ind + "modify {\n" + ind + "    replace_rcpt static {\n")
	for _, k := range sortedKeys(m) {
		parts := []string{"entry", q(k)}
		for _, v := range m[k] {
			parts = append(parts, q(v))
		}
		sb.WriteString(ind + "        " + strings.Join(parts, " ") + "\n")
	}
	sb.WriteString(ind + "    }\n" + ind + "}\n")
	return sb.String()
}

func runPipe(t *testing.T, r *rep.Reporter, c *rep.Case, idx int) {
	p := prng.New(r.Seed(), uint64(idx), "c09-pipe")
	tag := fmt.Sprintf("c09p%d", idx)
	lg := mx.NewLog()
	salt := fmt.Sprint(r.Seed(), "/", idx)
	overlap := p.Chance(1, 8)

	// targets: T0 default destination, T1+T2 for d1.example, T3 inside a reroute for d2.example
	var tgts []*mx.ScriptTarget
	for i := 0; i < 4; i++ {
		st := mx.NewTarget(fmt.Sprintf("%s_T%d", tag, i), lg)
		st.Partial = p.Chance(3, 4)
		name := st.InstName
		// half of the partial targets report successes explicitly (SetStatus(rcpt, nil)), as
		// target.remote / target.lmtp do: a success of one expansion of a 1-to-N rewrite may then
		// precede the failure of another expansion of the same client-supplied recipient
		st.ExplicitOK = hash01(salt, name, "explicit-ok") < 0.5
		if st.Partial && st.ExplicitOK {
			r.Count("pipe_partial_targets_reporting_successes_explicitly", 1)
		}
		st.Script = func(pt mx.Point) error {
			switch pt.Stage {
			case mx.StRcpt:
				if hash01(salt, name, "rcpt", pt.Rcpt) < 0.07 {
					return mx.MakeErr(mx.Perm, 0, "rcpt")
				}
				// a quarter of the targets take only 1-3 recipients per transaction
				// ("452 too many recipients"): the same effective address can then be
				// accepted for one client-supplied recipient and refused for a later one
				if hash01(salt, name, "rcpt-limit") < 0.25 && pt.RcptIdx >= 1+int(hash01(salt, name, "rcpt-limit-n")*3) {
					return mx.MakeErr(mx.Temp, 0, "too many recipients")
				}
			case mx.StBody:
				if hash01(salt, name, "body", pt.MsgID) < 0.15 {
					return mx.MakeErr(mx.Temp, 1, "body")
				}
			case mx.StStatus:
				if hash01(salt, name, "status", pt.Rcpt, pt.MsgID) < 0.4 {
					return mx.MakeErr(mx.Temp, 0, "status")
				}
			}
			return nil
		}
		mx.RegisterInstance(st)
		tgts = append(tgts, st)
	}

	// a global modifier whose body stage fails for some messages: the pipeline
	// then has to fail every accepted recipient itself (no target sees the body)
	bodyMod := mx.NewModifier(tag+"_mod", lg)
	bodyMod.Body = func(mp mx.ModPoint, h *textproto.Header) error {
		if hash01(salt, "modbody", mp.MsgID) < 0.08 {
			return mx.MakeErr(mx.Temp, 2, "modifier body")
		}
		return nil
	}
	bodyModsMu.Lock()
	bodyMods[tag] = bodyMod
	bodyModsMu.Unlock()
	defer func() {
		bodyModsMu.Lock()
		delete(bodyMods, tag)
		bodyModsMu.Unlock()
	}()

	// client recipients (keys are the lower-case forms)
	nC := p.Range(2, 6)
	var clients []string
	for i := 0; i < nC; i++ {
		dom := "in.example"
		switch p.Intn(6) {
		case 0:
			dom = "d1.example"
		case 1:
			dom = "d2.example"
		case 2:
			dom = "тест.example"
		}
		clients = append(clients, fmt.Sprintf("c%d@%s", i, dom))
	}
	fresh := 0
	newAddr := func(prefix string) string {
		fresh++
		return fmt.Sprintf("%s%d@d%d.example", prefix, fresh, p.Intn(3))
	}
	global := map[string][]string{}
	var globalOut []string
	for _, a := range clients {
		if !p.Chance(3, 5) {
			globalOut = append(globalOut, a)
			continue
		}
		n := p.Range(1, 3)
		var outs []string
		for j := 0; j < n; j++ {
			switch {
			case j > 0 && p.Chance(1, 8):
				outs = append(outs, a) // keeps the original next to a copy
			case overlap && p.Chance(1, 2) && len(globalOut) > 0:
				outs = append(outs, prng.Pick(p, globalOut)) // shared with another recipient / a client address
			case overlap && p.Chance(1, 2):
				outs = append(outs, prng.Pick(p, clients))
			default:
				outs = append(outs, newAddr("g"))
			}
		}
		global[a] = outs
		globalOut = append(globalOut, outs...)
	}
	// second level: inside destination blocks d1 / d2 (reroute)
	level2 := map[int]map[string][]string{1: {}, 2: {}}
	for _, a := range globalOut {
		_, dom := splitAddr(a)
		k := 0
		switch dom {
		case "d1.example":
			k = 1
		case "d2.example":
			k = 2
		}
		if k == 0 || !p.Chance(2, 5) {
			continue
		}
		if _, dup := level2[k][a]; dup {
			continue
		}
		n := p.Range(1, 2)
		var outs []string
		for j := 0; j < n; j++ {
			outs = append(outs, newAddr("r"))
		}
		level2[k][a] = outs
	}
	source := map[string][]string{}

	// Chained aliases on purpose (half of the configurations): m0 -> m1 -> m2
	// (-> m3), every step an entry of its own in the global, per-source,
	// destination (d1) or nested reroute (d2) table, and the client naming 1-3
	// members of the chain. Every effective address still has ONE original
	// unless two named members collapse onto the same address (steps in
	// successive scopes are walked by one recipient) - that is observed, not
	// predicted.
	var chainNamed []string
	nChains := 0
	if p.Chance(1, 2) {
		nChains = p.Range(1, 2)
	}
	for ci := 0; ci < nChains; ci++ {
		steps := p.Range(2, 3)
		members := make([]string, steps+1)
		for j := range members {
			members[j] = fmt.Sprintf("k%d_%d@d%d.example", ci, j, p.Intn(3))
		}
		sameScope := p.Chance(1, 2) // the classic: all steps in one table
		scope0 := p.Intn(3)         // 2 = the nested table (steps apply to members that reach it)
		for j := 0; j < steps; j++ {
			key := members[j]
			outs := []string{members[j+1]}
			if p.Chance(1, 4) {
				outs = append(outs, newAddr("x"))
			}
			_, dom := splitAddr(key)
			var cands []map[string][]string
			if sameScope {
				cands = []map[string][]string{[]map[string][]string{global, source, level2[2]}[scope0]}
			} else {
				cands = []map[string][]string{global, source}
				if dom == "d1.example" {
					cands = append(cands, level2[1], level2[1])
				}
				if dom == "d2.example" {
					cands = append(cands, level2[2], level2[2]) // incl. chains inside the nested table
				}
			}
			tbl := prng.Pick(p, cands)
			if _, dup := tbl[key]; !dup {
				tbl[key] = outs
			}
		}
		nNamed := p.Range(1, 3)
		for _, j := range p.Perm(len(members) - 1)[:min(nNamed, len(members)-1)] {
			chainNamed = append(chainNamed, members[j])
		}
	}
	clients = append(clients, chainNamed...)

	// every address some table can produce (signature class "chained" only)
	tableValue := map[string]bool{}
	for _, tbl := range []map[string][]string{global, source, level2[1], level2[2]} {
		for _, vs := range tbl {
			for _, v := range vs {
				tableValue[strings.ToLower(v)] = true
			}
		}
	}

	// Reference model of the generated configuration's routing: which
	// (target, effective recipient) calls a client recipient leads to, in
	// order, and through which OUTER final address (the address the outer
	// pipeline ends up with; for d2.example it is handed to the nested
	// pipeline and no target ever sees it). Used only to find genuine N-to-1
	// collisions on such intermediate addresses; it is checked against the
	// observed target calls of every AddRcpt and a disagreement makes the
	// transaction inconclusive.
	lookup := func(tbl map[string][]string, a string) []string {
		if v := tbl[strings.ToLower(a)]; len(v) > 0 {
			return v
		}
		return []string{a}
	}
	model := func(a string) []modelEv {
		var out []modelEv
		for _, g := range lookup(global, a) {
			for _, sa := range lookup(source, g) {
				_, dom := splitAddr(strings.ToLower(sa))
				switch dom {
				case "d1.example":
					for _, f := range lookup(level2[1], sa) {
						out = append(out, modelEv{tgts[1].InstName, f, f, false}, modelEv{tgts[2].InstName, f, f, false})
					}
				case "d2.example":
					for _, in := range lookup(level2[2], sa) {
						out = append(out, modelEv{tgts[3].InstName, in, sa, true})
					}
				default:
					out = append(out, modelEv{tgts[0].InstName, sa, sa, false})
				}
			}
		}
		return out
	}

	var sb strings.Builder
	fmt.Fprintf(&sb, "modify {\n    c09_bodymod %s\n}\n", tag)
	sb.WriteString(tableText("", global))
	sb.WriteString("default_source {\n")
	sb.WriteString(tableText("    ", source))
	sb.WriteString("    destination d1.example {\n")
	sb.WriteString(tableText("        ", level2[1]))
	fmt.Fprintf(&sb, "        deliver_to &%s\n        deliver_to &%s\n    }\n", tgts[1].InstName, tgts[2].InstName)
	sb.WriteString("    destination d2.example {\n        reroute {\n")
	sb.WriteString(tableText("            ", level2[2]))
	fmt.Fprintf(&sb, "            deliver_to &%s\n        }\n    }\n", tgts[3].InstName)
	fmt.Fprintf(&sb, "    default_destination {\n        deliver_to &%s\n    }\n}\n", tgts[0].InstName)
	text := sb.String()

	pl, err := mx.BuildPipeline(text, nil)
	if err != nil {
		t.Fatalf("pipeline config rejected: %v\n%s", err, text)
	}

	ctx := context.Background()
	nTx := p.Range(1, 3)
	var shape []string
	nontrivial := false
	var prevMeta *module.MsgMetadata
	var prevSupplied []string
	for tx := 1; tx <= nTx; tx++ {
		meta := &module.MsgMetadata{ID: fmt.Sprintf("%st%d", tag, tx)}
		meta.SMTPOpts.UTF8 = true
		// A retry as target.queue makes it: the same recipients again, with a DeepCopy of the
		// metadata of the earlier attempt - which SHARES its maps (OriginalRcpts already holds the
		// rewrites recorded by the first attempt).
		retryOf := []string(nil)
		if prevMeta != nil && hash01(salt, "retry-with-shared-metadata", fmt.Sprint(tx)) < 0.4 {
			meta = prevMeta.DeepCopy()
			meta.ID = fmt.Sprintf("%st%d", tag, tx)
			retryOf = prevSupplied
			r.Count("pipe_transactions_retried_with_metadata_of_earlier_attempt", 1)
		}
		d, err := pl.Start(ctx, meta, "sender@src.example")
		if err != nil {
			t.Fatalf("pipeline Start: %v", err)
		}
		pt := &pipeTxn{PartAccepted: map[string]bool{}, RefusedNested: map[string]bool{}, JudgeRefusedShared: judgeRefusedShared, Accepted: map[string]bool{}, Failed: map[string]bool{}, Rewrote: map[string]bool{}, Effective: map[string]bool{}, Entangled: map[string]bool{}, FailedClean: map[string]bool{}, FailedCleanTop: map[string]bool{}, Chained: map[string]bool{}}
		n := p.Range(1, 5)
		var must []string
		for _, j := range p.Perm(len(chainNamed)) {
			must = append(must, chainNamed[j])
		}
		if n < len(must) {
			n = len(must) + p.Intn(2)
		}
		type eff struct {
			delivery int
			rcpt     string
		}
		effOf := map[string][]eff{}
		effVia := map[string]map[eff]map[string]bool{} // client -> nested (delivery, rcpt) -> outer finals it came through
		ownersOuter := map[string]map[string]bool{}    // outer final address -> client-supplied addresses that reached it
		ownersInner := map[string]map[string]bool{}    // effective address inside the reroute -> client-supplied addresses
		nestedDelivery := map[int]bool{}               // deliveries of the target inside the reroute
		modelMismatch := ""
		own := func(m map[string]map[string]bool, k, a string) {
			if m[k] == nil {
				m[k] = map[string]bool{}
			}
			m[k][a] = true
		}
		rcptErr := map[string]string{}
		takenBy := map[eff]bool{}          // (delivery, address) a target accepted so far
		refusedShared := map[string]bool{} // client recipients refused on an address the same target had accepted before
		if retryOf != nil {
			n = len(retryOf)
		}
		for i := 0; i < n; i++ {
			a := variantCase(p, prng.Pick(p, clients))
			if i > 0 && p.Chance(1, 10) {
				a = pt.Supplied[p.Intn(len(pt.Supplied))]
			}
			if i < len(must) {
				a = must[i] // the named chain members, always together
			}
			if retryOf != nil {
				a = retryOf[i]
			}
			pt.Supplied = append(pt.Supplied, a)
			before := lg.Len()
			err := d.AddRcpt(ctx, a, smtp.RcptOptions{})
			evs := lg.Events()[before:]
			mdl := model(a)
			k := 0
			for _, e := range evs {
				if e.Kind != "addrcpt" {
					continue
				}
				pt.Effective[e.Rcpt] = true
				if e.Rcpt != a {
					pt.Rewrote[a] = true
				}
				if k >= len(mdl) || mdl[k].target != e.Target || mdl[k].rcpt != e.Rcpt {
					modelMismatch = fmt.Sprintf("AddRcpt(%q): target call #%d is %s(%q), model %v", a, k, e.Target, e.Rcpt, mdl)
					k++
					continue
				}
				m := mdl[k]
				k++
				// the pipeline records the original of an address before it hands
				// it to a target, so the owner counts whether or not the target accepts
				own(ownersOuter, m.final, a)
				ef := eff{e.Delivery, e.Rcpt}
				if m.nested {
					own(ownersInner, e.Rcpt, a)
					nestedDelivery[e.Delivery] = true
					if effVia[a] == nil {
						effVia[a] = map[eff]map[string]bool{}
					}
					if effVia[a][ef] == nil {
						effVia[a][ef] = map[string]bool{}
					}
					effVia[a][ef][m.final] = true
				}
				if e.Class == mx.OK {
					effOf[a] = append(effOf[a], ef)
					pt.PartAccepted[a] = true
					takenBy[ef] = true
				} else {
					if m.nested {
						pt.RefusedNested[a] = true
					}
					if takenBy[ef] {
						// the target had accepted this very address before (for an
						// earlier recipient of the transaction) and refuses it now
						refusedShared[a] = true
					}
				}
			}
			if err == nil && k != len(mdl) && modelMismatch == "" {
				modelMismatch = fmt.Sprintf("AddRcpt(%q) succeeded after %d target calls, model %v", a, k, mdl)
			}
			if err != nil {
				rcptErr[a] = err.Error()
				continue
			}
			pt.Accepted[a] = true
		}
		prevMeta, prevSupplied = meta, append([]string(nil), pt.Supplied...)
		pd, ok := d.(module.PartialDelivery)
		if !ok {
			t.Fatal("pipeline delivery does not implement PartialDelivery")
		}
		col := &collector{}
		before := lg.Len()
		pd.BodyNonAtomic(ctx, col, testHeader(), testBody(p))
		pt.Calls = col.finish()
		evs := lg.Events()[before:]
		if p.Chance(1, 10) {
			d.Abort(ctx)
		} else {
			d.Commit(ctx)
		}
		// what failed at the targets
		failedAt := map[eff]bool{}
		wholeFail := map[int]bool{}
		modFail := false
		var tlog []string
		for _, e := range evs {
			switch e.Kind {
			case "mod.body":
				if e.Class != mx.OK {
					modFail = true
					tlog = append(tlog, e.String())
				}
			case "status":
				if e.Class != mx.OK {
					failedAt[eff{e.Delivery, e.Rcpt}] = true
				}
				tlog = append(tlog, e.String())
			case "body":
				if e.Class != mx.OK {
					wholeFail[e.Delivery] = true
				}
				tlog = append(tlog, e.String())
			}
		}
		if modelMismatch != "" {
			r.Count("pipe_routing_model_mismatch", 1)
			c.Inconclusive("harness routing model disagrees with the observed target calls: " + modelMismatch)
			continue
		}
		// Which failures can be attributed to ONE client-supplied recipient.
		//
		// collision (genuine N-to-1, contested, not judged): two different
		// client-supplied recipients of this transaction share an address at
		// some level - the same OUTER final address (delivered to a top-level
		// target, or an intermediate one handed to the nested pipeline), or the
		// same effective address INSIDE the reroute. A reverse map keeps one
		// original per address, so one of them loses.
		//
		// Everything else is judged: chains where the effective address of one
		// recipient is the client spelling of another that is rewritten further,
		// at top level and (since 43fc457) inside the nested pipeline, chains
		// inside the nested table included.
		nFailed := 0
		if modFail {
			r.Count("pipe_transactions_failed_by_body_modifier", 1)
		}
		for a := range pt.Accepted {
			if modFail {
				pt.Failed[a] = true
				pt.FailedClean[a] = true
				pt.FailedCleanTop[a] = true
			}
			for _, ef := range effOf[a] {
				nested := nestedDelivery[ef.delivery]
				collision := false
				if nested {
					collision = len(ownersInner[ef.rcpt]) > 1
					for x := range effVia[a][ef] {
						if len(ownersOuter[x]) > 1 {
							collision = true
						}
					}
				} else {
					collision = len(ownersOuter[ef.rcpt]) > 1
				}
				if collision {
					pt.Entangled[a] = true
				}
				if failedAt[ef] || wholeFail[ef.delivery] {
					pt.Failed[a] = true
					if !collision {
						pt.FailedClean[a] = true
						if !nested {
							pt.FailedCleanTop[a] = true
						}
					}
				}
			}
			if pt.Failed[a] {
				nFailed++
			}
			if tableValue[strings.ToLower(a)] {
				pt.Chained[a] = true
				r.Count("pipe_client_rcpt_that_is_also_a_rewrite_output", 1)
				if pt.FailedClean[a] {
					r.Count("pipe_chained_client_rcpt_failures_judged", 1)
					if !pt.FailedCleanTop[a] {
						r.Count("pipe_chained_client_rcpt_failures_judged_nested_only", 1)
					}
				}
			}
		}
		r.Count("pipe_client_rcpt_entangled_n_to_1", int64(len(pt.Entangled)))
		pt.JudgeNested = judgeNested
		fs, unjCollision, unjNested := judgePipe(pt)
		if pt.refusedPart > 0 {
			r.Count("pipe_result_for_refused_rcpt_part_of_expansion_accepted_not_judged", int64(pt.refusedPart))
		}
		if pt.refusedNothing > 0 {
			if judgeRefusedShared {
				r.Count("pipe_result_for_refused_rcpt_nothing_accepted_judged", int64(pt.refusedNothing))
			} else {
				r.Count("pipe_result_for_refused_rcpt_nothing_accepted_observed_not_judged", int64(pt.refusedNothing))
			}
		}
		nRefusedSharing := 0
		for a := range rcptErr {
			if !pt.Accepted[a] && !pt.PartAccepted[a] {
				nRefusedSharing++
			}
		}
		r.Count("pipe_client_rcpt_refused_with_nothing_accepted", int64(nRefusedSharing))
		nShared := 0
		for a := range refusedShared {
			if !pt.Accepted[a] && !pt.PartAccepted[a] {
				nShared++
			}
		}
		r.Count("pipe_client_rcpt_refused_on_address_the_target_had_accepted_before", int64(nShared))
		if unjCollision > 0 {
			r.Count("pipe_collision_missing_failure_observed_not_judged", int64(unjCollision))
		}
		if unjNested > 0 {
			r.Count("pipe_nested_chain_missing_failure_observed_not_judged", int64(unjNested))
		}
		effList := map[string][]string{}
		for a, l := range effOf {
			for _, ef := range l {
				effList[a] = append(effList[a], fmt.Sprintf("%s@delivery%d", ef.rcpt, ef.delivery))
			}
		}
		wit := map[string]any{
			"group": "pipeline", "transaction": tx, "config": text, "supplied": pt.Supplied, "accepted": sortedKeys(pt.Accepted),
			"addrcpt_errors": rcptErr, "effective_recipients_accepted_by_targets": effList, "target_results": tlog,
			"setstatus_calls": pt.Calls, "failed_client_recipients": sortedKeys(pt.Failed), "collisions_not_judged": sortedKeys(pt.Entangled), "client_rcpts_that_are_rewrite_outputs": sortedKeys(pt.Chained),
		}
		report(r, c, fs, wit)
		countCalls(r, "pipe", pt.Calls)
		r.Count("pipe_transactions_judged", 1)
		r.Count("pipe_client_rcpt_accepted", int64(len(pt.Accepted)))
		r.Count("pipe_client_rcpt_failed_at_targets", int64(nFailed))
		nRew, maxFan := 0, 0
		for a := range pt.Accepted {
			if pt.Rewrote[a] {
				nRew++
			}
			if len(effOf[a]) > maxFan {
				maxFan = len(effOf[a])
			}
		}
		r.Count("pipe_client_rcpt_rewritten", int64(nRew))
		if nRew > 0 {
			nontrivial = true
		}
		shape = append(shape, fmt.Sprintf("[rew=%d fan=%d failed=%d refused=%d collision=%v chained=%d]", nRew, maxFan, nFailed, len(rcptErr), len(pt.Entangled) > 0, len(pt.Chained)))
	}
	var parts []string
	for _, st := range tgts {
		parts = append(parts, fmt.Sprint(st.Partial))
	}
	sample(r, "pipeline", map[string]any{"group": "pipeline", "index": idx, "config": text})
	c.Done("pipe:"+strings.Join(parts, ",")+strings.Join(shape, ">"), nontrivial)
}
