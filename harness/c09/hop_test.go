//go:build verif

package c09

import (
	"fmt"
	"strings"
	"sync"
	"sync/atomic"
	"time"

	"verifkit/prng"
	"verifkit/smtpd"
)

// hopPlan scripts one next hop for one logical transaction of a history.
// Indexes are RCPT command indexes within the next hop's transaction.
type hopPlan struct {
	MailCode      int         `json:"mail,omitempty"`
	MailFirstOnly bool        `json:"mail_first_only,omitempty"`
	RcptCode      map[int]int `json:"rcpt,omitempty"`
	DataCode      int         `json:"data,omitempty"`
	DotCode       int         `json:"dot,omitempty"`      // SMTP final reply (0 = 250)
	DotDrop       string      `json:"dot_drop,omitempty"` // "", "before", "after"
	DotRST        bool        `json:"dot_rst,omitempty"`
	LMTPCode      map[int]int `json:"lmtp,omitempty"` // per-recipient final status by RCPT index (0 = 250)
	LMTPDropAt    int         `json:"lmtp_drop_at"`   // drop the connection instead of the status of this RCPT index (-1 = never)
}

func (p *hopPlan) faults() []string {
	if p == nil {
		return nil
	}
	var f []string
	if p.MailCode != 0 {
		f = append(f, fmt.Sprintf("mail%dxx", p.MailCode/100))
	}
	if len(p.RcptCode) > 0 {
		f = append(f, "rcpt")
	}
	if p.DataCode != 0 {
		f = append(f, fmt.Sprintf("data%dxx", p.DataCode/100))
	}
	if p.DotCode != 0 {
		f = append(f, fmt.Sprintf("dot%dxx", p.DotCode/100))
	}
	if p.DotDrop != "" {
		f = append(f, "dotdrop-"+p.DotDrop)
	}
	if len(p.LMTPCode) > 0 {
		f = append(f, "lmtpstatus")
	}
	if p.LMTPDropAt >= 0 {
		f = append(f, "lmtpdrop")
	}
	return f
}

var tempCodes = []int{421, 450, 451, 452}
var permCodes = []int{550, 552, 553, 554}

func failCode(p *prng.R) int {
	if p.Bool() {
		return prng.Pick(p, tempCodes)
	}
	return prng.Pick(p, permCodes)
}

// genPlan draws the faults of one (hop, transaction).
func genPlan(p *prng.R, lmtp bool) *hopPlan {
	pl := &hopPlan{LMTPDropAt: -1}
	if p.Chance(1, 14) {
		pl.MailCode = failCode(p)
		pl.MailFirstOnly = p.Bool()
	}
	if p.Chance(1, 3) {
		pl.RcptCode = map[int]int{}
		for i := 0; i < 6; i++ {
			if p.Chance(1, 4) {
				pl.RcptCode[i] = failCode(p)
			}
		}
	}
	if p.Chance(1, 8) {
		pl.DataCode = failCode(p)
	}
	if lmtp {
		if p.Chance(1, 2) {
			pl.LMTPCode = map[int]int{}
			for i := 0; i < 6; i++ {
				if p.Chance(2, 5) {
					pl.LMTPCode[i] = failCode(p)
				}
			}
		}
		switch {
		case p.Chance(1, 12):
			pl.DotDrop = "before"
			pl.DotRST = p.Bool()
		case p.Chance(1, 10):
			pl.LMTPDropAt = p.Intn(5)
		}
		return pl
	}
	switch p.Intn(10) {
	case 0, 1, 2:
		pl.DotCode = failCode(p)
	case 3:
		pl.DotDrop = "before"
		pl.DotRST = p.Bool()
	case 4:
		if p.Chance(1, 2) {
			pl.DotDrop = "after"
			pl.DotRST = p.Bool()
		}
	}
	return pl
}

func enhFor(code int) string {
	switch code / 100 {
	case 4:
		return "4.3.0"
	case 5:
		return "5.1.1"
	}
	return ""
}

// hop is one scripted next hop. plans are fixed before the server starts;
// cur is the history's logical transaction number (1-based), set by the
// driver between transactions (transactions of a history run sequentially).
type hop struct {
	label string
	utf8  bool
	lmtp  bool
	cur   *atomic.Int32
	plans map[int]*hopPlan
	// mid: per logical transaction, the mid-DATA fault of the history (the hop
	// acts on hop-abort only: it drops the connection while the payload streams in)
	mid map[int]*midPlan
	srv *smtpd.Server

	mu       sync.Mutex
	mailSeen map[int]int
	seenTxn  map[[2]int]bool
}

func newHop(label string, lmtp, utf8 bool, cur *atomic.Int32, plans map[int]*hopPlan, mid map[int]*midPlan) (*hop, error) {
	h := &hop{label: label, utf8: utf8, lmtp: lmtp, cur: cur, plans: plans, mid: mid, mailSeen: map[int]int{}, seenTxn: map[[2]int]bool{}}
	// The ephemeral port range is shared with every other check running on the
	// machine; when it is exhausted (sockets in TIME_WAIT) binding fails for a
	// while. Wait it out; the caller turns a final failure into "inconclusive".
	var srv *smtpd.Server
	var err error
	for attempt := 0; attempt < 60; attempt++ {
		srv, err = smtpd.New(smtpd.Config{LMTP: lmtp, SMTPUTF8: utf8, PIPELINING: true, EightBitMIME: true, Script: h.script})
		if err == nil {
			h.srv = srv
			return h, nil
		}
		time.Sleep(time.Duration(200+100*attempt) * time.Millisecond)
	}
	return nil, err
}

func (h *hop) script(ev smtpd.Event) *smtpd.Action {
	t := int(h.cur.Load())
	p := h.plans[t]
	if ev.Stage == smtpd.StageData && (p == nil || p.DataCode == 0) {
		if m := h.mid[t]; m.abortsAt(h.label) {
			// 354, read a little of the payload, then drop the connection in the
			// middle of the message
			return &smtpd.Action{AbortPayloadAfter: m.AbortAfter, RST: m.AbortRST}
		}
	}
	if p == nil {
		return nil
	}
	switch ev.Stage {
	case smtpd.StageMail:
		if p.MailCode != 0 {
			h.mu.Lock()
			n := h.mailSeen[t]
			h.mailSeen[t]++
			h.mu.Unlock()
			if !p.MailFirstOnly || n == 0 {
				return &smtpd.Action{Code: p.MailCode, Enh: enhFor(p.MailCode)}
			}
		}
	case smtpd.StageRcpt:
		if c := p.RcptCode[ev.RcptIndex]; c != 0 {
			return &smtpd.Action{Code: c, Enh: enhFor(c)}
		}
	case smtpd.StageData:
		if p.DataCode != 0 {
			return &smtpd.Action{Code: p.DataCode, Enh: enhFor(p.DataCode)}
		}
	case smtpd.StageDot:
		if p.DotDrop == "before" {
			return &smtpd.Action{DropBefore: true, RST: p.DotRST}
		}
		if h.lmtp {
			return nil
		}
		if p.DotCode != 0 || p.DotDrop == "after" {
			a := &smtpd.Action{Code: p.DotCode, Enh: enhFor(p.DotCode)}
			if p.DotDrop == "after" {
				a.DropAfter = true
				a.RST = p.DotRST
			}
			return a
		}
	case smtpd.StageLMTPRcptStatus:
		if p.LMTPDropAt == ev.RcptIndex {
			return &smtpd.Action{DropBefore: true}
		}
		if c := p.LMTPCode[ev.RcptIndex]; c != 0 {
			return &smtpd.Action{Code: c, Enh: enhFor(c)}
		}
	}
	return nil
}

// newTxns returns the transaction records that appeared since the last call.
func (h *hop) newTxns() []smtpd.TxnRecord {
	all := h.srv.Txns()
	h.mu.Lock()
	defer h.mu.Unlock()
	var out []smtpd.TxnRecord
	for _, t := range all {
		k := [2]int{t.Conn, t.N}
		if !h.seenTxn[k] {
			h.seenTxn[k] = true
			out = append(out, t)
		}
	}
	return out
}

// wire renders a hop transaction for witnesses.
func wire(t smtpd.TxnRecord) map[string]any {
	var rc []string
	for _, r := range t.Rcpts {
		rc = append(rc, fmt.Sprintf("%s -> %d", r.Addr, r.Code))
	}
	return map[string]any{
		"conn": t.Conn, "txn_on_conn": t.N, "mail": strings.TrimSpace(t.MailArg), "mail_code": t.MailCode,
		"rcpt": rc, "data_cmd": t.DataCmdCode, "dot": t.DotCode, "lmtp_status": t.RcptDotCodes,
		"committed": t.CommittedRcpts,
	}
}
