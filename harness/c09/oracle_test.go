//go:build verif

package c09

import (
	"strings"

	"golang.org/x/net/idna"
	"fmt"
	"sort"
	"sync"
)

// call is one SetStatus seen by the collector handed to BodyNonAtomic.
type call struct {
	Key  string `json:"key"`
	Nil  bool   `json:"nil"`
	Err  string `json:"err,omitempty"`
	Late bool   `json:"late,omitempty"` // after BodyNonAtomic returned
}

// collector is the module.StatusCollector monitor. SetStatus must be
// goroutine-safe by contract (remote reports from one goroutine per connection).
type collector struct {
	mu       sync.Mutex
	calls    []call
	returned bool
}

func (c *collector) SetStatus(rcptTo string, err error) {
	c.mu.Lock()
	defer c.mu.Unlock()
	k := call{Key: rcptTo, Nil: err == nil, Late: c.returned}
	if err != nil {
		k.Err = err.Error()
		if len(k.Err) > 200 {
			k.Err = k.Err[:200]
		}
	}
	c.calls = append(c.calls, k)
}

func (c *collector) finish() []call {
	c.mu.Lock()
	defer c.mu.Unlock()
	c.returned = true
	return append([]call(nil), c.calls...)
}

// fate of one accepted recipient occurrence at the next hop.
type fate int

const (
	fateCommitted fate = iota // the next hop wrote a 2xx final reply for it and the connection was not cut
	fateFailed                // nothing was committed for it
	fateAmbiguous             // a 2xx was written but the connection was cut right after it: either report is right
)

// leafTxn is everything the leaf oracle needs about one transaction.
type leafTxn struct {
	Kind     string   // remote | lmtp
	Supplied []string // AddRcpt arguments in call order
	Accepted []string // those for which AddRcpt returned nil, in order, as supplied
	Fates    []fate   // per Accepted entry
	Calls    []call
	// Earlier: recipients accepted in earlier transactions of the history
	// (as supplied), for cause classification only.
	Earlier map[string]bool
}

type finding struct {
	Sig  string
	What string
}

// judgeLeaf applies the first sentence of the statement.
//
// Reading of "exactly one result for every recipient it accepted" (documented
// in NOTES.md): the StatusCollector contract only says SetStatus "sets the error
// associated with the recipient" and must not be called twice for one value;
// every consumer in the tree (queue, LMTP endpoint, remote.Body) treats "no
// entry" as success. So the RESULT of an accepted recipient is: failure if a
// non-nil status was set under exactly its address, success if nil was set or
// nothing was set. Demanded:
//
//	foreign-key      every SetStatus call (nil or not) names an address accepted in this transaction, byte-identical
//	duplicate-result no address gets more calls than the number of times it was accepted
//	missing-failure  an accepted recipient for which the next hop committed nothing has a non-nil status under its own address
//	false-failure    an accepted recipient the next hop committed (and no connection cut) has no non-nil status
func judgeLeaf(t *leafTxn) []finding {
	var out []finding
	accN := map[string]int{}
	for _, a := range t.Accepted {
		accN[a]++
	}
	supplied := map[string]bool{}
	for _, s := range t.Supplied {
		supplied[s] = true
	}
	convOfAccepted := map[string]string{}
	for _, a := range t.Accepted {
		if c := converted(a); c != "" && c != a {
			convOfAccepted[c] = a
		}
	}
	convOfEarlier := map[string]bool{}
	for a := range t.Earlier {
		if c := converted(a); c != "" {
			convOfEarlier[c] = true
		}
	}

	callN := map[string]int{}
	failN := map[string]int{}
	for _, c := range t.Calls {
		callN[c.Key]++
		if !c.Nil {
			failN[c.Key]++
		}
	}
	keys := make([]string, 0, len(callN))
	for k := range callN {
		keys = append(keys, k)
	}
	sort.Strings(keys)

	for _, k := range keys {
		if accN[k] > 0 {
			if callN[k] > accN[k] {
				cause, detail := "same-transaction", ""
				switch {
				case t.Earlier[k]:
					cause = "stale-earlier-transaction"
					detail = "; it was also a recipient of an earlier transaction on the reused connection"
				case convOfAccepted[k] != "":
					cause = "converted-collision"
					detail = fmt.Sprintf("; it is also the next-hop form of accepted recipient %q, whose result was filed here", convOfAccepted[k])
				case convOfEarlier[k]:
					cause = "stale-earlier-transaction"
					detail = "; it is the next-hop form of a recipient of an earlier transaction on the reused connection"
				}
				out = append(out, finding{
					Sig:  "leaf/duplicate-result/" + t.Kind + "/" + cause,
					What: fmt.Sprintf("%d results under %q, which was accepted %d time(s) in this transaction%s", callN[k], k, accN[k], detail),
				})
			}
			continue
		}
		cause := "other"
		detail := ""
		// Cause class. A key can fit two classes when both defects are present
		// (the next-hop form of a current recipient may equal a recipient of an
		// earlier transaction); a literal earlier recipient is named first.
		switch {
		case t.Earlier[k]:
			cause = "stale-earlier-transaction"
			detail = " (a recipient of an earlier transaction on the reused connection, not of this one)"
		case convOfAccepted[k] != "":
			cause = "converted-address"
			detail = fmt.Sprintf(" (the next-hop form of accepted recipient %q)", convOfAccepted[k])
		case convOfEarlier[k]:
			cause = "stale-earlier-transaction"
			detail = " (the next-hop form of a recipient of an earlier transaction on the reused connection)"
		case supplied[k]:
			cause = "refused-recipient"
			detail = " (AddRcpt failed for it in this transaction)"
		}
		kind := "failure"
		if failN[k] == 0 {
			kind = "success (nil)"
		}
		out = append(out, finding{
			Sig:  "leaf/foreign-key/" + t.Kind + "/" + cause,
			What: fmt.Sprintf("%s result reported under %q%s; accepted in this transaction: %q", kind, k, detail, t.Accepted),
		})
	}

	// truth per accepted address (duplicates aggregated)
	type agg struct{ committed, failed, ambiguous int }
	ag := map[string]*agg{}
	var order []string
	for i, a := range t.Accepted {
		g := ag[a]
		if g == nil {
			g = &agg{}
			ag[a] = g
			order = append(order, a)
		}
		switch t.Fates[i] {
		case fateCommitted:
			g.committed++
		case fateFailed:
			g.failed++
		default:
			g.ambiguous++
		}
	}
	for _, a := range order {
		g := ag[a]
		switch {
		case g.failed > 0 && g.committed == 0 && g.ambiguous == 0 && failN[a] == 0:
			cls := "as-given"
			if c := converted(a); c != "" && c != a {
				cls = "idn-recipient"
			}
			where := "no failure was reported for it at all"
			if c := converted(a); c != "" && c != a && failN[c] > 0 {
				where = fmt.Sprintf("its failure was filed under %q", c)
			}
			out = append(out, finding{
				Sig:  "leaf/missing-failure/" + t.Kind + "/" + cls,
				What: fmt.Sprintf("accepted recipient %q was not committed by the next hop but has no failure result under its own address: %s (a caller reads that as delivered)", a, where),
			})
		case g.committed > 0 && g.failed == 0 && g.ambiguous == 0 && failN[a] > 0:
			cause, detail := "other", ""
			switch {
			case convOfAccepted[a] != "":
				cause = "converted-collision"
				detail = fmt.Sprintf(" (it is the next-hop form of accepted recipient %q, whose failure was filed here)", convOfAccepted[a])
			case t.Earlier[a] || convOfEarlier[a]:
				cause = "stale-collision"
				detail = " (it - or its next-hop form - was also a recipient of an earlier transaction on a reused connection whose current transaction failed)"
			}
			out = append(out, finding{
				Sig:  "leaf/false-failure/" + t.Kind + "/" + cause,
				What: fmt.Sprintf("accepted recipient %q was committed by the next hop (2xx final reply, connection intact) but a failure was reported under its address%s", a, detail),
			})
		}
	}
	return out
}

// ---- pipeline ----

type pipeTxn struct {
	Supplied  []string        // client-supplied recipients (AddRcpt arguments), in order
	Accepted  map[string]bool // AddRcpt returned nil at least once
	Failed    map[string]bool // accepted AND some effective recipient of it failed at some target
	Rewrote   map[string]bool // its effective recipient set differs from {itself}
	Effective map[string]bool // every address a target saw
	Calls     []call
	// Entangled: client-supplied recipients that share an address at some level
	// (outer final address, intermediate or delivered; effective address inside
	// the reroute) with a DIFFERENT client-supplied recipient of the same
	// transaction (genuine N-to-1 collision; witness only).
	Entangled map[string]bool
	// FailedClean: accepted AND a failing effective recipient is attributable
	// to this client-supplied address alone (the judged part of Failed);
	// FailedCleanTop: ... and not only through the nested pipeline.
	FailedClean    map[string]bool
	FailedCleanTop map[string]bool
	// Chained: the client-supplied address is itself a possible rewrite output.
	Chained map[string]bool
	// JudgeNested false: chained recipients failing only inside the nested
	// pipeline are counted instead of judged (debug switch).
	JudgeNested bool
	// PartAccepted: some target accepted (a part of) the recipient's expansion during one of
	// its AddRcpt calls - also when the pipeline then refused the recipient.
	PartAccepted map[string]bool
	// RefusedNested: a refusal of its expansion happened inside the nested pipeline.
	RefusedNested map[string]bool
	// JudgeRefusedShared: see judgeRefusedShared in c09_test.go (drill switch).
	JudgeRefusedShared bool
	// out: results seen under refused client-supplied recipients
	refusedPart, refusedNothing int
}

// judgePipe applies the second sentence of the statement: every key is an
// address the client supplied; every accepted client-supplied recipient whose
// delivery failed has a failure under its own address.
func judgePipe(t *pipeTxn) (out []finding, unjudgedCollision, unjudgedNested int) {
	supplied := map[string]bool{}
	for _, s := range t.Supplied {
		supplied[s] = true
	}
	failN := map[string]int{}
	seen := map[string]bool{}
	var keys []string
	for _, c := range t.Calls {
		if !c.Nil {
			failN[c.Key]++
		}
		if !seen[c.Key] {
			seen[c.Key] = true
			keys = append(keys, c.Key)
		}
	}
	sort.Strings(keys)
	for _, k := range keys {
		if supplied[k] && !t.Accepted[k] {
			// A result under an address the client supplied but the pipeline REFUSED
			// (every AddRcpt for it failed in this transaction): "none for any other
			// address" than the accepted ones.
			if t.PartAccepted[k] {
				// Contested, never judged: a target had accepted a part of the expansion
				// before another part was refused; a Delivery cannot take a recipient
				// back, that part will be delivered and its result has no better name.
				t.refusedPart++
				continue
			}
			// Nothing of its expansion was accepted anywhere: the result belongs to
			// another recipient that shares an effective address with it.
			t.refusedNothing++
			if !t.JudgeRefusedShared {
				continue // known defect of the unchanged tree, see judgeRefusedShared
			}
			cls := "top-level-target"
			if t.RefusedNested[k] {
				cls = "through-nested-pipeline"
			}
			out = append(out, finding{
				Sig:  "pipeline/foreign-key/refused-recipient/" + cls,
				What: fmt.Sprintf("result reported under %q, which the pipeline refused (AddRcpt failed, no target accepted any part of its expansion); accepted: %q", k, sortedKeys(t.Accepted)),
			})
			continue
		}
		if supplied[k] {
			continue
		}
		cause := "other"
		if t.Effective[k] {
			cause = "rewritten-address"
		}
		out = append(out, finding{
			Sig:  "pipeline/foreign-key/" + cause,
			What: fmt.Sprintf("result reported under %q, which the client never supplied (supplied: %q)", k, t.Supplied),
		})
	}
	var as []string
	for a := range t.Failed {
		as = append(as, a)
	}
	sort.Strings(as)
	for _, a := range as {
		if !t.Accepted[a] || failN[a] > 0 {
			continue
		}
		cls := "unrewritten"
		switch {
		case t.Chained[a]:
			cls = "chained-alias"
		case t.Rewrote[a]:
			cls = "rewritten"
		}
		if !t.FailedClean[a] {
			unjudgedCollision++
			continue
		}
		if t.Chained[a] && !t.FailedCleanTop[a] {
			// the constellation the shared reverse map used to get wrong
			cls = "nested-double-translation"
			if !t.JudgeNested {
				unjudgedNested++
				continue
			}
		}
		out = append(out, finding{
			Sig:  "pipeline/missing-failure/" + cls,
			What: fmt.Sprintf("client-supplied recipient %q was accepted, delivery of (one of) its effective recipient(s) failed at a target, but no failure was reported under %q", a, a),
		})
	}
	return out, unjudgedCollision, unjudgedNested
}

// neverOffered: the target accepted the recipients acc (AddRcpt returned nil, all for one
// next hop) but the next hop accepted fewer DISTINCT mailboxes in this transaction than the
// target did. Mailboxes are compared conservatively: local part byte for byte (a next hop may
// treat it case-sensitively), domain case-insensitively in A-label form - so a target that
// transmits byte-identical duplicates or domain-spelling variants of one mailbox only once
// (the Delivery contract allows ignoring duplicates) is not accused. At least the difference
// was never transmitted, so at least that many accepted recipients must carry a failure
// result under their own address.
func neverOffered(kind string, acc []string, wire []string, calls []call) []finding {
	key := func(a string) string {
		l, d := splitAddr(a)
		if ad, err := idna.ToASCII(d); err == nil {
			d = ad
		}
		return l + "@" + strings.ToLower(d)
	}
	accKeys := map[string]bool{}
	for _, a := range acc {
		accKeys[key(a)] = true
	}
	wireKeys := map[string]bool{}
	for _, a := range wire {
		wireKeys[key(a)] = true
	}
	deficit := len(accKeys) - len(wireKeys)
	if deficit <= 0 {
		return nil
	}
	failed := map[string]bool{}
	for _, c := range calls {
		if !c.Nil {
			failed[key(c.Key)] = true
		}
	}
	nf := 0
	for k := range accKeys {
		if failed[k] {
			nf++
		}
	}
	if nf >= deficit {
		return nil
	}
	cls := "distinct-mailboxes"
	lower := map[string]int{}
	for k := range accKeys {
		lower[strings.ToLower(k)]++
	}
	for _, n := range lower {
		if n > 1 {
			cls = "local-part-case-variants-in-one-transaction"
		}
	}
	return []finding{{
		Sig:  "leaf/missing-failure/" + kind + "/accepted-but-never-offered-to-next-hop/" + cls,
		What: fmt.Sprintf("the target accepted %d distinct mailbox(es) %q for this next hop, the next hop was offered and accepted only %d (%q); only %d of the accepted ones carry a failure result, so %d accepted recipient(s) were neither transmitted nor reported as failed (a caller reads that as delivered)", len(accKeys), acc, len(wireKeys), wire, nf, deficit-nf),
	}}
}
