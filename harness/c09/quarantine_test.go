//go:build verif

package c09

import (
	"context"
	"fmt"
	"sync/atomic"

	"github.com/foxcpp/maddy/framework/config"
	"github.com/foxcpp/maddy/framework/module"
	modconfig "github.com/foxcpp/maddy/framework/config/module"
	"github.com/foxcpp/maddy/internal/zzverif/mx"
	"verifkit/prng"
)

// Quarantine raised between RCPT and DATA (round 8, after C09-w8-1 was missed).
//
// A check with action "quarantine" makes the pipeline raise
// MsgMetadata.Quarantine when the body arrives - AFTER every recipient went
// through the target's AddRcpt (the next hop already answered each RCPT).
// target.remote then refuses the message in BodyNonAtomic and reports that
// refusal per recipient from a list of its own (rd.recipients), NOT from the
// connections' accepted-recipient lists every other path uses. Whether that
// list holds exactly the accepted recipients only shows when the next hop
// refused some RCPTs of the same transaction (or the connection for one domain
// could not be had) while others were accepted.
//
// A dimension of its own (PRNG stream "c09-remote-quarantine"), combined with
// everything else of a remote history (RCPT refusals per index, MAIL failures,
// IDN recipients, connection reuse before and after, duplicates):
//
//	direct   the harness raises the flag on the metadata the delivery was started with,
//	         after the last AddRcpt (what the pipeline's check runner does), 1 in 8 transactions
//	pipeline 1 in 5 histories run the real target.remote BEHIND a real msgpipeline
//	         (`check { <scripted check> }  deliver_to &<the target>`); the scripted check
//	         answers "quarantine" (modconfig.FailAction{Quarantine: true}) at the sender, rcpt or
//	         body stage for 1 in 3 transactions; the pipeline raises the flag in applyResults,
//	         i.e. at the body stage, whatever stage the check spoke at. The monitor then sits
//	         behind the pipeline's status translation (identity here: no rewriting), which the
//	         statement covers too ("under the addresses the client supplied").
//
// The oracle is unchanged (judgeLeaf): every key is a recipient accepted in this
// transaction, at most one result per acceptance, a recipient the next hop did
// not commit needs a failure under its own address. Nothing is assumed about
// what a quarantined message's fate should be: fates still come from the next
// hop's transcript only.
type quarPlan struct {
	ViaPipeline bool           `json:"behind_pipeline"`
	Tx          map[int]string `json:"quarantined_transactions,omitempty"` // tx -> "flag" | "sender" | "rcpt" | "body"
}

func genQuar(seed uint64, idx, nTx int) *quarPlan {
	pq := prng.New(seed, uint64(idx), "c09-remote-quarantine")
	q := &quarPlan{ViaPipeline: pq.Chance(1, 5), Tx: map[int]string{}}
	for tx := 1; tx <= nTx; tx++ {
		if q.ViaPipeline {
			if pq.Chance(1, 3) {
				q.Tx[tx] = prng.Pick(pq, []string{"sender", "rcpt", "body", "body"})
			}
		} else if pq.Chance(1, 8) {
			q.Tx[tx] = "flag"
		}
	}
	return q
}

func (q *quarPlan) stage(tx int) string {
	if q == nil {
		return ""
	}
	return q.Tx[tx]
}

type starter interface {
	Start(ctx context.Context, msgMeta *module.MsgMetadata, mailFrom string) (module.Delivery, error)
}

type c09tomb struct{ name string }

func (t c09tomb) Name() string           { return "verif_tomb" }
func (t c09tomb) InstanceName() string   { return t.name }
func (t c09tomb) Init(*config.Map) error { return nil }

// behindPipeline puts the (already initialised) target behind a real
// msgpipeline whose only check quarantines the transactions the plan names.
// cur is the history's logical transaction number.
func behindPipeline(tgt module.Module, q *quarPlan, cur *atomic.Int32) (starter, func(), error) {
	name := tgt.InstanceName()
	mx.RegisterInstance(tgt)
	chk := mx.NewCheck(name+"_quar", mx.NewLog())
	chk.Result = func(p mx.CheckPoint) module.CheckResult {
		if st := q.stage(int(cur.Load())); st != "" && p.Stage == st {
			return modconfig.FailAction{Quarantine: true}.Apply(module.CheckResult{Reason: fmt.Errorf("c09 %s-stage quarantine", p.Stage)})
		}
		return module.CheckResult{}
	}
	ref := mx.CheckRef(chk)
	pl, err := mx.BuildPipeline("check {\n    "+ref+"\n}\ndeliver_to &"+name+"\n", nil)
	mx.CheckUnref(chk)
	cleanup := func() { mx.RegisterInstance(c09tomb{name}) } // the registry is process-global: let the target go
	if err != nil {
		cleanup()
		return nil, nil, err
	}
	return pl, cleanup, nil
}

// dedupe keeps the first occurrence of every address. Behind the pipeline a
// recipient given twice is a genuine N-to-1 case of the pipeline's reverse map
// (both occurrences get the status of every occurrence), which the statement
// does not speak about; duplicates are exercised in the direct histories.
func dedupe(in []string) []string {
	seen := map[string]bool{}
	var out []string
	for _, a := range in {
		if !seen[a] {
			seen[a] = true
			out = append(out, a)
		}
	}
	return out
}
