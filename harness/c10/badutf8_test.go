//go:build verif

package c10

import (
	"bufio"
	"bytes"
	"context"
	"fmt"
	"io"
	"net"
	"os"
	"path/filepath"
	"sort"
	"strings"
	"sync"
	"testing"
	"time"
	"unicode/utf8"

	"github.com/emersion/go-message/textproto"
	"github.com/emersion/go-smtp"
	"github.com/foxcpp/maddy/framework/buffer"
	"github.com/foxcpp/maddy/framework/config"
	"github.com/foxcpp/maddy/framework/log"
	"github.com/foxcpp/maddy/framework/module"
	smtpendp "github.com/foxcpp/maddy/internal/endpoint/smtp"
	"github.com/foxcpp/maddy/internal/target/queue"
	"github.com/foxcpp/maddy/internal/zzverif/mx"
	"verifkit/prng"
	"verifkit/rep"
)

// Envelope strings that are not valid UTF-8.
//
// One case of this group (indices badUTF8Base.., stream "c10-badutf8"): a real
// `smtp` endpoint built from configuration text (deliver_to the real queue,
// optionally behind a replace_rcpt rewrite so that the original-recipient map
// gets such keys and values too) is spoken to over a raw TCP connection. The
// MAIL and RCPT commands carry addresses whose local part (and, to find out
// whether the endpoint takes them, domain) holds a byte sequence that is not
// UTF-8: lone continuation bytes, truncated multi-byte sequences, overlong
// forms, UTF-16 surrogates encoded as UTF-8, 0xFF / 0xFE, code points beyond
// U+10FFFF; with and without the SMTPUTF8 parameter. Every transaction also has
// at least one plain ASCII recipient, and a refused MAIL is repeated with a
// plain sender, so the transaction completes whatever the endpoint thinks of
// the strange addresses.
//
// "Accepted" is what the endpoint's pipeline handed to the queue with success
// (recorded by a pass-through wrapper in front of the queue): only shapes the
// endpoint accepts are in the statement's quantifier; refused ones are counted
// and nothing else. The message then goes through a history retry x restart
// and every attempt is compared with the accepted envelope, as in the main group.
const badUTF8Base = 3000000

type badSeq struct{ kind, bytes string }

var badSeqs = []badSeq{
	{"lone_continuation", "\x80"}, {"lone_continuation", "\xbf"}, {"lone_continuation", "\x9f\x80"},
	{"truncated", "\xc3"}, {"truncated", "\xe2\x82"}, {"truncated", "\xf0\x9f\x98"},
	{"overlong", "\xc0\xaf"}, {"overlong", "\xe0\x80\xaf"}, {"overlong", "\xc1\xbf"}, {"overlong", "\xf0\x80\x80\xaf"},
	{"surrogate", "\xed\xa0\x80"}, {"surrogate", "\xed\xbf\xbf"}, {"surrogate", "\xed\xa0\xbd\xed\xb8\x80"},
	{"ff_fe", "\xff"}, {"ff_fe", "\xfe"}, {"ff_fe", "\xfe\xff"},
	{"beyond_max", "\xf4\x90\x80\x80"}, {"beyond_max", "\xf8\x88\x80\x80\x80"},
}

type buAddr struct {
	wire   string // as written between < > on the wire
	bad    bool   // not valid UTF-8
	kind   string // kind of the invalid sequence
	where  string // "local" | "domain"
	ascii  bool
	sender bool
}

func buBadLocal(p *prng.R, stem, domain string) buAddr {
	s := prng.Pick(p, badSeqs)
	var lp string
	switch p.Intn(3) {
	case 0:
		lp = s.bytes + stem
	case 1:
		lp = stem[:len(stem)/2] + s.bytes + stem[len(stem)/2:]
	default:
		lp = stem + s.bytes
	}
	return buAddr{wire: lp + "@" + domain, bad: true, kind: s.kind, where: "local"}
}

func buBadDomain(p *prng.R, local string) buAddr {
	s := prng.Pick(p, badSeqs)
	d := prng.Pick(p, []string{"ex" + s.bytes + "ample.org", s.bytes + ".example.org", "example" + s.bytes + ".org"})
	return buAddr{wire: local + "@" + d, bad: true, kind: s.kind, where: "domain"}
}

// buFront stands in front of the real queue under a per-case instance name and
// records what the queue was handed and answered.
type buFront struct {
	name string
	q    *queue.Queue

	mu      sync.Mutex
	starts  int
	from    string
	meta    *module.MsgMetadata
	rcpts   []string // AddRcpt answered with success, in order
	snap    *mx.MetaSnap
	hdr     []byte
	body    []byte
	bodyErr error
	commits int
}

func (f *buFront) Name() string           { return "verif_c10_front" }
func (f *buFront) InstanceName() string   { return f.name }
func (f *buFront) Init(*config.Map) error { return nil }
func (f *buFront) Start(ctx context.Context, msgMeta *module.MsgMetadata, mailFrom string) (module.Delivery, error) {
	d, err := f.q.Start(ctx, msgMeta, mailFrom)
	if err != nil {
		return nil, err
	}
	f.mu.Lock()
	f.starts++
	f.from = mailFrom
	f.meta = msgMeta
	f.rcpts = nil
	f.mu.Unlock()
	return &buFrontDelivery{f: f, d: d}, nil
}

type buFrontDelivery struct {
	f *buFront
	d module.Delivery
}

func (d *buFrontDelivery) AddRcpt(ctx context.Context, to string, opts smtp.RcptOptions) error {
	err := d.d.AddRcpt(ctx, to, opts)
	if err == nil {
		d.f.mu.Lock()
		d.f.rcpts = append(d.f.rcpts, to)
		d.f.mu.Unlock()
	}
	return err
}

func (d *buFrontDelivery) Body(ctx context.Context, h textproto.Header, b buffer.Buffer) error {
	var hb bytes.Buffer
	textproto.WriteHeader(&hb, h)
	var bb []byte
	if rd, err := b.Open(); err == nil {
		bb, _ = io.ReadAll(rd)
		rd.Close()
	}
	d.f.mu.Lock()
	d.f.snap = mx.SnapMeta(d.f.meta)
	d.f.hdr = hb.Bytes()
	d.f.body = bb
	d.f.mu.Unlock()
	err := d.d.Body(ctx, h, b)
	d.f.mu.Lock()
	d.f.bodyErr = err
	d.f.mu.Unlock()
	return err
}

func (d *buFrontDelivery) Commit(ctx context.Context) error {
	err := d.d.Commit(ctx)
	if err == nil {
		d.f.mu.Lock()
		d.f.commits++
		d.f.mu.Unlock()
	}
	return err
}

func (d *buFrontDelivery) Abort(ctx context.Context) error { return d.d.Abort(ctx) }

type buTomb struct{ name string }

func (t buTomb) Name() string           { return "verif_tomb" }
func (t buTomb) InstanceName() string   { return t.name }
func (t buTomb) Init(*config.Map) error { return nil }

// ---- raw SMTP client ----

type buClient struct {
	c  net.Conn
	br *bufio.Reader
}

func (cl *buClient) reply() (int, string, error) {
	var text []string
	for {
		cl.c.SetReadDeadline(time.Now().Add(60 * time.Second))
		line, err := cl.br.ReadString('\n')
		if err != nil {
			return 0, "", err
		}
		line = strings.TrimRight(line, "\r\n")
		if len(line) < 4 {
			return 0, line, fmt.Errorf("short reply line %q", line)
		}
		text = append(text, line[4:])
		if line[3] == ' ' {
			code := 0
			fmt.Sscanf(line[:3], "%d", &code)
			return code, strings.Join(text, " / "), nil
		}
	}
}

func (cl *buClient) cmd(line string) (int, string, error) {
	cl.c.SetWriteDeadline(time.Now().Add(60 * time.Second))
	if _, err := io.WriteString(cl.c, line+"\r\n"); err != nil {
		return 0, "", err
	}
	return cl.reply()
}

func buListen(text string) (*smtpendp.Endpoint, string, error) {
	var lastErr error
	for try := 0; try < 40; try++ {
		l, err := net.Listen("tcp", "127.0.0.1:0")
		if err != nil {
			return nil, "", err
		}
		addr := l.Addr().String()
		l.Close()
		m, err := smtpendp.New("smtp", []string{"tcp://" + addr})
		if err != nil {
			return nil, "", err
		}
		endp := m.(*smtpendp.Endpoint)
		endp.Log = log.Logger{Out: log.NopOutput{}}
		if err := mx.InitModule(endp, text, nil); err != nil {
			lastErr = err
			if strings.Contains(err.Error(), "address already in use") {
				time.Sleep(time.Duration(20+10*try) * time.Millisecond)
				continue
			}
			return nil, "", fmt.Errorf("endpoint init: %w\n%s", err, text)
		}
		return endp, addr, nil
	}
	return nil, "", fmt.Errorf("no free port: %v", lastErr)
}

func buOptName(utf8opt bool) string {
	if utf8opt {
		return "smtputf8"
	}
	return "no_smtputf8"
}

func badUTF8Cases(t *testing.T, r *rep.Reporter) {
	n := r.N(192, 3000)
	for k := 0; k < n; k++ {
		i := badUTF8Base + k
		r.Run(i, fmt.Sprintf("badutf8-%d", k), func(c *rep.Case) {
			p := prng.New(r.Seed(), uint64(i), "c10-badutf8")
			base, err := os.MkdirTemp("", "c10u")
			if err != nil {
				t.Fatal(err)
			}
			defer os.RemoveAll(base)
			spool := filepath.Join(base, "spool")
			os.Mkdir(spool, 0o700)

			// ---------- scenario ----------
			utf8opt := p.Chance(4, 5)
			rewrite := p.Chance(1, 2) // replace_rcpt in front of the queue: original-recipient map gets entries
			hist := hOK
			if !p.Chance(1, 8) {
				hist = 1 + p.Intn(nHist-1)
			}
			feats := map[string]bool{buOptName(utf8opt): true}
			if rewrite {
				feats["rewrite"] = true
			}
			var sender buAddr
			switch p.Intn(8) {
			case 0:
				sender = buAddr{wire: "", ascii: true}
			case 1:
				sender = buAddr{wire: "alice@example.org", ascii: true}
			case 2:
				sender = buAddr{wire: "юзер@example.org"}
			case 3:
				sender = buBadDomain(p, "sender")
			default:
				sender = buBadLocal(p, "sender", prng.Pick(p, []string{"example.org", "пример.example"}))
			}
			sender.sender = true
			rcptDomain := func() string {
				if rewrite && p.Chance(2, 3) {
					return "alias.example"
				}
				return prng.Pick(p, []string{"example.com", "example.net"})
			}
			var rcpts []buAddr
			rcpts = append(rcpts, buAddr{wire: fmt.Sprintf("plain%d@%s", k, rcptDomain()), ascii: true})
			nBad := p.Range(1, 3)
			for j := 0; j < nBad; j++ {
				rcpts = append(rcpts, buBadLocal(p, prng.Pick(p, []string{"user", "rcpt", "x"}), rcptDomain()))
			}
			if p.Chance(1, 3) {
				// two different invalid sequences at the same place: different strings for the
				// endpoint and the queue (the replacement character would make them one)
				a := rcpts[1]
				for _, s := range badSeqs {
					if s.kind == "ff_fe" && !strings.Contains(a.wire, s.bytes) {
						at := strings.IndexByte(a.wire, '@')
						rcpts = append(rcpts, buAddr{wire: "tw" + s.bytes + "in" + a.wire[at:], bad: true, kind: s.kind, where: "local"})
						rcpts = append(rcpts, buAddr{wire: "tw" + "\xc0" + "in" + a.wire[at:], bad: true, kind: "truncated", where: "local"})
						feats["twins"] = true
						break
					}
				}
			}
			if p.Chance(1, 4) {
				rcpts = append(rcpts, buBadDomain(p, "dom"))
			}
			if p.Chance(1, 3) {
				rcpts = append(rcpts, buAddr{wire: "получатель@" + rcptDomain()})
			}
			// order: shuffle all but keep things deterministic
			perm := p.Perm(len(rcpts))
			shuffled := make([]buAddr, len(rcpts))
			for a, b := range perm {
				shuffled[a] = rcpts[b]
			}
			rcpts = shuffled
			tlsNo := p.Chance(1, 3)
			partial := hist == hRestartPartial || p.Bool()
			failStage := prng.Pick(p, []string{mx.StStart, mx.StRcpt, mx.StBody, mx.StCommit})
			if hist == hRestartPartial {
				failStage = mx.StStatus
			}
			variant := p.Intn(3)
			failOthers := p.Bool()

			// ---------- world ----------
			lg := mx.NewLog()
			tgt := mx.NewTarget("down", lg)
			tgt.Partial = partial
			failAttempts := map[int]bool{}
			switch hist {
			case hRetry, hRestartBeforeRetry, hRestartPartial:
				failAttempts[1] = true
			case hTwoRestarts:
				failAttempts[1] = true
				failAttempts[2] = true
			}
			var amu sync.Mutex
			attemptNo := 0
			tgt.Script = func(pt mx.Point) error {
				amu.Lock()
				if pt.Stage == mx.StStart {
					attemptNo++
				}
				a := attemptNo
				amu.Unlock()
				if !failAttempts[a] || pt.Stage != failStage {
					return nil
				}
				if failStage == mx.StStatus && utf8.ValidString(pt.Rcpt) && !failOthers {
					// per-recipient failure: every recipient that is not valid UTF-8 stays pending
					// while the others are delivered: the pending set narrows
					return nil
				}
				return mx.MakeErr(mx.Temp, variant, "c10")
			}
			longRetry := hist == hRestartBeforeRetry || hist == hTwoRestarts || hist == hRestartPartial
			newQ := func(retry time.Duration) *queue.Queue {
				q, err := queue.VerifNewQueue(queue.VerifOpts{Dir: spool, Target: tgt, MaxTries: 5, InitialRetryTime: retry, RetryTimeScale: 1})
				if err != nil {
					t.Fatal(err)
				}
				return q
			}
			retry1 := time.Duration(0)
			if longRetry {
				retry1 = time.Hour
			}
			q := newQ(retry1)
			front := &buFront{name: fmt.Sprintf("c10bu%d_%d_queue", r.Seed(), k), q: q}
			mx.RegisterInstance(front)
			defer mx.RegisterInstance(buTomb{front.name})
			text := "hostname mx.example.com\ntls off\nbuffer ram\ndefer_sender_reject no\n"
			if rewrite {
				text += "modify {\n replace_rcpt regexp \"(.+)@alias\\.example\" \"$1@rewritten.example\"\n}\n"
			}
			text += "deliver_to &" + front.name + "\n"
			endp, addr, err := buListen(text)
			if err != nil {
				q.Close()
				c.Inconclusive("cannot start the endpoint: " + err.Error())
				return
			}
			endpClosed := false
			closeEndp := func() {
				if !endpClosed {
					endpClosed = true
					endp.Close()
				}
			}
			defer closeEndp()

			// ---------- the SMTP transaction ----------
			conn, err := net.Dial("tcp", addr)
			if err != nil {
				q.Close()
				c.Inconclusive("cannot dial the endpoint: " + err.Error())
				return
			}
			defer conn.Close()
			cl := &buClient{c: conn, br: bufio.NewReader(conn)}
			var wire []string
			say := func(line string) (int, string, bool) {
				code, txt, err := cl.cmd(line)
				wire = append(wire, fmt.Sprintf("C: %q  S: %d %s", line, code, txt))
				if err != nil {
					c.Inconclusive("SMTP dialogue broke at " + fmt.Sprintf("%q", line) + ": " + err.Error())
					return 0, "", false
				}
				return code, txt, true
			}
			fail := func() { conn.Close(); closeEndp(); q.Close() }
			if _, _, err := cl.reply(); err != nil {
				c.Inconclusive("no greeting: " + err.Error())
				fail()
				return
			}
			if _, _, ok := say("EHLO client.example.org"); !ok {
				fail()
				return
			}
			note := func(a buAddr, code int) {
				if !a.bad {
					return
				}
				role := "rcpt"
				if a.sender {
					role = "sender"
				}
				cls := role + "_" + a.where + "_" + buOptName(utf8opt)
				r.Count("badutf8_submitted_"+cls, 1)
				r.Count("badutf8_submitted_kind_"+a.kind, 1)
				verdict := "refused"
				if code == 250 {
					verdict = "accepted"
				}
				r.Count("badutf8_"+verdict+"_"+cls, 1)
				r.Count("badutf8_"+verdict+"_kind_"+a.kind, 1)
				r.Distinct("badutf8_reply", fmt.Sprintf("%s %s/%s/%s -> %d", strings.ToUpper(role), a.where, a.kind, buOptName(utf8opt), code))
				feats[verdict+"-"+role+"-"+a.where] = true
				feats["kind-"+a.kind] = true
			}
			params := " BODY=8BITMIME"
			if utf8opt {
				params += " SMTPUTF8"
			}
			code, _, ok := say("MAIL FROM:<" + sender.wire + ">" + params)
			if !ok {
				fail()
				return
			}
			note(sender, code)
			if code != 250 {
				if code, _, ok = say("MAIL FROM:<fallback@example.org>" + params); !ok || code != 250 {
					if ok {
						c.Inconclusive(fmt.Sprintf("plain MAIL refused with %d", code))
					}
					fail()
					return
				}
			}
			accWire := 0
			for _, a := range rcpts {
				code, _, ok := say("RCPT TO:<" + a.wire + ">")
				if !ok {
					fail()
					return
				}
				note(a, code)
				if code == 250 {
					accWire++
				}
			}
			if accWire == 0 {
				c.Inconclusive("no recipient accepted, not even the plain one")
				fail()
				return
			}
			if code, _, ok := say("DATA"); !ok || code != 354 {
				if ok {
					c.Inconclusive(fmt.Sprintf("DATA answered %d", code))
				}
				fail()
				return
			}
			msg := "Subject: c10 badutf8 " + fmt.Sprint(k) + "\r\nX-Eight: caf\xe9 \xff\r\n"
			if tlsNo {
				msg += "TLS-Required: No\r\n"
				feats["tls-required-no"] = true
			}
			msg += "\r\nbody line\r\n..dot\r\n\xff\xfe binary\r\n"
			if code, _, ok := say(msg + "."); !ok || code != 250 {
				if ok {
					c.Inconclusive(fmt.Sprintf("end of DATA answered %d", code))
				}
				fail()
				return
			}
			say("QUIT")
			conn.Close()
			closeEndp()

			front.mu.Lock()
			accFrom, accRcpts, accSnap := front.from, append([]string(nil), front.rcpts...), front.snap
			accHdr, accBody, commits := front.hdr, front.body, front.commits
			front.mu.Unlock()
			if commits != 1 || accSnap == nil {
				c.Inconclusive(fmt.Sprintf("the queue was not handed exactly one committed message (commits=%d)", commits))
				q.Close()
				return
			}

			// ---------- history ----------
			closeKinds := func(n int) bool {
				deadline := time.Now().Add(60 * time.Second)
				for {
					cnt := 0
					for _, e := range lg.Events() {
						if e.Kind == "commit" || e.Kind == "abort" || (e.Kind == "start" && e.Class != mx.OK) {
							cnt++
						}
					}
					if cnt >= n {
						return true
					}
					if time.Now().After(deadline) {
						return false
					}
					time.Sleep(500 * time.Microsecond)
				}
			}
			okDrained := true
			switch hist {
			case hOK, hRetry:
				okDrained = waitEmpty(spool, 60*time.Second)
				q.Close()
			default:
				okDrained = closeKinds(1)
				q.Close()
				q = newQ(0)
				okDrained = okDrained && waitEmpty(spool, 60*time.Second)
				q.Close()
			}
			if !okDrained {
				c.Inconclusive("spool did not drain within the watchdog (history " + histNames[hist] + ")")
				return
			}

			// ---------- oracle ----------
			env := envelope{from: accFrom, rcpts: accRcpts, origRcpts: accSnap.OriginalRcpts}
			env.meta.SMTPOpts.UTF8 = accSnap.UTF8
			env.meta.SMTPOpts.RequireTLS = accSnap.RequireTLS
			env.meta.TLSRequireOverride = accSnap.TLSRequireOverride
			env.meta.OriginalFrom = accSnap.OriginalFrom
			wit := func() map[string]any {
				keys := []string{}
				for k, v := range accSnap.OriginalRcpts {
					keys = append(keys, fmt.Sprintf("%q <- %q", k, v))
				}
				sort.Strings(keys)
				return map[string]any{"history": histNames[hist], "smtp_dialogue": wire,
					"handed_to_queue_sender": fmt.Sprintf("%q", accFrom), "handed_to_queue_rcpts": fmt.Sprintf("%q", accRcpts),
					"handed_to_queue_original_rcpts": keys, "handed_to_queue_original_from": fmt.Sprintf("%q", accSnap.OriginalFrom),
					"endpoint_config": text, "log": lg.Strings(60)}
			}
			accBadSender := !utf8.ValidString(accFrom)
			accBadRcpts := 0
			pending := map[string]bool{}
			for _, rc := range accRcpts {
				if !pending[rc] && !utf8.ValidString(rc) {
					accBadRcpts++
				}
				pending[rc] = true
			}
			accBadOrig := 0
			for k, v := range accSnap.OriginalRcpts {
				if !utf8.ValidString(k) || !utf8.ValidString(v) {
					accBadOrig++
				}
			}
			if accBadSender {
				r.Count("badutf8_queue_handed_invalid_sender", 1)
			}
			if !utf8.ValidString(accSnap.OriginalFrom) {
				r.Count("badutf8_queue_handed_invalid_original_from", 1)
			}
			r.Count("badutf8_queue_handed_invalid_rcpts", int64(accBadRcpts))
			r.Count("badutf8_queue_handed_invalid_original_rcpt_entries", int64(accBadOrig))
			const pre = "invalid-utf8/"
			attempts := 0
			for _, s := range mx.Summaries(lg.Events()) {
				attempts++
				where := fmt.Sprintf("attempt %d", attempts)
				if s.From != accFrom {
					c.Violation(pre+"envelope/sender", fmt.Sprintf("%s: downstream saw sender %q, queue accepted %q", where, s.From, accFrom), wit())
				}
				offered := map[string]int{}
				for _, rc := range s.Accepted {
					offered[rc]++
				}
				for rc := range s.Refused {
					offered[rc]++
				}
				if s.StartClass == mx.OK {
					for rc := range pending {
						if offered[rc] == 0 {
							c.Violation(pre+"envelope/pending-recipient-missing", fmt.Sprintf("%s: pending recipient %q was not offered to the downstream", where, rc), wit())
						}
					}
					for rc, cnt := range offered {
						if !pending[rc] {
							c.Violation(pre+"envelope/non-pending-recipient", fmt.Sprintf("%s: recipient %q offered although not pending", where, rc), wit())
						}
						if cnt > 1 {
							c.Violation(pre+"envelope/recipient-offered-twice", fmt.Sprintf("%s: recipient %q offered %d times in one attempt", where, rc, cnt), wit())
						}
					}
				}
				if s.StartMeta != nil {
					checkMetaSig(c, pre, where+" (Start)", s.StartMeta, env, wit)
				}
				if s.BodyKind != "" {
					if !bytes.Equal(s.Header, accHdr) {
						c.Violation(pre+"bytes/header", fmt.Sprintf("%s: header differs from the accepted one (first difference at %d)", where, firstDiff(s.Header, accHdr)), wit())
					}
					if !bytes.Equal(s.Body, accBody) {
						c.Violation(pre+"bytes/body", fmt.Sprintf("%s: body differs from the accepted one (first difference at %d)", where, firstDiff(s.Body, accBody)), wit())
					}
					if s.BodyMeta != nil {
						checkMetaSig(c, pre, where+" (Body)", s.BodyMeta, env, wit)
					}
				}
				r.Count("badutf8_attempts_checked", 1)
				if attempts > 1 {
					r.Count("badutf8_attempts_read_from_spool_checked", 1)
					if longRetry {
						r.Count("badutf8_attempts_after_restart_checked", 1)
					}
					if accBadSender || accBadRcpts > 0 || accBadOrig > 0 {
						r.Count("badutf8_attempts_read_from_spool_with_invalid_strings", 1)
					}
				}
				for _, rc := range s.Accepted {
					if s.DeliveredTo(rc) {
						delete(pending, rc)
					}
				}
			}
			if len(pending) > 0 {
				// the spool is empty, so the queue gave up or lost them: not this property's clause
				r.Count("badutf8_histories_ending_with_pending_recipients", 1)
			}
			r.Count("badutf8_histories", 1)
			r.Count("badutf8_histories_"+buOptName(utf8opt), 1)
			if rewrite {
				r.Count("badutf8_histories_with_rewrite", 1)
			}
			r.Distinct("badutf8_history", histNames[hist])
			if k < 3 {
				r.Sample(map[string]any{"group": "badutf8", "history": histNames[hist], "smtp_dialogue": wire, "handed_to_queue_rcpts": fmt.Sprintf("%q", accRcpts), "attempts": attempts})
			}
			c.Done("badutf8|"+histNames[hist]+"|"+featKey(feats)+fmt.Sprintf("|partial=%v|%s", partial, failStage), hist != hOK)
		})
	}
}
