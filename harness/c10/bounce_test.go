//go:build verif

package c10

import (
	"bufio"
	"bytes"
	"context"
	"fmt"
	"os"
	"path/filepath"
	"sort"
	"strings"
	"testing"
	"time"

	"github.com/emersion/go-message/textproto"
	"github.com/emersion/go-smtp"
	"github.com/foxcpp/maddy/framework/address"
	"github.com/foxcpp/maddy/framework/module"
	_ "github.com/foxcpp/maddy/internal/modify"
	_ "github.com/foxcpp/maddy/internal/table"
	"github.com/foxcpp/maddy/internal/target/queue"
	"github.com/foxcpp/maddy/internal/zzverif/mx"
	"verifkit/prng"
	"verifkit/rep"
)

// Failure reports. When an attempt ends with a permanent failure for some
// recipients the queue generates a report (DSN) inside tryDelivery and hands
// it to its bounce pipeline - while other recipients of the same message are
// still pending. The report is a message of its own: nothing its generation or
// its way through the bounce pipeline does (recipient rewrites recorded in the
// report's original-recipient map, flags set by the pipeline, a failing
// sink) may show up in what the queue hands downstream for the failed message on
// the following attempts - from the same process or after restarts.
//
// Cases of this group live at indices bounceBase.. and draw everything from the
// stream "c10-bounce", the cases of the main group are unchanged.

const bounceBase = 1_000_000

var bounceSenders = []string{"alice@example.org", "юзер@пример.рф", "\"quoted local\"@example.org", "MiXeD@Example.ORG", "bob+tag@xn--e1aybc.example", "postmaster", "news+bounces@example.org"}
var bounceFresh = []string{"bounces-archive@example.org", "\"odd box\"@example.org", "ящик@пример.рф", "postmaster", "Reports@Sub.Example.ORG"}

const (
	bfNone    = "no-bounce"    // queue without a bounce pipeline (reports are dropped)
	bfSink    = "plain-sink"   // recording target as the bounce target, no pipeline
	bfPipe    = "pipe-plain"   // bounce { deliver_to &sink }
	bfGlobal  = "pipe-global"  // bounce { modify { replace_rcpt ... } deliver_to &sink }
	bfSource  = "pipe-source"  // bounce { default_source { modify { ... } deliver_to &sink } }
	bfDest    = "pipe-dest"    // bounce { default_destination { modify { ... } deliver_to &sink } }
	bfReroute = "pipe-reroute" // bounce { modify { ... } reroute { deliver_to &sink } }
)

type bounceScenario struct {
	from      string
	rcpts     []string
	origRcpts map[string]string
	meta      module.MsgMetadata
	partial   bool
	// failing attempts 1..len(roles); the attempt after them succeeds for everybody still pending
	roles   []map[string]string // recipient -> ok | temp | perm (per-recipient attempts)
	stages  []map[string]string // recipient -> rcpt | status, for the failing ones
	whole   []string            // "" or the stage of a temporary failure of the whole attempt
	restart map[int]bool        // restart the queue after attempt a

	form        string
	table       string // static | regexp | memtable
	targetKinds []string
	targets     []string
	senderMod   bool // a replace_sender next to replace_rcpt
	sinkFail    string
	sinkClass   string
	variant     int
	lateFill    bool
}

func cfgQuote(s string) string {
	return `"` + strings.ReplaceAll(s, `"`, `\"`) + `"`
}

func genBounce(p *prng.R, id string) *bounceScenario {
	sc := &bounceScenario{restart: map[int]bool{}}
	sc.from = prng.Pick(p, bounceSenders)
	perm := p.Perm(len(rcptPool))
	n := p.Range(2, 4)
	for i := 0; i < n; i++ {
		sc.rcpts = append(sc.rcpts, rcptPool[perm[i]])
	}
	sc.meta = module.MsgMetadata{
		ID:           id,
		OriginalFrom: sc.from,
		SMTPOpts: smtp.MailOptions{
			UTF8:       p.Bool(),
			RequireTLS: p.Chance(1, 3),
		},
		TLSRequireOverride: p.Chance(1, 3),
		DontTraceSender:    p.Chance(1, 4),
		Conn: &module.ConnState{
			Proto:        "ESMTPSA",
			Hostname:     "client.example.org",
			AuthUser:     canaryUser,
			AuthPassword: canaryPass,
		},
	}
	if p.Chance(1, 4) {
		// the submission pipeline replaced the sender: reports are generated because OriginalFrom
		// is not null and go to the effective sender
		sc.meta.OriginalFrom = "as-typed-" + word(p, 3) + "@client.example"
	}
	if p.Bool() {
		sc.meta.SMTPOpts.EnvelopeID = "ENV" + word(p, 6)
	}
	if p.Chance(3, 4) {
		sc.origRcpts = map[string]string{}
		sc.meta.OriginalRcpts = map[string]string{}
		shared := "list-" + word(p, 3) + "@client.example"
		for _, r := range sc.rcpts {
			switch p.Intn(4) {
			case 0:
			case 1:
				sc.origRcpts[r] = shared // an alias that expanded to several recipients
			default:
				sc.origRcpts[r] = "orig-" + word(p, 4) + "@client.example"
			}
		}
		for k, v := range sc.origRcpts {
			sc.meta.OriginalRcpts[k] = v
		}
	}
	sc.partial = p.Chance(2, 3)
	sc.variant = p.Intn(3)
	sc.lateFill = p.Chance(1, 3)

	// ---- history ----
	nFail := p.Range(1, 3)
	pending := append([]string(nil), sc.rcpts...)
	for a := 1; a <= nFail; a++ {
		roles, stages, whole := map[string]string{}, map[string]string{}, ""
		perRcpt := a == 1 || (len(pending) >= 2 && p.Chance(2, 3))
		switch {
		case perRcpt && len(pending) >= 2:
			// one permanent, one temporary, the others anything
			o := p.Perm(len(pending))
			for k, j := range o {
				switch {
				case k == 0:
					roles[pending[j]] = "perm"
				case k == 1:
					roles[pending[j]] = "temp"
				default:
					roles[pending[j]] = prng.Pick(p, []string{"ok", "temp", "perm", "temp"})
				}
			}
		case p.Bool():
			for _, r := range pending {
				roles[r] = "temp"
			}
		default:
			whole = prng.Pick(p, []string{mx.StStart, mx.StBody, mx.StCommit})
			for _, r := range pending {
				roles[r] = "temp"
			}
		}
		var next []string
		for _, r := range pending {
			if roles[r] != "ok" {
				stages[r] = mx.StRcpt
				if sc.partial && p.Bool() {
					stages[r] = mx.StStatus
				}
			}
			if roles[r] == "temp" {
				next = append(next, r)
			}
		}
		sc.roles, sc.stages, sc.whole = append(sc.roles, roles), append(sc.stages, stages), append(sc.whole, whole)
		if p.Bool() {
			sc.restart[a] = true
		}
		pending = next
	}

	// ---- bounce configuration ----
	sc.form = prng.Pick(p, []string{bfGlobal, bfGlobal, bfGlobal, bfDest, bfDest, bfSource, bfSource, bfReroute, bfPipe, bfSink, bfNone})
	sc.table = prng.Pick(p, []string{"static", "static", "regexp", "memtable"})
	sc.senderMod = p.Chance(1, 5)
	var stillPending, failed []string
	for _, r := range sc.rcpts {
		switch sc.roles[0][r] {
		case "temp":
			stillPending = append(stillPending, r)
		case "perm":
			failed = append(failed, r)
		}
	}
	var okeys, ovals []string
	for k, v := range sc.origRcpts {
		okeys = append(okeys, k)
		ovals = append(ovals, v)
	}
	sort.Strings(okeys)
	sort.Strings(ovals)
	nt := 1
	if p.Chance(1, 4) {
		nt = 2
	}
	for len(sc.targets) < nt {
		kind := prng.Pick(p, []string{"pending-rcpt", "pending-rcpt", "pending-rcpt", "orig-key", "orig-key", "fresh", "fresh", "failed-rcpt", "orig-value"})
		var t string
		switch kind {
		case "pending-rcpt":
			t = prng.Pick(p, stillPending)
		case "failed-rcpt":
			t = prng.Pick(p, failed)
		case "orig-key":
			if len(okeys) == 0 {
				continue
			}
			t = prng.Pick(p, okeys)
		case "orig-value":
			if len(ovals) == 0 {
				continue
			}
			t = prng.Pick(p, ovals)
		default:
			t = prng.Pick(p, bounceFresh)
		}
		dup := false
		for _, x := range sc.targets {
			dup = dup || x == t
		}
		if dup {
			continue
		}
		sc.targets = append(sc.targets, t)
		sc.targetKinds = append(sc.targetKinds, kind)
	}
	if p.Chance(1, 6) {
		sc.sinkFail = prng.Pick(p, []string{mx.StStart, mx.StRcpt, mx.StBody, mx.StCommit})
		sc.sinkClass = prng.Pick(p, []string{mx.Temp, mx.Perm})
	}
	return sc
}

func (sc *bounceScenario) rewrites() bool {
	switch sc.form {
	case bfGlobal, bfSource, bfDest, bfReroute:
		return true
	}
	return false
}

// modLines renders the modifier directives of the bounce pipeline.
func (sc *bounceScenario) modLines(tblName string) string {
	var qs []string
	for _, t := range sc.targets {
		qs = append(qs, cfgQuote(t))
	}
	key, err := address.ForLookup(sc.from)
	if err != nil {
		key = sc.from
	}
	var s string
	switch sc.table {
	case "static":
		s = "replace_rcpt static {\n entry " + cfgQuote(key) + " " + strings.Join(qs, " ") + "\n}\n"
	case "regexp":
		s = "replace_rcpt regexp \".+\" " + strings.Join(qs, " ") + "\n"
	default:
		s = "replace_rcpt &" + tblName + "\n"
	}
	if sc.senderMod {
		s += "replace_sender static {\n entry nobody@nowhere.invalid somebody@nowhere.invalid\n}\n"
	}
	return s
}

func (sc *bounceScenario) pipelineText(sink, tblName string) string {
	mod := "modify {\n" + sc.modLines(tblName) + "}\n"
	to := "deliver_to &" + sink + "\n"
	switch sc.form {
	case bfPipe:
		return to
	case bfGlobal:
		return mod + to
	case bfSource:
		return "default_source {\n" + mod + to + "}\n"
	case bfDest:
		return "default_destination {\n" + mod + to + "}\n"
	case bfReroute:
		return mod + "reroute {\n" + to + "}\n"
	}
	panic("form " + sc.form)
}

func bounceCases(t *testing.T, r *rep.Reporter, sc *scanner) {
	n := r.N(400, 3000)
	for k := 0; k < n; k++ {
		i := bounceBase + k
		r.Run(i, fmt.Sprintf("bounce-%d", k), func(c *rep.Case) {
			p := prng.New(r.Seed(), uint64(i), "c10-bounce")
			base, err := os.MkdirTemp("", "c10b")
			if err != nil {
				t.Fatal(err)
			}
			defer os.RemoveAll(base)
			spool := filepath.Join(base, "spool")
			os.Mkdir(spool, 0o700)
			sc.mu.Lock()
			sc.dir = spool
			sc.hits = nil
			sc.mu.Unlock()
			defer func() {
				sc.mu.Lock()
				sc.dir = ""
				sc.mu.Unlock()
			}()

			rawHdr, hfeats := genHeader(p)
			hdr, err := textproto.ReadHeader(bufio.NewReader(bytes.NewReader(append(append([]byte{}, rawHdr...), '\r', '\n'))))
			if err != nil {
				r.Count("generated_headers_rejected_by_parser", 1)
				c.Done("rejected-header", false)
				return
			}
			var want bytes.Buffer
			textproto.WriteHeader(&want, hdr)
			wantHdr := want.Bytes()
			// (the >1 MiB file-backed body is the main group's: it only makes the canary scan slow here)
			bk := p.Intn(8)
			if bk == 3 {
				bk = 1
			}
			body, wantBody, bodyKind := genBodyKind(p, base, bk)
			id := fmt.Sprintf("c10b%d", k)
			bs := genBounce(p, id)

			lg := mx.NewLog()
			tgt := mx.NewTarget("down", lg)
			tgt.Partial = bs.partial
			tgt.Script = func(pt mx.Point) error {
				a := pt.Attempt
				if a < 1 || a > len(bs.roles) {
					return nil
				}
				if w := bs.whole[a-1]; w != "" {
					if pt.Stage == w {
						return mx.MakeErr(mx.Temp, bs.variant, "c10 whole attempt")
					}
					return nil
				}
				if pt.Stage != mx.StRcpt && pt.Stage != mx.StStatus {
					return nil
				}
				if bs.stages[a-1][pt.Rcpt] != pt.Stage {
					return nil
				}
				switch bs.roles[a-1][pt.Rcpt] {
				case "temp":
					return mx.MakeErr(mx.Temp, bs.variant, "c10")
				case "perm":
					return mx.MakeErr(mx.Perm, bs.variant, "c10")
				}
				return nil
			}
			tgt.Hook = func(pt mx.Point) {
				if pt.Stage == mx.StStart || pt.Stage == mx.StCommit || pt.Stage == mx.StAbort {
					sc.scan("downstream " + pt.Stage)
				}
			}

			// ---- bounce target ----
			var bounce module.DeliveryTarget
			sinkName := fmt.Sprintf("c10sink-%d-%d", r.Seed(), i)
			sink := mx.NewTarget(sinkName, lg)
			sink.Partial = p.Bool()
			sink.Script = func(pt mx.Point) error {
				if bs.sinkFail != "" && pt.Stage == bs.sinkFail {
					return mx.MakeErr(bs.sinkClass, bs.variant, "c10 report sink")
				}
				return nil
			}
			sink.Hook = func(pt mx.Point) {
				if pt.Stage == mx.StStart || pt.Stage == mx.StCommit {
					sc.scan("report sink " + pt.Stage)
				}
			}
			switch bs.form {
			case bfNone:
			case bfSink:
				bounce = sink
			default:
				mx.RegisterInstance(sink)
				tblName := fmt.Sprintf("c10tbl-%d-%d", r.Seed(), i)
				if bs.table == "memtable" && bs.rewrites() {
					tbl := mx.NewTable(tblName)
					key, err := address.ForLookup(bs.from)
					if err != nil {
						key = bs.from
					}
					tbl.M[key] = append([]string(nil), bs.targets...)
					mx.RegisterInstance(tbl)
				}
				text := bs.pipelineText(sinkName, tblName)
				pl, err := mx.BuildPipeline(text, nil)
				if err != nil {
					t.Fatalf("case %s: bounce pipeline does not build: %v\n%s", c.ID, err, text)
				}
				pl.Hostname = "mx.example.org"
				bounce = pl
			}

			// ---- the history: every incarnation of the queue makes attempts until the next restart point ----
			var restartPts []int
			for a := range bs.restart {
				restartPts = append(restartPts, a)
			}
			sort.Ints(restartPts)
			closedAttempts := func() int {
				cnt := 0
				for _, e := range lg.Events() {
					if e.Target != "down" {
						continue
					}
					if e.Kind == "commit" || e.Kind == "abort" || (e.Kind == "start" && e.Class != mx.OK) {
						cnt++
					}
				}
				return cnt
			}
			newQ := func(holdAt int) *queue.Queue {
				// The delay before the next attempt is InitialRetryTime * Duration(RetryTimeScale^(tries-1)):
				// negligible below holdAt tries, an hour at holdAt (the queue is closed long before).
				o := queue.VerifOpts{Dir: spool, Target: tgt, Bounce: bounce, MaxTries: 6, Hostname: "mx.example.org", AutogenMsgDomain: "example.org"}
				switch holdAt {
				case 0:
					o.InitialRetryTime, o.RetryTimeScale = 0, 1
				case 1:
					o.InitialRetryTime, o.RetryTimeScale = time.Hour, 1
				case 2:
					o.InitialRetryTime, o.RetryTimeScale = 1, 3.6e12
				default:
					o.InitialRetryTime, o.RetryTimeScale = 1, 1.9e6
				}
				q, err := queue.VerifNewQueue(o)
				if err != nil {
					t.Fatal(err)
				}
				return q
			}
			nextHold := func(done int) int {
				for _, a := range restartPts {
					if a > done {
						return a
					}
				}
				return 0
			}
			hold := nextHold(0)
			q := newQ(hold)
			ctx := context.Background()
			meta := bs.meta
			if bs.lateFill {
				meta.TLSRequireOverride = false
				meta.OriginalRcpts = nil
			}
			d, err := q.Start(ctx, &meta, bs.from)
			if err != nil {
				t.Fatal(err)
			}
			for _, rc := range bs.rcpts {
				if bs.lateFill {
					if o, ok := bs.origRcpts[rc]; ok {
						if meta.OriginalRcpts == nil {
							meta.OriginalRcpts = map[string]string{}
						}
						meta.OriginalRcpts[rc] = o
					}
				}
				if err := d.AddRcpt(ctx, rc, smtp.RcptOptions{}); err != nil {
					t.Fatal(err)
				}
			}
			if bs.lateFill {
				meta.TLSRequireOverride = bs.meta.TLSRequireOverride
			}
			if err := d.Body(ctx, hdr, body); err != nil {
				c.Inconclusive("queue refused the body: " + err.Error())
				q.Close()
				return
			}
			if err := d.Commit(ctx); err != nil {
				t.Fatal(err)
			}
			var restartSeq []int // log length at every restart
			ok := true
			for ok {
				if hold == 0 {
					ok = waitEmpty(spool, 30*time.Second)
					q.Close()
					break
				}
				deadline := time.Now().Add(30 * time.Second)
				for closedAttempts() < hold {
					if time.Now().After(deadline) {
						ok = false
						break
					}
					time.Sleep(300 * time.Microsecond)
				}
				q.Close() // waits for the attempt's bookkeeping, the report included
				sc.scan("after Close")
				restartSeq = append(restartSeq, lg.Len())
				if !ok {
					break
				}
				hold = nextHold(hold)
				q = newQ(hold)
			}
			sc.scan("quiescence")
			if !ok {
				c.Inconclusive("spool did not drain / attempt did not finish within the watchdog (failure-report history)")
				return
			}

			// ---- oracle ----
			events := lg.Events()
			startSeq := map[int]int{}
			for _, e := range events {
				if e.Kind == "start" {
					startSeq[e.Delivery] = e.Seq
				}
			}
			env := envelope{from: bs.from, rcpts: bs.rcpts, meta: bs.meta, origRcpts: bs.origRcpts}
			histName := "failure-report"
			wit := func() map[string]any {
				return map[string]any{
					"history": histName, "sender": bs.from, "rcpts": bs.rcpts, "accepted_original_rcpts": bs.origRcpts,
					"roles_per_attempt": bs.roles, "whole_attempt_failures": bs.whole, "restart_after_attempts": restartPts,
					"bounce_form": bs.form, "table": bs.table, "rewrite_targets": bs.targets, "rewrite_target_kinds": bs.targetKinds,
					"report_sink_failure": bs.sinkFail + "/" + bs.sinkClass, "log": lg.Strings(80),
				}
			}
			pending := map[string]bool{}
			for _, rc := range bs.rcpts {
				pending[rc] = true
			}
			attempts, reports, reportSeq, reportIncarn := 0, 0, 0, -1
			rewritten := false
			incarnOf := func(seq int) int {
				k := 0
				for _, s := range restartSeq {
					if seq > s {
						k++
					}
				}
				return k
			}
			for _, s := range mx.Summaries(events) {
				if s.Target != "down" {
					// a report on its way to the sink (not judged here: its content is another property's)
					reports++
					if reportSeq == 0 {
						reportSeq = startSeq[s.Delivery]
						reportIncarn = incarnOf(reportSeq)
					}
					offered := append([]string(nil), s.Accepted...)
					for rc := range s.Refused {
						offered = append(offered, rc)
					}
					for _, rc := range offered {
						if rc != bs.from {
							rewritten = true
						}
					}
					continue
				}
				attempts++
				pre := ""
				if reportSeq != 0 {
					pre = "after-report/"
				}
				where := fmt.Sprintf("attempt %d", attempts)
				if reportSeq != 0 {
					where += fmt.Sprintf(" (after %d failure report(s) were generated for this message)", reports)
				}
				if mx.AttemptKey(s.MsgID) != id && s.MsgID != id {
					c.Violation(pre+"unknown-message", fmt.Sprintf("%s: delivery started for message id %q, the queue accepted %q", where, s.MsgID, id), wit())
				}
				if s.From != bs.from {
					c.Violation(pre+"envelope/sender", fmt.Sprintf("%s: downstream saw sender %q, queue accepted %q", where, s.From, bs.from), wit())
				}
				offered := map[string]int{}
				for _, rc := range s.Accepted {
					offered[rc]++
				}
				for rc := range s.Refused {
					offered[rc]++
				}
				if s.StartClass == mx.OK {
					for rc := range pending {
						if offered[rc] == 0 {
							c.Violation(pre+"envelope/pending-recipient-missing", fmt.Sprintf("%s: pending recipient %q was not offered to the downstream", where, rc), wit())
						}
					}
					for rc, cnt := range offered {
						if !pending[rc] {
							c.Violation(pre+"envelope/non-pending-recipient", fmt.Sprintf("%s: recipient %q offered although not pending", where, rc), wit())
						}
						if cnt > 1 {
							c.Violation(pre+"envelope/recipient-offered-twice", fmt.Sprintf("%s: recipient %q offered %d times in one attempt", where, rc, cnt), wit())
						}
					}
				}
				if s.StartMeta != nil {
					checkMetaSig(c, pre, where+" (Start)", s.StartMeta, env, wit)
					r.Count("bounce_unjudged_flag_differences", int64(otherFlagDiffs(s.StartMeta, &bs.meta)))
				}
				if s.BodyKind != "" {
					if !bytes.Equal(s.Header, wantHdr) {
						c.Violation(pre+"bytes/header", fmt.Sprintf("%s: header differs from the accepted one (accepted %d bytes, downstream %d bytes; first difference at %d)", where, len(wantHdr), len(s.Header), firstDiff(s.Header, wantHdr)), wit())
					}
					if !bytes.Equal(s.Body, wantBody) {
						c.Violation(pre+"bytes/body", fmt.Sprintf("%s: body differs from the accepted one (accepted %d bytes, downstream %d bytes; first difference at %d)", where, len(wantBody), len(s.Body), firstDiff(s.Body, wantBody)), wit())
					}
					if s.BodyMeta != nil {
						checkMetaSig(c, pre, where+" (Body)", s.BodyMeta, env, wit)
					}
				}
				r.Count("bounce_attempts_checked", 1)
				if reportSeq != 0 {
					r.Count("bounce_attempts_after_report", 1)
					if rewritten {
						r.Count("bounce_attempts_after_rewritten_report", 1)
					}
					if incarnOf(startSeq[s.Delivery]) > reportIncarn {
						r.Count("bounce_attempts_after_report_and_restart", 1)
					} else {
						r.Count("bounce_attempts_after_report_same_process", 1)
					}
				}
				// who is still pending after this attempt: delivered and permanently failed recipients are not
				if s.StartClass != mx.OK {
					continue
				}
				for rc, cls := range s.Refused {
					if cls == mx.Perm {
						delete(pending, rc)
					}
				}
				for _, rc := range s.Accepted {
					switch {
					case s.BodyKind == "":
					case s.BodyClass == mx.Perm || s.Status[rc] == mx.Perm:
						delete(pending, rc)
					case s.DeliveredTo(rc):
						delete(pending, rc)
					}
				}
			}
			sc.mu.Lock()
			hits := append([]string(nil), sc.hits...)
			sc.hits = nil
			steps := sc.steps
			sc.steps = 0
			sc.mu.Unlock()
			r.Count("fs_steps_scanned", steps)
			for _, h := range hits {
				c.Violation("secrets/credential-in-spool", h, wit())
				break
			}

			r.Count("bounce_histories", 1)
			r.Count("bounce_reports_emitted", int64(reports))
			if reports >= 2 {
				r.Count("bounce_histories_with_two_reports", 1)
			}
			if rewritten {
				r.Count("bounce_histories_report_rcpt_rewritten", 1)
				for _, k := range bs.targetKinds {
					r.Count("bounce_rewrite_to_"+strings.ReplaceAll(k, "-", "_"), 1)
				}
				r.Count("bounce_table_"+bs.table, 1)
				for _, t := range bs.targets {
					if _, ok := bs.origRcpts[t]; ok {
						r.Count("bounce_rewrite_hits_existing_orig_key", 1)
						break
					}
				}
			}
			if bs.sinkFail != "" && reports > 0 {
				r.Count("bounce_report_sink_failures", 1)
			}
			if len(restartPts) > 0 {
				r.Count("bounce_histories_with_restart", 1)
			}
			r.Count("bounce_form_"+strings.ReplaceAll(bs.form, "-", "_"), 1)
			r.Distinct("bounce_form", bs.form+"/"+bs.table)
			r.Count("attempts", int64(attempts))
			if k < 2 {
				r.Sample(map[string]any{"history": histName, "sender": bs.from, "rcpts": bs.rcpts, "roles": bs.roles, "restart_after": restartPts, "bounce_form": bs.form, "rewrite_targets": bs.targets, "reports": reports, "attempts": attempts})
			}
			c.Done(fmt.Sprintf("failure-report|%s|%s|%s|restarts=%v|fails=%d|%s|%s|partial=%v|sinkfail=%s", bs.form, bs.table, strings.Join(bs.targetKinds, ","), restartPts, len(bs.roles), featKey(hfeats), bodyKind, bs.partial, bs.sinkFail), true)
		})
	}
}

// otherFlagDiffs counts differences in handling flags the statement does not
// list (not judged; evidence only).
func otherFlagDiffs(m *mx.MetaSnap, acc *module.MsgMetadata) int {
	n := 0
	if m.DontTraceSender != acc.DontTraceSender {
		n++
	}
	if m.Quarantine != acc.Quarantine {
		n++
	}
	if m.EnvID != acc.SMTPOpts.EnvelopeID {
		n++
	}
	return n
}
