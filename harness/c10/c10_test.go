//go:build verif

// C10 — the spool preserves message bytes and envelope, and never stores credentials.
package c10

import (
	"bufio"
	"bytes"
	"context"
	"fmt"
	"os"
	"path/filepath"
	"sort"
	"strings"
	"sync"
	"testing"
	"time"

	"github.com/emersion/go-message/textproto"
	"github.com/emersion/go-smtp"
	"github.com/foxcpp/maddy/framework/buffer"
	"github.com/foxcpp/maddy/framework/module"
	"github.com/foxcpp/maddy/internal/target/queue"
	"github.com/foxcpp/maddy/internal/zzverif/mx"
	"verifkit/osshim"
	"verifkit/prng"
	"verifkit/rep"
)

const (
	canaryUser = "CANARYUSERq7Zx"
	canaryPass = "CANARYPASSw9Ky"
)

// ---------- generators ----------

var fieldNames = []string{"Subject", "X-Verif", "Received", "From", "To", "Cc", "Message-Id", "Date", "DKIM-Signature", "TLS-Required", "X-Empty", "Content-Type", "x-lower-case", "X-UPPER"}

func genHeader(p *prng.R) (raw []byte, feats map[string]bool) {
	feats = map[string]bool{}
	var b bytes.Buffer
	n := p.Range(0, 8)
	if n == 0 {
		feats["hdr-empty"] = true
	}
	eol := "\r\n"
	if p.Chance(1, 10) {
		eol = "\n"
		feats["hdr-bare-lf"] = true
	}
	used := map[string]bool{}
	if p.Chance(1, 12) {
		// header well beyond 64 KiB (the endpoint accepts up to max_header_size, 1 MiB by default)
		feats["hdr-huge"] = true
		total := p.Range(70, 400) * 1024
		for b.Len() < total {
			b.WriteString(prng.Pick(p, []string{"X-Bulk", "Received", "X-Spam-Report", "References"}))
			b.WriteString(": ")
			for j := 0; j < p.Range(3, 12); j++ {
				if j > 0 {
					b.WriteString(eol + " ")
				}
				b.WriteString(word(p, p.Range(20, 900)))
			}
			b.WriteString(eol)
		}
	}
	for i := 0; i < n; i++ {
		name := prng.Pick(p, fieldNames)
		if used[name] {
			feats["hdr-dup"] = true
		}
		used[name] = true
		b.WriteString(name)
		b.WriteString(":")
		switch p.Intn(8) {
		case 0: // empty value
			feats["hdr-emptyval"] = true
		case 1: // folded several times
			feats["hdr-folded"] = true
			parts := p.Range(2, 5)
			for j := 0; j < parts; j++ {
				if j > 0 {
					b.WriteString(eol)
					b.WriteString(prng.Pick(p, []string{" ", "\t", "  \t "}))
				} else {
					b.WriteString(" ")
				}
				b.WriteString(word(p, p.Range(1, 30)))
			}
		case 2: // 8-bit / UTF-8
			feats["hdr-8bit"] = true
			b.WriteString(" ")
			b.WriteString(prng.Pick(p, []string{"тест привет", "naïve café", "日本語 テスト", "\xe9\xe8 latin1 bytes \xff", "mixed \xc3\x28 broken"}))
		case 3: // long value
			feats["hdr-long"] = true
			b.WriteString(" ")
			b.WriteString(word(p, p.Range(900, 1200)))
		case 4: // very long value with spaces
			feats["hdr-verylong"] = true
			b.WriteString(" ")
			for j := 0; j < p.Range(50, 200); j++ {
				b.WriteString(word(p, p.Range(1, 80)))
				b.WriteString(" ")
			}
		case 5: // leading / trailing whitespace
			feats["hdr-ws"] = true
			b.WriteString("   \t" + word(p, 5) + "  \t ")
		case 6: // no space after colon
			feats["hdr-nospace"] = true
			b.WriteString(word(p, 8))
		default:
			b.WriteString(" ")
			b.WriteString(word(p, p.Range(1, 40)))
		}
		b.WriteString(eol)
	}
	return b.Bytes(), feats
}

func word(p *prng.R, n int) string {
	const al = "abcdefghijklmnopqrstuvwxyzABCDEFGHIJKLMNOPQRSTUVWXYZ0123456789<>@.=;,\"()-_/+"
	bs := make([]byte, n)
	for i := range bs {
		bs[i] = al[p.Intn(len(al))]
	}
	return string(bs)
}

func genBody(p *prng.R, dir string) (buffer.Buffer, []byte, string) {
	return genBodyKind(p, dir, p.Intn(8))
}

func genBodyKind(p *prng.R, dir string, kind int) (buffer.Buffer, []byte, string) {
	switch kind {
	case 0:
		return buffer.MemoryBuffer{Slice: []byte{}}, []byte{}, "body-empty"
	case 1:
		b := p.Bytes(p.Range(1, 4096))
		return buffer.MemoryBuffer{Slice: b}, b, "body-binary"
	case 2:
		var sb bytes.Buffer
		for i := 0; i < p.Range(1, 40); i++ {
			sb.WriteString(prng.Pick(p, []string{".leading dot", "..two dots", "line with trailing space   ", "", "\ttab", "plain line", ".", "x"}))
			sb.WriteString("\r\n")
		}
		for i := 0; i < p.Intn(4); i++ {
			sb.WriteString("\r\n")
		}
		return buffer.MemoryBuffer{Slice: sb.Bytes()}, sb.Bytes(), "body-text-dots"
	case 3:
		// large, file backed (what the endpoint uses beyond its memory limit)
		n := (1 << 20) + p.Range(1, 300000)
		b := p.Bytes(n)
		path := filepath.Join(dir, "incoming-body")
		if err := os.WriteFile(path, b, 0o600); err != nil {
			panic(err)
		}
		return buffer.FileBuffer{Path: path, LenHint: n}, b, "body-file-1MiB"
	case 4:
		b := []byte("no trailing newline")
		return buffer.MemoryBuffer{Slice: b}, b, "body-no-eol"
	case 5:
		b := bytes.Repeat([]byte("\n"), p.Range(1, 50))
		return buffer.MemoryBuffer{Slice: b}, b, "body-bare-lf"
	default:
		var sb bytes.Buffer
		for i := 0; i < p.Range(1, 200); i++ {
			sb.WriteString(word(p, p.Range(0, 120)))
			sb.WriteString("\r\n")
		}
		return buffer.MemoryBuffer{Slice: sb.Bytes()}, sb.Bytes(), "body-text"
	}
}

var senders = []string{"", "alice@example.org", "юзер@пример.рф", "\"quoted local\"@example.org", "\"a@b\"@example.org", "MiXeD@Example.ORG", "bob+tag@xn--e1aybc.example", "postmaster"}
var rcptPool = []string{"rcpt1@example.com", "получатель@пример.рф", "\"quoted rcpt\"@example.net", "rcpt2@sub.example.com", "R3@EXAMPLE.com", "x@xn--bcher-kva.example", "postmaster"}

type envelope struct {
	from      string
	rcpts     []string // as handed to the queue, in order (may hold spelling variants and byte-identical repetitions)
	base      []string // the recipients drawn from the main stream (no variants)
	varKinds  map[string]bool
	meta      module.MsgMetadata
	origRcpts map[string]string
	feats     map[string]bool
}

func genEnvelope(p, pv *prng.R, id string) envelope {
	e := envelope{feats: map[string]bool{}}
	e.from = prng.Pick(p, senders)
	if e.from == "" {
		e.feats["null-sender"] = true
	}
	if strings.Contains(e.from, "\"") {
		e.feats["quoted-sender"] = true
	}
	if !isASCII(e.from) {
		e.feats["idn-sender"] = true
	}
	perm := p.Perm(len(rcptPool))
	n := p.Range(1, 3)
	for i := 0; i < n; i++ {
		e.rcpts = append(e.rcpts, rcptPool[perm[i]])
		if !isASCII(rcptPool[perm[i]]) {
			e.feats["idn-rcpt"] = true
		}
	}
	e.meta = module.MsgMetadata{
		ID:           id,
		OriginalFrom: e.from,
		SMTPOpts: smtp.MailOptions{
			UTF8:       p.Bool(),
			RequireTLS: p.Chance(1, 3),
		},
		TLSRequireOverride: p.Chance(1, 3),
		DontTraceSender:    p.Chance(1, 4),
		Conn: &module.ConnState{
			Proto:        "ESMTPSA",
			Hostname:     "client.example.org",
			AuthUser:     canaryUser,
			AuthPassword: canaryPass,
		},
	}
	if p.Bool() {
		e.meta.SMTPOpts.EnvelopeID = "ENV" + word(p, 6)
		e.feats["envid"] = true
	}
	if e.meta.SMTPOpts.UTF8 {
		e.feats["utf8"] = true
	}
	if e.meta.SMTPOpts.RequireTLS {
		e.feats["requiretls"] = true
	}
	if e.meta.TLSRequireOverride {
		e.feats["tls-override"] = true
	}
	if p.Bool() {
		e.origRcpts = map[string]string{}
		for _, r := range e.rcpts {
			if p.Bool() {
				e.origRcpts[r] = "orig-" + word(p, 4) + "@client.example"
			}
		}
		e.meta.OriginalRcpts = map[string]string{}
		for k, v := range e.origRcpts {
			e.meta.OriginalRcpts[k] = v
		}
		e.feats["orig-rcpts"] = true
	}
	// Spelling variants of recipients of the same message (separate stream: the draws above are unchanged).
	e.base = append([]string(nil), e.rcpts...)
	if pv.Chance(2, 5) {
		v := addRcptVariants(pv, e.base)
		e.rcpts = v.rcpts
		e.varKinds = v.kinds
		for k := range v.kinds {
			e.feats["rcptvar-"+k] = true
		}
		if e.origRcpts != nil {
			for _, r := range v.added {
				if pv.Bool() {
					o := "orig-" + word(pv, 4) + "@client.example"
					e.origRcpts[r] = o
					e.meta.OriginalRcpts[r] = o
				}
			}
		}
		for _, r := range v.added {
			if !isASCII(r) {
				e.feats["idn-rcpt"] = true
			}
		}
	}
	return e
}

func isASCII(s string) bool {
	for i := 0; i < len(s); i++ {
		if s[i] >= 0x80 {
			return false
		}
	}
	return true
}

func featKey(ms ...map[string]bool) string {
	var ks []string
	for _, m := range ms {
		for k := range m {
			ks = append(ks, k)
		}
	}
	sort.Strings(ks)
	return strings.Join(ks, "+")
}

// ---------- spool scanning ----------

type scanner struct {
	mu    sync.Mutex
	dir   string
	hits  []string
	steps int64
}

func (s *scanner) scan(where string) {
	s.mu.Lock()
	dir := s.dir
	s.mu.Unlock()
	if dir == "" {
		return
	}
	es, err := os.ReadDir(dir)
	if err != nil {
		return
	}
	for _, e := range es {
		if e.IsDir() {
			continue
		}
		b, err := os.ReadFile(filepath.Join(dir, e.Name()))
		if err != nil {
			continue
		}
		for _, c := range []string{canaryUser, canaryPass} {
			if bytes.Contains(b, []byte(c)) {
				s.mu.Lock()
				if len(s.hits) < 5 {
					s.hits = append(s.hits, fmt.Sprintf("%s: file %s contains %s", where, e.Name(), c))
				}
				s.mu.Unlock()
			}
		}
	}
	s.mu.Lock()
	s.steps++
	s.mu.Unlock()
}

func waitEmpty(dir string, d time.Duration) bool {
	deadline := time.Now().Add(d)
	for {
		es, err := os.ReadDir(dir)
		if err == nil && len(es) == 0 {
			return true
		}
		if time.Now().After(deadline) {
			return false
		}
		time.Sleep(500 * time.Microsecond)
	}
}

const (
	hOK = iota
	hRetry
	hRestartBeforeRetry
	hTwoRestarts
	hRestartPartial
	nHist
)

var histNames = []string{"first-ok", "temp-then-retry", "temp-restart-retry", "temp-restart-temp-retry", "partial-restart"}

func TestVerif(t *testing.T) {
	r := rep.Open("C10")
	defer r.Close()
	queue.VerifSetDontRecover(false)
	sc := &scanner{}
	sn := &snapper{}
	ms := &metaSnapper{}
	osshim.SetRecorder(osshim.RecorderFunc(func(op osshim.Op) {
		sc.scan("fs-step " + op.Kind + "/" + op.Phase)
		sn.op(op)
		ms.op(op)
	}))
	defer osshim.SetRecorder(nil)

	bounceCases(t, r, sc)
	metaCrashCases(t, r, sc, ms)
	badUTF8Cases(t, r)

	n := r.N(1200, 16000)
	for i := 0; i < n; i++ {
		r.Run(i, fmt.Sprintf("msg-%d", i), func(c *rep.Case) {
			p := prng.New(r.Seed(), uint64(i), "c10")
			base, err := os.MkdirTemp("", "c10")
			if err != nil {
				t.Fatal(err)
			}
			defer os.RemoveAll(base)
			spool := filepath.Join(base, "spool")
			os.Mkdir(spool, 0o700)
			sc.mu.Lock()
			sc.dir = spool
			sc.hits = nil
			sc.mu.Unlock()
			defer func() {
				sc.mu.Lock()
				sc.dir = ""
				sc.mu.Unlock()
			}()

			rawHdr, hfeats := genHeader(p)
			hdr, err := textproto.ReadHeader(bufio.NewReader(bytes.NewReader(append(append([]byte{}, rawHdr...), '\r', '\n'))))
			if err != nil {
				r.Count("generated_headers_rejected_by_parser", 1)
				c.Done("rejected-header", false)
				return
			}
			var want bytes.Buffer
			textproto.WriteHeader(&want, hdr)
			wantHdr := want.Bytes()
			body, wantBody, bodyKind := genBody(p, base)
			id := fmt.Sprintf("c10m%d", i)
			pv := prng.New(r.Seed(), uint64(i), "c10-rcptvar")
			env := genEnvelope(p, pv, id)
			hist := p.Intn(nHist)
			partial := p.Bool() || hist == hRestartPartial

			lg := mx.NewLog()
			tgt := mx.NewTarget("down", lg)
			tgt.Partial = partial
			// which attempts fail, and how
			failAttempts := map[int]bool{}
			switch hist {
			case hRetry, hRestartBeforeRetry, hRestartPartial:
				failAttempts[1] = true
			case hTwoRestarts:
				failAttempts[1] = true
				failAttempts[2] = true
			}
			failStage := prng.Pick(p, []string{mx.StStart, mx.StRcpt, mx.StBody, mx.StCommit})
			if hist == hRestartPartial {
				failStage = mx.StStatus
			}
			failSubset := map[string]bool{} // for StStatus: which recipients fail
			if hist == hRestartPartial {
				for j, rc := range env.base {
					if j == 0 || p.Bool() {
						failSubset[rc] = true
					}
				}
				isBase := map[string]bool{}
				for _, rc := range env.base {
					isBase[rc] = true
				}
				for _, rc := range env.rcpts {
					// a spelling variant fails or succeeds on its own
					if !isBase[rc] && pv.Bool() {
						failSubset[rc] = true
					}
				}
			}
			variant := p.Intn(3)
			// attempts are numbered per queue-assigned message id; the queue appends "-<hex time>".
			var amu sync.Mutex
			attemptNo := 0
			tgt.Script = func(pt mx.Point) error {
				amu.Lock()
				if pt.Stage == mx.StStart {
					attemptNo++
				}
				a := attemptNo
				amu.Unlock()
				if !failAttempts[a] || pt.Stage != failStage {
					return nil
				}
				if failStage == mx.StStatus && !failSubset[pt.Rcpt] {
					return nil
				}
				return mx.MakeErr(mx.Temp, variant, "c10")
			}
			tgt.Hook = func(pt mx.Point) {
				if pt.Stage == mx.StStart || pt.Stage == mx.StCommit || pt.Stage == mx.StAbort {
					sc.scan("downstream " + pt.Stage)
				}
			}

			longRetry := hist == hRestartBeforeRetry || hist == hTwoRestarts || hist == hRestartPartial
			newQ := func(retry time.Duration) *queue.Queue {
				q, err := queue.VerifNewQueue(queue.VerifOpts{Dir: spool, Target: maybeMutating(tgt), MaxTries: 5, InitialRetryTime: retry, RetryTimeScale: 1})
				if err != nil {
					t.Fatal(err)
				}
				return q
			}
			retry1 := time.Duration(0)
			if longRetry {
				retry1 = time.Hour
			}
			// A third of the histories is also stopped at file-system steps (plain process stop) and
			// restarted from there; see crash_test.go. Separate stream.
			pc := prng.New(r.Seed(), uint64(i), "c10-crash")
			crashy := pc.Chance(1, 3)
			if crashy {
				perCls, nPost := 2, 3
				if r.Thorough() {
					perCls, nPost = 4, 6
				}
				sn.arm(spool, id, pc, perCls, nPost)
			}
			disarmed := false
			defer func() {
				if crashy && !disarmed {
					sn.disarm()
				}
			}()
			q := newQ(retry1)
			ctx := context.Background()
			meta := env.meta // the queue keeps the pointer; hand it a private copy
			// The SMTP endpoint and the pipeline fill parts of the shared metadata object only AFTER
			// the target's Start: OriginalRcpts while recipients are added, TLSRequireOverride once the
			// header has been read at DATA time. Half of the cases follow that order.
			lateFill := p.Bool()
			if lateFill {
				meta.TLSRequireOverride = false
				meta.OriginalRcpts = nil
			}
			sn.setPhase(phAccept)
			d, err := q.Start(ctx, &meta, env.from)
			if err != nil {
				t.Fatal(err)
			}
			for _, rc := range env.rcpts {
				if lateFill {
					if o, ok := env.origRcpts[rc]; ok {
						if meta.OriginalRcpts == nil {
							meta.OriginalRcpts = map[string]string{}
						}
						meta.OriginalRcpts[rc] = o
					}
				}
				if err := d.AddRcpt(ctx, rc, smtp.RcptOptions{}); err != nil {
					t.Fatal(err)
				}
			}
			if lateFill {
				meta.TLSRequireOverride = env.meta.TLSRequireOverride
				env.feats["late-fill"] = true
			}
			if err := d.Body(ctx, hdr, body); err != nil {
				c.Inconclusive("queue refused the body: " + err.Error())
				q.Close()
				return
			}
			sc.scan("after Body")
			// Commit itself touches no file; the first attempt may begin before it returns.
			sn.setPhase(phPost)
			if err := d.Commit(ctx); err != nil {
				t.Fatal(err)
			}

			closeKinds := func(n int) bool {
				// wait until n attempts have been closed (commit or abort or failed start)
				deadline := time.Now().Add(20 * time.Second)
				for {
					cnt := 0
					for _, e := range lg.Events() {
						if e.Kind == "commit" || e.Kind == "abort" || (e.Kind == "start" && e.Class != mx.OK) {
							cnt++
						}
					}
					if cnt >= n {
						return true
					}
					if time.Now().After(deadline) {
						return false
					}
					time.Sleep(500 * time.Microsecond)
				}
			}
			ok := true
			switch hist {
			case hOK, hRetry:
				ok = waitEmpty(spool, 20*time.Second)
				q.Close()
			case hRestartBeforeRetry, hRestartPartial, hTwoRestarts:
				ok = closeKinds(1)
				q.Close() // retry is an hour away: the message stays in the spool
				sc.scan("after first Close")
				q = newQ(0)
				ok = ok && waitEmpty(spool, 20*time.Second)
				q.Close()
			}
			sc.scan("quiescence")
			var snaps []*crashSnap
			var snapSteps [3]int
			if crashy {
				var errs []string
				snaps, snapSteps, errs = sn.disarm()
				disarmed = true
				if len(errs) > 0 {
					c.Inconclusive("snapshot of the spool failed: " + errs[0])
					return
				}
			}
			if !ok {
				c.Inconclusive("spool did not drain within the watchdog (history " + histNames[hist] + ")")
				return
			}

			// ---------- oracle ----------
			sums := mx.Summaries(lg.Events())
			pending := map[string]bool{}
			for _, rc := range env.rcpts {
				pending[rc] = true
			}
			attempts := 0
			for _, s := range sums {
				attempts++
				where := fmt.Sprintf("attempt %d", attempts)
				if s.From != env.from {
					c.Violation("envelope/sender", fmt.Sprintf("%s: downstream saw sender %q, queue accepted %q", where, s.From, env.from), witness(lg, env, hist))
				}
				// recipients offered = Accepted + Refused: must equal the pending set
				offered := map[string]int{}
				for _, rc := range s.Accepted {
					offered[rc]++
				}
				for rc := range s.Refused {
					offered[rc]++
				}
				if s.StartClass == mx.OK {
					for rc := range pending {
						if offered[rc] == 0 {
							c.Violation("envelope/pending-recipient-missing", fmt.Sprintf("%s: pending recipient %q was not offered to the downstream", where, rc), witness(lg, env, hist))
						}
					}
					for rc, k := range offered {
						if !pending[rc] {
							c.Violation("envelope/non-pending-recipient", fmt.Sprintf("%s: recipient %q offered although not pending", where, rc), witness(lg, env, hist))
						}
						if k > 1 {
							c.Violation("envelope/recipient-offered-twice", fmt.Sprintf("%s: recipient %q offered %d times in one attempt", where, rc, k), witness(lg, env, hist))
						}
					}
				}
				if s.StartMeta != nil {
					checkMeta(c, where+" (Start)", s.StartMeta, env, lg, hist)
				}
				if s.BodyKind != "" {
					if !bytes.Equal(s.Header, wantHdr) {
						c.Violation("bytes/header/"+histNames[hist], fmt.Sprintf("%s: header differs from the accepted one (accepted %d bytes, downstream %d bytes; first difference at %d)", where, len(wantHdr), len(s.Header), firstDiff(s.Header, wantHdr)), map[string]any{"accepted": string(wantHdr), "seen": string(s.Header), "history": histNames[hist]})
					}
					if !bytes.Equal(s.Body, wantBody) {
						c.Violation("bytes/body/"+bodyKind, fmt.Sprintf("%s: body differs from the accepted one (accepted %d bytes, downstream %d bytes; first difference at %d)", where, len(wantBody), len(s.Body), firstDiff(s.Body, wantBody)), map[string]any{"history": histNames[hist], "body_kind": bodyKind})
					}
					if s.BodyMeta != nil {
						checkMeta(c, where+" (Body)", s.BodyMeta, env, lg, hist)
					}
					r.Count("attempts_checked", 1)
				}
				// recipients delivered in this attempt stop being pending
				for _, rc := range s.Accepted {
					if s.DeliveredTo(rc) {
						delete(pending, rc)
					}
				}
			}
			sc.mu.Lock()
			hits := append([]string(nil), sc.hits...)
			sc.hits = nil
			steps := sc.steps
			sc.steps = 0
			sc.mu.Unlock()
			r.Count("fs_steps_scanned", steps)
			for _, h := range hits {
				c.Violation("secrets/credential-in-spool", h, witness(lg, env, hist))
				break
			}
			// ---------- restarts at non-quiescent points ----------
			if crashy {
				acc := &accepted{env: env, hdr: wantHdr, body: wantBody, bodyKind: bodyKind, partial: partial}
				r.Count("crash_histories", 1)
				r.Count("crash_fs_steps_acceptance", int64(snapSteps[phAccept]))
				r.Count("crash_fs_steps_after_commit", int64(snapSteps[phPost]))
				for k, cs := range snaps {
					n, inc := recoverAndJudge(c, sc, base, k, cs, id, acc)
					if inc != "" {
						c.Inconclusive(inc)
						return
					}
					if cs.phase == phAccept {
						r.Count("crash_restarts_during_acceptance", 1)
						r.Distinct("crash_points_acceptance", cs.file+"/"+cs.kind+"/"+cs.opPhase)
						if n > 0 {
							r.Count("crash_restarts_during_acceptance_delivering", 1)
						}
					} else {
						r.Count("crash_restarts_after_commit", 1)
						if n > 0 {
							r.Count("crash_restarts_after_commit_delivering", 1)
						}
					}
					r.Count("crash_recovery_attempts_checked", int64(n))
				}
				sc.mu.Lock()
				hits = append(hits[:0:0], sc.hits...)
				steps = sc.steps
				sc.steps = 0
				sc.mu.Unlock()
				r.Count("fs_steps_scanned", steps)
				for _, h := range hits {
					c.Violation("secrets/credential-in-spool", h, witness(lg, env, hist))
					break
				}
			}
			if env.varKinds != nil {
				r.Count("rcpt_variant_envelopes", 1)
				for k := range env.varKinds {
					r.Count("rcpt_variant_"+strings.ReplaceAll(k, "-", "_"), 1)
				}
			}
			r.Count("attempts", int64(attempts))
			r.Distinct("history", histNames[hist])
			if i < 3 {
				r.Sample(map[string]any{"history": histNames[hist], "sender": env.from, "rcpts": env.rcpts, "header_bytes": len(wantHdr), "body": bodyKind, "header_features": featKey(hfeats), "attempts": attempts})
			}
			c.Done(histNames[hist]+"|"+featKey(hfeats)+"|"+bodyKind+"|"+featKey(env.feats)+fmt.Sprintf("|partial=%v|%s", partial, failStage), hist != hOK)
		})
	}
}

func firstDiff(a, b []byte) int {
	n := len(a)
	if len(b) < n {
		n = len(b)
	}
	for i := 0; i < n; i++ {
		if a[i] != b[i] {
			return i
		}
	}
	return n
}

func witness(lg *mx.Log, env envelope, hist int) map[string]any {
	return map[string]any{"history": histNames[hist], "sender": env.from, "rcpts": env.rcpts, "log": lg.Strings(60)}
}

func checkMeta(c *rep.Case, where string, m *mx.MetaSnap, env envelope, lg *mx.Log, hist int) {
	checkMetaSig(c, "", where, m, env, func() map[string]any { return witness(lg, env, hist) })
}

func checkMetaSig(c *rep.Case, pre, where string, m *mx.MetaSnap, env envelope, wit func() map[string]any) {
	if m.UTF8 != env.meta.SMTPOpts.UTF8 {
		c.Violation(pre+"meta/smtputf8", fmt.Sprintf("%s: SMTPUTF8 option is %v, accepted with %v", where, m.UTF8, env.meta.SMTPOpts.UTF8), wit())
	}
	if m.RequireTLS != env.meta.SMTPOpts.RequireTLS {
		c.Violation(pre+"meta/requiretls", fmt.Sprintf("%s: REQUIRETLS option is %v, accepted with %v", where, m.RequireTLS, env.meta.SMTPOpts.RequireTLS), wit())
	}
	if m.TLSRequireOverride != env.meta.TLSRequireOverride {
		c.Violation(pre+"meta/tls-required-override", fmt.Sprintf("%s: TLS-Required override is %v, accepted with %v", where, m.TLSRequireOverride, env.meta.TLSRequireOverride), wit())
	}
	if len(m.OriginalRcpts) != len(env.origRcpts) {
		c.Violation(pre+"meta/original-rcpts", fmt.Sprintf("%s: original-recipient map has %d entries, accepted with %d", where, len(m.OriginalRcpts), len(env.origRcpts)), wit())
	} else {
		for k, v := range env.origRcpts {
			if m.OriginalRcpts[k] != v {
				c.Violation(pre+"meta/original-rcpts", fmt.Sprintf("%s: original recipient of %q is %q, accepted with %q", where, k, m.OriginalRcpts[k], v), wit())
			}
		}
	}
	if m.OriginalFrom != env.meta.OriginalFrom {
		c.Violation(pre+"meta/original-from", fmt.Sprintf("%s: OriginalFrom %q, accepted with %q", where, m.OriginalFrom, env.meta.OriginalFrom), wit())
	}
}
