//go:build verif

package c10

import (
	"bufio"
	"bytes"
	"encoding/json"
	"fmt"
	"os"
	"path/filepath"
	"sort"
	"strings"
	"sync"
	"time"

	"github.com/emersion/go-message/textproto"
	"github.com/foxcpp/maddy/internal/target/queue"
	"github.com/foxcpp/maddy/internal/zzverif/mx"
	"verifkit/osshim"
	"verifkit/prng"
	"verifkit/rep"
)

// "After a restart" is not restricted to restarts at quiescent points. For a
// subset of the histories the os-shim recorder keeps plain snapshots (nothing
// unsynced is dropped: a process stop, not a power loss) of the spool at
// file-system steps of the history; afterwards a fresh queue with a recording
// all-ok target is started on every kept snapshot. A process stop while a
// message is being accepted (before Commit returned) leaves the client without
// a positive reply, so the message may or may not come back after the restart -
// but whatever the restarted queue hands downstream has to be, byte for byte and
// field for field, the message that was handed to the queue.

const (
	phOff    = iota
	phAccept // between Queue.Start and the call of Delivery.Commit: only the accepting goroutine touches the spool
	phPost   // Commit called: attempts, metadata rewrites, removal
)

type crashSnap struct {
	phase   int
	idx     int
	kind    string
	file    string // file class: .header .body .meta .meta.new
	opPhase string // before | mid
	n       int
	snap    map[string][]byte
}

func (s *crashSnap) String() string {
	ph := "acceptance"
	if s.phase == phPost {
		ph = "after-commit"
	}
	if s.opPhase == "mid" {
		return fmt.Sprintf("%s: fs step %d, in the middle of %s of %s (%d bytes of it written)", ph, s.idx, s.kind, s.file, s.n)
	}
	return fmt.Sprintf("%s: fs step %d, before %s of %s", ph, s.idx, s.kind, s.file)
}

// snapper is driven from the os-shim recorder callback (the shim holds its
// operation lock: no recorded operation is in flight).
type snapper struct {
	mu     sync.Mutex
	on     bool
	dir    string
	id     string
	phase  int
	ps     *prng.R
	perCls int // reservoir size per (file class, op kind, op phase) during acceptance
	nPost  int // reservoir size for all after-commit steps together
	seen   map[string]int
	kept   map[string][]*crashSnap
	steps  [3]int
	errs   []string
}

func (s *snapper) arm(dir, id string, ps *prng.R, perCls, nPost int) {
	s.mu.Lock()
	defer s.mu.Unlock()
	s.on, s.dir, s.id, s.ps, s.perCls, s.nPost = true, dir, id, ps, perCls, nPost
	s.phase = phOff
	s.seen = map[string]int{}
	s.kept = map[string][]*crashSnap{}
	s.steps = [3]int{}
	s.errs = nil
}

func (s *snapper) setPhase(ph int) {
	s.mu.Lock()
	s.phase = ph
	s.mu.Unlock()
}

func (s *snapper) disarm() (snaps []*crashSnap, steps [3]int, errs []string) {
	s.mu.Lock()
	defer s.mu.Unlock()
	s.on = false
	for _, l := range s.kept {
		snaps = append(snaps, l...)
	}
	sort.Slice(snaps, func(i, j int) bool {
		if snaps[i].idx != snaps[j].idx {
			return snaps[i].idx < snaps[j].idx
		}
		return snaps[i].opPhase < snaps[j].opPhase // before < mid
	})
	s.kept = nil
	return snaps, s.steps, s.errs
}

func fileClass(id, path string) string {
	b := filepath.Base(path)
	if strings.HasPrefix(b, id) {
		return b[len(id):]
	}
	return "other"
}

func (s *snapper) op(op osshim.Op) {
	s.mu.Lock()
	defer s.mu.Unlock()
	if !s.on || s.phase == phOff {
		return
	}
	if !strings.HasPrefix(op.Path, s.dir+string(filepath.Separator)) {
		return
	}
	s.steps[s.phase]++
	cls, size := "post", s.nPost
	if s.phase == phAccept {
		cls, size = fileClass(s.id, op.Path)+"/"+op.Kind+"/"+op.Phase, s.perCls
	}
	s.seen[cls]++
	slot := -1
	if len(s.kept[cls]) < size {
		slot = len(s.kept[cls])
		s.kept[cls] = append(s.kept[cls], nil)
	} else if size > 0 {
		if j := s.ps.Intn(s.seen[cls]); j < size {
			slot = j
		}
	}
	if slot < 0 {
		return
	}
	snap, err := osshim.Snapshot(s.dir)
	if err != nil {
		s.errs = append(s.errs, err.Error())
		snap = map[string][]byte{}
	}
	s.kept[cls][slot] = &crashSnap{phase: s.phase, idx: op.Index, kind: op.Kind, file: fileClass(s.id, op.Path), opPhase: op.Phase, n: op.N, snap: snap}
}

// loadable mirrors what readDiskQueue + openMessage need to turn the spool
// files of id into an attempt: parsable metadata, a header file that parses, a
// body file.
func loadable(snap map[string][]byte, id string) bool {
	mb, ok := snap[id+".meta"]
	if !ok {
		return false
	}
	var m queue.QueueMetadata
	if json.NewDecoder(bytes.NewReader(mb)).Decode(&m) != nil {
		return false
	}
	hb, ok := snap[id+".header"]
	if !ok {
		return false
	}
	if _, ok := snap[id+".body"]; !ok {
		return false
	}
	if _, err := textproto.ReadHeader(bufio.NewReader(bytes.NewReader(hb))); err != nil {
		return false
	}
	return true
}

func listing(snap map[string][]byte) []string {
	var out []string
	for n, b := range snap {
		out = append(out, fmt.Sprintf("%s (%d bytes)", n, len(b)))
	}
	sort.Strings(out)
	return out
}

type accepted struct {
	env      envelope
	hdr      []byte
	body     []byte
	bodyKind string
	partial  bool
}

// recoverAndJudge starts a fresh queue on the snapshot and compares everything
// it hands downstream with the one message that was handed to the queue.
// Returns the number of attempts the recovery queue made and whether it came to rest.
func recoverAndJudge(c *rep.Case, sc *scanner, base string, n int, cs *crashSnap, id string, acc *accepted) (attempts int, inconclusive string) {
	dir := filepath.Join(base, fmt.Sprintf("rec%d", n))
	if err := osshim.Restore(dir, cs.snap); err != nil {
		return 0, "restore: " + err.Error()
	}
	defer os.RemoveAll(dir)
	sc.mu.Lock()
	sc.dir = dir // the canary scan follows the recovery queue
	sc.mu.Unlock()
	lg := mx.NewLog()
	tgt := mx.NewTarget("down-rec", lg)
	tgt.Partial = acc.partial
	tgt.Hook = func(pt mx.Point) {
		if pt.Stage == mx.StStart || pt.Stage == mx.StCommit {
			sc.scan("recovery downstream " + pt.Stage)
		}
	}
	expect := loadable(cs.snap, id)
	q, err := queue.VerifNewQueue(queue.VerifOpts{Dir: dir, Target: tgt, MaxTries: 5, InitialRetryTime: 0, RetryTimeScale: 1})
	if err != nil {
		return 0, "recovery queue did not start: " + err.Error()
	}
	if expect {
		// all-ok downstream: the one attempt delivers everything and removes the message; the
		// disappearance of its metadata file is the logical end of the recovery
		deadline := time.Now().Add(20 * time.Second)
		for {
			if _, err := os.Stat(filepath.Join(dir, id+".meta")); err != nil {
				break
			}
			if time.Now().After(deadline) {
				inconclusive = "recovery queue started on the spool of " + cs.String() + " did not finish the loadable message within the watchdog"
				break
			}
			time.Sleep(200 * time.Microsecond)
		}
	}
	q.Close()
	sc.scan("recovery quiescence")

	wit := func() map[string]any {
		return map[string]any{
			"stopped_at": cs.String(), "spool_at_stop": listing(cs.snap), "sender": acc.env.from, "rcpts": acc.env.rcpts,
			"accepted_header_bytes": len(acc.hdr), "accepted_body_bytes": len(acc.body), "body_kind": acc.bodyKind,
			"recovery_log": lg.Strings(40),
		}
	}
	ph := "during-acceptance"
	if cs.phase == phPost {
		ph = "after-commit"
	}
	want := map[string]bool{}
	for _, rc := range acc.env.rcpts {
		want[rc] = true
	}
	for _, s := range mx.Summaries(lg.Events()) {
		attempts++
		where := "queue restarted on the spool of [" + cs.String() + "]"
		if mx.AttemptKey(s.MsgID) != id && s.MsgID != id {
			c.Violation("restart-"+ph+"/unknown-message", fmt.Sprintf("%s: started a delivery for message id %q, which was never handed to the queue", where, s.MsgID), wit())
			continue
		}
		if s.From != acc.env.from {
			c.Violation("restart-"+ph+"/sender", fmt.Sprintf("%s: downstream saw sender %q, the queue was handed %q", where, s.From, acc.env.from), wit())
		}
		if s.StartClass == mx.OK {
			offered := map[string]int{}
			for _, rc := range s.Accepted {
				offered[rc]++
			}
			for rc := range s.Refused {
				offered[rc]++
			}
			for rc, k := range offered {
				if !want[rc] {
					c.Violation("restart-"+ph+"/not-a-recipient", fmt.Sprintf("%s: recipient %q offered, which the queue was never handed", where, rc), wit())
				}
				if k > 1 {
					c.Violation("restart-"+ph+"/recipient-offered-twice", fmt.Sprintf("%s: recipient %q offered %d times in one attempt", where, rc, k), wit())
				}
			}
			if cs.phase == phAccept {
				// no attempt was made before the stop: every recipient is still pending
				for rc := range want {
					if offered[rc] == 0 {
						c.Violation("restart-"+ph+"/pending-recipient-missing", fmt.Sprintf("%s: recipient %q, handed to the queue and answered with success, is not offered", where, rc), wit())
					}
				}
			}
		}
		if s.StartMeta != nil {
			checkMetaSig(c, "restart-"+ph+"/", where+" (Start)", s.StartMeta, acc.env, wit)
		}
		if s.BodyKind != "" {
			if !bytes.Equal(s.Header, acc.hdr) {
				c.Violation("restart-"+ph+"/bytes/header", fmt.Sprintf("%s: header handed downstream differs from the one handed to the queue (%d bytes, downstream %d bytes; first difference at %d)", where, len(acc.hdr), len(s.Header), firstDiff(s.Header, acc.hdr)), wit())
			}
			if !bytes.Equal(s.Body, acc.body) {
				c.Violation("restart-"+ph+"/bytes/body", fmt.Sprintf("%s: body handed downstream differs from the one handed to the queue (%d bytes, downstream %d bytes; first difference at %d)", where, len(acc.body), len(s.Body), firstDiff(s.Body, acc.body)), wit())
			}
			if s.BodyMeta != nil {
				checkMetaSig(c, "restart-"+ph+"/", where+" (Body)", s.BodyMeta, acc.env, wit)
			}
		}
	}
	return attempts, inconclusive
}
