//go:build verif

package c10

import (
	"bufio"
	"bytes"
	"context"
	"fmt"
	"os"
	"path/filepath"
	"sort"
	"strings"
	"sync"
	"testing"
	"time"

	"github.com/emersion/go-message/textproto"
	"github.com/emersion/go-smtp"
	"github.com/foxcpp/maddy/framework/module"
	"github.com/foxcpp/maddy/internal/target/queue"
	"github.com/foxcpp/maddy/internal/zzverif/mx"
	"verifkit/osshim"
	"verifkit/prng"
	"verifkit/rep"
)

// Process stop in the middle of an ATTEMPT's bookkeeping, followed by a history.
//
// After every attempt that leaves recipients pending the queue rewrites the
// message's metadata (the shrunken recipient list, the tries counters) through
// a temporary file that is renamed over ID.meta. A process that dies inside
// that window leaves whatever the calls made so far produced: possibly a stale
// temporary file (empty, half written, complete but not yet renamed) next to
// the intact ID.meta. The restarted queue has to cope with the leftovers for
// the whole remaining life of the message: "the recipients still pending ... on
// retries, and after a restart".
//
// One case of this group (indices metaCrashBase.., stream "c10-metacrash"):
//
//	A. a first incarnation accepts one message for 2-5 recipients and makes 1-2
//	   attempts, each leaving at least two recipients temporarily failed (the
//	   others delivered / permanently failed / temporarily failed; failures at
//	   RCPT, as per-recipient status, or a temporary failure of the whole
//	   attempt). The os-shim recorder keeps a plain snapshot of the spool at
//	   EVERY file-system step (before the call and in the middle of every write)
//	   the queue makes between the end of an attempt and the start of the next:
//	   the steps of the metadata update, whatever files it uses.
//	B. for every snapshot a fresh queue is started on it and taken through a
//	   history of its own: a PARTIALLY successful attempt (at least one recipient
//	   delivered, at least one temporarily failed, the others anything), then
//	   optionally a quiescent restart, then another partial attempt or a temporary
//	   failure of the whole attempt or success, then success.
//
// Oracle (the harness's own record of outcomes decides who is pending):
//   - first attempt after the restart: every recipient that is pending after the
//     attempt whose bookkeeping was interrupted must be offered; a recipient that
//     was settled by an EARLIER attempt must not be; a recipient settled by the
//     interrupted attempt itself may be offered again iff the rename of the new
//     metadata over ID.meta had not completed when the process stopped (the
//     outcome was not durably recorded: at-least-once) - after the rename it
//     must not be.
//   - every later attempt: offered == pending, exactly, where pending is what the
//     first attempt was handed minus what the recording target itself answered
//     as delivered or permanently failed since the restart. Outcomes reached
//     after the restart were reached by a process that did not die: re-sending
//     them is not covered by any crash.
//   - every attempt: message id, sender, header bytes, body bytes, SMTPUTF8,
//     REQUIRETLS, TLS-Required override, original-recipient map, OriginalFrom.
//
// Not judged: that the message is delivered at all (C02), the tries counters,
// timing. Model: plain process stop (nothing unsynced is dropped).

const metaCrashBase = 2_000_000

type metaSnap struct {
	update  int  // the bookkeeping that was interrupted follows attempt `update` of the first incarnation
	renamed bool // a rename onto ID.meta had completed within this bookkeeping before the stop
	stale   bool // the spool holds a file of this message besides .meta .header .body
	idx     int
	kind    string
	file    string
	opPhase string
	n       int
	snap    map[string][]byte
}

func (s *metaSnap) String() string {
	w := fmt.Sprintf("bookkeeping after attempt %d: fs step %d, before %s of %s", s.update, s.idx, s.kind, s.file)
	if s.opPhase == "mid" {
		w = fmt.Sprintf("bookkeeping after attempt %d: fs step %d, in the middle of %s of %s (%d bytes of it written)", s.update, s.idx, s.kind, s.file, s.n)
	}
	if s.renamed {
		w += " [new metadata already renamed into place]"
	}
	return w
}

// metaSnapper is driven from the os-shim recorder callback (the shim holds its
// operation lock: no recorded operation is in flight).
type metaSnapper struct {
	mu         sync.Mutex
	on         bool
	dir, id    string
	closed     func() int // number of attempts of the first incarnation that were closed so far
	update     int
	renameSeen bool
	snaps      []*metaSnap
	errs       []string
}

func (s *metaSnapper) arm(dir, id string, closed func() int) {
	s.mu.Lock()
	defer s.mu.Unlock()
	s.on, s.dir, s.id, s.closed = true, dir, id, closed
	s.update, s.renameSeen, s.snaps, s.errs = 0, false, nil, nil
}

func (s *metaSnapper) disarm() ([]*metaSnap, []string) {
	s.mu.Lock()
	defer s.mu.Unlock()
	s.on = false
	out, errs := s.snaps, s.errs
	s.snaps, s.errs = nil, nil
	return out, errs
}

func (s *metaSnapper) op(op osshim.Op) {
	s.mu.Lock()
	defer s.mu.Unlock()
	if !s.on || !strings.HasPrefix(op.Path, s.dir+string(filepath.Separator)) {
		return
	}
	u := s.closed()
	if u == 0 {
		return // acceptance (the main group's restart points)
	}
	if u != s.update {
		s.update, s.renameSeen = u, false
	}
	snap, err := osshim.Snapshot(s.dir)
	if err != nil {
		s.errs = append(s.errs, err.Error())
		return
	}
	stale := false
	for name := range snap {
		if strings.HasPrefix(name, s.id) {
			switch name[len(s.id):] {
			case ".meta", ".header", ".body":
			default:
				stale = true
			}
		}
	}
	s.snaps = append(s.snaps, &metaSnap{update: u, renamed: s.renameSeen, stale: stale, idx: op.Index, kind: op.Kind, file: fileClass(s.id, op.Path), opPhase: op.Phase, n: op.N, snap: snap})
	if op.Kind == "rename" && op.Phase == "before" && filepath.Base(op.Path2) == s.id+".meta" {
		// every later step of this bookkeeping sees the renamed file
		s.renameSeen = true
	}
}

type mcScenario struct {
	from      string
	rcpts     []string
	origRcpts map[string]string
	meta      module.MsgMetadata
	partial   bool
	variant   int
	roles     []map[string]string // attempts of the first incarnation: recipient -> ok | temp | perm
	stages    []map[string]string
	whole     []string
}

func genMetaCrash(p *prng.R, id string) *mcScenario {
	sc := &mcScenario{}
	sc.from = prng.Pick(p, senders)
	perm := p.Perm(len(rcptPool))
	n := p.Range(2, 5)
	for i := 0; i < n; i++ {
		sc.rcpts = append(sc.rcpts, rcptPool[perm[i]])
	}
	sc.meta = module.MsgMetadata{
		ID:           id,
		OriginalFrom: sc.from,
		SMTPOpts: smtp.MailOptions{
			UTF8:       p.Bool(),
			RequireTLS: p.Chance(1, 3),
		},
		TLSRequireOverride: p.Chance(1, 3),
		DontTraceSender:    p.Chance(1, 4),
		Conn: &module.ConnState{
			Proto:        "ESMTPSA",
			Hostname:     "client.example.org",
			AuthUser:     canaryUser,
			AuthPassword: canaryPass,
		},
	}
	if p.Bool() {
		sc.meta.SMTPOpts.EnvelopeID = "ENV" + word(p, 6)
	}
	if p.Chance(2, 3) {
		sc.origRcpts = map[string]string{}
		sc.meta.OriginalRcpts = map[string]string{}
		for _, r := range sc.rcpts {
			if p.Chance(2, 3) {
				sc.origRcpts[r] = "orig-" + word(p, 4) + "@client.example"
			}
		}
		for k, v := range sc.origRcpts {
			sc.meta.OriginalRcpts[k] = v
		}
	}
	sc.partial = p.Chance(2, 3)
	sc.variant = p.Intn(3)
	nA := p.Range(1, 2)
	pending := append([]string(nil), sc.rcpts...)
	for a := 1; a <= nA; a++ {
		roles, stages, whole := map[string]string{}, map[string]string{}, ""
		if p.Chance(1, 5) {
			whole = prng.Pick(p, []string{mx.StStart, mx.StBody, mx.StCommit})
		}
		o := p.Perm(len(pending))
		for k, j := range o {
			switch {
			case whole != "" || k < 2:
				roles[pending[j]] = "temp" // two recipients at least stay pending
			default:
				roles[pending[j]] = prng.Pick(p, []string{"ok", "ok", "temp", "perm"})
			}
		}
		var next []string
		for _, r := range pending {
			if roles[r] != "ok" {
				stages[r] = mx.StRcpt
				if sc.partial && p.Bool() {
					stages[r] = mx.StStatus
				}
			}
			if roles[r] == "temp" {
				next = append(next, r)
			}
		}
		sc.roles, sc.stages, sc.whole = append(sc.roles, roles), append(sc.stages, stages), append(sc.whole, whole)
		pending = next
	}
	return sc
}

// settle removes from pending the recipients the recording target answered for
// good in this attempt: delivered (accepted, body ok, own status ok, Commit ok)
// or permanently failed.
func settle(pending map[string]bool, s *mx.DeliverySummary) (delivered, temp int) {
	if s.StartClass != mx.OK {
		return 0, len(pending)
	}
	for rc, cls := range s.Refused {
		if cls == mx.Perm {
			delete(pending, rc)
		} else {
			temp++
		}
	}
	for _, rc := range s.Accepted {
		switch {
		case s.BodyKind == "":
			temp++
		case s.BodyClass == mx.Perm || s.Status[rc] == mx.Perm:
			delete(pending, rc)
		case s.DeliveredTo(rc):
			if pending[rc] {
				delivered++
			}
			delete(pending, rc)
		default:
			temp++
		}
	}
	return delivered, temp
}

func setOf(l []string) map[string]bool {
	m := map[string]bool{}
	for _, x := range l {
		m[x] = true
	}
	return m
}

func keys(m map[string]bool) []string {
	var l []string
	for k := range m {
		l = append(l, k)
	}
	sort.Strings(l)
	return l
}

func metaCrashCases(t *testing.T, r *rep.Reporter, sc *scanner, ms *metaSnapper) {
	n := r.N(240, 2000)
	for k := 0; k < n; k++ {
		i := metaCrashBase + k
		r.Run(i, fmt.Sprintf("metacrash-%d", k), func(c *rep.Case) {
			p := prng.New(r.Seed(), uint64(i), "c10-metacrash")
			base, err := os.MkdirTemp("", "c10m")
			if err != nil {
				t.Fatal(err)
			}
			defer os.RemoveAll(base)
			spool := filepath.Join(base, "spool")
			os.Mkdir(spool, 0o700)
			sc.mu.Lock()
			sc.dir = spool
			sc.hits = nil
			sc.mu.Unlock()
			defer func() {
				sc.mu.Lock()
				sc.dir = ""
				sc.mu.Unlock()
			}()

			rawHdr, hfeats := genHeader(p)
			hdr, err := textproto.ReadHeader(bufio.NewReader(bytes.NewReader(append(append([]byte{}, rawHdr...), '\r', '\n'))))
			if err != nil {
				r.Count("generated_headers_rejected_by_parser", 1)
				c.Done("rejected-header", false)
				return
			}
			var want bytes.Buffer
			textproto.WriteHeader(&want, hdr)
			wantHdr := want.Bytes()
			bk := p.Intn(8)
			if bk == 3 {
				bk = 1 // (the >1 MiB body is the main group's)
			}
			body, wantBody, bodyKind := genBodyKind(p, base, bk)
			id := fmt.Sprintf("c10x%d", k)
			ms0 := genMetaCrash(p, id)
			env := envelope{from: ms0.from, rcpts: ms0.rcpts, meta: ms0.meta, origRcpts: ms0.origRcpts}
			nA := len(ms0.roles)

			// ---- A: the first incarnation ----
			lg := mx.NewLog()
			tgt := mx.NewTarget("down", lg)
			tgt.Partial = ms0.partial
			tgt.Script = func(pt mx.Point) error {
				a := pt.Attempt
				if a < 1 || a > nA {
					return nil
				}
				if w := ms0.whole[a-1]; w != "" {
					if pt.Stage == w {
						return mx.MakeErr(mx.Temp, ms0.variant, "c10 whole attempt")
					}
					return nil
				}
				if (pt.Stage != mx.StRcpt && pt.Stage != mx.StStatus) || ms0.stages[a-1][pt.Rcpt] != pt.Stage {
					return nil
				}
				switch ms0.roles[a-1][pt.Rcpt] {
				case "temp":
					return mx.MakeErr(mx.Temp, ms0.variant, "c10")
				case "perm":
					return mx.MakeErr(mx.Perm, ms0.variant, "c10")
				}
				return nil
			}
			tgt.Hook = func(pt mx.Point) {
				if pt.Stage == mx.StStart || pt.Stage == mx.StCommit || pt.Stage == mx.StAbort {
					sc.scan("downstream " + pt.Stage)
				}
			}
			closedIn := func(l *mx.Log) int {
				cnt := 0
				for _, e := range l.Events() {
					if e.Kind == "commit" || e.Kind == "abort" || (e.Kind == "start" && e.Class != mx.OK) {
						cnt++
					}
				}
				return cnt
			}
			// the delay before the next attempt is InitialRetryTime * Duration(RetryTimeScale^(tries-1)):
			// negligible below nA tries, an hour at nA (the queue is closed long before; shapes the history only)
			o := queue.VerifOpts{Dir: spool, Target: tgt, MaxTries: 12}
			if nA == 1 {
				o.InitialRetryTime, o.RetryTimeScale = time.Hour, 1
			} else {
				o.InitialRetryTime, o.RetryTimeScale = 1, 3.6e12
			}
			q, err := queue.VerifNewQueue(o)
			if err != nil {
				t.Fatal(err)
			}
			ms.arm(spool, id, func() int { return closedIn(lg) })
			armed := true
			defer func() {
				if armed {
					ms.disarm()
				}
			}()
			ctx := context.Background()
			meta := ms0.meta
			d, err := q.Start(ctx, &meta, ms0.from)
			if err != nil {
				t.Fatal(err)
			}
			for _, rc := range ms0.rcpts {
				if err := d.AddRcpt(ctx, rc, smtp.RcptOptions{}); err != nil {
					t.Fatal(err)
				}
			}
			if err := d.Body(ctx, hdr, body); err != nil {
				c.Inconclusive("queue refused the body: " + err.Error())
				q.Close()
				return
			}
			if err := d.Commit(ctx); err != nil {
				t.Fatal(err)
			}
			ok := true
			deadline := time.Now().Add(30 * time.Second)
			for closedIn(lg) < nA {
				if time.Now().After(deadline) {
					ok = false
					break
				}
				time.Sleep(300 * time.Microsecond)
			}
			q.Close() // waits for the bookkeeping of the last attempt
			sc.scan("after Close")
			snaps, serrs := ms.disarm()
			armed = false
			if !ok {
				c.Inconclusive("attempt of the first incarnation did not finish within the watchdog (meta-update crash history)")
				return
			}
			if len(serrs) > 0 {
				c.Inconclusive("snapshot of the spool failed: " + serrs[0])
				return
			}

			// ---- the harness's record of the first incarnation ----
			witA := func() map[string]any {
				return map[string]any{"history": "meta-update-crash (first incarnation)", "sender": ms0.from, "rcpts": ms0.rcpts,
					"roles_per_attempt": ms0.roles, "whole_attempt_failures": ms0.whole, "log": lg.Strings(80)}
			}
			pending := setOf(ms0.rcpts)
			pendBefore := map[int]map[string]bool{} // before attempt a
			pendAfter := map[int]map[string]bool{}
			a := 0
			for _, s := range mx.Summaries(lg.Events()) {
				a++
				pendBefore[a] = setOf(keys(pending))
				judgeAttempt(c, "", fmt.Sprintf("attempt %d", a), s, id, env, wantHdr, wantBody, pending, pending, witA)
				settle(pending, s)
				pendAfter[a] = setOf(keys(pending))
				r.Count("metacrash_first_incarnation_attempts_checked", 1)
			}
			if a != nA {
				c.Inconclusive(fmt.Sprintf("first incarnation made %d attempts, the history wanted %d", a, nA))
				return
			}

			// ---- B: a restart from every file-system step of the bookkeeping ----
			for j, s := range snaps {
				inc := recoverMetaCrash(c, r, sc, base, j, s, id, env, ms0, wantHdr, wantBody, pendBefore[s.update], pendAfter[s.update], prng.New(r.Seed(), uint64(i), fmt.Sprintf("c10-metacrash-rec%d", j)))
				if inc != "" {
					c.Inconclusive(inc)
					return
				}
			}
			sc.mu.Lock()
			hits := append([]string(nil), sc.hits...)
			sc.hits = nil
			steps := sc.steps
			sc.steps = 0
			sc.mu.Unlock()
			r.Count("fs_steps_scanned", steps)
			for _, h := range hits {
				c.Violation("secrets/credential-in-spool", h, witA())
				break
			}
			r.Count("metacrash_histories", 1)
			r.Count("metacrash_fs_steps_of_bookkeeping", int64(len(snaps)))
			if k < 2 {
				r.Sample(map[string]any{"history": "meta-update-crash", "sender": ms0.from, "rcpts": ms0.rcpts, "roles": ms0.roles, "whole": ms0.whole, "restart_points": len(snaps)})
			}
			c.Done(fmt.Sprintf("meta-update-crash|attempts=%d|whole=%v|rcpts=%d|%s|%s|partial=%v", nA, ms0.whole, len(ms0.rcpts), featKey(hfeats), bodyKind, ms0.partial), true)
		})
	}
}

// judgeAttempt compares one attempt with the accepted message. lower/upper
// bound the recipients that may be offered (lower == upper: exact pending set).
func judgeAttempt(c *rep.Case, pre, where string, s *mx.DeliverySummary, id string, env envelope, wantHdr, wantBody []byte, lower, upper map[string]bool, wit func() map[string]any) {
	if mx.AttemptKey(s.MsgID) != id && s.MsgID != id {
		c.Violation(pre+"unknown-message", fmt.Sprintf("%s: delivery started for message id %q, the queue accepted %q", where, s.MsgID, id), wit())
	}
	if s.From != env.from {
		c.Violation(pre+"envelope/sender", fmt.Sprintf("%s: downstream saw sender %q, queue accepted %q", where, s.From, env.from), wit())
	}
	if s.StartClass == mx.OK {
		offered := map[string]int{}
		for _, rc := range s.Accepted {
			offered[rc]++
		}
		for rc := range s.Refused {
			offered[rc]++
		}
		for rc := range lower {
			if offered[rc] == 0 {
				c.Violation(pre+"envelope/pending-recipient-missing", fmt.Sprintf("%s: pending recipient %q was not offered to the downstream", where, rc), wit())
			}
		}
		for rc, cnt := range offered {
			if !upper[rc] {
				c.Violation(pre+"envelope/non-pending-recipient", fmt.Sprintf("%s: recipient %q offered although not pending (it was delivered or failed for good in an earlier attempt whose outcome was recorded)", where, rc), wit())
			}
			if cnt > 1 {
				c.Violation(pre+"envelope/recipient-offered-twice", fmt.Sprintf("%s: recipient %q offered %d times in one attempt", where, rc, cnt), wit())
			}
		}
	}
	if s.StartMeta != nil {
		checkMetaSig(c, pre, where+" (Start)", s.StartMeta, env, wit)
	}
	if s.BodyKind != "" {
		if !bytes.Equal(s.Header, wantHdr) {
			c.Violation(pre+"bytes/header", fmt.Sprintf("%s: header differs from the accepted one (accepted %d bytes, downstream %d bytes; first difference at %d)", where, len(wantHdr), len(s.Header), firstDiff(s.Header, wantHdr)), wit())
		}
		if !bytes.Equal(s.Body, wantBody) {
			c.Violation(pre+"bytes/body", fmt.Sprintf("%s: body differs from the accepted one (accepted %d bytes, downstream %d bytes; first difference at %d)", where, len(wantBody), len(s.Body), firstDiff(s.Body, wantBody)), wit())
		}
		if s.BodyMeta != nil {
			checkMetaSig(c, pre, where+" (Body)", s.BodyMeta, env, wit)
		}
	}
}

// recoverMetaCrash starts a queue on the snapshot and takes it through a
// partially successful attempt and retries.
func recoverMetaCrash(c *rep.Case, r *rep.Reporter, sc *scanner, base string, j int, s *metaSnap, id string, env envelope, ms0 *mcScenario, wantHdr, wantBody []byte, before, after map[string]bool, p *prng.R) (inconclusive string) {
	dir := filepath.Join(base, fmt.Sprintf("mrec%d", j))
	if err := osshim.Restore(dir, s.snap); err != nil {
		return "restore: " + err.Error()
	}
	defer os.RemoveAll(dir)
	// The canary scan at every file-system step follows the recovery queues of the main group; here
	// the spool is scanned at the restarts and at quiescence only (cost).
	sc.mu.Lock()
	sc.dir = ""
	sc.mu.Unlock()
	scanNow := func(where string) {
		sc.mu.Lock()
		sc.dir = dir
		sc.mu.Unlock()
		sc.scan(where)
		sc.mu.Lock()
		sc.dir = ""
		sc.mu.Unlock()
	}

	// ---- script of the history after the restart ----
	afterL, beforeL := keys(after), keys(before)
	roles1 := map[string]string{}
	for k, x := range p.Perm(len(afterL)) {
		switch k {
		case 0:
			roles1[afterL[x]] = "ok"
		case 1:
			roles1[afterL[x]] = "temp"
		default:
			roles1[afterL[x]] = prng.Pick(p, []string{"ok", "temp", "temp", "perm"})
		}
	}
	for _, rc := range beforeL {
		if _, ok := roles1[rc]; !ok {
			roles1[rc] = prng.Pick(p, []string{"ok", "temp"}) // settled by the interrupted attempt; offered again only if that was not recorded
		}
	}
	mode2 := prng.Pick(p, []string{"ok", "ok", "whole", "partial"})
	whole2 := prng.Pick(p, []string{mx.StStart, mx.StBody, mx.StCommit})
	roles2 := map[string]string{}
	for _, rc := range beforeL {
		roles2[rc] = prng.Pick(p, []string{"ok", "temp"})
	}
	stage := map[string]string{}
	for _, rc := range beforeL {
		stage[rc] = mx.StRcpt
		if ms0.partial && p.Bool() {
			stage[rc] = mx.StStatus
		}
	}
	variant := p.Intn(3)
	lg := mx.NewLog()
	tgt := mx.NewTarget("down-rec", lg)
	tgt.Partial = ms0.partial
	tgt.Script = func(pt mx.Point) error {
		switch pt.Attempt {
		case 1:
			if (pt.Stage == mx.StRcpt || pt.Stage == mx.StStatus) && stage[pt.Rcpt] == pt.Stage {
				switch roles1[pt.Rcpt] {
				case "temp":
					return mx.MakeErr(mx.Temp, variant, "c10 after restart")
				case "perm":
					return mx.MakeErr(mx.Perm, variant, "c10 after restart")
				}
			}
		case 2:
			switch mode2 {
			case "whole":
				if pt.Stage == whole2 {
					return mx.MakeErr(mx.Temp, variant, "c10 whole attempt after restart")
				}
			case "partial":
				if (pt.Stage == mx.StRcpt || pt.Stage == mx.StStatus) && stage[pt.Rcpt] == pt.Stage && roles2[pt.Rcpt] == "temp" {
					return mx.MakeErr(mx.Temp, variant, "c10 after restart")
				}
			}
		}
		return nil
	}

	// Tries already counted on disk for the pending recipients (all of them were in every attempt so far).
	c0 := s.update - 1
	if s.renamed {
		c0 = s.update
	}
	// A second, quiescent restart after the partial attempt: hold the next try an hour away
	// (delay = InitialRetryTime * RetryTimeScale^(tries-1); shapes the history only).
	second := c0 >= 1 && p.Chance(1, 3)
	loadOK := loadable(s.snap, id)
	o := queue.VerifOpts{Dir: dir, Target: tgt, MaxTries: 12, InitialRetryTime: 0, RetryTimeScale: 1}
	if second {
		if c0 == 1 {
			o.InitialRetryTime, o.RetryTimeScale = 1, 3.6e12
		} else {
			o.InitialRetryTime, o.RetryTimeScale = 1, 1.9e6
		}
	}
	q, err := queue.VerifNewQueue(o)
	if err != nil {
		return "recovery queue did not start: " + err.Error()
	}
	closed := func() int {
		cnt := 0
		for _, e := range lg.Events() {
			if e.Kind == "commit" || e.Kind == "abort" || (e.Kind == "start" && e.Class != mx.OK) {
				cnt++
			}
		}
		return cnt
	}
	gone := func() bool {
		_, err := os.Stat(filepath.Join(dir, id+".meta"))
		return err != nil
	}
	if loadOK {
		deadline := time.Now().Add(30 * time.Second)
		if second {
			for closed() < 1 && !gone() {
				if time.Now().After(deadline) {
					inconclusive = "queue restarted on the spool of [" + s.String() + "] did not finish its first attempt within the watchdog"
					break
				}
				time.Sleep(200 * time.Microsecond)
			}
			q.Close()
			scanNow("recovery after Close")
			o.InitialRetryTime, o.RetryTimeScale = 0, 1
			if q, err = queue.VerifNewQueue(o); err != nil {
				return "second recovery queue did not start: " + err.Error()
			}
		}
		for inconclusive == "" && !gone() {
			if time.Now().After(deadline) {
				inconclusive = "queue restarted on the spool of [" + s.String() + "] did not finish the message within the watchdog"
				break
			}
			time.Sleep(200 * time.Microsecond)
		}
	}
	q.Close()
	scanNow("recovery quiescence")
	if inconclusive != "" {
		return inconclusive
	}

	wit := func() map[string]any {
		return map[string]any{
			"history": "meta-update-crash", "stopped_at": s.String(), "spool_at_stop": listing(s.snap), "sender": env.from, "rcpts": env.rcpts,
			"pending_before_interrupted_attempt": beforeL, "pending_after_interrupted_attempt": afterL,
			"first_incarnation_roles": ms0.roles, "first_incarnation_whole_attempt_failures": ms0.whole,
			"after_restart_roles_attempt_1": roles1, "after_restart_attempt_2": mode2, "second_restart_after_attempt_1": second,
			"log_after_restart": lg.Strings(80),
		}
	}
	lower, upper := after, before
	if s.renamed {
		upper = after
	}
	var pending map[string]bool
	n, partialSeen := 0, false
	for _, sm := range mx.Summaries(lg.Events()) {
		n++
		if n == 1 || pending == nil {
			where := "first attempt of the queue restarted on the spool of [" + s.String() + "]"
			judgeAttempt(c, "restart-during-meta-update/first-attempt/", where, sm, id, env, wantHdr, wantBody, lower, upper, wit)
			if sm.StartClass != mx.OK {
				continue // nothing was offered yet
			}
			// what this incarnation knows as pending: what it offered, within the bounds
			pending = setOf(afterL)
			resent := 0
			for _, rc := range sm.Accepted {
				if upper[rc] && !pending[rc] {
					pending[rc] = true
					resent++
				}
			}
			for rc := range sm.Refused {
				if upper[rc] && !pending[rc] {
					pending[rc] = true
					resent++
				}
			}
			if resent > 0 {
				r.Count("metacrash_unrecorded_outcomes_resent", 1) // legitimate: at-least-once
			}
		} else {
			where := fmt.Sprintf("attempt %d of the queue restarted on the spool of [%s]", n, s.String())
			judgeAttempt(c, "restart-during-meta-update/retry/", where, sm, id, env, wantHdr, wantBody, pending, pending, wit)
			if partialSeen {
				r.Count("metacrash_retries_after_partial_attempt_checked", 1)
			}
		}
		dl, tmp := settle(pending, sm)
		if dl > 0 && tmp > 0 {
			partialSeen = true
			if n == 1 {
				r.Count("metacrash_partial_first_attempts_after_restart", 1)
			}
		}
		r.Count("metacrash_attempts_after_restart_checked", 1)
	}
	r.Count("metacrash_restarts", 1)
	r.Distinct("metacrash_points", s.file+"/"+s.kind+"/"+s.opPhase)
	if s.stale {
		r.Count("metacrash_restarts_with_stale_temporary_file", 1)
	}
	if s.renamed {
		r.Count("metacrash_restarts_after_rename", 1)
	} else {
		r.Count("metacrash_restarts_before_rename", 1)
	}
	if s.opPhase == "mid" {
		r.Count("metacrash_restarts_mid_write", 1)
	}
	if second {
		r.Count("metacrash_restarts_with_second_restart", 1)
	}
	if s.update >= 2 {
		r.Count("metacrash_restarts_in_second_bookkeeping", 1)
	}
	if mode2 != "ok" && n >= 3 {
		r.Count("metacrash_histories_with_three_attempts_after_restart", 1)
	}
	return ""
}
