//go:build verif

package c10

import (
	"context"
	"os"

	"github.com/foxcpp/maddy/framework/module"
)

// Mutating downstream (on by default since fix 1 of round 7 landed in /repo; VERIF_C10_MUTATING_DOWNSTREAM=0
// switches the class off).
//
// A downstream that records a recipient rewrite in the metadata object it is
// handed - what a msgpipeline does in Start/AddRcpt (OriginalRcpts[to] =
// originalTo; it also creates the map when it is nil). Before the repair of
// MsgMetadata.DeepCopy (a shallow struct copy until then) the map the queue handed
// downstream was the queue's own: the entry landed in the queue's metadata, was
// written to ID.meta with the next metadata update and handed downstream on every
// retry (signature meta/original-rcpts on the first retry of every message that was
// accepted with a non-nil original-recipient map).
var drillMutatingDownstream = os.Getenv("VERIF_C10_MUTATING_DOWNSTREAM") != "0"

type mutatingDownstream struct {
	module.DeliveryTarget
}

func (m mutatingDownstream) Start(ctx context.Context, msgMeta *module.MsgMetadata, mailFrom string) (module.Delivery, error) {
	// the recording target gets a private copy of what the queue handed over, so that it never sees the
	// wrapper's own writes - only what the QUEUE hands over later
	cp := *msgMeta
	if msgMeta.OriginalRcpts != nil {
		cp.OriginalRcpts = make(map[string]string, len(msgMeta.OriginalRcpts))
		for k, v := range msgMeta.OriginalRcpts {
			cp.OriginalRcpts[k] = v
		}
	}
	d, err := m.DeliveryTarget.Start(ctx, &cp, mailFrom)
	if msgMeta.OriginalRcpts == nil {
		msgMeta.OriginalRcpts = map[string]string{}
	}
	msgMeta.OriginalRcpts["downstream-alias@example.org"] = "rcpt@example.org"
	return d, err
}

func maybeMutating(t module.DeliveryTarget) module.DeliveryTarget {
	if drillMutatingDownstream {
		return mutatingDownstream{t}
	}
	return t
}
