//go:build verif

package c10

import (
	"strings"
	"unicode"

	"golang.org/x/net/idna"
	"golang.org/x/text/unicode/norm"
	"verifkit/prng"
)

// Recipients that are "the same mailbox" under some comparison (case folding,
// Unicode normalisation, quoting, IDNA form, trailing dot) but are NOT the same
// string. The queue is handed recipients by the SMTP endpoint / pipeline exactly
// as the client (or a modifier) spelled them; RFC 5321 2.4 makes the local part
// case sensitive and the queue has no business deciding that two spellings are
// one recipient: every distinct string it answered with success has to be handed
// downstream as given. Byte-identical repetitions are the one exception
// (module.Delivery lets an implementation ignore them; fix 36d4aab).

// extra addresses that have interesting variants (precomposed / decomposable
// characters, mixed case, IDN domain); used only as the origin of a variant pair
var variantOrigins = []string{
	"John.Smith@example.org",
	"andr\u00e9@example.org",                  // NFC; NFD = e + U+0301
	"J\u030curi@example.net",                  // J + combining caron: lower-casing yields a precomposable pair
	"\u00c5ngstr\u00f6m@b\u00fccher.example", // NFC local part, U-label domain
	"info@xn--bcher-kva.example",              // A-label domain
	"\"john.smith\"@example.org",              // needlessly quoted
	"Postmaster",
}

func splitAddr(a string) (local, domain string, hasDomain bool) {
	k := strings.LastIndexByte(a, '@')
	if k < 0 {
		return a, "", false
	}
	return a[:k], a[k+1:], true
}

func joinAddr(local, domain string, hasDomain bool) string {
	if !hasDomain {
		return local
	}
	return local + "@" + domain
}

func swapCase(s string) string {
	rs := []rune(s)
	for i, r := range rs {
		switch {
		case unicode.IsUpper(r):
			rs[i] = unicode.ToLower(r)
		case unicode.IsLower(r):
			rs[i] = unicode.ToUpper(r)
		}
	}
	return string(rs)
}

func dotAtomSafe(s string) bool {
	if s == "" || strings.HasPrefix(s, ".") || strings.HasSuffix(s, ".") || strings.Contains(s, "..") {
		return false
	}
	for _, r := range s {
		if r >= 0x80 || r >= 'a' && r <= 'z' || r >= 'A' && r <= 'Z' || r >= '0' && r <= '9' {
			continue
		}
		if !strings.ContainsRune("!#$%&'*+-/=?^_`{|}~.", r) {
			return false
		}
	}
	return true
}

var variantKinds = []string{"case-local", "case-local", "norm", "norm", "quoted", "case-domain", "idna", "trailing-dot", "exact-dup"}

// makeVariant returns a spelling variant of addr of the given kind; ok is false
// when the kind does not apply to addr (or would yield the identical string,
// except for kind exact-dup).
func makeVariant(pv *prng.R, kind, addr string) (string, bool) {
	local, domain, hasDom := splitAddr(addr)
	var out string
	switch kind {
	case "exact-dup":
		return addr, true
	case "case-local":
		switch pv.Intn(4) {
		case 0:
			out = joinAddr(strings.ToUpper(local), domain, hasDom)
		case 1:
			out = joinAddr(strings.ToLower(local), domain, hasDom)
		case 2:
			out = joinAddr(swapCase(local), domain, hasDom)
		default:
			// one letter only
			rs := []rune(local)
			var idx []int
			for i, r := range rs {
				if unicode.IsUpper(r) || unicode.IsLower(r) {
					idx = append(idx, i)
				}
			}
			if len(idx) == 0 {
				return "", false
			}
			k := idx[pv.Intn(len(idx))]
			if unicode.IsUpper(rs[k]) {
				rs[k] = unicode.ToLower(rs[k])
			} else {
				rs[k] = unicode.ToUpper(rs[k])
			}
			out = joinAddr(string(rs), domain, hasDom)
		}
	case "norm":
		l := norm.NFD.String(local)
		if l == local {
			l = norm.NFC.String(local)
		}
		out = joinAddr(l, domain, hasDom)
	case "quoted":
		if len(local) >= 2 && strings.HasPrefix(local, "\"") && strings.HasSuffix(local, "\"") {
			inner := local[1 : len(local)-1]
			if !dotAtomSafe(inner) {
				return "", false
			}
			out = joinAddr(inner, domain, hasDom)
		} else {
			if strings.ContainsAny(local, "\"\\") {
				return "", false
			}
			out = joinAddr("\""+local+"\"", domain, hasDom)
		}
	case "case-domain":
		if !hasDom {
			return "", false
		}
		d := strings.ToUpper(domain)
		if d == domain {
			d = strings.ToLower(domain)
		}
		out = joinAddr(local, d, true)
	case "idna":
		if !hasDom {
			return "", false
		}
		d, err := idna.ToASCII(domain)
		if err != nil || d == domain {
			d, err = idna.ToUnicode(domain)
		}
		if err != nil {
			return "", false
		}
		out = joinAddr(local, d, true)
	case "trailing-dot":
		if !hasDom || strings.HasSuffix(domain, ".") {
			return "", false
		}
		out = joinAddr(local, domain+".", true)
	default:
		return "", false
	}
	if out == addr {
		return "", false
	}
	return out, true
}

type rcptVariants struct {
	rcpts []string        // the final recipient list, in the order handed to the queue
	added []string        // the recipients that are not in base (variants, and origins drawn from variantOrigins)
	kinds map[string]bool // variant kinds present
}

// addRcptVariants extends base (left untouched, order kept) by 1..2 spelling
// variants of recipients of the same message, inserted at random positions
// (before or after their origin). All draws come from pv.
func addRcptVariants(pv *prng.R, base []string) rcptVariants {
	v := rcptVariants{rcpts: append([]string(nil), base...), kinds: map[string]bool{}}
	insert := func(a string) {
		k := pv.Intn(len(v.rcpts) + 1)
		v.rcpts = append(v.rcpts, "")
		copy(v.rcpts[k+1:], v.rcpts[k:])
		v.rcpts[k] = a
		v.added = append(v.added, a)
	}
	applicable := func(kind string, pool []string) []string {
		var out []string
		for _, r := range pool {
			if _, ok := makeVariant(prng.New(1, 0, "c10-probe"), kind, r); ok {
				out = append(out, r)
			}
		}
		return out
	}
	n := pv.Range(1, 2)
	for j := 0; j < n; j++ {
		for try := 0; try < 12; try++ {
			kind := prng.Pick(pv, variantKinds)
			cands := applicable(kind, v.rcpts)
			if len(cands) == 0 || pv.Chance(1, 4) {
				// a dedicated origin to which the kind applies joins the message first
				origins := applicable(kind, variantOrigins)
				if len(origins) == 0 {
					continue
				}
				o := prng.Pick(pv, origins)
				present := false
				for _, r := range v.rcpts {
					if r == o {
						present = true
					}
				}
				if !present {
					insert(o)
				}
				cands = []string{o}
			}
			origin := prng.Pick(pv, cands)
			a, ok := makeVariant(pv, kind, origin)
			if !ok {
				continue
			}
			if kind != "exact-dup" {
				// a variant that happens to spell another recipient of the message would be an exact duplicate
				dup := false
				for _, r := range v.rcpts {
					if r == a {
						dup = true
					}
				}
				if dup {
					continue
				}
			}
			insert(a)
			v.kinds[kind] = true
			break
		}
	}
	return v
}
