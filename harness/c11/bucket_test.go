//go:build verif

package c11

import (
	"context"
	"fmt"
	"sync"
	"sync/atomic"
	"testing"
	"time"

	"github.com/foxcpp/maddy/internal/limits/limiters"
	"verifkit"
	"verifkit/prng"
	"verifkit/rep"
)

// Layer (i-b): limiters.BucketSet, constructed exactly like limits.Group.Init
// constructs its per-key scopes (a MultiLimit of semaphores per key, reap
// interval one minute) but with a table of 1-6 buckets instead of 20010, so
// that table overflow, reaping and refusal happen in every case and
// concurrently with holders. With the virtual clock (vclock instrumentation of
// bucket.go) workers also move the time past the reap interval.
//
// Judged: holders per key <= N at all times; no panic; after quiescence (and
// virtual time moved one hour on) N permits of an old and of a new key can be
// acquired and the N+1st is refused.

type bucketOp struct {
	Key     int `json:"key"`
	Ctx     int `json:"ctx"`
	US      int `json:"us"`
	Dwell   int `json:"dwell"`
	Advance int `json:"advance_s,omitempty"` // virtual seconds added before the op
}

type bucketScenario struct {
	N       int          `json:"n"`
	Max     int          `json:"max_buckets"`
	Keys    int          `json:"keys"`
	Workers int          `json:"workers"`
	Plans   [][]bucketOp `json:"plans"`
	Yield   yieldMode    `json:"yield"`
	VClock  bool         `json:"vclock"`
}

func genBucketScenario(p *prng.R, env instrEnv) bucketScenario {
	sc := bucketScenario{
		N:       p.Range(1, 3),
		Max:     p.Range(1, 6),
		Workers: prng.Pick(p, []int{1, 2, 3, 4, 8, 16}),
		VClock:  env.vclock,
	}
	sc.Keys = p.Range(1, sc.Max+5)
	sc.Yield = genYieldMode(p, env, 0)
	ops := p.Range(3, 10)
	for w := 0; w < sc.Workers; w++ {
		var plan []bucketOp
		for k := 0; k < ops; k++ {
			op := bucketOp{Key: p.Intn(sc.Keys), Ctx: p.Weighted([]int{1, 6, 1, 1}), US: p.Range(50, 2000), Dwell: p.Intn(6)}
			if op.Ctx == ctxBG {
				// BucketSet.TakeContext has no time-out of its own
				op.Ctx = ctxShort
				op.US = 20000
			}
			if env.vclock && p.Chance(1, 4) {
				op.Advance = prng.Pick(p, []int{30, 61, 61, 3600})
			}
			plan = append(plan, op)
		}
		sc.Plans = append(sc.Plans, plan)
	}
	return sc
}

func runBucketCases(t *testing.T, r *rep.Reporter, env instrEnv) {
	n := r.N(120, 12000)
	for i := 0; i < n; i++ {
		idx := baseBucket + i
		r.Run(idx, fmt.Sprintf("bucketset-%d", i), func(c *rep.Case) {
			p := prng.New(r.Seed(), uint64(idx), "c11/bucket")
			sc := genBucketScenario(p, env)
			if sc.VClock {
				verifkit.SetVirtualClock(time.Date(2030, 1, 1, 0, 0, 0, 0, time.UTC))
				defer verifkit.DisableVirtualClock()
			}
			sc.Yield.Install(r.Seed() ^ uint64(idx))
			defer verifkit.ResetYield()

			bs := limiters.NewBucketSet(func() limiters.L {
				return &limiters.MultiLimit{Wrapped: []limiters.L{limiters.NewSemaphore(sc.N)}}
			}, time.Minute, sc.Max)
			key := func(k int) string { return fmt.Sprintf("k%d", k) }

			mon := newInsideMon(limitsCfg{})
			mon.lim["bucket"] = sc.N
			var cr crashes
			var granted, ctxErr, otherErr atomic.Int64
			var wg sync.WaitGroup
			for w := 0; w < sc.Workers; w++ {
				wg.Add(1)
				go func(plan []bucketOp) {
					defer wg.Done()
					cr.Guard(func() {
						for _, op := range plan {
							if op.Advance > 0 {
								verifkit.AdvanceClock(time.Duration(op.Advance) * time.Second)
							}
							ctx, cancel := mkCtx(op.Ctx, op.US)
							err := bs.TakeContext(ctx, key(op.Key))
							cancel()
							if err != nil {
								if isCtxErr(err) {
									ctxErr.Add(1)
								} else {
									otherErr.Add(1)
								}
								continue
							}
							granted.Add(1)
							sk := scopeKey{"bucket", key(op.Key)}
							mon.Enter(sk)
							dwell(op.Dwell)
							mon.Leave(sk)
							bs.Release(key(op.Key))
						}
					})
				}(sc.Plans[w])
			}
			if !waitTimeout(&wg, 120*time.Second) {
				c.Inconclusive("workers did not finish within the watchdog")
				c.Done("", false)
				return
			}
			planHits := verifkit.PlanHits()
			verifkit.ResetYield()
			cr.Report(c, "bucketset", sc)
			for sck, o := range mon.over {
				_ = sck
				c.Violation("enforce/more-holders-than-limit/scope=bucket/via=bucketset",
					fmt.Sprintf("%d holders of key %q at the same time, limit %d", o.Count, o.Key, o.Limit),
					map[string]any{"excess": o, "scenario": sc})
			}

			// quiescent probes
			probed := false
			if !cr.Any() && (sc.VClock || sc.Keys+2 <= sc.Max) {
				probed = true
				for _, k := range []string{key(0), "fresh"} {
					if cr.Any() {
						break
					}
					if sc.VClock {
						// every bucket (also the one the previous probe just used) is idle for an hour
						verifkit.AdvanceClock(time.Hour)
					}
					cr.Guard(func() {
						got := 0
						ok := true
						for j := 0; j < sc.N; j++ {
							ctx, cancel := context.WithTimeout(context.Background(), 5*time.Second)
							err := bs.TakeContext(ctx, k)
							cancel()
							if err != nil {
								c.Violation("quiescent/fewer-than-limit-grantable/scope=bucket/via=bucketset",
									fmt.Sprintf("no holder left and every bucket idle for an hour of (virtual) time, yet only %d of %d permits of key %q could be acquired (%v)", j, sc.N, k, err),
									map[string]any{"granted": j, "error": err.Error(), "scenario": sc})
								ok = false
								break
							}
							got++
						}
						if ok {
							r.Count("probe_full_capacity_granted", 1)
							if wronglyGranted(func(ctx context.Context) error { return bs.TakeContext(ctx, k) }) {
								c.Violation("quiescent/more-than-limit-grantable/scope=bucket/via=bucketset",
									fmt.Sprintf("the harness holds %d permits of key %q (limit %d) and was granted one more", sc.N, k, sc.N),
									map[string]any{"scenario": sc})
								bs.Release(k)
							} else {
								r.Count("probe_surplus_refused", 1)
							}
						}
						for j := 0; j < got; j++ {
							bs.Release(k)
						}
					})
				}
				cr.Report(c, "bucketset", sc)
			}

			r.Count("bucketset_granted", granted.Load())
			r.Count("bucketset_ctx_error", ctxErr.Load())
			r.Count("bucketset_refused_other_error", otherErr.Load())
			r.Count("yield_plan_hits", int64(planHits))
			sat, _ := mon.Saturated()
			r.Count("scope_keys_saturated", int64(sat))
			overflow := sc.Keys > sc.Max+1
			if overflow {
				r.Count("bucketset_cases_beyond_table_capacity", 1)
			}
			if i < 2 {
				r.Sample(map[string]any{"layer": "bucketset", "n": sc.N, "max_buckets": sc.Max, "keys": sc.Keys, "workers": sc.Workers})
			}
			shape := fmt.Sprintf("bucketset n=%d max=%d keys=%d w=%d y=%s vclock=%v refused=%v", sc.N, sc.Max, sc.Keys, sc.Workers, sc.Yield.Kind, sc.VClock, otherErr.Load() > 0)
			c.Done(shape, overflow || sat > 0 || probed)
		})
	}
}
