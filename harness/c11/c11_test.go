//go:build verif

// Package c11 monitors property C11: rate/concurrency limits are enforced,
// every permit is returned exactly once, limit operations never crash.
//
// Case index ranges (a case is identified by seed, tier, index):
//
//	        0 ...  direct limits.Group histories            (group_test.go)
//	1_000_000 ...  key-population runs through limits.Group (population_test.go)
//	1_500_000 ...  keys held across a full bucket table     (population_test.go)
//	2_000_000 ...  SMTP endpoint with a limits block        (endpoint_test.go)
//	2_500_000 ...  one domain in all its spellings at once  (spelling_test.go)
//	3_000_000 ...  remote target, destination scope          (remote_test.go)
//	3_500_000 ...  remote target, next-hop fault matrix      (remote_fault_test.go)
//	4_000_000 ...  limiters.BucketSet with a small table     (bucket_test.go)
package c11

import (
	"encoding/json"
	"fmt"
	"os"
	"path/filepath"
	"runtime/debug"
	"sort"
	"strings"
	"sync"
	"testing"
	"time"

	"github.com/foxcpp/maddy/framework/log"
	"github.com/foxcpp/maddy/internal/limits"
	"github.com/foxcpp/maddy/internal/zzverif/mx"
	"verifkit"
	"verifkit/prng"
	"verifkit/rep"
)

const (
	baseGroup      = 0
	basePopulation = 1_000_000
	baseEndpoint   = 2_000_000
	baseRemote     = 3_000_000
	baseBucket     = 4_000_000
)

// Scope names as written in configuration.
const (
	scAll  = "all"
	scIP   = "ip"
	scSrc  = "source"
	scDest = "destination"
)

var allScopes = []string{scAll, scIP, scSrc, scDest}

func TestVerif(t *testing.T) {
	r := rep.Open("C11")
	defer r.Close()
	// maddy's default logger writes to stderr; keep the shard logs readable.
	log.DefaultLogger.Out = log.NopOutput{}
	env := detectInstrumentation()
	r.Set("vclock_instrumented", env.vclock)
	r.Set("yield_sites_instrumented", len(env.sites))

	timed := func(name string, f func(*testing.T, *rep.Reporter, instrEnv)) {
		t0 := time.Now()
		f(t, r, env)
		r.Count("layer_wall_ms_"+name, time.Since(t0).Milliseconds()) // summed over shards; informational only
	}
	timed("group", runGroupCases)
	timed("bucketset", runBucketCases)
	timed("population", runPopulationCases)
	timed("endpoint", runEndpointCases)
	timed("remote", runRemoteCases)

	verifkit.ResetYield()
	verifkit.DisableVirtualClock()
}

// ---------------------------------------------------------------------------
// instrumentation discovery

type instrEnv struct {
	vclock bool     // bucket.go reads verifkit.Now
	sites  []string // yield sites inserted into limits/limiters
}

// detectInstrumentation reads what the driver's instrumentation step produced
// for this build ($VERIF_BUILD/instr-spec.json, instr/errors.json, sites.json).
// Without the files (instrumentation switched off in spec.json) the harness
// runs on the real clock and without yield plans.
func detectInstrumentation() instrEnv {
	var env instrEnv
	bdir := os.Getenv("VERIF_BUILD")
	if bdir == "" {
		return env
	}
	var spec []struct {
		File  string   `json:"file"`
		Kinds []string `json:"kinds"`
	}
	if b, err := os.ReadFile(filepath.Join(bdir, "instr-spec.json")); err == nil {
		json.Unmarshal(b, &spec)
	}
	failed := map[string]bool{}
	var errs []struct {
		File string `json:"file"`
	}
	if b, err := os.ReadFile(filepath.Join(bdir, "instr", "errors.json")); err == nil {
		json.Unmarshal(b, &errs)
	}
	for _, e := range errs {
		failed[e.File] = true
	}
	for _, s := range spec {
		if failed[s.File] {
			continue
		}
		for _, k := range s.Kinds {
			if k == "vclock" && strings.HasSuffix(s.File, "internal/limits/limiters/bucket.go") {
				env.vclock = true
			}
		}
	}
	var sites []struct {
		Site string `json:"site"`
		File string `json:"file"`
	}
	if b, err := os.ReadFile(filepath.Join(bdir, "sites.json")); err == nil {
		json.Unmarshal(b, &sites)
	}
	for _, s := range sites {
		if strings.Contains(s.File, "internal/limits/") {
			env.sites = append(env.sites, s.Site)
		}
	}
	sort.Strings(env.sites)
	return env
}

// ---------------------------------------------------------------------------
// configuration generator

type directive struct {
	Scope  string `json:"scope"`
	Kind   string `json:"kind"` // concurrency | rate
	N      int    `json:"n"`    // max concurrency / burst
	Period string `json:"period,omitempty"`
}

type limitsCfg struct {
	Dirs []directive `json:"dirs"`
}

func (c limitsCfg) Text() string {
	var b strings.Builder
	for _, d := range c.Dirs {
		switch d.Kind {
		case "concurrency":
			fmt.Fprintf(&b, "%s concurrency %d\n", d.Scope, d.N)
		case "rate":
			if d.Period != "" {
				fmt.Fprintf(&b, "%s rate %d %s\n", d.Scope, d.N, d.Period)
			} else {
				fmt.Fprintf(&b, "%s rate %d\n", d.Scope, d.N)
			}
		}
	}
	return b.String()
}

// N is the configured concurrency limit of a scope: the smallest value of its
// concurrency directives; 0 = the scope has no concurrency limit.
func (c limitsCfg) N(scope string) int {
	n := 0
	for _, d := range c.Dirs {
		if d.Scope == scope && d.Kind == "concurrency" && d.N > 0 && (n == 0 || d.N < n) {
			n = d.N
		}
	}
	return n
}

func (c limitsCfg) Has(scope string) bool {
	for _, d := range c.Dirs {
		if d.Scope == scope {
			return true
		}
	}
	return false
}

// Shape names the configuration class: which scopes carry which directive kinds.
func (c limitsCfg) Shape() string {
	var parts []string
	for _, sc := range allScopes {
		var ks []string
		for _, d := range c.Dirs {
			if d.Scope == sc {
				if d.Kind == "concurrency" {
					ks = append(ks, fmt.Sprintf("c%d", d.N))
				} else {
					ks = append(ks, "r")
				}
			}
		}
		if len(ks) > 0 {
			parts = append(parts, sc[:1]+":"+strings.Join(ks, "+"))
		}
	}
	return strings.Join(parts, ",")
}

type cfgOpts struct {
	scopes    []string // candidate scopes
	maxN      int
	allowRate bool
	// rateBurst is the burst of generated rate limiters; it is chosen by the
	// caller above the number of acquisitions of the case so that a rate
	// limiter never blocks (the statement is about concurrency limits; a rate
	// limiter in the chain only exercises ordered acquisition and roll-back).
	rateBurst int
	force     string // scope that must carry a concurrency limit ("" = any)
}

func genCfg(p *prng.R, o cfgOpts) limitsCfg {
	var c limitsCfg
	for {
		c.Dirs = c.Dirs[:0]
		for _, sc := range o.scopes {
			if sc != o.force && !p.Chance(3, 5) {
				continue
			}
			c.Dirs = append(c.Dirs, directive{Scope: sc, Kind: "concurrency", N: p.Range(1, o.maxN)})
			switch {
			case p.Chance(1, 4):
				// second concurrency limit in the same scope: MultiLimit roll-back inside the scope
				c.Dirs = append(c.Dirs, directive{Scope: sc, Kind: "concurrency", N: p.Range(1, o.maxN)})
			case o.allowRate && p.Chance(1, 4):
				d := directive{Scope: sc, Kind: "rate", N: o.rateBurst, Period: "1h"}
				if p.Chance(1, 3) {
					d.N, d.Period = 0, "" // burst 0: documented no-op
				}
				c.Dirs = append(c.Dirs, d)
			}
		}
		if len(c.Dirs) > 0 {
			break
		}
	}
	// Directive order is the acquisition order inside a scope; shuffle it.
	perm := p.Perm(len(c.Dirs))
	out := make([]directive, len(c.Dirs))
	for i, j := range perm {
		out[i] = c.Dirs[j]
	}
	c.Dirs = out
	return c
}

var groupSeq struct {
	sync.Mutex
	n int
}

// buildGroup initialises a limits.Group from configuration text through the
// real parser and Group.Init.
func buildGroup(text string) (*limits.Group, error) {
	groupSeq.Lock()
	groupSeq.n++
	name := fmt.Sprintf("c11_limits_%d", groupSeq.n)
	groupSeq.Unlock()
	m, err := limits.New("limits", name, nil, nil)
	if err != nil {
		return nil, err
	}
	if err := mx.InitModule(m, text, nil); err != nil {
		return nil, err
	}
	return m.(*limits.Group), nil
}

// ---------------------------------------------------------------------------
// inside monitor: number of permit holders per scope key, as seen by the
// harness. A holder is counted after its Take returned success and uncounted
// before its Release is called, so the counted interval is a subset of the
// permit-holding interval: a count above N is a definite violation.

type insideMon struct {
	mu    sync.Mutex
	lim   map[string]int // scope -> N (0 = unlimited)
	cnt   map[string]int // scope|key -> holders
	peak  map[string]int
	over  map[string]overRec // scope -> first excess
	enter int64
}

type overRec struct {
	Scope string `json:"scope"`
	Key   string `json:"key"`
	Count int    `json:"count"`
	Limit int    `json:"limit"`
}

func newInsideMon(cfg limitsCfg) *insideMon {
	m := &insideMon{lim: map[string]int{}, cnt: map[string]int{}, peak: map[string]int{}, over: map[string]overRec{}}
	for _, sc := range allScopes {
		m.lim[sc] = cfg.N(sc)
	}
	return m
}

type scopeKey struct{ scope, key string }

func (m *insideMon) Enter(keys ...scopeKey) {
	m.mu.Lock()
	defer m.mu.Unlock()
	m.enter++
	for _, k := range keys {
		id := k.scope + "|" + k.key
		m.cnt[id]++
		c := m.cnt[id]
		if c > m.peak[id] {
			m.peak[id] = c
		}
		if n := m.lim[k.scope]; n > 0 && c > n {
			if _, seen := m.over[k.scope]; !seen {
				m.over[k.scope] = overRec{Scope: k.scope, Key: k.key, Count: c, Limit: n}
			}
		}
	}
}

func (m *insideMon) Leave(keys ...scopeKey) {
	m.mu.Lock()
	defer m.mu.Unlock()
	for _, k := range keys {
		m.cnt[k.scope+"|"+k.key]--
	}
}

// Saturated is the number of limited scope keys whose holder count reached N.
func (m *insideMon) Saturated() (n int, scopes map[string]bool) {
	m.mu.Lock()
	defer m.mu.Unlock()
	scopes = map[string]bool{}
	for id, pk := range m.peak {
		sc := id[:strings.IndexByte(id, '|')]
		if l := m.lim[sc]; l > 0 && pk >= l {
			n++
			scopes[sc] = true
		}
	}
	return
}

func (m *insideMon) Report(c *rep.Case, layer string, witness any) {
	m.mu.Lock()
	defer m.mu.Unlock()
	for _, sc := range allScopes {
		if o, ok := m.over[sc]; ok {
			c.Violation("enforce/more-holders-than-limit/scope="+sc+"/via="+layer,
				fmt.Sprintf("%d deliveries held a permit of scope %q (key %q) at the same time, configured limit is %d", o.Count, o.Scope, o.Key, o.Limit),
				map[string]any{"excess": o, "scenario": witness})
		}
	}
}

// ---------------------------------------------------------------------------
// crash collector: panics in harness worker goroutines that call into maddy.

type crashes struct {
	mu   sync.Mutex
	list []crashRec
}

type crashRec struct {
	Site  string `json:"site"`
	Value string `json:"value"`
	Stack string `json:"stack"`
}

// Guard runs fn and records a panic escaping from it.
func (cr *crashes) Guard(fn func()) (panicked bool) {
	defer func() {
		if v := recover(); v != nil {
			st := string(debug.Stack())
			if len(st) > 5000 {
				st = st[:5000]
			}
			cr.mu.Lock()
			cr.list = append(cr.list, crashRec{Site: rep.PanicSite(st), Value: fmt.Sprint(v), Stack: st})
			cr.mu.Unlock()
			panicked = true
		}
	}()
	fn()
	return false
}

func (cr *crashes) Any() bool {
	cr.mu.Lock()
	defer cr.mu.Unlock()
	return len(cr.list) > 0
}

func (cr *crashes) Report(c *rep.Case, layer string, witness any) {
	cr.mu.Lock()
	defer cr.mu.Unlock()
	seen := map[string]bool{}
	for _, x := range cr.list {
		if seen[x.Site] {
			continue
		}
		seen[x.Site] = true
		c.Violation("crash/"+x.Site+"/via="+layer, "limit operation panicked: "+x.Value,
			map[string]any{"panic": x, "scenario": witness})
	}
}

// ---------------------------------------------------------------------------
// yield modes

type yieldMode struct {
	Kind   string               `json:"kind"` // off | count | gosched | sleep | plan
	Points []verifkit.PlanPoint `json:"points,omitempty"`
}

func genYieldMode(p *prng.R, env instrEnv, seed uint64) yieldMode {
	if len(env.sites) == 0 {
		return yieldMode{Kind: "off"}
	}
	switch p.Weighted([]int{2, 1, 2, 2, 4}) {
	case 0:
		return yieldMode{Kind: "off"}
	case 1:
		return yieldMode{Kind: "count"}
	case 2:
		return yieldMode{Kind: "gosched"}
	case 3:
		return yieldMode{Kind: "sleep"}
	}
	ym := yieldMode{Kind: "plan"}
	for i, n := 0, p.Range(1, 2); i < n; i++ {
		ym.Points = append(ym.Points, verifkit.PlanPoint{Site: prng.Pick(p, env.sites), Occ: p.Range(1, 6)})
	}
	return ym
}

func (ym yieldMode) Install(seed uint64) {
	verifkit.ResetYield()
	switch ym.Kind {
	case "off":
		verifkit.SetYieldEnabled(false)
	case "count":
	case "gosched":
		verifkit.SetRandomYield(seed, 3)
	case "sleep":
		verifkit.SetRandomYield(seed, -16)
	case "plan":
		verifkit.SetPlan(&verifkit.Plan{Points: ym.Points})
	}
}

// waitTimeout waits for wg; false means the watchdog expired.
func waitTimeout(wg *sync.WaitGroup, d time.Duration) bool {
	done := make(chan struct{})
	go func() { wg.Wait(); close(done) }()
	select {
	case <-done:
		return true
	case <-time.After(d):
		return false
	}
}
