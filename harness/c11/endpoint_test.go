//go:build verif

package c11

import (
	"bufio"
	"context"
	"errors"
	"fmt"
	"net"
	"os"
	"strconv"
	"strings"
	"sync"
	"sync/atomic"
	"testing"
	"time"

	"github.com/foxcpp/maddy/framework/log"
	"github.com/foxcpp/maddy/framework/module"
	"github.com/foxcpp/maddy/internal/endpoint/smtp"
	"github.com/foxcpp/maddy/internal/limits"
	"github.com/foxcpp/maddy/internal/zzverif/mx"
	"verifkit/prng"
	"verifkit/rep"
)

// Layer (ii): an SMTP/LMTP endpoint built from configuration text with a
// limits block (inline `limits { ... }`, or `limits &name` referencing a
// limits.Group the harness built from the same text and can therefore probe
// directly), a scripted check (rejects MAIL) and a scripted target (rejects
// RCPT, fails DATA / commit, holds deliveries). 2-12 clients from several
// 127.0.0.x source addresses run transactions that end at every stage:
// delivered, MAIL rejected, RCPT rejected, body failed, commit failed, RSET,
// QUIT, connection dropped, connection dropped inside DATA.
//
// Inside intervals (subsets of the permit-holding interval of a transaction):
//   - the CheckSender call of the scripted check (runs inside pipeline.Start,
//     i.e. after TakeMsg and before any release),
//   - from the entry of the target's Start to the first of: Start failing,
//     Body failing, entry of Commit, entry of Abort.
//
// The count of transactions inside per scope key must never exceed N.
// After all sessions have ended (Endpoint.ConnectionCount() == 0) the
// quiescent probes of layer (i) run on the Group (reference mode) or through
// SMTP (inline mode).

var epEndings = []string{"ok", "ok", "mail-rej", "rcpt-rej", "body-fail", "commit-fail", "rset", "rset-early", "quit", "drop", "drop-in-data"}

// Endings that abort a transaction by a nested MAIL or a repeated EHLO/LHLO.
// Their permit leaks in session.go are owned by the C03 engineer; they are
// part of the workload only while epExtraEndings is true (see NOTES.md).
var epExtra = []string{"nested-mail", "re-ehlo"}

const epExtraEndings = true

var epStages = []string{"none", "sender", "start", "rcpt", "body", "commit"}

type epTx struct {
	Domain   int    `json:"domain"`   // sender domain class, -1 = null sender
	Spelling int    `json:"spelling"` // 0 lower, 1 UPPER, 2 Mixed
	End      string `json:"end"`
	Stage    string `json:"dwell_stage"`
	DwellUS  int    `json:"dwell_us"`
	// Form (spelling scenarios, spelling_test.go): named spelling of the sender domain (source scenario)
	// or of the recipient domain (destination scenario); "" = Spelling applies.
	Form string `json:"form,omitempty"`
}

type epClient struct {
	IP  int    `json:"ip"` // 127.0.0.(2+IP)
	Txs []epTx `json:"txs"`
}

type epScenario struct {
	Proto   string     `json:"proto"` // smtp | lmtp
	Defer   bool       `json:"defer_sender_reject"`
	Inline  bool       `json:"inline_limits_block"`
	Timeout bool       `json:"limit_timeout_scenario"`
	Scope   string     `json:"timeout_scope,omitempty"`
	Cfg     limitsCfg  `json:"cfg"`
	Text    string     `json:"limits_text"`
	Clients []epClient `json:"clients"`
	// Spell (spelling_test.go): "" | source | destination - every client uses another spelling of ONE
	// domain, all of them at the same time; the admitted ones are held by a barrier.
	Spell       string    `json:"spelling_scenario,omitempty"`
	IDN         bool      `json:"idn_domain,omitempty"` // the domain class is an internationalised domain
	RemoteCfg   limitsCfg `json:"remote_cfg,omitempty"` // destination scenario: limits of the remote target behind the endpoint
	RemoteText  string    `json:"remote_limits_text,omitempty"`
	NexthopUTF8 bool      `json:"nexthop_smtputf8,omitempty"` // destination scenario: the next hop advertises SMTPUTF8
}

func epIP(i int) net.IP { return net.IPv4(127, 0, 0, byte(2+i)) }

func epDomain(class int) string { return fmt.Sprintf("d%d.example", class) }

func epSender(ci, ti int, tx epTx) string {
	if tx.Domain < 0 {
		return ""
	}
	d := epDomain(tx.Domain)
	switch tx.Spelling {
	case 1:
		d = strings.ToUpper(d)
	case 2:
		d = strings.ToUpper(d[:1]) + d[1:len(d)-3] + "PLE"
	}
	return fmt.Sprintf("c%dt%d@%s", ci, ti, d)
}

func genEndpointScenario(p *prng.R, timeout bool) epScenario {
	sc := epScenario{Proto: "smtp", Defer: p.Bool(), Inline: p.Chance(1, 5), Timeout: timeout}
	if p.Chance(1, 5) {
		sc.Proto = "lmtp"
	}
	scopes := []string{scAll, scIP, scSrc}
	if timeout {
		// one binding scope with N in 1..2; the others, if present, are wide
		sc.Scope = prng.Pick(p, scopes)
		n := p.Range(1, 2)
		sc.Cfg.Dirs = []directive{{Scope: sc.Scope, Kind: "concurrency", N: n}}
		for _, o := range scopes {
			if o != sc.Scope && p.Chance(1, 3) {
				sc.Cfg.Dirs = append(sc.Cfg.Dirs, directive{Scope: o, Kind: "concurrency", N: n + p.Range(3, 5)})
			}
		}
		perm := p.Perm(len(sc.Cfg.Dirs))
		ds := make([]directive, len(perm))
		for i, j := range perm {
			ds[i] = sc.Cfg.Dirs[j]
		}
		sc.Cfg.Dirs = ds
		// holders 0..n-1, surplus n..n+s-1: all on the same ip and sender domain
		total := n + p.Range(1, 2)
		for ci := 0; ci < total; ci++ {
			end := "ok"
			if ci < n {
				end = prng.Pick(p, []string{"ok", "rset", "drop", "quit", "rcpt-rej", "body-fail"})
			}
			sc.Clients = append(sc.Clients, epClient{IP: 0, Txs: []epTx{{Domain: 0, Spelling: p.Intn(3), End: end, Stage: "start"}}})
		}
	} else {
		sc.Cfg = genCfg(p, cfgOpts{scopes: scopes, maxN: prng.Pick(p, []int{1, 2, 3}), allowRate: true, rateBurst: 512})
		nc := p.Range(2, 12)
		nip := prng.Pick(p, []int{1, 2, 3})
		ndom := prng.Pick(p, []int{1, 2, 3})
		for ci := 0; ci < nc; ci++ {
			cl := epClient{IP: p.Intn(nip)}
			for ti, nt := 0, p.Range(1, 3); ti < nt; ti++ {
				tx := epTx{Domain: p.Intn(ndom), Spelling: p.Intn(3), End: prng.Pick(p, epEndings), Stage: prng.Pick(p, epStages), DwellUS: p.Range(100, 4000)}
				if extra := p.Chance(1, 6); extra && epExtraEndings {
					tx.End = prng.Pick(p, epExtra)
				}
				if p.Chance(1, 10) {
					tx.Domain = -1
				}
				cl.Txs = append(cl.Txs, tx)
			}
			sc.Clients = append(sc.Clients, cl)
		}
	}
	sc.Text = sc.Cfg.Text()
	return sc
}

// ---- endpoint under test -----------------------------------------------------

type epHarness struct {
	sc    epScenario
	endp  *smtp.Endpoint
	addr  string
	group *limits.Group // nil in inline mode
	tgt   *mx.ScriptTarget
	chk   *mx.ScriptCheck
	lg    *mx.Log
	mon   *insideMon

	mu       sync.Mutex
	from     map[string]string // msg id -> MAIL FROM seen by the target/check
	in       map[string]bool   // msg id -> currently counted inside (target interval)
	panics   []string
	hold     chan struct{} // timeout scenario: holders wait here inside Start
	holding  atomic.Int32
	probeSeq atomic.Int64
	entered  atomic.Int64
	opened   atomic.Bool // spelling scenario: the barrier has been opened
	rm       *spRemote   // destination spelling scenario: remote target + next hop behind the endpoint
}

var epSeq atomic.Int64

// Checks inside a `check { }` block are created inline by module name; the
// factory "check.c11_script <name>" hands out the scripted check of a case.
var scriptChecks struct {
	sync.Mutex
	once sync.Once
	m    map[string]*mx.ScriptCheck
}

func registerCheck(chk *mx.ScriptCheck) {
	scriptChecks.once.Do(func() {
		scriptChecks.m = map[string]*mx.ScriptCheck{}
		module.Register("check.c11_script", func(_, _ string, _, inlineArgs []string) (module.Module, error) {
			scriptChecks.Lock()
			defer scriptChecks.Unlock()
			if len(inlineArgs) != 1 || scriptChecks.m[inlineArgs[0]] == nil {
				return nil, fmt.Errorf("c11_script: unknown scripted check %v", inlineArgs)
			}
			return scriptChecks.m[inlineArgs[0]], nil
		})
	})
	scriptChecks.Lock()
	scriptChecks.m[chk.InstName] = chk
	scriptChecks.Unlock()
}

// errNoPort: the machine has (temporarily) no free TCP port - an environment
// problem, the case is inconclusive.
var errNoPort = errors.New("no free TCP port on 127.0.0.1")

// retryPorts runs f until it stops failing with "address already in use"
// (ephemeral ports are shared with every other check running on the machine
// and can be exhausted by sockets in TIME_WAIT), for at most about a minute.
func retryPorts(f func() error) error {
	var err error
	for try := 0; try < 60; try++ {
		if err = f(); err == nil || !strings.Contains(err.Error(), "address already in use") {
			return err
		}
		time.Sleep(time.Duration(200+50*try) * time.Millisecond)
	}
	return fmt.Errorf("%w: %v", errNoPort, err)
}

func freePort() (int, error) {
	l, err := net.Listen("tcp", "127.0.0.1:0")
	if err != nil {
		return 0, err
	}
	defer l.Close()
	return l.Addr().(*net.TCPAddr).Port, nil
}

// txOf parses "c<client>t<tx>@domain".
func (h *epHarness) txOf(from string) (ci, ti int, tx *epTx) {
	at := strings.IndexByte(from, '@')
	if at < 0 {
		// null sender: a scenario has at most ... any number; identify by being the only candidate is impossible,
		// so null-sender transactions carry no script (delivered, no dwell)
		return -1, -1, nil
	}
	lp := from[:at]
	if !strings.HasPrefix(lp, "c") {
		return -1, -1, nil
	}
	k := strings.IndexByte(lp, 't')
	if k < 0 {
		return -1, -1, nil
	}
	ci, err1 := strconv.Atoi(lp[1:k])
	ti, err2 := strconv.Atoi(lp[k+1:])
	if err1 != nil || err2 != nil || ci >= len(h.sc.Clients) || ti >= len(h.sc.Clients[ci].Txs) {
		return -1, -1, nil
	}
	return ci, ti, &h.sc.Clients[ci].Txs[ti]
}

func (h *epHarness) keysOf(ci int, tx *epTx) []scopeKey {
	dom := ""
	if tx.Domain >= 0 {
		// the name of the sender-domain CLASS (all spellings of it count on this key)
		dom = epDomain(tx.Domain)
		if h.sc.Spell == scSrc {
			dom = spellCanonical(tx.Domain, h.sc.IDN)
		}
	}
	return []scopeKey{{scAll, ""}, {scIP, epIP(h.sc.Clients[ci].IP).String()}, {scSrc, dom}}
}

func (h *epHarness) leaveTarget(msgID string) {
	h.mu.Lock()
	was := h.in[msgID]
	delete(h.in, msgID)
	from := h.from[msgID]
	h.mu.Unlock()
	if !was {
		return
	}
	if ci, _, tx := h.txOf(from); tx != nil {
		h.mon.Leave(h.keysOf(ci, tx)...)
	}
}

func newEpHarness(sc epScenario) (*epHarness, error) {
	id := epSeq.Add(1)
	h := &epHarness{sc: sc, lg: mx.NewLog(), mon: newInsideMon(sc.Cfg), from: map[string]string{}, in: map[string]bool{}, hold: make(chan struct{})}
	h.tgt = mx.NewTarget(fmt.Sprintf("c11_tgt_%d", id), h.lg)
	h.tgt.Partial = true
	h.chk = mx.NewCheck(fmt.Sprintf("c11_chk_%d", id), h.lg)

	// scripted check: sender stage = first inside interval, MAIL rejection
	h.chk.Hook = func(p mx.CheckPoint) {
		if p.Stage != "sender" {
			return
		}
		ci, _, tx := h.txOf(p.Arg)
		if tx == nil {
			return
		}
		h.entered.Add(1)
		keys := h.keysOf(ci, tx)
		h.mon.Enter(keys...)
		if tx.Stage == "sender" {
			time.Sleep(time.Duration(tx.DwellUS) * time.Microsecond)
		}
		h.mon.Leave(keys...)
	}
	h.chk.Result = func(p mx.CheckPoint) module.CheckResult {
		if p.Stage == "sender" {
			if _, _, tx := h.txOf(p.Arg); tx != nil && tx.End == "mail-rej" {
				return module.CheckResult{Reject: true, Reason: mx.MakeErr(mx.Perm, 0, "sender refused")}
			}
		}
		return module.CheckResult{}
	}

	// scripted target: second inside interval, failures at RCPT / body / commit, dwell, hold
	h.tgt.Hook = func(p mx.Point) {
		var from string
		if p.Stage == mx.StStart {
			for _, e := range h.lg.Filter(func(e mx.Event) bool { return e.Kind == "start.call" && e.MsgID == p.MsgID }) {
				from = e.From
			}
			h.mu.Lock()
			h.from[p.MsgID] = from
			h.mu.Unlock()
		} else {
			h.mu.Lock()
			from = h.from[p.MsgID]
			h.mu.Unlock()
		}
		ci, _, tx := h.txOf(from)
		if tx == nil {
			return
		}
		switch p.Stage {
		case mx.StStart:
			h.entered.Add(1)
			h.mu.Lock()
			h.in[p.MsgID] = true
			h.mu.Unlock()
			h.mon.Enter(h.keysOf(ci, tx)...)
			if h.sc.Timeout && ci < h.holders() || h.sc.Spell == "source" {
				h.holding.Add(1)
				<-h.hold
			}
		case mx.StCommit, mx.StAbort:
			if tx.Stage == "commit" {
				time.Sleep(time.Duration(tx.DwellUS) * time.Microsecond)
			}
			h.leaveTarget(p.MsgID)
			return
		}
		if tx.Stage == p.Stage {
			time.Sleep(time.Duration(tx.DwellUS) * time.Microsecond)
		}
	}
	h.tgt.Script = func(p mx.Point) error {
		h.mu.Lock()
		from := h.from[p.MsgID]
		h.mu.Unlock()
		_, _, tx := h.txOf(from)
		if tx == nil {
			return nil
		}
		switch {
		case p.Stage == mx.StRcpt && tx.End == "rcpt-rej":
			return mx.MakeErr(mx.Perm, 0, "rcpt refused")
		case p.Stage == mx.StBody && tx.End == "body-fail":
			// the delivery may never be aborted by the session (a C03 matter); the
			// interval ends here, still inside the Body call
			h.leaveTarget(p.MsgID)
			return mx.MakeErr(mx.Temp, 0, "body failed")
		case p.Stage == mx.StCommit && tx.End == "commit-fail":
			return mx.MakeErr(mx.Temp, 1, "commit failed")
		}
		return nil
	}
	mx.RegisterInstance(h.tgt)
	registerCheck(h.chk)
	deliverTo := h.tgt.InstName
	if sc.Spell == "destination" {
		// the real remote target (with its own limits) behind the endpoint, one scripted next hop
		name, err := h.attachRemote(id)
		if err != nil {
			return nil, err
		}
		deliverTo = name
	}

	limitsDirective := ""
	if sc.Text == "" {
		// no limits on the endpoint itself (destination spelling scenario)
	} else if sc.Inline {
		limitsDirective = "limits {\n" + sc.Text + "}\n"
	} else {
		g, err := buildGroup(sc.Text)
		if err != nil {
			return nil, err
		}
		h.group = g
		mx.RegisterInstance(g)
		limitsDirective = "limits &" + g.InstanceName() + "\n"
	}
	deferTxt := "no"
	if sc.Defer {
		deferTxt = "yes"
	}
	text := "hostname mx.example.com\ntls off\nbuffer ram\ndefer_sender_reject " + deferTxt + "\n" + limitsDirective +
		"check {\nc11_script " + h.chk.InstName + "\n}\ndeliver_to &" + deliverTo + "\n"

	var lastErr error
	for try := 0; try < 20; try++ {
		var port int
		err := retryPorts(func() (e error) { port, e = freePort(); return })
		if err != nil {
			return nil, err
		}
		h.addr = fmt.Sprintf("127.0.0.1:%d", port)
		m, err := smtp.New(sc.Proto, []string{"tcp://" + h.addr})
		if err != nil {
			return nil, err
		}
		endp := m.(*smtp.Endpoint)
		endp.Log = log.Logger{Name: sc.Proto, Out: log.FuncOutput(func(_ time.Time, _ bool, msg string) {
			if strings.Contains(msg, "panic") {
				h.mu.Lock()
				h.panics = append(h.panics, msg)
				h.mu.Unlock()
			}
		}, func() error { return nil })}
		if err := mx.InitModule(endp, text, nil); err != nil {
			lastErr = err
			if strings.Contains(err.Error(), "address already in use") {
				continue
			}
			return nil, fmt.Errorf("endpoint init: %w\n%s", err, text)
		}
		h.endp = endp
		return h, nil
	}
	return nil, fmt.Errorf("%w: %v", errNoPort, lastErr)
}

func (h *epHarness) holders() int {
	return h.sc.Cfg.N(h.sc.Scope)
}

func (h *epHarness) reportPanics(c *rep.Case) {
	h.mu.Lock()
	defer h.mu.Unlock()
	seen := map[string]bool{}
	for _, msg := range h.panics {
		site := rep.PanicSite(msg)
		if seen[site] {
			continue
		}
		seen[site] = true
		if len(msg) > 5000 {
			msg = msg[:5000]
		}
		c.Violation("crash/"+site+"/via=endpoint", "a panic was recovered while the endpoint served a command", map[string]any{"log": msg, "scenario": h.sc})
	}
}

func (h *epHarness) panicked() bool {
	h.mu.Lock()
	defer h.mu.Unlock()
	return len(h.panics) > 0
}

// ---- SMTP client ----------------------------------------------------------------

type epConn struct {
	c  net.Conn
	br *bufio.Reader
}

func epDial(addr string, local net.IP) (*epConn, error) {
	d := net.Dialer{Timeout: 20 * time.Second}
	if local != nil {
		d.LocalAddr = &net.TCPAddr{IP: local}
	}
	c, err := d.Dial("tcp", addr)
	if err != nil {
		return nil, err
	}
	return &epConn{c: c, br: bufio.NewReader(c)}, nil
}

// reply reads one (possibly multi-line) reply; code 0 = connection problem.
func (c *epConn) reply() (int, string) {
	c.c.SetReadDeadline(time.Now().Add(30 * time.Second))
	var text []string
	for {
		line, err := c.br.ReadString('\n')
		if err != nil || len(line) < 4 {
			return 0, strings.Join(text, "|")
		}
		text = append(text, strings.TrimRight(line, "\r\n"))
		if line[3] != '-' {
			code, _ := strconv.Atoi(line[:3])
			return code, strings.Join(text, "|")
		}
	}
}

// epTrace (env C11_TRACE=1, for replays) prints the client side of every SMTP dialogue.
var epTrace = os.Getenv("C11_TRACE") != ""

func (c *epConn) cmd(format string, a ...any) (int, string) {
	c.c.SetWriteDeadline(time.Now().Add(30 * time.Second))
	t0 := time.Now()
	if _, err := fmt.Fprintf(c.c, format+"\r\n", a...); err != nil {
		return 0, err.Error()
	}
	code, text := c.reply()
	if epTrace {
		line := fmt.Sprintf(format, a...)
		if len(line) > 60 {
			line = line[:60]
		}
		fmt.Printf("TRACE %s %v -> %q: %d %s (%d ms)\n", time.Now().Format("15:04:05.000"), c.c.LocalAddr(), line, code, text, time.Since(t0).Milliseconds())
	}
	return code, text
}

type epStats struct {
	tx, delivered, highLoad, mailRefused, rcptRefused, dataFailed, rsets, drops, quits, lost atomic.Int64
	nested, rehlo                                                                            atomic.Int64
}

const msgBody = "From: <a@d.example>\r\nSubject: c11\r\n\r\nbody\r\n"

// runClient plays the transactions of one client; returns false if the
// connection broke where the plan did not break it.
func (h *epHarness) runClient(ci int, st *epStats, onReply func(ti int, stage string, code int)) {
	cl := h.sc.Clients[ci]
	conn, err := epDial(h.addr, epIP(cl.IP))
	if err != nil {
		st.lost.Add(1)
		return
	}
	defer conn.c.Close()
	if code, _ := conn.reply(); code != 220 {
		st.lost.Add(1)
		return
	}
	hello := "EHLO"
	if h.sc.Proto == "lmtp" {
		hello = "LHLO"
	}
	if code, _ := conn.cmd("%s client%d.example", hello, ci); code != 250 {
		st.lost.Add(1)
		return
	}
	for ti, tx := range cl.Txs {
		st.tx.Add(1)
		from, rcpt, utf8 := h.addrs(ci, ti, tx)
		code, _ := conn.cmd("MAIL FROM:<%s>%s", from, utf8)
		onReply(ti, "mail", code)
		if code == 0 {
			st.lost.Add(1)
			return
		}
		if code != 250 {
			if code == 451 {
				st.highLoad.Add(1)
			} else {
				st.mailRefused.Add(1)
			}
			conn.cmd("RSET")
			continue
		}
		if tx.End == "rset-early" {
			st.rsets.Add(1)
			if code, _ := conn.cmd("RSET"); code == 0 {
				st.lost.Add(1)
				return
			}
			continue
		}
		code, txt := conn.cmd("RCPT TO:<%s>", rcpt)
		onReply(ti, "rcpt", code)
		if code == 0 {
			st.lost.Add(1)
			return
		}
		if code != 250 {
			switch {
			case code == 451 && strings.Contains(txt, "High load"):
				st.highLoad.Add(1)
			case tx.End == "mail-rej":
				st.mailRefused.Add(1)
			default:
				st.rcptRefused.Add(1)
			}
			if code, _ := conn.cmd("RSET"); code == 0 {
				st.lost.Add(1)
				return
			}
			continue
		}
		switch tx.End {
		case "rset":
			st.rsets.Add(1)
			if code, _ := conn.cmd("RSET"); code == 0 {
				st.lost.Add(1)
				return
			}
			continue
		case "nested-mail":
			// a second MAIL inside the open transaction, then RSET
			st.nested.Add(1)
			if code, _ := conn.cmd("MAIL FROM:<%s>%s", from, utf8); code == 0 {
				st.lost.Add(1)
				return
			}
			if code, _ := conn.cmd("RSET"); code == 0 {
				st.lost.Add(1)
				return
			}
			continue
		case "re-ehlo":
			// RFC 5321 4.1.4: EHLO inside a transaction aborts it
			st.rehlo.Add(1)
			if code, _ := conn.cmd("%s again%d.example", hello, ci); code == 0 {
				st.lost.Add(1)
				return
			}
			if h.sc.Proto == "lmtp" {
				// go-smtp keeps the recipient list of the aborted transaction across a
				// repeated LHLO and would answer the next DATA with one status line too
				// many (reply matching is a C03 matter; here it would only desynchronise
				// this client and cost a 60 s read time-out). RSET clears the list; the
				// abort under test has already happened in NewSession.
				if code, _ := conn.cmd("RSET"); code == 0 {
					st.lost.Add(1)
					return
				}
			}
			continue
		case "quit":
			st.quits.Add(1)
			conn.cmd("QUIT")
			return
		case "drop":
			st.drops.Add(1)
			return
		}
		if code, _ := conn.cmd("DATA"); code != 354 {
			conn.cmd("RSET")
			continue
		}
		if tx.End == "drop-in-data" {
			st.drops.Add(1)
			fmt.Fprintf(conn.c, "From: <a@d.example>\r\nSubject: half")
			return
		}
		code, _ = conn.cmd("%s.", msgBody)
		onReply(ti, "data", code)
		switch {
		case code == 0:
			st.lost.Add(1)
			return
		case code == 250:
			st.delivered.Add(1)
		default:
			st.dataFailed.Add(1)
		}
	}
	conn.cmd("QUIT")
}

// waitSessionsClosed waits until every server-side session has logged out.
func (h *epHarness) waitSessionsClosed(d time.Duration) bool {
	deadline := time.Now().Add(d)
	for time.Now().Before(deadline) {
		if h.endp.ConnectionCount() == 0 {
			return true
		}
		time.Sleep(time.Millisecond)
	}
	return false
}

func (h *epHarness) close() {
	// go-smtp registers the listener inside Serve: make sure Serve has run
	if c, err := net.DialTimeout("tcp", h.addr, 5*time.Second); err == nil {
		c.Close()
	}
	done := make(chan struct{})
	go func() { h.endp.Close(); close(done) }()
	select {
	case <-done:
	case <-time.After(20 * time.Second):
	}
	if h.rm != nil {
		h.rm.close()
	}
}

// smtpProbe (inline mode: the Group object is not reachable) checks the
// quiescent capacity through SMTP, scope by scope like prober.probeAll: it
// opens m = min(N_all, N_scope) transactions that share the key of `scope` and
// use a fresh address / sender domain for the other scopes, and keeps them
// open (MAIL and RCPT answered 250, no RSET yet): each must be admitted; a 451
// "High load" is the limiter's refusal after its own 5 s time-out. With
// surplus it then checks that one more transaction is refused.
// Returns false when the capacity was not available.
func (h *epHarness) smtpProbe(c *rep.Case, r *rep.Reporter, scope string, surplus bool) bool {
	nAll, nS := h.sc.Cfg.N(scAll), h.sc.Cfg.N(scope)
	m := minPos(nAll, nS)
	if m == 0 {
		return true
	}
	binding := scope
	if nAll != 0 && (nS == 0 || nAll < nS) {
		binding = scAll
	}
	hello := "EHLO"
	if h.sc.Proto == "lmtp" {
		hello = "LHLO"
	}
	open := func() (*epConn, int) {
		ip, dom := epIP(0), "d0.example"
		if scope != scIP {
			ip = net.IPv4(127, 0, 1, byte(1+h.probeSeq.Add(1)%250))
		}
		if scope != scSrc {
			dom = fmt.Sprintf("fresh%d.example", h.probeSeq.Add(1))
		}
		conn, err := epDial(h.addr, ip)
		if err != nil {
			return nil, 0
		}
		if code, _ := conn.reply(); code != 220 {
			conn.c.Close()
			return nil, 0
		}
		conn.cmd("%s probe.example", hello)
		code, _ := conn.cmd("MAIL FROM:<probe@%s>", dom)
		if code == 250 {
			code, _ = conn.cmd("RCPT TO:<r@rcpt.example>")
		}
		return conn, code
	}
	var conns []*epConn
	defer func() {
		for _, cn := range conns {
			cn.cmd("RSET")
			cn.cmd("QUIT")
			cn.c.Close()
		}
		h.waitSessionsClosed(30 * time.Second)
	}()
	for k := 0; k < m; k++ {
		conn, code := open()
		if conn == nil {
			c.Inconclusive("probe connection failed")
			return false
		}
		conns = append(conns, conn)
		if code == 451 {
			c.Violation("quiescent/fewer-than-limit-grantable/scope="+scope+"/via=endpoint-smtp",
				fmt.Sprintf("all sessions have ended, yet only %d of %d transactions with a fixed %q key were admitted (the next one got 451 after the limit time-out)", k, m, scope),
				map[string]any{"granted": k, "limit": m, "scenario": h.sc})
			return false
		}
		if code != 250 {
			c.Inconclusive(fmt.Sprintf("probe transaction got %d", code))
			return false
		}
	}
	r.Count("probe_full_capacity_granted", 1)
	if surplus {
		conn, code := open()
		if conn != nil {
			conns = append(conns, conn)
			if code == 250 {
				c.Violation("quiescent/more-than-limit-grantable/scope="+binding+"/via=endpoint-smtp",
					fmt.Sprintf("%d transactions are open (limit %d) and one more was admitted", m, m),
					map[string]any{"limit": m, "scenario": h.sc})
			} else if code == 451 {
				r.Count("probe_surplus_refused", 1)
			}
		}
	}
	return true
}

func runEndpointCases(t *testing.T, r *rep.Reporter, env instrEnv) {
	n := r.N(64, 4000)
	nTimeout := r.N(8, 128) // the first cases are limit time-out scenarios (5 s each)
	for i := 0; i < n; i++ {
		idx := baseEndpoint + i
		r.Run(idx, fmt.Sprintf("endpoint-%d", i), func(c *rep.Case) {
			p := prng.New(r.Seed(), uint64(idx), "c11/endpoint")
			sc := genEndpointScenario(p, i < nTimeout)
			runEndpointScenario(t, r, c, idx, i, sc, i < 2 || i == nTimeout)
		})
	}
	// one domain in all its spellings at the same time (spelling_test.go): own index range and PRNG stream
	n = r.N(spellQuick, spellThorough)
	for i := 0; i < n; i++ {
		idx := baseSpelling + i
		r.Run(idx, fmt.Sprintf("endpoint-spelling-%d", i), func(c *rep.Case) {
			p := prng.New(r.Seed(), uint64(idx), "c11/endpoint-spelling")
			sc := genSpellingScenario(p, i)
			runEndpointScenario(t, r, c, idx, i, sc, i < 2)
		})
	}
}

// runEndpointScenario runs one generated scenario against an endpoint built from configuration text.
func runEndpointScenario(t *testing.T, r *rep.Reporter, c *rep.Case, idx, i int, sc epScenario, sample bool) {
	{
		{
			caseStart := time.Now()
			defer func() {
				if d := time.Since(caseStart); d > 20*time.Second {
					r.Distinct("endpoint_cases_over_20s", fmt.Sprintf("%s (%ds)", c.ID, int(d.Seconds())))
				}
			}()
			h, err := newEpHarness(sc)
			if errors.Is(err, errNoPort) {
				c.Inconclusive(err.Error())
				c.Done("", false)
				return
			}
			if err != nil {
				t.Fatalf("case %d: %v", idx, err)
			}
			defer h.close()
			yieldMode{Kind: "count"}.Install(0)

			var st epStats
			var wg sync.WaitGroup
			var surplus451, surplusAdmitted atomic.Int64
			judge := true
			if sc.Spell != "" {
				judge = h.runSpelling(c, r, &st, &wg)
			} else if sc.Timeout {
				nh := h.holders()
				// holders first: all of them must get inside Start
				for ci := 0; ci < nh; ci++ {
					wg.Add(1)
					go func(ci int) {
						defer wg.Done()
						h.runClient(ci, &st, func(int, string, int) {})
					}(ci)
				}
				deadline := time.Now().Add(30 * time.Second)
				for int(h.holding.Load()) < nh && time.Now().Before(deadline) && st.highLoad.Load() == 0 && st.lost.Load() == 0 {
					time.Sleep(time.Millisecond)
				}
				if int(h.holding.Load()) < nh {
					close(h.hold)
					waitTimeout(&wg, 60*time.Second)
					h.reportPanics(c)
					if st.highLoad.Load() > 0 && !h.panicked() {
						c.Violation("quiescent/fewer-than-limit-grantable/scope="+sc.Scope+"/via=endpoint-smtp",
							fmt.Sprintf("fresh endpoint: fewer than %d simultaneous transactions were admitted", nh), map[string]any{"scenario": sc})
					} else if !h.panicked() {
						c.Inconclusive("holders did not reach the target")
					}
					c.Done("", false)
					return
				}
				// surplus clients: each blocks in TakeMsg until the 5 s time-out
				var swg sync.WaitGroup
				for ci := nh; ci < len(sc.Clients); ci++ {
					swg.Add(1)
					wg.Add(1)
					go func(ci int) {
						defer wg.Done()
						once := sync.Once{}
						h.runClient(ci, &st, func(ti int, stage string, code int) {
							// the first reply that can carry the limiter's decision
							if stage == "mail" && !sc.Defer || stage == "rcpt" && sc.Defer || code != 250 {
								once.Do(func() {
									if code == 451 {
										surplus451.Add(1)
									} else if code == 250 {
										surplusAdmitted.Add(1)
									}
									swg.Done()
								})
							}
						})
						once.Do(swg.Done)
					}(ci)
				}
				if !waitTimeout(&swg, 60*time.Second) {
					c.Inconclusive("surplus clients got no reply within the watchdog")
				}
				close(h.hold)
			} else {
				for ci := range sc.Clients {
					wg.Add(1)
					go func(ci int) {
						defer wg.Done()
						h.runClient(ci, &st, func(int, string, int) {})
					}(ci)
				}
			}
			if !waitTimeout(&wg, 120*time.Second) {
				c.Inconclusive("clients did not finish within the watchdog")
				c.Done("", false)
				return
			}
			quiet := h.waitSessionsClosed(60 * time.Second)
			h.reportPanics(c)
			layer := "endpoint"
			if sc.Spell != "" {
				// cause class of the witness: spellings of one domain used at the same time
				layer = "endpoint/cause=domain-spelling"
			}
			if judge {
				h.mon.Report(c, layer, sc)
				if h.rm != nil {
					h.rm.mon.Report(c, "endpoint-remote/cause=domain-spelling", sc)
				}
			}
			switch {
			case !quiet:
				c.Inconclusive("server sessions did not end within the watchdog")
			case h.panicked():
			case h.rm != nil:
				// destination spelling scenario: every delivery has ended, probe the remote target's group
				var cr crashes
				pb := &prober{c: c, r: r, g: h.rm.group, cfg: sc.RemoteCfg, layer: "endpoint-remote", wit: sc, cr: &cr}
				pb.probeAll(epIP(0), "sender.example", spellCanonical(0, sc.IDN))
				cr.Report(c, "endpoint-remote", sc)
			case h.group != nil:
				var cr crashes
				pb := &prober{c: c, r: r, g: h.group, cfg: sc.Cfg, layer: "endpoint", wit: sc, cr: &cr}
				usedDom := epDomain(0)
				if sc.Spell == scSrc {
					usedDom = spellCanonical(0, sc.IDN)
				}
				pb.probeAll(epIP(0), usedDom, "")
				cr.Report(c, "endpoint", sc)
			default:
				// one 5 s surplus check per case, on a scope that rotates with the case index
				var present []string
				for _, s := range []string{scAll, scIP, scSrc} {
					if sc.Cfg.N(s) > 0 {
						present = append(present, s)
					}
				}
				for k, s := range present {
					if !h.smtpProbe(c, r, s, k == i%len(present)) || h.panicked() {
						break
					}
				}
				h.reportPanics(c)
			}

			r.Count("endpoint_transactions", st.tx.Load())
			r.Count("endpoint_delivered", st.delivered.Load())
			r.Count("endpoint_451_high_load", st.highLoad.Load())
			r.Count("endpoint_mail_rejected", st.mailRefused.Load())
			r.Count("endpoint_rcpt_rejected", st.rcptRefused.Load())
			r.Count("endpoint_data_failed", st.dataFailed.Load())
			r.Count("endpoint_rset", st.rsets.Load())
			r.Count("endpoint_nested_mail", st.nested.Load())
			r.Count("endpoint_repeated_ehlo", st.rehlo.Load())
			r.Count("endpoint_quit_mid_transaction", st.quits.Load())
			r.Count("endpoint_dropped_connections", st.drops.Load())
			r.Count("endpoint_lost_connections", st.lost.Load())
			r.Count("endpoint_inside_intervals", h.entered.Load())
			r.Count("endpoint_timeout_surplus_refused", surplus451.Load())
			r.Count("endpoint_timeout_surplus_admitted", surplusAdmitted.Load())
			sat, scs := h.mon.Saturated()
			r.Count("scope_keys_saturated", int64(sat))
			for s := range scs {
				r.Distinct("scopes_saturated", s)
			}
			ends := map[string]bool{}
			for _, cl := range sc.Clients {
				for _, tx := range cl.Txs {
					ends[tx.End] = true
					r.Distinct("endpoint_transaction_endings", tx.End)
				}
			}
			if sample {
				r.Sample(map[string]any{"layer": "endpoint", "proto": sc.Proto, "limits": sc.Text, "inline": sc.Inline, "defer": sc.Defer, "timeout_scenario": sc.Timeout, "clients": len(sc.Clients)})
			}
			if h.rm != nil {
				sat, _ = h.rm.mon.Saturated()
				r.Count("scope_keys_saturated", int64(sat))
			}
			shape := fmt.Sprintf("endpoint %s defer=%v inline=%v timeout=%v/%s cfg=%s clients=%d ends=%d sat=%v hl=%v", sc.Proto, sc.Defer, sc.Inline, sc.Timeout, sc.Scope, sc.Cfg.Shape()+sc.RemoteCfg.Shape(), len(sc.Clients), len(ends), sat > 0, st.highLoad.Load() > 0)
			if sc.Spell != "" {
				shape = fmt.Sprintf("spelling=%s idn=%v utf8hop=%v ", sc.Spell, sc.IDN, sc.NexthopUTF8) + shape
			}
			c.Done(shape, sat > 0 || st.highLoad.Load() > 0)
		}
	}
}

var _ = context.Background
