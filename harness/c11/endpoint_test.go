//go:build verif

package c11

import (
	"testing"

	"verifkit/rep"
)

func runEndpointCases(t *testing.T, r *rep.Reporter, env instrEnv) {}
