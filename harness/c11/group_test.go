//go:build verif

package c11

import (
	"context"
	"errors"
	"fmt"
	"net"
	"runtime"
	"sync"
	"sync/atomic"
	"testing"
	"time"

	"github.com/foxcpp/maddy/internal/limits"
	"verifkit"
	"verifkit/prng"
	"verifkit/rep"
)

// Layer (i): a limits.Group built from generated configuration text is driven
// directly by 1-64 concurrent "deliveries". A delivery mirrors what the
// endpoint and the remote target do: TakeMsg, then 0-3 TakeDest, then the
// releases in reverse order. Contexts are background (the Group's own 5 s
// time-out applies), short-deadline, cancelled up front or cancelled
// asynchronously, so limit time-outs and roll-backs happen all the time.

const (
	ctxBG = iota
	ctxShort
	ctxCancelled
	ctxAsync
)

var ctxNames = []string{"bg", "short", "cancelled", "async"}

type destPlan struct {
	Key int `json:"key"`
	Ctx int `json:"ctx"`
	US  int `json:"us"`
}

type opPlan struct {
	Kind  string     `json:"kind"` // msg | dest
	IP    int        `json:"ip"`
	Src   int        `json:"src"` // -1 = null sender (empty domain)
	Ctx   int        `json:"ctx"`
	US    int        `json:"us"` // deadline / cancel delay in microseconds
	Dests []destPlan `json:"dests,omitempty"`
	Dwell int        `json:"dwell"` // 0 none, 1 gosched, 2.. sleep (Dwell*50us)
}

type groupScenario struct {
	Cfg     limitsCfg  `json:"cfg"`
	Text    string     `json:"text"`
	Workers int        `json:"workers"`
	NIP     int        `json:"n_ip"`
	NSrc    int        `json:"n_src"`
	NDest   int        `json:"n_dest"`
	Plans   [][]opPlan `json:"plans"`
	Yield   yieldMode  `json:"yield"`
	Monitor bool       `json:"monitor"`
}

func ipKey(i int) net.IP { return net.IPv4(10, byte(i>>16), byte(i>>8), byte(i)) }
func srcKey(i int) string {
	if i < 0 {
		return ""
	}
	return fmt.Sprintf("s%d.example", i)
}
func destKey(i int) string { return fmt.Sprintf("d%d.example", i) }

func genGroupScenario(p *prng.R, env instrEnv) groupScenario {
	var sc groupScenario
	sc.Cfg = genCfg(p, cfgOpts{scopes: allScopes, maxN: prng.Pick(p, []int{1, 2, 3, 5}), allowRate: true, rateBurst: 4096})
	sc.Text = sc.Cfg.Text()
	sc.Workers = prng.Pick(p, []int{1, 2, 3, 4, 8, 8, 16, 16, 32, 64})
	sc.NIP = prng.Pick(p, []int{1, 1, 2, 4})
	sc.NSrc = prng.Pick(p, []int{1, 1, 2, 4})
	sc.NDest = prng.Pick(p, []int{1, 2, 4})
	sc.Monitor = !p.Chance(1, 6)
	sc.Yield = genYieldMode(p, env, 0)
	if !sc.Monitor {
		// race-detector stress: no harness-side synchronisation between workers
		sc.Yield = yieldMode{Kind: "off"}
	}
	opsPer := p.Range(2, 6)
	if sc.Workers >= 32 {
		opsPer = p.Range(1, 3)
	}
	ctxW := [][]int{{6, 3, 1, 1}, {2, 6, 1, 2}, {1, 1, 1, 1}}[p.Intn(3)]
	for w := 0; w < sc.Workers; w++ {
		var plan []opPlan
		for k := 0; k < opsPer; k++ {
			op := opPlan{Kind: "msg", IP: p.Intn(sc.NIP), Src: p.Intn(sc.NSrc), Ctx: p.Weighted(ctxW), US: p.Range(50, 3000), Dwell: p.Intn(8)}
			if p.Chance(1, 12) {
				op.Src = -1
			}
			if p.Chance(1, 5) {
				op.Kind = "dest"
			}
			nd := p.Weighted([]int{3, 4, 2, 1})
			if op.Kind == "dest" && nd == 0 {
				nd = 1
			}
			if nd > sc.NDest {
				nd = sc.NDest
			}
			for _, di := range p.Perm(sc.NDest)[:nd] {
				op.Dests = append(op.Dests, destPlan{Key: di, Ctx: p.Weighted(ctxW), US: p.Range(50, 3000)})
			}
			plan = append(plan, op)
		}
		sc.Plans = append(sc.Plans, plan)
	}
	return sc
}

type groupStats struct {
	takeOK, takeCtxErr, takeOtherErr atomic.Int64
	destOK, destCtxErr, destOtherErr atomic.Int64
	cancelledGranted                 atomic.Int64
}

func mkCtx(kind, us int) (context.Context, context.CancelFunc) {
	switch kind {
	case ctxShort:
		return context.WithTimeout(context.Background(), time.Duration(us)*time.Microsecond)
	case ctxCancelled:
		ctx, cancel := context.WithCancel(context.Background())
		cancel()
		return ctx, cancel
	case ctxAsync:
		ctx, cancel := context.WithCancel(context.Background())
		go func() {
			time.Sleep(time.Duration(us/4) * time.Microsecond)
			cancel()
		}()
		return ctx, cancel
	}
	return context.WithCancel(context.Background())
}

func isCtxErr(err error) bool {
	return errors.Is(err, context.DeadlineExceeded) || errors.Is(err, context.Canceled)
}

func dwell(n int) {
	switch {
	case n == 0:
	case n == 1:
		runtime.Gosched()
	default:
		time.Sleep(time.Duration(n) * 50 * time.Microsecond)
	}
}

func runGroupWorker(g *limits.Group, plan []opPlan, mon *insideMon, st *groupStats) {
	for _, op := range plan {
		ip, src := ipKey(op.IP), srcKey(op.Src)
		var msgKeys []scopeKey
		if op.Kind == "msg" {
			ctx, cancel := mkCtx(op.Ctx, op.US)
			err := g.TakeMsg(ctx, ip, src)
			cancel()
			if err != nil {
				if isCtxErr(err) {
					st.takeCtxErr.Add(1)
				} else {
					st.takeOtherErr.Add(1)
				}
				continue
			}
			st.takeOK.Add(1)
			if op.Ctx == ctxCancelled {
				st.cancelledGranted.Add(1)
			}
			msgKeys = []scopeKey{{scAll, ""}, {scIP, ip.String()}, {scSrc, src}}
			if mon != nil {
				mon.Enter(msgKeys...)
			}
		}
		var held []string
		for _, d := range op.Dests {
			kind := d.Ctx
			if kind == ctxBG && len(held) > 0 {
				// never wait unboundedly for a destination while holding
				// another one (two deliveries could wait for each other until
				// the Group's 5 s time-out)
				kind = ctxShort
			}
			dk := destKey(d.Key)
			ctx, cancel := mkCtx(kind, d.US)
			err := g.TakeDest(ctx, dk)
			cancel()
			if err != nil {
				if isCtxErr(err) {
					st.destCtxErr.Add(1)
				} else {
					st.destOtherErr.Add(1)
				}
				continue
			}
			st.destOK.Add(1)
			held = append(held, dk)
			if mon != nil {
				mon.Enter(scopeKey{scDest, dk})
			}
		}
		dwell(op.Dwell)
		for i := len(held) - 1; i >= 0; i-- {
			if mon != nil {
				mon.Leave(scopeKey{scDest, held[i]})
			}
			g.ReleaseDest(held[i])
		}
		if op.Kind == "msg" {
			if mon != nil {
				mon.Leave(msgKeys...)
			}
			g.ReleaseMsg(ip, src)
		}
	}
}

// ---- quiescent probes ------------------------------------------------------

// mustTake performs an acquisition that a conforming limiter grants at once
// (the harness knows that fewer than N permits are held). The decision is the
// limiter's own return value; a failure is re-tried once under the Group's own
// 5 s time-out so that a scheduling stall cannot produce a false refusal.
func mustTake(take func(ctx context.Context) error) error {
	ctx, cancel := context.WithTimeout(context.Background(), 2*time.Second)
	err := take(ctx)
	cancel()
	if err == nil {
		return nil
	}
	return take(context.Background())
}

// mustRefuse performs an acquisition while the harness itself holds N permits
// of a scope key: a conforming limiter cannot grant it, whatever the timing.
// Returns true if it was (wrongly) granted.
func wronglyGranted(take func(ctx context.Context) error) bool {
	ctx, cancel := context.WithTimeout(context.Background(), 15*time.Millisecond)
	defer cancel()
	return take(ctx) == nil
}

type prober struct {
	c     *rep.Case
	r     *rep.Reporter
	g     *limits.Group
	cfg   limitsCfg
	layer string
	wit   any
	fresh int
	cr    *crashes
}

func (pb *prober) freshIdx() int { pb.fresh++; return 100000 + pb.fresh }

func minPos(a, b int) int {
	if a == 0 {
		return b
	}
	if b == 0 || a < b {
		return a
	}
	return b
}

// probeMsg fills the scope `scope` (key fixed by ip/src; the other bucketed
// scopes get a fresh key per permit so that only `all` and `scope` can bind),
// expects min(N_all, N_scope) grants, then expects one refusal.
// Returns false if the quiescent capacity was not available.
func (pb *prober) probeMsg(scope string, ip net.IP, src string) bool {
	nAll, nS := pb.cfg.N(scAll), pb.cfg.N(scope)
	m := minPos(nAll, nS)
	if m == 0 {
		return true
	}
	// A refusal below m is attributed to `scope`: probeAll has verified the
	// global scope before, and the other per-key scopes see fresh keys. A grant
	// above m is attributed to the scope whose N equals m.
	binding := scope
	if nAll != 0 && (nS == 0 || nAll < nS) {
		binding = scAll
	}
	type held struct {
		ip  net.IP
		src string
	}
	var hs []held
	ok := true
	pick := func() (net.IP, string) {
		i, s := ip, src
		if scope != scIP {
			i = ipKey(pb.freshIdx())
		}
		if scope != scSrc {
			s = srcKey(pb.freshIdx())
		}
		return i, s
	}
	crashed := pb.cr.Guard(func() {
		for k := 0; k < m; k++ {
			i, s := pick()
			if err := mustTake(func(ctx context.Context) error { return pb.g.TakeMsg(ctx, i, s) }); err != nil {
				pb.c.Violation("quiescent/fewer-than-limit-grantable/scope="+scope+"/via="+pb.layer,
					fmt.Sprintf("no delivery holds a permit, yet only %d of %d permits could be acquired with a fixed %q key and fresh keys elsewhere (%v)", k, m, scope, err),
					map[string]any{"granted": k, "limit": m, "ip": i.String(), "source": s, "error": err.Error(), "scenario": pb.wit})
				ok = false
				break
			}
			hs = append(hs, held{i, s})
		}
		if ok {
			pb.r.Count("probe_full_capacity_granted", 1)
			i, s := pick()
			if wronglyGranted(func(ctx context.Context) error { return pb.g.TakeMsg(ctx, i, s) }) {
				pb.c.Violation("quiescent/more-than-limit-grantable/scope="+binding+"/via="+pb.layer,
					fmt.Sprintf("the harness holds %d permits of scope %q (limit %d) and was granted one more", m, binding, m),
					map[string]any{"limit": m, "scenario": pb.wit})
				pb.g.ReleaseMsg(i, s)
			} else {
				pb.r.Count("probe_surplus_refused", 1)
			}
		}
		for _, h := range hs {
			pb.g.ReleaseMsg(h.ip, h.src)
		}
	})
	// after a panic the harness' own permits are in an unknown state: stop probing
	return ok && !crashed
}

func (pb *prober) probeDest(key string) bool {
	n := pb.cfg.N(scDest)
	if n == 0 {
		return true
	}
	ok := true
	crashed := pb.cr.Guard(func() {
		got := 0
		for k := 0; k < n; k++ {
			if err := mustTake(func(ctx context.Context) error { return pb.g.TakeDest(ctx, key) }); err != nil {
				pb.c.Violation("quiescent/fewer-than-limit-grantable/scope="+scDest+"/via="+pb.layer,
					fmt.Sprintf("no delivery holds a permit, yet only %d of %d permits of scope %q could be acquired (%v)", k, n, scDest, err),
					map[string]any{"granted": k, "limit": n, "error": err.Error(), "scenario": pb.wit})
				ok = false
				break
			}
			got++
		}
		if ok {
			pb.r.Count("probe_full_capacity_granted", 1)
			if wronglyGranted(func(ctx context.Context) error { return pb.g.TakeDest(ctx, key) }) {
				pb.c.Violation("quiescent/more-than-limit-grantable/scope="+scDest+"/via="+pb.layer,
					fmt.Sprintf("the harness holds %d permits of scope %q (limit %d) and was granted one more", n, scDest, n),
					map[string]any{"limit": n, "scenario": pb.wit})
				pb.g.ReleaseDest(key)
			} else {
				pb.r.Count("probe_surplus_refused", 1)
			}
		}
		for k := 0; k < got; k++ {
			pb.g.ReleaseDest(key)
		}
	})
	return ok && !crashed
}

// probeAll runs the quiescent probes over the scopes of the configuration:
// a used key and a never-seen key each.
func (pb *prober) probeAll(usedIP net.IP, usedSrc, usedDest string) {
	if pb.cfg.N(scAll) > 0 {
		if !pb.probeMsg(scAll, nil, "") {
			// the global scope is short of permits: the bucketed message scopes cannot be judged separately
			pb.probeDestBoth(usedDest)
			return
		}
	}
	if pb.cfg.N(scIP) > 0 && !pb.cr.Any() {
		if pb.probeMsg(scIP, usedIP, "") {
			pb.probeMsg(scIP, ipKey(pb.freshIdx()), "")
		}
	}
	if pb.cfg.N(scSrc) > 0 && !pb.cr.Any() {
		if pb.probeMsg(scSrc, nil, usedSrc) {
			pb.probeMsg(scSrc, nil, srcKey(pb.freshIdx()))
		}
	}
	pb.probeDestBoth(usedDest)
}

func (pb *prober) probeDestBoth(usedDest string) {
	if pb.cfg.N(scDest) > 0 && !pb.cr.Any() {
		if pb.probeDest(usedDest) {
			pb.probeDest(destKey(pb.freshIdx()))
		}
	}
}

// ---------------------------------------------------------------------------

func runGroupCases(t *testing.T, r *rep.Reporter, env instrEnv) {
	n := r.N(160, 12000)
	for i := 0; i < n; i++ {
		idx := baseGroup + i
		r.Run(idx, fmt.Sprintf("group-%d", i), func(c *rep.Case) {
			p := prng.New(r.Seed(), uint64(idx), "c11/group")
			sc := genGroupScenario(p, env)
			g, err := buildGroup(sc.Text)
			if err != nil {
				t.Fatalf("case %d: limits.Init(%q): %v", idx, sc.Text, err)
			}
			sc.Yield.Install(r.Seed() ^ uint64(idx))
			defer verifkit.ResetYield()

			var mon *insideMon
			if sc.Monitor {
				mon = newInsideMon(sc.Cfg)
			}
			var st groupStats
			var cr crashes
			var wg sync.WaitGroup
			for w := 0; w < sc.Workers; w++ {
				wg.Add(1)
				go func(w int) {
					defer wg.Done()
					cr.Guard(func() { runGroupWorker(g, sc.Plans[w], mon, &st) })
				}(w)
			}
			if !waitTimeout(&wg, 120*time.Second) {
				c.Inconclusive("workers did not finish within the watchdog")
				c.Done("", false)
				return
			}
			planHits := verifkit.PlanHits()
			yields := verifkit.YieldCount()
			verifkit.ResetYield()

			cr.Report(c, "group", sc)
			if mon != nil {
				mon.Report(c, "group", sc)
			}
			if !cr.Any() {
				pb := &prober{c: c, r: r, g: g, cfg: sc.Cfg, layer: "group", wit: sc, cr: &cr}
				pb.probeAll(ipKey(0), srcKey(0), destKey(0))
				cr.Report(c, "group", sc)
			}

			r.Count("group_takemsg_granted", st.takeOK.Load())
			r.Count("group_takemsg_ctx_error", st.takeCtxErr.Load())
			r.Count("group_takemsg_other_error", st.takeOtherErr.Load())
			r.Count("group_takedest_granted", st.destOK.Load())
			r.Count("group_takedest_ctx_error", st.destCtxErr.Load())
			r.Count("group_takedest_other_error", st.destOtherErr.Load())
			r.Count("group_granted_on_cancelled_ctx", st.cancelledGranted.Load())
			r.Count("yield_events", int64(yields))
			r.Count("yield_plan_hits", int64(planHits))
			sat := 0
			if mon != nil {
				var scs map[string]bool
				sat, scs = mon.Saturated()
				r.Count("scope_keys_saturated", int64(sat))
				for s := range scs {
					r.Distinct("scopes_saturated", s)
				}
				r.Count("monitored_enters", mon.enter)
			}
			r.Distinct("config_shapes", sc.Cfg.Shape())
			if i < 3 {
				r.Sample(map[string]any{"layer": "group", "config": sc.Text, "workers": sc.Workers, "yield": sc.Yield})
			}
			timeouts := st.takeCtxErr.Load() + st.destCtxErr.Load()
			nontrivial := sat > 0 || timeouts > 0
			shape := fmt.Sprintf("group cfg=%s w=%d y=%s mon=%v sat=%v to=%v", sc.Cfg.Shape(), sc.Workers, sc.Yield.Kind, sc.Monitor, sat > 0, timeouts > 0)
			c.Done(shape, nontrivial)
		})
	}
}
