//go:build verif

package c11

import (
	"context"
	"fmt"
	"net"
	"sync"
	"sync/atomic"
	"testing"
	"time"

	"verifkit"
	"verifkit/prng"
	"verifkit/rep"
)

// Layer (i), key populations: a limits.Group with a `concurrency` limit in one
// per-key scope sees 1 ... 20 100 distinct keys (the bucket table of a scope
// holds 20 010 + 1 keys), while a few keys are held by long-running
// deliveries. `concurrency` limiters only: a `rate` limiter pre-fills its
// burst and starts a goroutine per key.
//
// Judged: no panic; holders per key <= N (a held key must stay refused even
// after the table overflowed and was reaped); with the virtual clock: after
// the clock moved an hour on, N permits of an old and of a never-seen key can
// be acquired again. A refusal (error) while the table is full of recently
// used keys is not judged: the statement demands crash-freedom there, not
// service.

const bucketTableCap = 20010 // limits.go: NewBucketSet(..., 1*time.Minute, 20010)

type popScenario struct {
	Scope    string    `json:"scope"`
	Cfg      limitsCfg `json:"cfg"`
	Text     string    `json:"text"`
	Keys     int       `json:"keys"`
	Workers  int       `json:"workers"`
	Held     int       `json:"held_keys"`
	VClock   bool      `json:"vclock"`
	Yield    yieldMode `json:"yield"`
	AgeFirst bool      `json:"age_first"` // move the clock on before the sweep overflows the table (held buckets become "stale")
	// HeldPermits (population-held-N cases): permits held per long-running key, 1..N each; nil = N each.
	HeldPermits []int `json:"held_permits,omitempty"`
}

// basePopulationHeld: cases population-held-N - a key stays held across an
// overflow of the bucket table in which nothing is stale, then is taken again.
const basePopulationHeld = basePopulation + 500_000

// genPopHeldScenario: 1-3 keys are held (1..N permits each) by long-running
// deliveries, then more than 20 010 other keys are seen within the reap
// interval (the virtual clock does not move, or moves only before the sweep),
// then the held keys are taken again while the table is full of fresh keys.
func genPopHeldScenario(p *prng.R, env instrEnv, i int) popScenario {
	scopes := []string{scIP, scSrc, scDest}
	sc := popScenario{Scope: scopes[i%3], VClock: env.vclock}
	sc.Keys = prng.Pick(p, []int{bucketTableCap + 1, bucketTableCap + 2, bucketTableCap + 3, bucketTableCap + 90, bucketTableCap + 200})
	n := p.Range(1, 3)
	sc.Cfg.Dirs = []directive{{Scope: sc.Scope, Kind: "concurrency", N: n}}
	if p.Chance(1, 4) {
		// a second, wider concurrency directive in the scope (MultiLimit inside the bucket)
		sc.Cfg.Dirs = append(sc.Cfg.Dirs, directive{Scope: sc.Scope, Kind: "concurrency", N: n + p.Range(1, 2)})
	}
	if p.Chance(1, 3) {
		sc.Cfg.Dirs = append(sc.Cfg.Dirs, directive{Scope: scAll, Kind: "concurrency", N: p.Range(12, 16)})
	}
	if p.Chance(1, 3) {
		sc.Cfg.Dirs = append(sc.Cfg.Dirs, directive{Scope: scopes[(i+1+p.Intn(2))%3], Kind: "concurrency", N: p.Range(12, 16)})
	}
	sc.Text = sc.Cfg.Text()
	sc.Workers = prng.Pick(p, []int{1, 2, 4})
	sc.Held = p.Range(1, 3)
	for k := 0; k < sc.Held; k++ {
		hp := n
		if p.Chance(1, 3) {
			hp = p.Range(1, n)
		}
		sc.HeldPermits = append(sc.HeldPermits, hp)
	}
	sc.AgeFirst = p.Chance(1, 4)
	sc.Yield = yieldMode{Kind: "off"}
	if len(env.sites) > 0 && p.Chance(1, 3) {
		sc.Yield = yieldMode{Kind: "gosched"}
	}
	return sc
}

func genPopScenario(p *prng.R, env instrEnv, i int) popScenario {
	scopes := []string{scIP, scSrc, scDest}
	sizes := []int{1, 7, 300, bucketTableCap - 1, bucketTableCap, bucketTableCap + 1, bucketTableCap + 2, bucketTableCap + 3, bucketTableCap + 90}
	sc := popScenario{Scope: scopes[i%3], VClock: env.vclock}
	// the first cases walk through the sizes around the capacity for every scope; later ones are random
	if i/3 < len(sizes) {
		sc.Keys = sizes[len(sizes)-1-i/3]
	} else {
		sc.Keys = prng.Pick(p, sizes)
		if p.Chance(1, 3) {
			sc.Keys = p.Range(1, bucketTableCap+200)
		}
	}
	n := p.Range(1, 3)
	sc.Cfg.Dirs = []directive{{Scope: sc.Scope, Kind: "concurrency", N: n}}
	if p.Chance(1, 3) {
		sc.Cfg.Dirs = append(sc.Cfg.Dirs, directive{Scope: scAll, Kind: "concurrency", N: p.Range(8, 12)})
	}
	if p.Chance(1, 4) {
		other := scopes[(i+1)%3]
		sc.Cfg.Dirs = append(sc.Cfg.Dirs, directive{Scope: other, Kind: "concurrency", N: p.Range(8, 12)})
	}
	sc.Text = sc.Cfg.Text()
	sc.Workers = prng.Pick(p, []int{1, 2, 4})
	sc.Held = p.Intn(3)
	if sc.Held > sc.Keys {
		sc.Held = sc.Keys
	}
	sc.AgeFirst = p.Bool()
	sc.Yield = yieldMode{Kind: "off"}
	if len(env.sites) > 0 && p.Chance(1, 3) {
		sc.Yield = yieldMode{Kind: "gosched"}
	}
	return sc
}

// popKeyer maps a key index of the populated scope to TakeMsg/TakeDest arguments.
type popOps struct {
	take    func(ctx context.Context, k int) error
	release func(k int)
	name    func(k int) string
}

func runPopulationCases(t *testing.T, r *rep.Reporter, env instrEnv) {
	n := r.N(30, 450)
	for i := 0; i < n; i++ {
		idx := basePopulation + i
		r.Run(idx, fmt.Sprintf("population-%d", i), func(c *rep.Case) {
			p := prng.New(r.Seed(), uint64(idx), "c11/population")
			runPopulationScenario(t, r, c, idx, i, genPopScenario(p, env, i))
		})
	}
	// a key held across an overflow in which nothing is stale (own index range and PRNG stream)
	n = r.N(6, 90)
	for i := 0; i < n; i++ {
		idx := basePopulationHeld + i
		r.Run(idx, fmt.Sprintf("population-held-%d", i), func(c *rep.Case) {
			p := prng.New(r.Seed(), uint64(idx), "c11/population-held")
			runPopulationScenario(t, r, c, idx, i, genPopHeldScenario(p, env, i))
		})
	}
}

func runPopulationScenario(t *testing.T, r *rep.Reporter, c *rep.Case, idx, i int, sc popScenario) {
	{
		{
			g, err := buildGroup(sc.Text)
			if err != nil {
				t.Fatalf("case %d: limits.Init(%q): %v", idx, sc.Text, err)
			}
			if sc.VClock {
				verifkit.SetVirtualClock(time.Date(2030, 1, 1, 0, 0, 0, 0, time.UTC))
				defer verifkit.DisableVirtualClock()
			}
			sc.Yield.Install(r.Seed() ^ uint64(idx))
			defer verifkit.ResetYield()

			fixedIP := net.IPv4(192, 0, 2, 1)
			var ops popOps
			switch sc.Scope {
			case scIP:
				ops = popOps{
					take:    func(ctx context.Context, k int) error { return g.TakeMsg(ctx, ipKey(k), "fixed.example") },
					release: func(k int) { g.ReleaseMsg(ipKey(k), "fixed.example") },
					name:    func(k int) string { return ipKey(k).String() },
				}
			case scSrc:
				ops = popOps{
					take:    func(ctx context.Context, k int) error { return g.TakeMsg(ctx, fixedIP, srcKey(k)) },
					release: func(k int) { g.ReleaseMsg(fixedIP, srcKey(k)) },
					name:    srcKey,
				}
			default:
				ops = popOps{
					take:    func(ctx context.Context, k int) error { return g.TakeDest(ctx, destKey(k)) },
					release: func(k int) { g.ReleaseDest(destKey(k)) },
					name:    destKey,
				}
			}
			N := sc.Cfg.N(sc.Scope)
			var cr crashes
			mon := newInsideMon(sc.Cfg)

			// long-running deliveries: keys 0..Held-1 are held N times each for the whole sweep
			heldCnt := make([]int, sc.Held)
			cr.Guard(func() {
				for k := 0; k < sc.Held; k++ {
					want := N
					if k < len(sc.HeldPermits) {
						want = sc.HeldPermits[k]
					}
					for j := 0; j < want; j++ {
						if err := mustTake(func(ctx context.Context) error { return ops.take(ctx, k) }); err != nil {
							c.Violation("quiescent/fewer-than-limit-grantable/scope="+sc.Scope+"/via=population",
								fmt.Sprintf("fresh group: only %d of %d permits of key %q could be acquired (%v)", j, want, ops.name(k), err),
								map[string]any{"scenario": sc})
							return
						}
						heldCnt[k]++
						mon.Enter(scopeKey{sc.Scope, ops.name(k)})
					}
				}
			})
			if sc.VClock && sc.AgeFirst {
				verifkit.AdvanceClock(2 * time.Minute)
			}

			// the sweep: every other key is taken and released once
			var granted, refused, ctxErrs atomic.Int64
			var wg sync.WaitGroup
			for w := 0; w < sc.Workers; w++ {
				wg.Add(1)
				go func(w int) {
					defer wg.Done()
					cr.Guard(func() {
						for k := sc.Held + w; k < sc.Keys; k += sc.Workers {
							err := ops.take(context.Background(), k)
							if err != nil {
								if isCtxErr(err) {
									ctxErrs.Add(1)
								} else {
									refused.Add(1)
								}
								continue
							}
							granted.Add(1)
							ops.release(k)
						}
					})
				}(w)
			}
			if !waitTimeout(&wg, 300*time.Second) {
				c.Inconclusive("population sweep did not finish within the watchdog")
				c.Done("", false)
				return
			}
			cr.Report(c, "population", sc)

			// The held keys are taken again right after the sweep, i.e. (Keys beyond the
			// capacity) while the table is full of keys used within the reap interval and
			// nothing can be dropped. Whatever the limiter does with a full table - refuse,
			// wait - a key may never have more than N holders: every grant is a holder (it
			// is released with the others below), attempts go on until one is refused or
			// the count is above N.
			tableFull := sc.Held > 0 && sc.Keys > bucketTableCap
			if !cr.Any() {
				cr.Guard(func() {
					for k := 0; k < sc.Held; k++ {
						for heldCnt[k] <= N {
							if tableFull {
								r.Count("population_held_key_retaken_while_table_full", 1)
							}
							// (a grant below N is legitimate and so is a refusal by a full table; above N the inside monitor fires)
							if !wronglyGranted(func(ctx context.Context) error { return ops.take(ctx, k) }) {
								break
							}
							heldCnt[k]++
							mon.Enter(scopeKey{sc.Scope, ops.name(k)})
						}
					}
				})
				// The same for a key that has never been seen: whatever bucket (or substitute
				// for one) a full table hands out, N+1 acquisitions without a release in
				// between may not all be granted.
				cr.Guard(func() {
					k, got := sc.Keys+10, 0
					for ; got <= N; got++ {
						if !wronglyGranted(func(ctx context.Context) error { return ops.take(ctx, k) }) {
							break
						}
						mon.Enter(scopeKey{sc.Scope, ops.name(k)})
					}
					if sc.Keys > bucketTableCap {
						r.Count("population_new_key_filled_while_table_full", 1)
					}
					for ; got > 0; got-- {
						mon.Leave(scopeKey{sc.Scope, ops.name(k)})
						ops.release(k)
					}
				})
				cr.Report(c, "population", sc)
			}

			// Move the clock past the reap interval and touch new keys so that the
			// table is reaped while the long-running deliveries still hold their keys.
			reapedWithHolders := false
			if !cr.Any() && sc.VClock {
				verifkit.AdvanceClock(time.Hour)
				cr.Guard(func() {
					for k := sc.Keys; k < sc.Keys+3; k++ {
						if err := ops.take(context.Background(), k); err == nil {
							granted.Add(1)
							ops.release(k)
						} else if !isCtxErr(err) {
							refused.Add(1)
						}
					}
				})
				reapedWithHolders = sc.Held > 0 && sc.Keys > bucketTableCap
			}
			// the held keys are still full: one more permit must be refused
			if !cr.Any() {
				cr.Guard(func() {
					for k := 0; k < sc.Held; k++ {
						if heldCnt[k] < N {
							continue
						}
						if wronglyGranted(func(ctx context.Context) error { return ops.take(ctx, k) }) {
							mon.Enter(scopeKey{sc.Scope, ops.name(k)})
							heldCnt[k]++
						} else {
							r.Count("probe_surplus_refused", 1)
						}
					}
				})
			}
			mon.Report(c, "population", sc)
			// the long-running deliveries end
			cr.Guard(func() {
				for k := 0; k < sc.Held; k++ {
					for ; heldCnt[k] > 0; heldCnt[k]-- {
						mon.Leave(scopeKey{sc.Scope, ops.name(k)})
						ops.release(k)
					}
				}
			})
			cr.Report(c, "population", sc)

			// quiescent probes: decidable when the table cannot be full of fresh keys
			probed := false
			if !cr.Any() && (sc.VClock || sc.Keys+8 < bucketTableCap) {
				probed = true
				if sc.VClock {
					verifkit.AdvanceClock(time.Hour)
				}
				pb := &prober{c: c, r: r, g: g, cfg: sc.Cfg, layer: "population", wit: sc, cr: &cr}
				switch sc.Scope {
				case scIP:
					if pb.probeMsg(scIP, ipKey(0), "") {
						pb.probeMsg(scIP, ipKey(pb.freshIdx()), "")
					}
				case scSrc:
					if pb.probeMsg(scSrc, nil, srcKey(0)) {
						pb.probeMsg(scSrc, nil, srcKey(pb.freshIdx()))
					}
				default:
					pb.probeDestBoth(destKey(0))
				}
				cr.Report(c, "population", sc)
			}

			r.Count("population_granted", granted.Load())
			r.Count("population_refused_table_full", refused.Load())
			r.Count("population_ctx_error", ctxErrs.Load())
			if sc.Keys > bucketTableCap+1 {
				r.Count("population_cases_beyond_table_capacity", 1)
			}
			if reapedWithHolders {
				r.Count("population_reaps_with_long_holders", 1)
			}
			r.Distinct("population_sizes", fmt.Sprint(sc.Keys))
			if i < 2 {
				r.Sample(map[string]any{"layer": "population", "config": sc.Text, "keys": sc.Keys, "held_keys": sc.Held, "vclock": sc.VClock})
			}
			class := "below"
			switch {
			case sc.Keys > bucketTableCap+1:
				class = "beyond"
			case sc.Keys >= bucketTableCap-1:
				class = "at"
			}
			shape := fmt.Sprintf("population scope=%s size=%s n=%d held=%d w=%d age=%v vclock=%v cfg=%s", sc.Scope, class, N, sc.Held, sc.Workers, sc.AgeFirst, sc.VClock, sc.Cfg.Shape())
			c.Done(shape, class != "below" || probed)
		}
	}
}
