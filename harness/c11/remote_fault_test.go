//go:build verif

package c11

import (
	"bytes"
	"context"
	"fmt"
	"net"
	"runtime/debug"
	"sort"
	"strings"
	"sync"
	"sync/atomic"
	"time"

	"github.com/foxcpp/maddy/framework/exterrors"
	"verifkit/prng"
	"verifkit/rep"
	"verifkit/smtpd"
)

// Layer (iii-b): the next-hop fault matrix. Same runner, target and oracle as
// the remote layer (runRemoteScenario); what is new is the workload:
//
//   - every protocol stage of the conversation with the next hop - greeting,
//     EHLO, EHLO after STARTTLS, STARTTLS, MAIL, each RCPT position, DATA,
//     the payload, the final dot, the RSET that precedes pooling, QUIT - is
//     answered with every reply class: 421 (connection kept open), 421 and
//     close, 450/451/452, 550/552/554, a multi-line refusal, a multi-line
//     positive reply, garbage, FIN, RST - and, in cases where the target runs
//     with a 200-400 ms command time-out, no reply at all until it has expired;
//   - bodies of 40 KiB ... 3 MiB, and next hops that accept DATA with 354 and
//     abort the connection (FIN / RST) after 0 ... 300 000 payload bytes while
//     the target is still streaming the message;
//   - 1-4 recipients per domain, so that a fault hits the first or a later
//     RCPT of a connection's transaction.
//
// Security policies are kept out of the way (no MTA-STS / local_policy, no
// REQUIRETLS) so that nearly every delivery reaches the scripted stage; a
// destination limit is always configured, all / ip / source with p = 3/5 each.
// Every ending is followed by the quiescent probes of the remote layer.

const (
	baseRemoteFault = baseRemote + 500_000
	rmFaultQuick    = 84
	rmFaultThorough = 4000
)

// rmFault is one scripted misbehaviour of a next hop.
type rmFault struct {
	// Stage: connect | ehlo | ehlo-tls | starttls (connection-level, rmProfile.ConnFaults)
	// mail | rcpt | data | payload | dot | rset | quit (per delivery and domain, rmDomAct.Fault)
	Stage string `json:"stage"`
	// Pos: rcpt - the 0-based RCPT command of the transaction that is answered with the fault.
	Pos int `json:"pos,omitempty"`
	// Class: 421 | 421close | temp | perm | multiline | multiline-ok | garbage | drop | rst
	// (payload: always "abort")
	Class string `json:"class"`
	Code  int    `json:"code,omitempty"`
	// N: payload - bytes the server reads after its 354 before it aborts the connection (0: right after the 354).
	N int `json:"n,omitempty"`
	// RST: payload - abortive close; garbage - the connection stays open afterwards.
	RST bool `json:"rst,omitempty"`
	// StallMS: class stall - the reply is withheld for this long (the target's command time-out plus
	// a margin), then the connection is closed without a reply.
	StallMS int `json:"stall_ms,omitempty"`
}

func (f rmFault) matches(ev smtpd.Event) bool {
	switch f.Stage {
	case "connect":
		return ev.Stage == smtpd.StageConnect
	case "ehlo":
		return ev.Stage == smtpd.StageEHLO && !ev.TLS
	case "ehlo-tls":
		return ev.Stage == smtpd.StageEHLO && ev.TLS
	case "starttls":
		return ev.Stage == smtpd.StageStartTLS
	case "mail":
		return ev.Stage == smtpd.StageMail
	case "rcpt":
		return ev.Stage == smtpd.StageRcpt && ev.RcptIndex == f.Pos
	case "data", "payload":
		return ev.Stage == smtpd.StageData
	case "dot":
		return ev.Stage == smtpd.StageDot
	case "rset":
		return ev.Stage == smtpd.StageRset
	case "quit":
		return ev.Stage == smtpd.StageQuit
	}
	return false
}

// label is the evidence counter class of a served fault.
func (f rmFault) label(ev smtpd.Event) string {
	st := strings.ReplaceAll(f.Stage, "-", "_")
	if f.Stage == "rcpt" {
		if len(ev.Rcpts) == 0 {
			// nothing accepted in this transaction yet (for RcptIndex 0: the first RCPT of the connection's transaction)
			st = "rcpt_first"
		} else {
			st = "rcpt_later"
		}
	}
	return st
}

func (f rmFault) action() *smtpd.Action {
	text := "c11 fault at " + f.Stage
	enh := func(code int) string { return fmt.Sprintf("%d.3.2", code/100) }
	switch f.Class {
	case "abort":
		if f.N == 0 {
			return &smtpd.Action{DropAfter: true, RST: f.RST}
		}
		return &smtpd.Action{AbortPayloadAfter: f.N, RST: f.RST}
	case "421":
		return &smtpd.Action{Code: 421, Enh: "4.3.2", Text: []string{text + ", shutting down"}}
	case "421close":
		return &smtpd.Action{Code: 421, Enh: "4.3.2", Text: []string{text + ", closing transmission channel"}, DropAfter: true}
	case "temp", "perm":
		a := &smtpd.Action{Code: f.Code, Text: []string{text}}
		if f.Pos%2 == 0 { // with and without enhanced codes
			a.Enh = enh(f.Code)
		}
		return a
	case "multiline":
		return &smtpd.Action{Code: f.Code, Enh: enh(f.Code), Text: []string{text, "second line", "third line"}}
	case "multiline-ok":
		// the default (positive) code over three lines; never generated for EHLO / STARTTLS
		return &smtpd.Action{Text: []string{"first line (" + text + ")", "second line", "third line"}}
	case "garbage":
		return &smtpd.Action{Raw: []byte("%% " + text + ": this is not an SMTP reply\r\n"), DropAfter: !f.RST}
	case "drop":
		return &smtpd.Action{DropBefore: true}
	case "rst":
		return &smtpd.Action{DropBefore: true, RST: true}
	case "stall":
		return &smtpd.Action{Delay: time.Duration(f.StallMS) * time.Millisecond, DropBefore: true}
	}
	return nil
}

var (
	rmTxnStages   = []string{"mail", "rcpt", "data", "payload", "dot", "rset", "quit"}
	rmTxnStageW   = []int{3, 7, 2, 6, 3, 2, 2}
	rmConnStages  = []string{"connect", "ehlo", "ehlo-tls", "starttls"}
	rmClasses     = []string{"421", "421close", "temp", "perm", "multiline", "multiline-ok", "garbage", "drop", "rst"}
	rmClassW      = []int{3, 3, 2, 2, 1, 1, 1, 1, 1}
	rmTempCodes   = []int{450, 451, 452}
	rmPermCodes   = []int{550, 552, 554}
	rmAbortAfter  = []int{0, 0, 1, 700, 5000, 30000, 70000, 150000, 300000}
	rmBodySizes   = []int{40 << 10, 64 << 10, 100 << 10, 200 << 10, 400 << 10, 700 << 10, 1 << 20, 3 << 19, 2 << 20, 3 << 20}
	rmBodySizeAbW = []int{1, 1, 1, 1, 2, 3, 4, 3, 2, 2} // aborted payloads: mostly larger than the socket buffers
	rmBodySizeW   = []int{4, 3, 3, 2, 2, 1, 1, 0, 0, 1} // other deliveries with a large body
)

// genFault draws the reply class for a stage. cmdTimeoutMS > 0: the target runs with that command /
// submission time-out, which adds the class "stall" (no reply until the time-out has passed) at every
// stage but QUIT (Close gives QUIT a fixed 5 s) and the payload.
func genFault(p *prng.R, stage string, nrcpt int, connLevel bool, cmdTimeoutMS int) rmFault {
	f := rmFault{Stage: stage}
	if stage == "payload" {
		f.Class = "abort"
		f.N = prng.Pick(p, rmAbortAfter)
		f.RST = p.Bool()
		return f
	}
	for {
		f.Class = rmClasses[p.Weighted(rmClassW)]
		if stage == "rcpt" && p.Chance(2, 5) {
			// "service shutting down" in the middle of the envelope gets extra weight
			f.Class = prng.Pick(p, []string{"421", "421close"})
		}
		if f.Class == "multiline-ok" && (connLevel && stage != "connect") {
			continue // a positive EHLO reply's text lines are its capabilities; STARTTLS must be a single 220
		}
		if cmdTimeoutMS > 0 && stage != "quit" && p.Chance(1, 3) {
			f.Class, f.StallMS = "stall", cmdTimeoutMS+100
		}
		break
	}
	switch f.Class {
	case "temp":
		f.Code = prng.Pick(p, rmTempCodes)
	case "perm":
		f.Code = prng.Pick(p, rmPermCodes)
	case "multiline":
		f.Code = prng.Pick(p, append(append([]int{421}, rmTempCodes...), rmPermCodes...))
	case "garbage":
		f.RST = p.Chance(1, 3) // connection stays open after the garbage
	}
	if stage == "rcpt" {
		switch p.Intn(5) {
		case 0, 1:
			f.Pos = 0
		case 2, 3:
			f.Pos = nrcpt - 1
		default:
			f.Pos = p.Intn(nrcpt)
		}
	} else {
		f.Pos = p.Intn(2) // only selects the reply format (enhanced code or not)
	}
	return f
}

// genRemoteFaultScenario generates one case of the next-hop fault matrix. i is
// the case number inside the layer: the transaction stage of case i's "focus"
// rotates so that a short run visits every stage.
func genRemoteFaultScenario(p *prng.R, i int) rmScenario {
	sc := rmScenario{Domains: p.Range(1, 2), Workers: prng.Pick(p, []int{1, 2, 2, 3, 4, 6})}
	sc.Cfg = genCfg(p, cfgOpts{scopes: allScopes, maxN: prng.Pick(p, []int{1, 2, 3}), allowRate: true, rateBurst: 1024, force: scDest})
	sc.Text = sc.Cfg.Text()
	if p.Chance(1, 4) {
		sc.ReuseLimit = -1 // pooling off
	}
	sc.ClientTLS = p.Chance(4, 5)
	if p.Chance(2, 5) {
		// "on timeout": a short command / submission time-out and next hops that withhold a reply
		sc.CmdTimeoutMS = prng.Pick(p, []int{200, 300, 400})
	}
	for k := 0; k < sc.Domains; k++ {
		pr := rmProfile{
			TLS:   prng.Pick(p, []string{"none", "none", "good", "good", "good", "good", "good", "selfsigned"}),
			Reach: "ok", STS: "none", AdvertiseRequireTLS: p.Bool(),
		}
		// connection-level faults: about one connection in four
		for cn := 1; cn <= 24; cn++ {
			if !p.Chance(1, 4) {
				continue
			}
			stage := rmConnStages[p.Weighted([]int{2, 2, 3, 3})]
			if (pr.TLS == "none" || !sc.ClientTLS) && (stage == "ehlo-tls" || stage == "starttls") {
				stage = prng.Pick(p, rmConnStages[:2])
			}
			if pr.ConnFaults == nil {
				pr.ConnFaults = map[int]rmFault{}
			}
			pr.ConnFaults[cn] = genFault(p, stage, 1, true, sc.CmdTimeoutMS)
		}
		sc.Profiles = append(sc.Profiles, pr)
	}
	focus := rmTxnStages[i%len(rmTxnStages)]
	switch focus {
	case "quit":
		// Close sends QUIT itself only for a connection it does not pool
		if !p.Chance(1, 4) {
			sc.ReuseLimit = -1
		}
	case "rset":
		// the RSET in Close is the usability test that precedes pooling
		sc.ReuseLimit = 0
	}
	nsrc := p.Range(1, 2)
	per := p.Range(1, 3)
	for w := 0; w < sc.Workers; w++ {
		var plan []rmDelivery
		for k := 0; k < per; k++ {
			d := rmDelivery{Src: p.Intn(nsrc), IP: p.Intn(3) - 1, StartCtx: p.Weighted([]int{10, 1, 0, 1}), StartUS: p.Range(1000, 4000),
				Acts: map[int]rmDomAct{}, Dwell: p.Intn(4)}
			if p.Chance(1, 10) {
				d.Src = -1
			}
			d.End = prng.Pick(p, []string{"commit", "commit", "commit", "abort", "body-abort"})
			d.TLSOverride = p.Chance(1, 10)
			nd := 1
			if sc.Domains > 1 && p.Chance(1, 4) {
				nd = 2
			}
			doms := p.Perm(sc.Domains)[:nd]
			aborted := false
			for di, dom := range doms {
				nr := prng.Pick(p, []int{1, 2, 2, 3, 3, 4})
				for r := 0; r < nr; r++ {
					rc := rmRcpt{Domain: dom, Ctx: ctxBG}
					if di > 0 {
						// bounded wait for a second destination while holding the first
						rc.Ctx, rc.US = ctxShort, p.Range(150_000, 400_000)
					} else if p.Chance(1, 12) {
						rc.Ctx, rc.US = prng.Pick(p, []int{ctxShort, ctxAsync}), p.Range(300, 40000)
					}
					d.Rcpts = append(d.Rcpts, rc)
				}
				var a rmDomAct
				if p.Chance(5, 6) {
					stage := focus
					if p.Chance(1, 2) {
						stage = rmTxnStages[p.Weighted(rmTxnStageW)]
					}
					f := genFault(p, stage, nr, false, sc.CmdTimeoutMS)
					a.Fault = &f
					if stage == "payload" {
						aborted = true
					}
					if stage == "data" || stage == "payload" || stage == "dot" {
						if d.End == "abort" {
							d.End = "commit" // the body must be attempted for the stage to be reached
						}
					}
				}
				if p.Chance(1, 4) {
					a.DelayUS = p.Range(100, 2000)
				}
				d.Acts[dom] = a
			}
			switch {
			case aborted:
				d.BodyBytes = rmBodySizes[p.Weighted(rmBodySizeAbW)] + 78*p.Intn(100)
			case p.Chance(1, 4):
				d.BodyBytes = rmBodySizes[p.Weighted(rmBodySizeW)] + 78*p.Intn(100)
			}
			for dom, a := range d.Acts {
				if a.Fault != nil && a.Fault.Stage == "payload" && a.Fault.N > d.BodyBytes/2 {
					// the server must run out of patience before the client runs out of payload
					a.Fault.N = d.BodyBytes / 2
					d.Acts[dom] = a
				}
			}
			plan = append(plan, d)
		}
		sc.Plans = append(sc.Plans, plan)
	}
	return sc
}

// ---- bodies ------------------------------------------------------------------

var rmBodyBuf struct {
	once sync.Once
	b    []byte
}

// rmBody returns a body of about n bytes (whole 78-byte lines); 0 = the 6-byte
// body the layer started with. The slices share one read-only buffer.
func rmBody(n int) []byte {
	if n <= 0 {
		return []byte("body\r\n")
	}
	rmBodyBuf.once.Do(func() {
		line := []byte(strings.Repeat("c11 body line with some text. ", 3)[:76] + "\r\n")
		rmBodyBuf.b = bytes.Repeat(line, (4<<20)/len(line))
	})
	n -= n % 78
	if n < 78 {
		n = 78
	}
	if n > len(rmBodyBuf.b) {
		n = len(rmBodyBuf.b)
	}
	return rmBodyBuf.b[:n]
}

// classifyBodyErr names the way Body failed. Evidence only.
func classifyBodyErr(err error) string {
	t := err.Error()
	if f := exterrors.Fields(err); f != nil {
		if errs, ok := f["errs"].(map[string]error); ok {
			// several recipients: classify the first failure in recipient order
			var rcpts []string
			for r, e := range errs {
				if e != nil {
					rcpts = append(rcpts, r)
				}
			}
			sort.Strings(rcpts)
			if len(rcpts) > 0 {
				return classifyBodyErr(errs[rcpts[0]])
			}
		}
		if op, _ := f["io_op"].(string); op == "write" {
			return "write_failed_mid_stream"
		}
		if code, _ := f["smtp_code"].(int); code != 0 && !strings.Contains(t, "Partial delivery") {
			switch {
			case code == 421:
				return "smtp_421"
			case code/100 == 4:
				return "smtp_4xx"
			case code/100 == 5:
				return "smtp_5xx"
			}
		}
	}
	switch {
	case strings.Contains(t, "Partial delivery"):
		return "partial"
	case strings.Contains(t, "write"):
		return "write_failed_mid_stream"
	case strings.Contains(t, "EOF") || strings.Contains(t, "reset") || strings.Contains(t, "closed"):
		return "connection_lost"
	}
	return "other"
}

func (st *rmStats) fault(f rmFault, ev smtpd.Event) {
	for _, k := range []string{"stage_" + f.label(ev), "class_" + strings.ReplaceAll(f.Class, "-", "_")} {
		v, _ := st.faults.LoadOrStore(k, new(atomic.Int64))
		v.(*atomic.Int64).Add(1)
	}
	if f.Stage == "rcpt" && (f.Class == "421" || f.Class == "421close") {
		v, _ := st.faults.LoadOrStore("421_at_"+f.label(ev), new(atomic.Int64))
		v.(*atomic.Int64).Add(1)
	}
	st.faultCells.Store(f.label(ev)+"/"+f.Class, true)
}

func (st *rmStats) bodyExit(class string) {
	v, _ := st.bodyExits.LoadOrStore(class, new(atomic.Int64))
	v.(*atomic.Int64).Add(1)
}

// ---- panic containment ---------------------------------------------------------

// containPanic runs one call into a delivery and recovers a panic escaping
// from it. A panic whose innermost maddy frame is a limit operation
// (internal/limits...) goes to cr - the "limit operations never crash" clause,
// judged as before. Any other panic goes to dp: C11 does not state that a
// delivery never panics, it states that a delivery that ended - however -
// has returned its permits; that is left to the quiescent probes, the panic
// is part of the witness.
func containPanic(cr, dp *crashes, fn func()) (panicked bool) {
	defer func() {
		if v := recover(); v != nil {
			st := string(debug.Stack())
			if len(st) > 5000 {
				st = st[:5000]
			}
			rec := crashRec{Site: rep.PanicSite(st), Value: fmt.Sprint(v), Stack: st}
			dst := dp
			if strings.HasPrefix(rec.Site, "internal/limits") {
				dst = cr
			}
			dst.mu.Lock()
			dst.list = append(dst.list, rec)
			dst.mu.Unlock()
			panicked = true
		}
	}()
	fn()
	return false
}

// Records returns up to max recorded panics (0 = all).
func (cr *crashes) Records(max int) []crashRec {
	cr.mu.Lock()
	defer cr.mu.Unlock()
	out := append([]crashRec(nil), cr.list...)
	if max > 0 && len(out) > max {
		out = out[:max]
	}
	return out
}

// ---- probes over every used message key ------------------------------------------

type rmKeys struct {
	ips  []net.IP
	srcs []string
}

// rmUsedKeys lists the ip / source keys of the scenario's deliveries other
// than the pair probeAll has probed already (127.0.0.1, s0.example).
func rmUsedKeys(sc rmScenario) rmKeys {
	var ks rmKeys
	seenIP, seenSrc := map[int]bool{-1: true}, map[int]bool{0: true}
	for _, plan := range sc.Plans {
		for _, d := range plan {
			if !seenIP[d.IP] {
				seenIP[d.IP] = true
				ks.ips = append(ks.ips, net.IPv4(198, 51, 100, byte(1+d.IP)))
			}
			if !seenSrc[d.Src] {
				seenSrc[d.Src] = true
				if d.Src < 0 {
					ks.srcs = append(ks.srcs, "") // null sender: the source key is the empty domain
				} else {
					ks.srcs = append(ks.srcs, fmt.Sprintf("s%d.example", d.Src))
				}
			}
		}
	}
	return ks
}

// probeUsedMsgKeys repeats the quiescent probe of the ip and source scopes for
// the given keys. Skipped once the case has a violation (a shortage in `all`
// cannot be told from one in a per-key scope, and every failing probe waits
// for the limiter's own time-out).
func (pb *prober) probeUsedMsgKeys(ks rmKeys) {
	if pb.cfg.N(scIP) > 0 {
		for _, ip := range ks.ips {
			if pb.c.Violated() || pb.cr.Any() {
				return
			}
			pb.probeMsg(scIP, ip, "")
		}
	}
	if pb.cfg.N(scSrc) > 0 {
		for _, s := range ks.srcs {
			if pb.c.Violated() || pb.cr.Any() {
				return
			}
			pb.probeMsg(scSrc, nil, s)
		}
	}
}

var _ = context.Background
