//go:build verif

package c11

import (
	"context"
	"crypto/tls"
	"errors"
	"fmt"
	"net"
	"sort"
	"strconv"
	"strings"
	"sync"
	"sync/atomic"
	"testing"
	"time"

	"github.com/emersion/go-message/textproto"
	"github.com/emersion/go-smtp"
	mockdns "github.com/foxcpp/go-mockdns"
	mtasts "github.com/foxcpp/go-mtasts"
	"github.com/foxcpp/maddy/framework/buffer"
	"github.com/foxcpp/maddy/framework/module"
	"github.com/foxcpp/maddy/internal/target/remote"
	"verifkit/certs"
	"verifkit/prng"
	"verifkit/rep"
	"verifkit/smtpd"
)

// Layer (iii): the real remote target (production defaults, connection pool
// on) with a limits.Group built from configuration text, delivering to one
// scripted next hop (verifkit/smtpd) per destination domain. 1-16 concurrent
// deliveries with 1-3 recipients in 1-2 domains end at every stage: committed,
// aborted before the body, MAIL rejected by the next hop (5xx / 4xx),
// connection dropped at MAIL, RCPT rejected, DATA failed or dropped; Start and
// AddRcpt run under background, short-deadline or cancelled contexts (limit
// time-outs, interrupted connection set-up).
//
// Inside intervals, all harness-side and therefore subsets of the permit
// intervals: message scopes from Start returning nil to the call of
// Commit/Abort; destination scope from the first AddRcpt for a domain
// returning nil (the target has taken the domain's permit and opened the
// transaction) to the call of Commit/Abort.

type rmRcpt struct {
	Domain int `json:"domain"`
	Ctx    int `json:"ctx"`
	US     int `json:"us"`
}

type rmDomAct struct {
	Mail    string `json:"mail,omitempty"` // "", perm, temp, drop, rst
	Rcpt    string `json:"rcpt,omitempty"` // "", perm
	Dot     string `json:"dot,omitempty"`  // "", temp, drop, dropafter (250, then the connection is closed)
	Rset    string `json:"rset,omitempty"` // "", drop (the RSET that precedes pooling is not answered)
	DelayUS int    `json:"delay_us,omitempty"`
	// Fault (next-hop fault matrix, remote_fault_test.go): one scripted reply class at one stage of this
	// delivery's transaction with the domain's next hop.
	Fault *rmFault `json:"fault,omitempty"`
}

type rmDelivery struct {
	Src      int              `json:"src"` // sender domain class, -1 = null sender
	IP       int              `json:"ip"`  // -1: no connection info (127.0.0.1)
	StartCtx int              `json:"start_ctx"`
	StartUS  int              `json:"start_us"`
	Rcpts    []rmRcpt         `json:"rcpts"`
	Acts     map[int]rmDomAct `json:"acts"` // per destination domain
	End      string           `json:"end"`  // commit | abort | body-abort
	Dwell    int              `json:"dwell"`
	// message properties that select exit paths of connectionForDomain / AddRcpt
	RequireTLS  bool `json:"requiretls,omitempty"`      // MAIL ... REQUIRETLS
	Quarantine  bool `json:"quarantine,omitempty"`      // refused before any connection
	TLSOverride bool `json:"tls_required_no,omitempty"` // TLS-Required: No - policies skipped, connection never pooled
	// BodyBytes: size of the message body (0 = the 6-byte body of the first version).
	BodyBytes int `json:"body_bytes,omitempty"`
}

// rmProfile describes how the next hop of one destination domain presents itself.
type rmProfile struct {
	// TLS: none (no STARTTLS) | good (chain the target trusts) | selfsigned (unauthenticated TLS after a retry) |
	// handshake (STARTTLS accepted, handshake sabotaged -> plaintext retry) | reply454 (STARTTLS refused -> MX unusable)
	TLS string `json:"tls"`
	// Reach: ok | greet-refuse (554 greeting) | ehlo-refuse | unreachable (dial error) | dns-fail (MX lookup fails) |
	// nxdomain | null-mx | first-mx-down (a dead preferred MX in front of the working one)
	Reach string `json:"reach"`
	// STS is the MTA-STS policy the domain publishes (used when the target has the mtasts policy):
	// none | enforce (MX listed) | enforce-mismatch (MX not listed -> refused) | testing-mismatch
	STS string `json:"sts"`
	// AdvertiseRequireTLS: the server lists REQUIRETLS in EHLO.
	AdvertiseRequireTLS bool `json:"advertise_requiretls"`
	// ConnFaults: scripted reply classes at the connection-level stages (greeting, EHLO, EHLO after
	// STARTTLS, STARTTLS) of the next hop's n-th accepted connection (key = connection number).
	ConnFaults map[int]rmFault `json:"conn_faults,omitempty"`
}

type rmScenario struct {
	Cfg        limitsCfg      `json:"cfg"`
	Text       string         `json:"limits_text"`
	Domains    int            `json:"domains"`
	Profiles   []rmProfile    `json:"profiles"`
	Workers    int            `json:"workers"`
	Plans      [][]rmDelivery `json:"plans"`
	ReuseLimit int            `json:"conn_reuse_limit"`
	// target-wide security configuration
	ClientTLS   bool   `json:"client_tls"`              // false: tls client off (never STARTTLS)
	MTASTS      bool   `json:"mtasts_policy"`           // mx_auth mtasts
	LocalPolicy string `json:"local_policy,omitempty"`  // "", min-tls-encrypted, min-tls-authenticated, min-mx-mtasts
	StrictRTLS  bool   `json:"relaxed_requiretls_off"`  // relaxed_requiretls no
	NoOverride  bool   `json:"requiretls_override_off"` // requiretls_override no
	// CmdTimeoutMS > 0: command_timeout and submission_timeout of the target (fault matrix, class stall); 0 = production 5 min / 12 min
	CmdTimeoutMS int `json:"command_timeout_ms,omitempty"`
}

func rmDomain(k int) string { return fmt.Sprintf("d%d.example", k) }

func genRemoteScenario(p *prng.R) rmScenario {
	sc := rmScenario{Domains: p.Range(1, 3), Workers: prng.Pick(p, []int{1, 2, 3, 4, 6, 8, 12, 16})}
	sc.Cfg = genCfg(p, cfgOpts{scopes: allScopes, maxN: prng.Pick(p, []int{1, 2, 3}), allowRate: true, rateBurst: 1024, force: scDest})
	sc.Text = sc.Cfg.Text()
	if p.Chance(1, 4) {
		sc.ReuseLimit = -1 // pooling off
	}
	sc.ClientTLS = !p.Chance(1, 5)
	sc.MTASTS = p.Chance(2, 5)
	sc.LocalPolicy = prng.Pick(p, []string{"", "", "", "", "", "min-tls-encrypted", "min-tls-authenticated", "min-mx-mtasts"})
	sc.StrictRTLS = p.Chance(1, 4)
	sc.NoOverride = p.Chance(1, 5)
	for k := 0; k < sc.Domains; k++ {
		pr := rmProfile{
			TLS:                 prng.Pick(p, []string{"none", "none", "none", "good", "good", "good", "good", "selfsigned", "handshake", "reply454"}),
			Reach:               "ok",
			STS:                 prng.Pick(p, []string{"none", "enforce", "enforce", "enforce", "enforce-mismatch", "testing-mismatch"}),
			AdvertiseRequireTLS: p.Bool(),
		}
		if p.Chance(1, 5) {
			pr.Reach = prng.Pick(p, []string{"greet-refuse", "ehlo-refuse", "unreachable", "dns-fail", "nxdomain", "null-mx", "first-mx-down", "first-mx-down"})
		}
		sc.Profiles = append(sc.Profiles, pr)
	}
	nsrc := p.Range(1, 2)
	per := p.Range(1, 4)
	if sc.Workers >= 12 {
		per = p.Range(1, 2)
	}
	ctxW := [][]int{{6, 2, 1, 1}, {3, 5, 1, 2}}[p.Intn(2)]
	for w := 0; w < sc.Workers; w++ {
		var plan []rmDelivery
		for k := 0; k < per; k++ {
			d := rmDelivery{Src: p.Intn(nsrc), IP: p.Intn(3) - 1, StartCtx: p.Weighted(ctxW), StartUS: p.Range(100, 4000), Acts: map[int]rmDomAct{}, Dwell: p.Intn(8)}
			if p.Chance(1, 10) {
				d.Src = -1
			}
			d.End = prng.Pick(p, []string{"commit", "commit", "abort", "body-abort"})
			d.RequireTLS = p.Chance(1, 4)
			d.Quarantine = p.Chance(1, 16)
			d.TLSOverride = p.Chance(1, 8)
			nd := 1
			if sc.Domains > 1 && p.Chance(1, 3) {
				nd = 2
			}
			doms := p.Perm(sc.Domains)[:nd]
			for i, dom := range doms {
				for r, nr := 0, p.Range(1, 2); r < nr; r++ {
					rc := rmRcpt{Domain: dom, Ctx: p.Weighted(ctxW), US: p.Range(300, 40000)}
					if i > 0 && rc.Ctx == ctxBG {
						// never wait unboundedly for a second destination while holding the first
						rc.Ctx = ctxShort
					}
					d.Rcpts = append(d.Rcpts, rc)
				}
				var a rmDomAct
				switch p.Weighted([]int{5, 2, 1, 1, 1, 1, 1, 1, 1, 1}) {
				case 8:
					a.Dot = "dropafter"
				case 9:
					a.Rset = "drop"
				case 1:
					a.Mail = "perm"
				case 2:
					a.Mail = "temp"
				case 3:
					a.Mail = "drop"
				case 4:
					a.Mail = "rst"
				case 5:
					a.Rcpt = "perm"
				case 6:
					a.Dot = "temp"
				case 7:
					a.Dot = "drop"
				}
				if p.Chance(1, 3) {
					a.DelayUS = p.Range(100, 3000)
				}
				d.Acts[dom] = a
			}
			plan = append(plan, d)
		}
		sc.Plans = append(sc.Plans, plan)
	}
	return sc
}

type rmStats struct {
	started, startCtxErr, startOtherErr     atomic.Int64
	rcptOK, rcptErr, rcptCtxErr             atomic.Int64
	bodyOK, bodyErr, commits, aborts        atomic.Int64
	mailRejected, mailDropped, rcptRejected atomic.Int64
	dotFailed                               atomic.Int64
	greetRefused, ehloRefused, dialRefused  atomic.Int64
	rsetDropped, closedAfterCommit          atomic.Int64
	refusals                                sync.Map // exit path class -> *atomic.Int64
	faults                                  sync.Map // served next-hop faults: stage_<stage> / class_<class> -> *atomic.Int64
	faultCells                              sync.Map // "<stage>/<class>" served
	bodyExits                               sync.Map // class of a Body error -> *atomic.Int64
	others                                  sync.Map // texts of unclassified AddRcpt errors (digits and addresses stripped)
}

func (st *rmStats) refusal(class string) {
	v, _ := st.refusals.LoadOrStore(class, new(atomic.Int64))
	v.(*atomic.Int64).Add(1)
}

// classifyRcptErr names the exit path an AddRcpt error came from, by its
// text. Evidence only - no verdict depends on it.
func classifyRcptErr(err error) string {
	t := err.Error()
	has := func(sub string) bool { return strings.Contains(t, sub) }
	switch {
	case isCtxErr(err) || has("i/o timeout") || has("operation was canceled"):
		return "context"
	case has("unauthenticated but required (REQUIRETLS)"):
		return "requiretls_no_authenticated_tls"
	case has("MX record authenticity (REQUIRETLS)"):
		return "requiretls_mx_not_authenticated"
	case has("MX record authenticity (MTA-STS)"):
		return "mtasts_mx_not_listed"
	case has("MTA-STS"):
		return "mtasts_tls_refusal"
	case has("Failed to establish the MX record authenticity"):
		return "local_policy_mx_level"
	case has("unauthenticated but required"):
		return "local_policy_tls_level"
	case has("quarantined"):
		return "quarantined"
	case has("does not accept email"):
		return "null_mx"
	case has("no such host"):
		return "mx_lookup_nxdomain"
	case has("server misbehaving"):
		return "mx_lookup_failure"
	case has("nobody listens"):
		return "all_mx_unreachable"
	case has("no service here"):
		return "greeting_refused"
	case has("go away"):
		return "ehlo_refused"
	case has("TLS not available due to temporary reason"):
		return "starttls_refused_454"
	case has("c11 fault at"):
		return "scripted_nexthop_fault"
	case has("sender refused") || has("sender deferred"):
		return "mail_rejected_by_next_hop"
	case has("no such user"):
		return "rcpt_rejected_by_next_hop"
	case has("EOF") || has("connection reset") || has("broken pipe") || has("closed network connection"):
		return "connection_dropped"
	case has("REQUIRETLS"):
		return "requiretls_not_offered_by_server"
	}
	return "smtp_or_other"
}

// otherErrClass strips the variable parts of an error text.
func otherErrClass(err error) string {
	t := err.Error()
	var b strings.Builder
	for _, r := range t {
		if r >= '0' && r <= '9' {
			continue
		}
		b.WriteRune(r)
	}
	t = b.String()
	if len(t) > 90 {
		t = t[:90]
	}
	return t
}

var rmPKI struct {
	once   sync.Once
	mu     sync.Mutex
	ca     *certs.CA
	leaves map[string]tls.Certificate
}

func rmCA() *certs.CA {
	rmPKI.once.Do(func() {
		rmPKI.ca = certs.NewCA("c11 test CA")
		rmPKI.leaves = map[string]tls.Certificate{}
	})
	return rmPKI.ca
}

// serverCert returns (and caches) the certificate of an MX host: signed by the
// harness CA the target trusts, or self-signed.
func serverCert(host string, selfSigned bool) tls.Certificate {
	ca := rmCA()
	rmPKI.mu.Lock()
	defer rmPKI.mu.Unlock()
	key := fmt.Sprintf("%s/%v", host, selfSigned)
	if c, ok := rmPKI.leaves[key]; ok {
		return c
	}
	var c tls.Certificate
	if selfSigned {
		c = certs.SelfSigned(certs.LeafOpts{DNSNames: []string{host}}).TLSCertificate()
	} else {
		c = ca.Leaf(certs.LeafOpts{DNSNames: []string{host}}).TLSCertificate()
	}
	rmPKI.leaves[key] = c
	return c
}

// deliveryOf parses the worker/delivery ids out of "w<worker>k<n>@...".
func deliveryOf(from string) (w, k int, ok bool) {
	at := strings.IndexByte(from, '@')
	if at < 0 || !strings.HasPrefix(from, "w") {
		return 0, 0, false
	}
	lp := from[1:at]
	i := strings.IndexByte(lp, 'k')
	if i < 0 {
		return 0, 0, false
	}
	w, e1 := strconv.Atoi(lp[:i])
	k, e2 := strconv.Atoi(lp[i+1:])
	return w, k, e1 == nil && e2 == nil
}

func runRemoteCases(t *testing.T, r *rep.Reporter, env instrEnv) {
	n := r.N(96, 6000)
	for i := 0; i < n; i++ {
		idx := baseRemote + i
		r.Run(idx, fmt.Sprintf("remote-%d", i), func(c *rep.Case) {
			p := prng.New(r.Seed(), uint64(idx), "c11/remote")
			sc := genRemoteScenario(p)
			runRemoteScenario(t, r, c, idx, i, sc)
		})
	}
	// next-hop fault matrix (remote_fault_test.go): own index range and PRNG stream
	n = r.N(rmFaultQuick, rmFaultThorough)
	for i := 0; i < n; i++ {
		idx := baseRemoteFault + i
		r.Run(idx, fmt.Sprintf("remote-nexthop-%d", i), func(c *rep.Case) {
			p := prng.New(r.Seed(), uint64(idx), "c11/remote-nexthop")
			sc := genRemoteFaultScenario(p, i)
			runRemoteScenario(t, r, c, idx, i, sc)
		})
	}
}

// runRemoteScenario runs one generated scenario against the real remote target.
func runRemoteScenario(t *testing.T, r *rep.Reporter, c *rep.Case, idx, i int, sc rmScenario) {
	{ // (two blocks only keep the indentation of the body as it was inside r.Run's closure)
		{
			g, err := buildGroup(sc.Text)
			if err != nil {
				t.Fatalf("case %d: limits.Init(%q): %v", idx, sc.Text, err)
			}
			yieldMode{Kind: "count"}.Install(0)
			var st rmStats

			// one scripted next hop per destination domain
			zones := map[string]mockdns.Zone{}
			servers := make([]*smtpd.Server, sc.Domains)
			var srvErr error
			addrOf := map[string]string{}
			refused := map[string]bool{} // MX hosts nobody listens on
			for k := 0; k < sc.Domains; k++ {
				k := k
				var srv *smtpd.Server
				prof := sc.Profiles[k]
				mxName := "mx." + rmDomain(k)
				cfg := smtpd.Config{PIPELINING: true, EightBitMIME: true, REQUIRETLS: prof.AdvertiseRequireTLS}
				switch prof.TLS {
				case "good", "selfsigned":
					cfg.STARTTLS = true
					cfg.TLS = &tls.Config{Certificates: []tls.Certificate{serverCert(mxName, prof.TLS == "selfsigned")}}
				case "handshake", "reply454":
					cfg.STARTTLS = true
					cfg.StartTLSBroken = prof.TLS
				}
				var lastMu sync.Mutex
				lastDel := map[int][2]int{} // connection -> (worker, delivery) of its latest MAIL
				cfg.Script = func(ev smtpd.Event) *smtpd.Action {
					switch {
					case ev.Stage == smtpd.StageConnect && prof.Reach == "greet-refuse":
						st.greetRefused.Add(1)
						return &smtpd.Action{Code: 554, Enh: "5.3.2", Text: []string{"no service here"}}
					case ev.Stage == smtpd.StageEHLO && prof.Reach == "ehlo-refuse":
						st.ehloRefused.Add(1)
						return &smtpd.Action{Code: 550, Enh: "5.7.1", Text: []string{"go away"}}
					}
					// connection-level faults of the fault matrix: keyed by the connection number
					if f, have := prof.ConnFaults[ev.Conn]; have && f.matches(ev) {
						st.fault(f, ev)
						return f.action()
					}
					w, dk, ok := deliveryOf(ev.From)
					if ok && ev.Stage == smtpd.StageMail {
						lastMu.Lock()
						lastDel[ev.Conn] = [2]int{w, dk}
						lastMu.Unlock()
					}
					if !ok && (ev.Stage == smtpd.StageRset || ev.Stage == smtpd.StageQuit) {
						// outside a transaction the command belongs to the delivery whose MAIL was
						// the last one on this connection (RSET before pooling, QUIT in Close)
						lastMu.Lock()
						ld, have := lastDel[ev.Conn]
						lastMu.Unlock()
						if have && ld[0] < len(sc.Plans) && ld[1] < len(sc.Plans[ld[0]]) {
							if f := sc.Plans[ld[0]][ld[1]].Acts[k].Fault; f != nil && f.matches(ev) {
								st.fault(*f, ev)
								return f.action()
							}
						}
						return nil
					}
					if !ok || w >= len(sc.Plans) || dk >= len(sc.Plans[w]) {
						return nil
					}
					a := sc.Plans[w][dk].Acts[k]
					if a.Fault != nil && a.Fault.matches(ev) {
						st.fault(*a.Fault, ev)
						return a.Fault.action()
					}
					delay := time.Duration(a.DelayUS) * time.Microsecond
					switch ev.Stage {
					case smtpd.StageMail:
						switch a.Mail {
						case "perm":
							st.mailRejected.Add(1)
							return &smtpd.Action{Code: 550, Enh: "5.7.1", Text: []string{"sender refused"}, Delay: delay}
						case "temp":
							st.mailRejected.Add(1)
							return &smtpd.Action{Code: 451, Enh: "4.7.1", Text: []string{"sender deferred"}, Delay: delay}
						case "drop":
							st.mailDropped.Add(1)
							return &smtpd.Action{DropBefore: true, Delay: delay}
						case "rst":
							st.mailDropped.Add(1)
							return &smtpd.Action{DropBefore: true, RST: true}
						}
						return &smtpd.Action{Delay: delay}
					case smtpd.StageRcpt:
						if a.Rcpt == "perm" {
							st.rcptRejected.Add(1)
							return &smtpd.Action{Code: 550, Enh: "5.1.1", Text: []string{"no such user"}}
						}
					case smtpd.StageDot:
						switch a.Dot {
						case "temp":
							st.dotFailed.Add(1)
							return &smtpd.Action{Code: 451, Enh: "4.3.0", Text: []string{"try later"}}
						case "drop":
							st.dotFailed.Add(1)
							return &smtpd.Action{DropBefore: true}
						case "dropafter":
							st.closedAfterCommit.Add(1)
							return &smtpd.Action{DropAfter: true}
						}
					case smtpd.StageRset:
						if a.Rset == "drop" {
							st.rsetDropped.Add(1)
							return &smtpd.Action{DropBefore: true}
						}
					}
					return nil
				}
				err := retryPorts(func() (e error) { srv, e = smtpd.New(cfg); return })
				if err != nil {
					srvErr = err
					break
				}
				servers[k] = srv
				zones[mxName+"."] = mockdns.Zone{A: []string{"127.0.0.1"}}
				addrOf[mxName] = srv.Addr()
				switch prof.Reach {
				case "dns-fail":
					zones[rmDomain(k)+"."] = mockdns.Zone{Err: &net.DNSError{Err: "server misbehaving", Name: rmDomain(k), IsTemporary: true}}
				case "nxdomain":
					// no zone at all
				case "null-mx":
					zones[rmDomain(k)+"."] = mockdns.Zone{MX: []net.MX{{Host: ".", Pref: 0}}}
				case "unreachable":
					zones[rmDomain(k)+"."] = mockdns.Zone{MX: []net.MX{{Host: mxName + ".", Pref: 10}}}
					delete(addrOf, mxName)
					refused[mxName] = true
				case "first-mx-down":
					down := "mxdown." + rmDomain(k)
					zones[down+"."] = mockdns.Zone{A: []string{"127.0.0.1"}}
					refused[down] = true
					zones[rmDomain(k)+"."] = mockdns.Zone{MX: []net.MX{{Host: down + ".", Pref: 5}, {Host: mxName + ".", Pref: 10}}}
				default:
					zones[rmDomain(k)+"."] = mockdns.Zone{MX: []net.MX{{Host: mxName + ".", Pref: 10}}}
				}
			}
			defer func() {
				for _, s := range servers {
					if s != nil {
						s.Close()
					}
				}
			}()
			if srvErr != nil {
				if errors.Is(srvErr, errNoPort) {
					c.Inconclusive(srvErr.Error())
					c.Done("", false)
					return
				}
				t.Fatalf("smtpd: %v", srvErr)
			}
			resolver := &mockdns.Resolver{Zones: zones}
			dialer := func(ctx context.Context, network, addr string) (net.Conn, error) {
				host, _, err := net.SplitHostPort(addr)
				if err != nil {
					return nil, err
				}
				host = strings.TrimSuffix(host, ".")
				real, ok := addrOf[host]
				if !ok {
					if refused[host] {
						st.dialRefused.Add(1)
					}
					return nil, &net.OpError{Op: "dial", Net: network, Err: errors.New("connection refused (c11 dialer: nobody listens on " + host + ")")}
				}
				var d net.Dialer
				return d.DialContext(ctx, "tcp", real)
			}
			opts := remote.VerifTargetOpts{
				Name: fmt.Sprintf("c11_remote_%d", idx), Resolver: resolver, Dialer: dialer,
				Limits: g, ConnReuseLimit: sc.ReuseLimit,
			}
			if sc.ClientTLS {
				opts.TLSConfig = &tls.Config{RootCAs: rmCA().Pool()}
			} else {
				opts.NoTLS = true
			}
			if sc.CmdTimeoutMS > 0 {
				opts.CommandTimeout = time.Duration(sc.CmdTimeoutMS) * time.Millisecond
				opts.SubmissionTimeout = opts.CommandTimeout
			}
			no := false
			if sc.StrictRTLS {
				opts.RelaxedRequireTLS = &no
			}
			if sc.NoOverride {
				opts.RequireTLSOverride = &no
			}
			// production order of the policies: mtasts ... local_policy
			if sc.MTASTS {
				pol, err := remote.VerifMTASTSPolicy(func(ctx context.Context, domain string) (*mtasts.Policy, error) {
					for k := 0; k < sc.Domains; k++ {
						if domain != rmDomain(k) {
							continue
						}
						switch sc.Profiles[k].STS {
						case "enforce":
							return &mtasts.Policy{Mode: mtasts.ModeEnforce, MaxAge: 86400, MX: []string{"mx." + rmDomain(k), "mxdown." + rmDomain(k)}}, nil
						case "enforce-mismatch":
							return &mtasts.Policy{Mode: mtasts.ModeEnforce, MaxAge: 86400, MX: []string{"other." + rmDomain(k)}}, nil
						case "testing-mismatch":
							return &mtasts.Policy{Mode: mtasts.ModeTesting, MaxAge: 86400, MX: []string{"other." + rmDomain(k)}}, nil
						}
					}
					return nil, errors.New("c11: no MTA-STS policy published")
				}, nil)
				if err != nil {
					t.Fatalf("case %d: mtasts policy: %v", idx, err)
				}
				opts.Policies = append(opts.Policies, pol)
			}
			switch sc.LocalPolicy {
			case "min-tls-encrypted":
				opts.Policies = append(opts.Policies, remote.VerifLocalPolicy(module.TLSEncrypted, module.MXNone))
			case "min-tls-authenticated":
				opts.Policies = append(opts.Policies, remote.VerifLocalPolicy(module.TLSAuthenticated, module.MXNone))
			case "min-mx-mtasts":
				opts.Policies = append(opts.Policies, remote.VerifLocalPolicy(module.TLSNone, module.MX_MTASTS))
			}
			tgt, err := remote.VerifNewTarget(opts)
			if err != nil {
				t.Fatalf("case %d: remote target: %v", idx, err)
			}
			defer tgt.Close()

			mon := newInsideMon(sc.Cfg)
			// cr: panics of limit operations (innermost maddy frame in internal/limits) - the
			// "limit operations never crash" clause. dp: panics elsewhere inside a delivery call,
			// contained call by call the way the queue / the SMTP server contain them: such a
			// delivery has ended, whether it returned its permits is decided by the quiescent probes.
			var cr, dp crashes
			var wg sync.WaitGroup
			for w := 0; w < sc.Workers; w++ {
				wg.Add(1)
				go func(w int) {
					defer wg.Done()
					cr.Guard(func() {
						for k, d := range sc.Plans[w] {
							runRemoteDelivery(tgt, w, k, d, mon, &st, &cr, &dp)
						}
					})
				}(w)
			}
			if !waitTimeout(&wg, 180*time.Second) {
				c.Inconclusive("deliveries did not finish within the watchdog")
				c.Done("", false)
				return
			}
			var wit any = sc
			if dp.Any() {
				wit = map[string]any{"scenario": sc, "contained_delivery_panics": dp.Records(3)}
			}
			cr.Report(c, "remote", wit)
			mon.Report(c, "remote", wit)
			if !cr.Any() {
				pb := &prober{c: c, r: r, g: g, cfg: sc.Cfg, layer: "remote", wit: wit, cr: &cr}
				if dp.Any() {
					// cause class of the witness: a delivery call panicked (outside the limiters) and was contained
					pb.layer = "remote/cause=delivery-panicked"
				}
				pb.probeAll(net.IPv4(127, 0, 0, 1), "s0.example", rmDomain(0))
				for k := 1; k < sc.Domains && !cr.Any(); k++ {
					if !pb.probeDest(rmDomain(k)) {
						break
					}
				}
				// every ip / source key the deliveries used (probeAll took one of each)
				pb.probeUsedMsgKeys(rmUsedKeys(sc))
				cr.Report(c, "remote", wit)
			}
			for _, x := range dp.Records(0) {
				r.Count("remote_delivery_panics_contained", 1)
				r.Distinct("remote_delivery_panic_sites", x.Site)
			}

			r.Count("remote_deliveries_started", st.started.Load())
			r.Count("remote_start_limit_timeout", st.startCtxErr.Load())
			r.Count("remote_start_other_error", st.startOtherErr.Load())
			r.Count("remote_rcpt_accepted", st.rcptOK.Load())
			r.Count("remote_rcpt_failed", st.rcptErr.Load())
			r.Count("remote_committed", st.commits.Load())
			r.Count("remote_aborted", st.aborts.Load())
			r.Count("remote_body_ok", st.bodyOK.Load())
			r.Count("remote_body_failed", st.bodyErr.Load())
			r.Count("nexthop_mail_rejected", st.mailRejected.Load())
			r.Count("nexthop_dropped_at_mail", st.mailDropped.Load())
			r.Count("nexthop_rcpt_rejected", st.rcptRejected.Load())
			r.Count("nexthop_data_failed", st.dotFailed.Load())
			r.Count("nexthop_greeting_refused", st.greetRefused.Load())
			r.Count("nexthop_ehlo_refused", st.ehloRefused.Load())
			r.Count("nexthop_dial_refused", st.dialRefused.Load())
			r.Count("nexthop_rset_dropped", st.rsetDropped.Load())
			r.Count("nexthop_closed_after_commit", st.closedAfterCommit.Load())
			exits := 0
			st.refusals.Range(func(k, v any) bool {
				r.Count("remote_rcpt_exit_"+k.(string), v.(*atomic.Int64).Load())
				r.Distinct("remote_exit_paths", k.(string))
				exits++
				return true
			})
			st.others.Range(func(k, _ any) bool {
				r.Distinct("remote_other_rcpt_errors", k.(string))
				return true
			})
			nfaults := 0
			st.faults.Range(func(k, v any) bool {
				r.Count("nexthop_fault_"+k.(string), v.(*atomic.Int64).Load())
				nfaults++
				return true
			})
			st.faultCells.Range(func(k, _ any) bool {
				r.Distinct("nexthop_fault_cells", k.(string))
				return true
			})
			st.bodyExits.Range(func(k, v any) bool {
				r.Count("remote_body_exit_"+k.(string), v.(*atomic.Int64).Load())
				return true
			})
			tlsConns, reused := 0, 0
			for _, s := range servers {
				for _, cr := range s.Transcript() {
					if cr.TLS {
						tlsConns++
					}
					if len(cr.Txns) > 1 {
						reused++
					}
				}
			}
			r.Count("nexthop_tls_connections", int64(tlsConns))
			r.Count("nexthop_connections_reused", int64(reused))
			for _, pr := range sc.Profiles {
				r.Distinct("remote_domain_profiles", pr.TLS+"/"+pr.Reach)
			}
			conns := 0
			for _, s := range servers {
				conns += s.TotalConns()
			}
			r.Count("nexthop_connections", int64(conns))
			sat, scs := mon.Saturated()
			r.Count("scope_keys_saturated", int64(sat))
			for s := range scs {
				r.Distinct("scopes_saturated", s)
			}
			r.Count("monitored_enters", mon.enter)
			if i < 2 {
				r.Sample(map[string]any{"layer": "remote", "limits": sc.Text, "workers": sc.Workers, "domains": sc.Domains})
			}
			failures := st.mailRejected.Load()+st.mailDropped.Load() > 0
			profs := ""
			for _, pr := range sc.Profiles {
				profs += pr.TLS + "/" + pr.Reach + "/" + pr.STS + ";"
			}
			shape := fmt.Sprintf("remote cfg=%s w=%d doms=%d reuse=%d tls=%v sts=%v local=%s prof=%s sat=%v mailfail=%v rcptrej=%v dotfail=%v to=%v exits=%d", sc.Cfg.Shape(), sc.Workers, sc.Domains, sc.ReuseLimit,
				sc.ClientTLS, sc.MTASTS, sc.LocalPolicy, profs, sat > 0, failures, st.rcptRejected.Load() > 0, st.dotFailed.Load() > 0, st.startCtxErr.Load() > 0, exits)
			if idx >= baseRemoteFault {
				var cells []string
				st.faultCells.Range(func(k, _ any) bool { cells = append(cells, k.(string)); return true })
				sort.Strings(cells)
				shape = "nexthop-" + shape + " faults=" + strings.Join(cells, ",")
			}
			c.Done(shape, sat > 0 || failures || st.startCtxErr.Load() > 0 || exits > 0 || nfaults > 0)
		}
	}
}

func runRemoteDelivery(tgt *remote.Target, w, k int, d rmDelivery, mon *insideMon, st *rmStats, cr, dp *crashes) {
	from := ""
	src := ""
	if d.Src >= 0 {
		src = fmt.Sprintf("s%d.example", d.Src)
		from = fmt.Sprintf("w%dk%d@%s", w, k, src)
	}
	meta := &module.MsgMetadata{ID: fmt.Sprintf("c11w%dk%d", w, k), OriginalFrom: from, Quarantine: d.Quarantine, TLSRequireOverride: d.TLSOverride}
	meta.SMTPOpts.RequireTLS = d.RequireTLS
	ip := net.IPv4(127, 0, 0, 1)
	if d.IP >= 0 {
		ip = net.IPv4(198, 51, 100, byte(1+d.IP))
		meta.Conn = &module.ConnState{RemoteAddr: &net.TCPAddr{IP: ip, Port: 1000}, Proto: "ESMTP"}
	}
	// Every call into the target is contained on its own (containPanic): the
	// callers of a delivery in maddy (the queue's dispatch goroutine, go-smtp's
	// command handlers) recover panics, so a panicking call ends the delivery
	// but not the process - and the permits it held must be back all the same.
	var del module.Delivery
	var err error
	ctx, cancel := mkCtx(d.StartCtx, d.StartUS)
	panicked := containPanic(cr, dp, func() { del, err = tgt.Start(ctx, meta, from) })
	cancel()
	if panicked {
		return
	}
	if err != nil {
		if isCtxErr(err) || strings.Contains(err.Error(), "High load") {
			st.startCtxErr.Add(1)
		} else {
			st.startOtherErr.Add(1)
		}
		return
	}
	st.started.Add(1)
	msgKeys := []scopeKey{{scAll, ""}, {scIP, ip.String()}, {scSrc, src}}
	mon.Enter(msgKeys...)
	heldDom := map[int]bool{}
	leave := func() {
		for dom := range heldDom {
			mon.Leave(scopeKey{scDest, rmDomain(dom)})
		}
		mon.Leave(msgKeys...)
	}
	// abortAfterPanic is what the endpoint's session does once go-smtp has
	// recovered a panic of AddRcpt / Body: the transaction is aborted.
	abortAfterPanic := func() {
		leave()
		st.aborts.Add(1)
		containPanic(cr, dp, func() { del.Abort(context.Background()) })
	}
	for ri, rc := range d.Rcpts {
		ctx, cancel := mkCtx(rc.Ctx, rc.US)
		var err error
		panicked := containPanic(cr, dp, func() {
			err = del.AddRcpt(ctx, fmt.Sprintf("r%d@%s", ri, rmDomain(rc.Domain)), smtp.RcptOptions{})
		})
		cancel()
		if panicked {
			abortAfterPanic()
			return
		}
		if err != nil {
			if isCtxErr(err) {
				st.rcptCtxErr.Add(1)
			}
			st.rcptErr.Add(1)
			cls := classifyRcptErr(err)
			st.refusal(cls)
			if cls == "smtp_or_other" {
				st.others.Store(otherErrClass(err), true)
			}
			continue
		}
		st.rcptOK.Add(1)
		if !heldDom[rc.Domain] {
			heldDom[rc.Domain] = true
			mon.Enter(scopeKey{scDest, rmDomain(rc.Domain)})
		}
	}
	dwell(d.Dwell)
	if d.End != "abort" {
		hdr := textproto.Header{}
		hdr.Add("Subject", "c11")
		hdr.Add("From", "<"+from+">")
		var err error
		panicked := containPanic(cr, dp, func() {
			err = del.Body(context.Background(), hdr, buffer.MemoryBuffer{Slice: rmBody(d.BodyBytes)})
		})
		if panicked {
			abortAfterPanic()
			return
		}
		if err != nil {
			st.bodyErr.Add(1)
			st.bodyExit(classifyBodyErr(err))
		} else {
			st.bodyOK.Add(1)
		}
	}
	leave()
	// A panic of Commit / Abort is not followed by a second call (the queue's
	// dispatch goroutine just ends; a second Abort would be the harness releasing
	// permits the delivery might already have released).
	if d.End == "commit" {
		st.commits.Add(1)
		containPanic(cr, dp, func() { del.Commit(context.Background()) })
	} else {
		st.aborts.Add(1)
		containPanic(cr, dp, func() { del.Abort(context.Background()) })
	}
}
