//go:build verif

package c11

import (
	"context"
	"errors"
	"fmt"
	"net"
	"strconv"
	"strings"
	"sync"
	"sync/atomic"
	"testing"
	"time"

	"github.com/emersion/go-message/textproto"
	"github.com/emersion/go-smtp"
	mockdns "github.com/foxcpp/go-mockdns"
	"github.com/foxcpp/maddy/framework/buffer"
	"github.com/foxcpp/maddy/framework/module"
	"github.com/foxcpp/maddy/internal/target/remote"
	"verifkit/prng"
	"verifkit/rep"
	"verifkit/smtpd"
)

// Layer (iii): the real remote target (production defaults, connection pool
// on) with a limits.Group built from configuration text, delivering to one
// scripted next hop (verifkit/smtpd) per destination domain. 1-16 concurrent
// deliveries with 1-3 recipients in 1-2 domains end at every stage: committed,
// aborted before the body, MAIL rejected by the next hop (5xx / 4xx),
// connection dropped at MAIL, RCPT rejected, DATA failed or dropped; Start and
// AddRcpt run under background, short-deadline or cancelled contexts (limit
// time-outs, interrupted connection set-up).
//
// Inside intervals, all harness-side and therefore subsets of the permit
// intervals: message scopes from Start returning nil to the call of
// Commit/Abort; destination scope from the first AddRcpt for a domain
// returning nil (the target has taken the domain's permit and opened the
// transaction) to the call of Commit/Abort.

type rmRcpt struct {
	Domain int `json:"domain"`
	Ctx    int `json:"ctx"`
	US     int `json:"us"`
}

type rmDomAct struct {
	Mail    string `json:"mail,omitempty"` // "", perm, temp, drop, rst
	Rcpt    string `json:"rcpt,omitempty"` // "", perm
	Dot     string `json:"dot,omitempty"`  // "", temp, drop
	DelayUS int    `json:"delay_us,omitempty"`
}

type rmDelivery struct {
	Src      int              `json:"src"` // sender domain class, -1 = null sender
	IP       int              `json:"ip"`  // -1: no connection info (127.0.0.1)
	StartCtx int              `json:"start_ctx"`
	StartUS  int              `json:"start_us"`
	Rcpts    []rmRcpt         `json:"rcpts"`
	Acts     map[int]rmDomAct `json:"acts"` // per destination domain
	End      string           `json:"end"`  // commit | abort | body-abort
	Dwell    int              `json:"dwell"`
}

type rmScenario struct {
	Cfg        limitsCfg      `json:"cfg"`
	Text       string         `json:"limits_text"`
	Domains    int            `json:"domains"`
	Workers    int            `json:"workers"`
	Plans      [][]rmDelivery `json:"plans"`
	ReuseLimit int            `json:"conn_reuse_limit"`
}

func rmDomain(k int) string { return fmt.Sprintf("d%d.example", k) }

func genRemoteScenario(p *prng.R) rmScenario {
	sc := rmScenario{Domains: p.Range(1, 3), Workers: prng.Pick(p, []int{1, 2, 3, 4, 6, 8, 12, 16})}
	sc.Cfg = genCfg(p, cfgOpts{scopes: allScopes, maxN: prng.Pick(p, []int{1, 2, 3}), allowRate: true, rateBurst: 1024, force: scDest})
	sc.Text = sc.Cfg.Text()
	if p.Chance(1, 4) {
		sc.ReuseLimit = -1 // pooling off
	}
	nsrc := p.Range(1, 2)
	per := p.Range(1, 4)
	if sc.Workers >= 12 {
		per = p.Range(1, 2)
	}
	ctxW := [][]int{{6, 2, 1, 1}, {3, 5, 1, 2}}[p.Intn(2)]
	for w := 0; w < sc.Workers; w++ {
		var plan []rmDelivery
		for k := 0; k < per; k++ {
			d := rmDelivery{Src: p.Intn(nsrc), IP: p.Intn(3) - 1, StartCtx: p.Weighted(ctxW), StartUS: p.Range(100, 4000), Acts: map[int]rmDomAct{}, Dwell: p.Intn(8)}
			if p.Chance(1, 10) {
				d.Src = -1
			}
			d.End = prng.Pick(p, []string{"commit", "commit", "abort", "body-abort"})
			nd := 1
			if sc.Domains > 1 && p.Chance(1, 3) {
				nd = 2
			}
			doms := p.Perm(sc.Domains)[:nd]
			for i, dom := range doms {
				for r, nr := 0, p.Range(1, 2); r < nr; r++ {
					rc := rmRcpt{Domain: dom, Ctx: p.Weighted(ctxW), US: p.Range(300, 20000)}
					if i > 0 && rc.Ctx == ctxBG {
						// never wait unboundedly for a second destination while holding the first
						rc.Ctx = ctxShort
					}
					d.Rcpts = append(d.Rcpts, rc)
				}
				var a rmDomAct
				switch p.Weighted([]int{5, 2, 1, 1, 1, 1, 1, 1}) {
				case 1:
					a.Mail = "perm"
				case 2:
					a.Mail = "temp"
				case 3:
					a.Mail = "drop"
				case 4:
					a.Mail = "rst"
				case 5:
					a.Rcpt = "perm"
				case 6:
					a.Dot = "temp"
				case 7:
					a.Dot = "drop"
				}
				if p.Chance(1, 3) {
					a.DelayUS = p.Range(100, 3000)
				}
				d.Acts[dom] = a
			}
			plan = append(plan, d)
		}
		sc.Plans = append(sc.Plans, plan)
	}
	return sc
}

type rmStats struct {
	started, startCtxErr, startOtherErr     atomic.Int64
	rcptOK, rcptErr, rcptCtxErr             atomic.Int64
	bodyOK, bodyErr, commits, aborts        atomic.Int64
	mailRejected, mailDropped, rcptRejected atomic.Int64
	dotFailed                               atomic.Int64
}

// deliveryOf parses the worker/delivery ids out of "w<worker>k<n>@...".
func deliveryOf(from string) (w, k int, ok bool) {
	at := strings.IndexByte(from, '@')
	if at < 0 || !strings.HasPrefix(from, "w") {
		return 0, 0, false
	}
	lp := from[1:at]
	i := strings.IndexByte(lp, 'k')
	if i < 0 {
		return 0, 0, false
	}
	w, e1 := strconv.Atoi(lp[:i])
	k, e2 := strconv.Atoi(lp[i+1:])
	return w, k, e1 == nil && e2 == nil
}

func runRemoteCases(t *testing.T, r *rep.Reporter, env instrEnv) {
	n := r.N(64, 5000)
	for i := 0; i < n; i++ {
		idx := baseRemote + i
		r.Run(idx, fmt.Sprintf("remote-%d", i), func(c *rep.Case) {
			p := prng.New(r.Seed(), uint64(idx), "c11/remote")
			sc := genRemoteScenario(p)
			g, err := buildGroup(sc.Text)
			if err != nil {
				t.Fatalf("case %d: limits.Init(%q): %v", idx, sc.Text, err)
			}
			yieldMode{Kind: "count"}.Install(0)
			var st rmStats

			// one scripted next hop per destination domain
			zones := map[string]mockdns.Zone{}
			servers := make([]*smtpd.Server, sc.Domains)
			var srvErr error
			addrOf := map[string]string{}
			for k := 0; k < sc.Domains; k++ {
				k := k
				var srv *smtpd.Server
				cfg := smtpd.Config{PIPELINING: true, EightBitMIME: true, Script: func(ev smtpd.Event) *smtpd.Action {
					w, dk, ok := deliveryOf(ev.From)
					if !ok || w >= len(sc.Plans) || dk >= len(sc.Plans[w]) {
						return nil
					}
					a := sc.Plans[w][dk].Acts[k]
					delay := time.Duration(a.DelayUS) * time.Microsecond
					switch ev.Stage {
					case smtpd.StageMail:
						switch a.Mail {
						case "perm":
							st.mailRejected.Add(1)
							return &smtpd.Action{Code: 550, Enh: "5.7.1", Text: []string{"sender refused"}, Delay: delay}
						case "temp":
							st.mailRejected.Add(1)
							return &smtpd.Action{Code: 451, Enh: "4.7.1", Text: []string{"sender deferred"}, Delay: delay}
						case "drop":
							st.mailDropped.Add(1)
							return &smtpd.Action{DropBefore: true, Delay: delay}
						case "rst":
							st.mailDropped.Add(1)
							return &smtpd.Action{DropBefore: true, RST: true}
						}
						return &smtpd.Action{Delay: delay}
					case smtpd.StageRcpt:
						if a.Rcpt == "perm" {
							st.rcptRejected.Add(1)
							return &smtpd.Action{Code: 550, Enh: "5.1.1", Text: []string{"no such user"}}
						}
					case smtpd.StageDot:
						switch a.Dot {
						case "temp":
							st.dotFailed.Add(1)
							return &smtpd.Action{Code: 451, Enh: "4.3.0", Text: []string{"try later"}}
						case "drop":
							st.dotFailed.Add(1)
							return &smtpd.Action{DropBefore: true}
						}
					}
					return nil
				}}
				err := retryPorts(func() (e error) { srv, e = smtpd.New(cfg); return })
				if err != nil {
					srvErr = err
					break
				}
				servers[k] = srv
				mxName := "mx." + rmDomain(k)
				zones[rmDomain(k)+"."] = mockdns.Zone{MX: []net.MX{{Host: mxName + ".", Pref: 10}}}
				zones[mxName+"."] = mockdns.Zone{A: []string{"127.0.0.1"}}
				addrOf[mxName] = srv.Addr()
			}
			defer func() {
				for _, s := range servers {
					if s != nil {
						s.Close()
					}
				}
			}()
			if srvErr != nil {
				if errors.Is(srvErr, errNoPort) {
					c.Inconclusive(srvErr.Error())
					c.Done("", false)
					return
				}
				t.Fatalf("smtpd: %v", srvErr)
			}
			resolver := &mockdns.Resolver{Zones: zones}
			dialer := func(ctx context.Context, network, addr string) (net.Conn, error) {
				host, _, err := net.SplitHostPort(addr)
				if err != nil {
					return nil, err
				}
				real, ok := addrOf[strings.TrimSuffix(host, ".")]
				if !ok {
					// the target dials the resolved address: all A records are 127.0.0.1, one server per MX name;
					// fall back to resolving by the name the target used for the lookup
					return nil, fmt.Errorf("c11 dialer: unknown host %q", host)
				}
				var d net.Dialer
				return d.DialContext(ctx, "tcp", real)
			}
			tgt, err := remote.VerifNewTarget(remote.VerifTargetOpts{
				Name: fmt.Sprintf("c11_remote_%d", idx), Resolver: resolver, Dialer: dialer, NoTLS: true,
				Limits: g, ConnReuseLimit: sc.ReuseLimit,
			})
			if err != nil {
				t.Fatalf("case %d: remote target: %v", idx, err)
			}
			defer tgt.Close()

			mon := newInsideMon(sc.Cfg)
			var cr crashes
			var wg sync.WaitGroup
			for w := 0; w < sc.Workers; w++ {
				wg.Add(1)
				go func(w int) {
					defer wg.Done()
					cr.Guard(func() {
						for k, d := range sc.Plans[w] {
							runRemoteDelivery(tgt, w, k, d, mon, &st)
						}
					})
				}(w)
			}
			if !waitTimeout(&wg, 180*time.Second) {
				c.Inconclusive("deliveries did not finish within the watchdog")
				c.Done("", false)
				return
			}
			cr.Report(c, "remote", sc)
			mon.Report(c, "remote", sc)
			if !cr.Any() {
				pb := &prober{c: c, r: r, g: g, cfg: sc.Cfg, layer: "remote", wit: sc, cr: &cr}
				pb.probeAll(net.IPv4(127, 0, 0, 1), "s0.example", rmDomain(0))
				for k := 1; k < sc.Domains && !cr.Any(); k++ {
					if !pb.probeDest(rmDomain(k)) {
						break
					}
				}
				cr.Report(c, "remote", sc)
			}

			r.Count("remote_deliveries_started", st.started.Load())
			r.Count("remote_start_limit_timeout", st.startCtxErr.Load())
			r.Count("remote_start_other_error", st.startOtherErr.Load())
			r.Count("remote_rcpt_accepted", st.rcptOK.Load())
			r.Count("remote_rcpt_failed", st.rcptErr.Load())
			r.Count("remote_committed", st.commits.Load())
			r.Count("remote_aborted", st.aborts.Load())
			r.Count("remote_body_ok", st.bodyOK.Load())
			r.Count("remote_body_failed", st.bodyErr.Load())
			r.Count("nexthop_mail_rejected", st.mailRejected.Load())
			r.Count("nexthop_dropped_at_mail", st.mailDropped.Load())
			r.Count("nexthop_rcpt_rejected", st.rcptRejected.Load())
			r.Count("nexthop_data_failed", st.dotFailed.Load())
			conns := 0
			for _, s := range servers {
				conns += s.TotalConns()
			}
			r.Count("nexthop_connections", int64(conns))
			sat, scs := mon.Saturated()
			r.Count("scope_keys_saturated", int64(sat))
			for s := range scs {
				r.Distinct("scopes_saturated", s)
			}
			r.Count("monitored_enters", mon.enter)
			if i < 2 {
				r.Sample(map[string]any{"layer": "remote", "limits": sc.Text, "workers": sc.Workers, "domains": sc.Domains})
			}
			failures := st.mailRejected.Load()+st.mailDropped.Load() > 0
			shape := fmt.Sprintf("remote cfg=%s w=%d doms=%d reuse=%d sat=%v mailfail=%v rcptrej=%v dotfail=%v to=%v", sc.Cfg.Shape(), sc.Workers, sc.Domains, sc.ReuseLimit,
				sat > 0, failures, st.rcptRejected.Load() > 0, st.dotFailed.Load() > 0, st.startCtxErr.Load() > 0)
			c.Done(shape, sat > 0 || failures || st.startCtxErr.Load() > 0)
		})
	}
}

func runRemoteDelivery(tgt *remote.Target, w, k int, d rmDelivery, mon *insideMon, st *rmStats) {
	from := ""
	src := ""
	if d.Src >= 0 {
		src = fmt.Sprintf("s%d.example", d.Src)
		from = fmt.Sprintf("w%dk%d@%s", w, k, src)
	}
	meta := &module.MsgMetadata{ID: fmt.Sprintf("c11w%dk%d", w, k), OriginalFrom: from}
	ip := net.IPv4(127, 0, 0, 1)
	if d.IP >= 0 {
		ip = net.IPv4(198, 51, 100, byte(1+d.IP))
		meta.Conn = &module.ConnState{RemoteAddr: &net.TCPAddr{IP: ip, Port: 1000}, Proto: "ESMTP"}
	}
	ctx, cancel := mkCtx(d.StartCtx, d.StartUS)
	del, err := tgt.Start(ctx, meta, from)
	cancel()
	if err != nil {
		if isCtxErr(err) || strings.Contains(err.Error(), "High load") {
			st.startCtxErr.Add(1)
		} else {
			st.startOtherErr.Add(1)
		}
		return
	}
	st.started.Add(1)
	msgKeys := []scopeKey{{scAll, ""}, {scIP, ip.String()}, {scSrc, src}}
	mon.Enter(msgKeys...)
	heldDom := map[int]bool{}
	for ri, rc := range d.Rcpts {
		ctx, cancel := mkCtx(rc.Ctx, rc.US)
		err := del.AddRcpt(ctx, fmt.Sprintf("r%d@%s", ri, rmDomain(rc.Domain)), smtp.RcptOptions{})
		cancel()
		if err != nil {
			if isCtxErr(err) {
				st.rcptCtxErr.Add(1)
			}
			st.rcptErr.Add(1)
			continue
		}
		st.rcptOK.Add(1)
		if !heldDom[rc.Domain] {
			heldDom[rc.Domain] = true
			mon.Enter(scopeKey{scDest, rmDomain(rc.Domain)})
		}
	}
	dwell(d.Dwell)
	if d.End != "abort" {
		hdr := textproto.Header{}
		hdr.Add("Subject", "c11")
		hdr.Add("From", "<"+from+">")
		if err := del.Body(context.Background(), hdr, buffer.MemoryBuffer{Slice: []byte("body\r\n")}); err != nil {
			st.bodyErr.Add(1)
		} else {
			st.bodyOK.Add(1)
		}
	}
	for dom := range heldDom {
		mon.Leave(scopeKey{scDest, rmDomain(dom)})
	}
	mon.Leave(msgKeys...)
	if d.End == "commit" {
		st.commits.Add(1)
		del.Commit(context.Background())
	} else {
		st.aborts.Add(1)
		del.Abort(context.Background())
	}
}
