//go:build verif

package c11

import (
	"context"
	"errors"
	"fmt"
	"net"
	"strings"
	"sync"
	"sync/atomic"
	"time"

	mockdns "github.com/foxcpp/go-mockdns"
	"github.com/foxcpp/maddy/internal/limits"
	"github.com/foxcpp/maddy/internal/target/remote"
	"github.com/foxcpp/maddy/internal/zzverif/mx"
	"golang.org/x/net/idna"
	"golang.org/x/text/unicode/norm"
	"verifkit/prng"
	"verifkit/rep"
	"verifkit/smtpd"
)

// Layer (ii-b), cases endpoint-spelling-N: ONE sender domain (even N: `source`
// scope, limits on the endpoint) or ONE recipient domain (odd N: `destination`
// scope, limits on the real remote target the endpoint delivers to) is used by
// 10-15 clients AT THE SAME TIME, each client writing the domain in another
// spelling. Which spellings are one domain is known by construction: all of
// them are produced here from one canonical name (the "domain class") by
// transformations that do not change the domain - letter case of ASCII labels
// and of the ACE prefix / the A-label, U-label vs. A-label (RFC 5890), canonical
// equivalence of the U-label (NFC vs. NFD, UAX #15), letter case of the U-label.
//
// Clients that are admitted are parked behind a barrier while they hold the
// permit (source: inside the scripted target's Start, i.e. inside
// pipeline.Start; destination: the next hop withholds the reply to RCPT, which
// the remote target sends after TakeDest and MAIL and before any release), so
// the holders of the domain class are inside at the same time and the inside
// monitor counts them per CLASS, never per spelling. The barrier opens when
// every client is either parked or has its refusal (logical condition; the
// refusal is the limiter's own 5 s time-out). Afterwards the transactions end
// in different ways and the quiescent probes run.

const (
	baseSpelling  = baseEndpoint + 500_000
	spellQuick    = 8
	spellThorough = 96
)

// spellTrailingDot adds the spellings with a trailing dot ("example.org." is
// the absolute form of "example.org"). NOT generated for now: on the unchanged
// tree address.CleanDomain keeps the dot, so the endpoint derives a bucket key
// of its own for `user@example.org.` (whereas dns.ForLookup / address.ForLookup
// strip it); whether that is "another sender domain" is contested (RFC 5321
// does not allow the dot in a mailbox, go-smtp accepts it) - reported to the
// coordinator, see NOTES.md "Follow-up 3".
const spellTrailingDot = false

// spellLabel contains U+0439 (decomposes to U+0438 U+0306): its NFD form differs from NFC.
const spellLabel = "\u043c\u0430\u0439\u043b"

func spellCanonical(class int, idn bool) string {
	if !idn {
		return epDomain(class)
	}
	return fmt.Sprintf("%s%d.example", spellLabel, class)
}

func spellForms(idn bool) []string {
	var f []string
	if idn {
		f = []string{"u", "u-upper", "u-nfd", "u-nfd-upper", "u-mixed-tld", "a", "a-XN", "a-Xn", "a-upper", "a-mixed", "a-upper-tld"}
		if spellTrailingDot {
			f = append(f, "u-dot", "a-dot", "a-XN-dot")
		}
	} else {
		f = []string{"lower", "upper", "mixed", "capital", "upper-tld"}
		if spellTrailingDot {
			f = append(f, "lower-dot", "upper-dot")
		}
	}
	return f
}

func altCase(s string) string {
	b := []byte(s)
	up := false
	for i, c := range b {
		if c >= 'a' && c <= 'z' {
			if up {
				b[i] = c - 'a' + 'A'
			}
			up = !up
		}
	}
	return string(b)
}

// spellDomain writes the domain class in the named spelling.
func spellDomain(class int, idn bool, form string) string {
	canon := spellCanonical(class, idn)
	dot := ""
	if strings.HasSuffix(form, "-dot") {
		form, dot = strings.TrimSuffix(form, "-dot"), "."
	}
	alabel := func() string {
		a, err := idna.Punycode.ToASCII(canon)
		if err != nil || !strings.HasPrefix(a, "xn--") {
			panic(fmt.Sprintf("c11: cannot encode %q: %v", canon, err))
		}
		return a
	}
	upperTLD := func(d string) string { return strings.TrimSuffix(d, "example") + "EXAMPLE" }
	var d string
	switch form {
	case "lower", "u":
		d = canon
	case "upper", "u-upper":
		d = strings.ToUpper(canon)
	case "mixed":
		d = altCase(canon)
	case "capital":
		d = strings.ToUpper(canon[:1]) + canon[1:]
	case "upper-tld", "u-mixed-tld":
		d = upperTLD(canon)
	case "u-nfd":
		d = norm.NFD.String(canon)
	case "u-nfd-upper":
		d = norm.NFD.String(strings.ToUpper(canon))
	case "a":
		d = alabel()
	case "a-XN":
		d = "XN--" + alabel()[4:]
	case "a-Xn":
		d = "Xn--" + alabel()[4:]
	case "a-upper":
		d = strings.ToUpper(alabel())
	case "a-mixed":
		d = altCase(alabel())
	case "a-upper-tld":
		d = upperTLD(alabel())
	default:
		panic("c11: unknown spelling form " + form)
	}
	return d + dot
}

// spellFormGroup is the evidence class of a form (min_observed counters).
func spellFormGroup(form string) string {
	switch {
	case form == "lower" || form == "upper" || form == "mixed" || form == "capital" || form == "upper-tld":
		return "ascii_case"
	case strings.HasSuffix(form, "-dot"):
		return "trailing_dot"
	case strings.HasPrefix(form, "u-nfd"):
		return "ulabel_nfd"
	case strings.HasPrefix(form, "u"):
		return "ulabel"
	case form == "a" || form == "a-upper-tld":
		return "alabel_lower_prefix"
	case strings.HasPrefix(form, "a-"):
		return "alabel_cased_prefix"
	}
	return "ascii_case"
}

func isASCII(s string) bool {
	for i := 0; i < len(s); i++ {
		if s[i] >= 0x80 {
			return false
		}
	}
	return true
}

func genSpellingScenario(p *prng.R, i int) epScenario {
	sc := epScenario{Proto: "smtp", Defer: p.Bool(), Spell: scSrc, Scope: scSrc}
	if i%2 == 1 {
		sc.Spell, sc.Scope = scDest, scDest
	}
	// three of four cases of a scope use an internationalised domain
	sc.IDN = (i/2)%4 != 3
	n := p.Range(1, 2)
	wide := func() int { return p.Range(20, 24) } // above the number of clients: never binding
	var cfg limitsCfg
	cfg.Dirs = []directive{{Scope: sc.Scope, Kind: "concurrency", N: n}}
	if p.Chance(1, 4) {
		cfg.Dirs = append(cfg.Dirs, directive{Scope: sc.Scope, Kind: "concurrency", N: n + p.Range(1, 3)})
	}
	others := []string{scAll, scIP}
	if sc.Spell == scDest {
		others = append(others, scSrc)
	}
	for _, o := range others {
		if p.Chance(1, 3) {
			cfg.Dirs = append(cfg.Dirs, directive{Scope: o, Kind: "concurrency", N: wide()})
		}
	}
	perm := p.Perm(len(cfg.Dirs))
	ds := make([]directive, len(perm))
	for k, j := range perm {
		ds[k] = cfg.Dirs[j]
	}
	cfg.Dirs = ds
	ends := []string{"ok", "ok", "rset", "drop", "quit", "drop-in-data"}
	if sc.Spell == scSrc {
		sc.Cfg, sc.Text = cfg, cfg.Text()
		sc.Inline = p.Chance(1, 4)
		if p.Chance(1, 5) {
			sc.Proto = "lmtp"
		}
		ends = append(ends, "rcpt-rej", "body-fail", "commit-fail")
	} else {
		sc.RemoteCfg, sc.RemoteText = cfg, cfg.Text()
		sc.NexthopUTF8 = p.Bool()
	}
	forms := spellForms(sc.IDN)
	order := p.Perm(len(forms))
	var use []string
	for _, k := range order {
		use = append(use, forms[k])
	}
	for k, extra := 0, p.Range(1, 4); k < extra; k++ {
		use = append(use, prng.Pick(p, forms))
	}
	for _, f := range use {
		sc.Clients = append(sc.Clients, epClient{IP: p.Intn(3), Txs: []epTx{{Domain: 0, Form: f, End: prng.Pick(p, ends), Stage: "none"}}})
	}
	return sc
}

// addrs returns the MAIL FROM and RCPT TO addresses of a transaction and the
// MAIL parameter they need.
func (h *epHarness) addrs(ci, ti int, tx epTx) (from, rcpt, param string) {
	from, rcpt = epSender(ci, ti, tx), "r@rcpt.example"
	switch h.sc.Spell {
	case scSrc:
		from = fmt.Sprintf("c%dt%d@%s", ci, ti, spellDomain(tx.Domain, h.sc.IDN, tx.Form))
	case scDest:
		from = fmt.Sprintf("c%dt%d@sender.example", ci, ti)
		rcpt = fmt.Sprintf("r%d@%s", ci, spellDomain(tx.Domain, h.sc.IDN, tx.Form))
	}
	if !isASCII(from) || !isASCII(rcpt) {
		param = " SMTPUTF8"
	}
	return
}

// runSpelling starts every client at once, waits until each of them is parked
// behind the barrier or has been refused, judges, and opens the barrier.
// Returns false when the case cannot be judged.
func (h *epHarness) runSpelling(c *rep.Case, r *rep.Reporter, st *epStats, wg *sync.WaitGroup) bool {
	sc := h.sc
	total := len(sc.Clients)
	var decided, refused atomic.Int64
	for ci := range sc.Clients {
		wg.Add(1)
		go func(ci int) {
			defer wg.Done()
			var once sync.Once
			h.runClient(ci, st, func(ti int, stage string, code int) {
				// an admitted client gets no reply before the barrier opens; the first
				// negative reply (or the reply to RCPT) is the decision about this client
				if stage == "rcpt" || code != 250 {
					once.Do(func() {
						if code != 250 && code != 0 {
							refused.Add(1)
						}
						decided.Add(1)
					})
				}
			})
			once.Do(func() { decided.Add(1) })
		}(ci)
	}
	deadline := time.Now().Add(90 * time.Second)
	for int(h.holding.Load())+int(decided.Load()) < total && time.Now().Before(deadline) {
		time.Sleep(time.Millisecond)
	}
	parked, ref := int(h.holding.Load()), int(refused.Load())
	settled := parked+int(decided.Load()) >= total
	h.opened.Store(true)
	close(h.hold)

	n := sc.Cfg.N(sc.Spell)
	if sc.Spell == scDest {
		n = sc.RemoteCfg.N(scDest)
	}
	r.Count("spelling_cases_"+sc.Spell, 1)
	r.Count("spelling_clients_parked_at_barrier", int64(parked))
	r.Count("spelling_clients_refused_at_barrier", int64(ref))
	for _, cl := range sc.Clients {
		r.Count("spelling_"+sc.Spell+"_clients_"+spellFormGroup(cl.Txs[0].Form), 1)
		r.Distinct("spelling_forms_"+sc.Spell, cl.Txs[0].Form)
	}
	switch {
	case !settled:
		c.Inconclusive("spelling scenario: clients were neither parked nor refused within the watchdog")
		return false
	case st.lost.Load() > 0:
		// a client that gave up (30 s read time-out) has released its permit while the harness still counts it
		c.Inconclusive("spelling scenario: a client connection was lost before the barrier opened")
		return false
	case parked < n && !h.panicked():
		c.Inconclusive(fmt.Sprintf("spelling scenario: only %d of %d clients reached the barrier on a fresh endpoint (%d refused)", parked, n, ref))
		return false
	}
	return true
}

// ---- destination scenario: the real remote target behind the endpoint --------

type spRemote struct {
	group *limits.Group
	tgt   *remote.Target
	srv   *smtpd.Server
	mon   *insideMon
}

func (rm *spRemote) close() {
	if rm.tgt != nil {
		rm.tgt.Close()
	}
	if rm.srv != nil {
		rm.srv.Close()
	}
}

// attachRemote builds the remote target (own limits.Group from RemoteText, pool
// on, no TLS) and its single scripted next hop, registers the target under a
// case-unique instance name and returns that name.
func (h *epHarness) attachRemote(id int64) (string, error) {
	sc := h.sc
	g, err := buildGroup(sc.RemoteText)
	if err != nil {
		return "", err
	}
	rm := &spRemote{group: g, mon: newInsideMon(sc.RemoteCfg)}
	h.rm = rm
	class := spellCanonical(0, sc.IDN)
	cfg := smtpd.Config{PIPELINING: true, EightBitMIME: true, SMTPUTF8: sc.NexthopUTF8}
	cfg.Script = func(ev smtpd.Event) *smtpd.Action {
		if ev.Stage != smtpd.StageRcpt || h.opened.Load() {
			return nil
		}
		// The remote target sends RCPT after TakeDest and MAIL succeeded and releases
		// the destination permit only after this reply: the delivery is a holder of
		// the class for as long as the reply is withheld.
		h.entered.Add(1)
		rm.mon.Enter(scopeKey{scDest, class})
		h.holding.Add(1)
		return &smtpd.Action{Hold: h.hold}
	}
	if err := retryPorts(func() (e error) { rm.srv, e = smtpd.New(cfg); return }); err != nil {
		return "", err
	}
	// The MX of the domain, published under every spelling a normaliser (correct or
	// not) may hand to the resolver (mockdns lower-cases the queried name).
	const mxName = "mx.spelling.example"
	zones := map[string]mockdns.Zone{mxName + ".": {A: []string{"127.0.0.1"}}}
	forms := spellForms(sc.IDN)
	for _, f := range forms {
		d := strings.TrimSuffix(spellDomain(0, sc.IDN, f), ".")
		zones[strings.ToLower(d)+"."] = mockdns.Zone{MX: []net.MX{{Host: mxName + ".", Pref: 10}}}
	}
	addr := rm.srv.Addr()
	dialer := func(ctx context.Context, network, a string) (net.Conn, error) {
		host, _, err := net.SplitHostPort(a)
		if err != nil {
			return nil, err
		}
		if strings.TrimSuffix(host, ".") != mxName {
			return nil, &net.OpError{Op: "dial", Net: network, Err: errors.New("c11 dialer: unknown host " + host)}
		}
		var d net.Dialer
		return d.DialContext(ctx, "tcp", addr)
	}
	tgt, err := remote.VerifNewTarget(remote.VerifTargetOpts{
		Name: fmt.Sprintf("c11_sp_remote_%d", id), Resolver: &mockdns.Resolver{Zones: zones}, Dialer: dialer,
		Limits: g, NoTLS: true,
	})
	if err != nil {
		return "", err
	}
	rm.tgt = tgt
	mx.RegisterInstance(tgt)
	return tgt.InstanceName(), nil
}
