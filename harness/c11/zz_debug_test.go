//go:build verif

package c11

import (
	"context"
	"encoding/json"
	"fmt"
	"os"
	"sync"
	"testing"
	"time"

	"github.com/foxcpp/maddy/framework/log"
)

func leakCheck(h *epHarness) string {
	res := ""
	try := func(name string, ipi int, dom string) {
		ctx, cancel := context.WithTimeout(context.Background(), 50*time.Millisecond)
		defer cancel()
		if err := h.group.TakeMsg(ctx, epIP(ipi), dom); err != nil {
			res += " " + name
		} else {
			h.group.ReleaseMsg(epIP(ipi), dom)
		}
	}
	try("ALL-LEAK", 9, "fresh.example")
	return res
}

func TestDebugEndings(t *testing.T) {
	log.DefaultLogger.Out = log.NopOutput{}
	b, _ := os.ReadFile("/verif/replays/C11/e1a06a17de9f.json")
	var rp struct {
		Witness struct {
			Scenario epScenario `json:"scenario"`
		} `json:"witness"`
	}
	if err := json.Unmarshal(b, &rp); err != nil {
		t.Fatal(err)
	}
	full := rp.Witness.Scenario
	run := func(clients []epClient) string {
		sc := full
		sc.Clients = clients
		h, err := newEpHarness(sc)
		if err != nil {
			t.Fatal(err)
		}
		defer h.close()
		var st epStats
		var wg sync.WaitGroup
		for ci := range clients {
			wg.Add(1)
			go func(ci int) { defer wg.Done(); h.runClient(ci, &st, func(int, string, int) {}) }(ci)
		}
		wg.Wait()
		h.waitSessionsClosed(10 * time.Second)
		return fmt.Sprintf("%s panics=%d highload=%d", leakCheck(h), len(h.panics), st.highLoad.Load())
	}
	for i, cl := range full.Clients {
		fmt.Printf("single client %d %+v: %s\n", i, cl, run([]epClient{cl}))
		for ti := range cl.Txs {
			fmt.Printf("   single tx %d: %s\n", ti, run([]epClient{{IP: cl.IP, Txs: cl.Txs[ti : ti+1]}}))
		}
	}
}
