//go:build verif

// Package c12 monitors property C12: the queue scheduler (TimeWheel) dispatches
// every entry exactly once and not before its time; shutting the queue down
// concurrently with enqueues / in-flight attempts terminates, never crashes and
// never quarantines (.meta_broken) or removes a spooled message that has no
// terminal outcome.
//
// Case index ranges (a case is identified by seed, tier, index):
//
//	        0 ...  S1 TimeWheel alone, d=0 (random yields / yield bookkeeping off)
//	1_000_000 ...  S1 d=1: every timewheel.go site x occurrence 1..4 x repetitions
//	2_000_000 ...  S1 d=2: every pair of timewheel.go sites x occurrences x repetitions
//	3_000_000 ...  S2 real Queue, d=0
//	4_000_000 ...  S2 d=1: every timewheel.go+queue.go site x occurrence 1..4 x repetitions
//	5_000_000 ...  S2 d=2: PRNG-sampled site pairs
//	6_000_000 ...  S3 retry schedule with growing delays, in the running queue and across restarts (s3_test.go)
package c12

import (
	"encoding/json"
	"fmt"
	"os"
	"path/filepath"
	"regexp"
	"runtime"
	"sort"
	"strings"
	"sync"
	"sync/atomic"
	"testing"
	"time"

	"github.com/foxcpp/maddy/framework/log"
	"github.com/foxcpp/maddy/internal/target/queue"
	"verifkit"
	"verifkit/prng"
	"verifkit/rep"
)

const (
	baseS1d0 = 0
	baseS1d1 = 1_000_000
	baseS1d2 = 2_000_000
	baseS2d0 = 3_000_000
	baseS2d1 = 4_000_000
	baseS2d2 = 5_000_000
)

// watchdog is the generous bound after which an operation that has not
// returned is examined with a goroutine dump. Its expiry alone never is a
// verdict (see stuckAnalysis).
const watchdog = 20 * time.Second

type instrEnv struct {
	twSites []string // yield sites in timewheel.go
	qSites  []string // yield sites in queue.go
	all     []string
}

func detectInstrumentation() instrEnv {
	var env instrEnv
	bdir := os.Getenv("VERIF_BUILD")
	if bdir == "" {
		return env
	}
	var sites []struct {
		Site string `json:"site"`
		File string `json:"file"`
		Line int    `json:"line"`
	}
	if b, err := os.ReadFile(filepath.Join(bdir, "sites.json")); err == nil {
		json.Unmarshal(b, &sites)
	}
	sort.SliceStable(sites, func(i, j int) bool {
		if sites[i].File != sites[j].File {
			return sites[i].File < sites[j].File
		}
		return sites[i].Line < sites[j].Line
	})
	for _, s := range sites {
		switch {
		case strings.HasSuffix(s.File, "internal/target/queue/timewheel.go"):
			env.twSites = append(env.twSites, s.Site)
		case strings.HasSuffix(s.File, "internal/target/queue/queue.go"):
			env.qSites = append(env.qSites, s.Site)
		}
	}
	env.all = append(append([]string{}, env.twSites...), env.qSites...)
	return env
}

// planSpec says how the schedule of one case is perturbed.
type planSpec struct {
	D        int                  `json:"d"`
	Points   []verifkit.PlanPoint `json:"points,omitempty"`
	RandOne  int                  `json:"rand_one_in,omitempty"` // d=0: SetRandomYield parameter
	YieldOff bool                 `json:"yield_off,omitempty"`   // d=0: Yield is a no-op (no extra happens-before edges for -race)
}

func (p planSpec) String() string {
	var s []string
	for _, pt := range p.Points {
		s = append(s, fmt.Sprintf("%s#%d", pt.Site, pt.Occ))
	}
	return fmt.Sprintf("d%d[%s]r%d/off=%v", p.D, strings.Join(s, ","), p.RandOne, p.YieldOff)
}

func (p planSpec) install(seed uint64) {
	verifkit.ResetYield()
	switch {
	case p.YieldOff:
		verifkit.SetYieldEnabled(false)
	case p.D == 0:
		verifkit.SetPlan(nil)
		verifkit.SetRandomYield(seed, p.RandOne)
	default:
		verifkit.SetPlan(&verifkit.Plan{Points: p.Points})
	}
}

func stressPlan(p *prng.R) planSpec {
	switch p.Intn(8) {
	case 0:
		return planSpec{D: 0, YieldOff: true}
	case 1, 2:
		return planSpec{D: 0, RandOne: -prng.Pick(p, []int{2, 4, 16})}
	default:
		return planSpec{D: 0, RandOne: prng.Pick(p, []int{1, 2, 3, 8})}
	}
}

// pairPlans enumerates all unordered pairs of (site, occurrence) points over
// sites x occurrences 1..maxOcc (two different points; the same site twice only
// with different occurrences).
func pairPlans(sites []string, maxOcc int) [][2]verifkit.PlanPoint {
	var pts []verifkit.PlanPoint
	for _, s := range sites {
		for o := 1; o <= maxOcc; o++ {
			pts = append(pts, verifkit.PlanPoint{Site: s, Occ: o})
		}
	}
	var out [][2]verifkit.PlanPoint
	for i := 0; i < len(pts); i++ {
		for j := i + 1; j < len(pts); j++ {
			out = append(out, [2]verifkit.PlanPoint{pts[i], pts[j]})
		}
	}
	return out
}

// yieldStats accumulates what the yield runtime observed during one case.
type yieldStats struct {
	r     *rep.Reporter
	total int
}

func (y yieldStats) collect(prefix string, plan planSpec) (planHits int) {
	if plan.YieldOff {
		y.r.Count(prefix+"_runs_yield_bookkeeping_off", 1)
		return 0
	}
	planHits = verifkit.PlanHits()
	y.r.Count("planned_delay_hits", int64(planHits))
	y.r.Count("planned_delay_points", int64(len(plan.Points)))
	y.r.Count("yield_events", int64(verifkit.YieldCount()))
	for s := range verifkit.SiteHits() {
		y.r.Distinct("yield_sites_reached", s)
	}
	y.r.Distinct("interleaving", fmt.Sprint(verifkit.TraceHash()))
	y.r.Distinct(prefix+"_interleaving", fmt.Sprint(verifkit.TraceHash()))
	return planHits
}

var (
	reHex = regexp.MustCompile(`0x[0-9a-fA-F]+`)
	reNum = regexp.MustCompile(`[0-9]+`)
	reBad = regexp.MustCompile(`[^a-z0-9]+`)
)

// panicClass turns a panic value into a cause class usable in a signature.
func panicClass(v any) string {
	s := strings.ToLower(fmt.Sprint(v))
	s = reHex.ReplaceAllString(s, "x")
	s = reNum.ReplaceAllString(s, "n")
	s = strings.Trim(reBad.ReplaceAllString(s, "-"), "-")
	if len(s) > 60 {
		s = s[:60]
	}
	if s == "" {
		s = "empty"
	}
	return s
}

// ---- goroutine-dump based stuck analysis --------------------------------

type gInfo struct {
	State string
	Text  string
}

var reGHdr = regexp.MustCompile(`^goroutine \d+ \[([^\],]+)`)

func goroutines() []gInfo {
	buf := make([]byte, 4<<20)
	n := runtime.Stack(buf, true)
	var out []gInfo
	for _, blk := range strings.Split(string(buf[:n]), "\n\n") {
		m := reGHdr.FindStringSubmatch(blk)
		if m == nil {
			continue
		}
		out = append(out, gInfo{State: m[1], Text: blk})
	}
	return out
}

var parkedStates = map[string]bool{
	"chan send": true, "chan receive": true, "select": true, "semacquire": true,
	"sync.Mutex.Lock": true, "sync.RWMutex.Lock": true, "sync.RWMutex.RLock": true,
	"sync.WaitGroup.Wait": true, "sync.Cond.Wait": true,
	"chan send (nil chan)": true, "chan receive (nil chan)": true, "select (no cases)": true,
}

// stuckAnalysis looks at all goroutines that have a frame containing pkgFrame.
// parked is true when at least one such goroutine exists with a frame
// containing wantFrame and every goroutine with a pkgFrame frame is parked on a
// synchronisation object (none is runnable, running, sleeping or in a
// syscall), in three dumps taken 100 ms apart between which the harness' event
// counter (progress) did not move: nothing in that package can make progress
// any more, which is the logical stuck condition that turns a watchdog expiry
// into a verdict. Under machine load a slow-but-live goroutine shows up as
// runnable/running/sleep and the result is false (inconclusive).
func stuckAnalysis(pkgFrame, wantFrame string, progress func() int) (parked bool, dump string) {
	p0 := progress()
	for round := 0; round < 3; round++ {
		if round > 0 {
			time.Sleep(100 * time.Millisecond)
		}
		gs := goroutines()
		seenWant := false
		all := true
		var b strings.Builder
		for _, g := range gs {
			if !strings.Contains(g.Text, pkgFrame) {
				continue
			}
			if strings.Contains(g.Text, wantFrame) {
				seenWant = true
			}
			if !parkedStates[g.State] {
				all = false
			}
			if b.Len() < 12000 {
				b.WriteString(g.Text)
				b.WriteString("\n\n")
			}
		}
		dump = b.String()
		if !(seenWant && all) || progress() != p0 {
			return false, dump
		}
	}
	// A confirmed hang leaks its goroutines; later cases of this process use a
	// short watchdog so that a tree that hangs everywhere still finishes, and a
	// still shorter one once the hang was confirmed several times (a tree on
	// which a whole class of scenarios hangs: ~1 000 of the quick cases). The
	// verdict condition is unchanged, a shorter watchdog can only turn a slow
	// case of an already violating tree into an inconclusive one.
	if confirmedHangs.Add(1) >= 3 {
		watchdogNow.Store(int64(300 * time.Millisecond))
	} else {
		watchdogNow.Store(int64(2 * time.Second))
	}
	return true, dump
}

var (
	watchdogNow    atomic.Int64
	confirmedHangs atomic.Int64
)

func currentWatchdog() time.Duration {
	if d := watchdogNow.Load(); d != 0 {
		return time.Duration(d)
	}
	return watchdog
}

// waitDone waits for ch with the watchdog; true = closed in time.
func waitDone(ch <-chan struct{}) bool {
	select {
	case <-ch:
		return true
	default:
	}
	t := time.NewTimer(currentWatchdog())
	defer t.Stop()
	select {
	case <-ch:
		return true
	case <-t.C:
		return false
	}
}

// ---- capture of maddy's global logger (recovered panics are reported there) --

type logCapture struct {
	mu     sync.Mutex
	panics []string
}

func (lc *logCapture) write(_ time.Time, _ bool, msg string) {
	if !strings.Contains(msg, "panic during queue dispatch") {
		return
	}
	lc.mu.Lock()
	if len(lc.panics) < 64 {
		lc.panics = append(lc.panics, msg)
	}
	lc.mu.Unlock()
}

func (lc *logCapture) take() []string {
	lc.mu.Lock()
	defer lc.mu.Unlock()
	p := lc.panics
	lc.panics = nil
	return p
}

var globalLog = &logCapture{}

var rePanicMsg = regexp.MustCompile(`panic during queue dispatch [^:]*: ([^\n]*)`)

func dispatchPanicClass(msgs []string) string {
	if len(msgs) == 0 {
		return "no-panic-logged"
	}
	if m := rePanicMsg.FindStringSubmatch(msgs[0]); m != nil {
		return panicClass(m[1])
	}
	return "unparsed"
}

// onReplayRepeat runs body once; under ./check replay it repeats the same case
// (same scenario, same plan) until a violation shows up or n executions are
// done: the Go scheduler is perturbed, not controlled, so one execution of a
// recorded case need not take the recorded interleaving again.
func onReplayRepeat(r *rep.Reporter, c *rep.Case, n int, body func()) {
	body()
	if !r.Replaying() {
		return
	}
	for i := 1; i < n && !c.Violated(); i++ {
		body()
	}
}

func TestVerif(t *testing.T) {
	r := rep.Open("C12")
	defer r.Close()
	env := detectInstrumentation()
	if len(env.twSites) == 0 || len(env.qSites) == 0 {
		t.Fatalf("yield instrumentation missing (timewheel.go sites=%d, queue.go sites=%d): cannot explore schedules", len(env.twSites), len(env.qSites))
	}
	r.Set("yield_sites_total", len(env.all))
	r.Set("yield_sites_timewheel", len(env.twSites))
	r.Set("yield_sites_queue", len(env.qSites))
	r.Set("yield_site_list", env.all)

	// production behaviour: the dispatch goroutine recovers panics and
	// quarantines the message (the pinned tests switch this off in init()).
	queue.VerifSetDontRecover(false)
	log.DefaultLogger.Out = log.FuncOutput(globalLog.write, func() error { return nil })

	ys := yieldStats{r: r, total: len(env.all)}

	// C12_ONLY=s3 is a development aid (run one scenario group only; such a run
	// ends inconclusive because the other groups' counters stay at zero).
	only := os.Getenv("C12_ONLY")
	if only == "" || only == "s1" {
		runS1(t, r, env, ys)
	}
	if only == "" || only == "s2" {
		runS2(t, r, env, ys)
	}
	if only == "" || only == "s3" {
		runS3(t, r, ys)
	}

	verifkit.ResetYield()
}
