//go:build verif

package c12

import (
	"fmt"
	"sync"
	"testing"
	"time"

	"github.com/foxcpp/maddy/internal/target/queue"
	"verifkit"
	"verifkit/prng"
	"verifkit/rep"
)

// ---- S1: the TimeWheel alone ------------------------------------------------

type s1Entry struct {
	ID    int `json:"id"`
	OffUs int `json:"off_us"` // scheduled time = time.Now()+OffUs at the Add call; -1 = zero time.Time (as Queue.Commit does)
}

type s1Scenario struct {
	Producers [][]s1Entry `json:"producers"`
	CloseKind string      `json:"close_kind"` // none | start | addcall | addret | dispatch
	CloseK    int         `json:"close_k"`
	Total     int         `json:"total"`
}

func genS1(p *prng.R) s1Scenario {
	var sc s1Scenario
	np := p.Range(1, 4)
	id := 0
	for i := 0; i < np; i++ {
		ne := p.Range(1, 3)
		var es []s1Entry
		for k := 0; k < ne; k++ {
			id++
			off := -1
			if !p.Chance(1, 4) {
				off = prng.Pick(p, []int{0, 50, 300, 1000, 2000, 3000})
			}
			es = append(es, s1Entry{ID: id, OffUs: off})
		}
		sc.Producers = append(sc.Producers, es)
	}
	sc.Total = id
	switch p.Intn(8) {
	case 0:
		sc.CloseKind = "none"
	case 1:
		sc.CloseKind = "start"
	case 2, 3, 4:
		sc.CloseKind, sc.CloseK = "addcall", p.Range(1, sc.Total)
	case 5, 6:
		sc.CloseKind, sc.CloseK = "addret", p.Range(1, sc.Total)
	default:
		// the k-th dispatch is only certain to happen for k=1 (later Adds may
		// already race with nothing); keep k small and always reachable: without a
		// Close every entry is dispatched, so any k <= Total is reached.
		sc.CloseKind, sc.CloseK = "dispatch", p.Range(1, sc.Total)
	}
	return sc
}

func (sc s1Scenario) shape() string {
	s := fmt.Sprintf("S1 p=%d", len(sc.Producers))
	for _, es := range sc.Producers {
		s += fmt.Sprintf("/%d", len(es))
	}
	return s + fmt.Sprintf(" close=%s@%d", sc.CloseKind, sc.CloseK)
}

type s1Ev struct {
	Seq  int    `json:"seq"`
	Kind string `json:"kind"` // addcall addret addpanic dispatch closecall closeret closepanic
	ID   int    `json:"id,omitempty"`
	Info string `json:"info,omitempty"`
}

type s1Log struct {
	mu         sync.Mutex
	ev         []s1Ev
	counts     map[string]int
	trigKind   string
	trigK      int
	trig       chan struct{}
	trigFired  bool
	closeRet   bool
	dispatched map[int]int
	total      int
	allDisp    chan struct{}
	allFired   bool
	early      []string
	afterClose []int
}

func newS1Log(sc s1Scenario) *s1Log {
	return &s1Log{counts: map[string]int{}, trigKind: sc.CloseKind, trigK: sc.CloseK, trig: make(chan struct{}),
		dispatched: map[int]int{}, total: sc.Total, allDisp: make(chan struct{})}
}

func (l *s1Log) add(kind string, id int, info string) {
	l.mu.Lock()
	defer l.mu.Unlock()
	l.ev = append(l.ev, s1Ev{Seq: len(l.ev) + 1, Kind: kind, ID: id, Info: info})
	ck := kind
	if ck == "addpanic" {
		ck = "addret" // a panicking Add counts as finished for the closer's trigger
	}
	l.counts[ck]++
	if ck == l.trigKind && l.counts[ck] == l.trigK && !l.trigFired {
		l.trigFired = true
		close(l.trig)
	}
	switch kind {
	case "closeret":
		l.closeRet = true
	case "dispatch":
		l.dispatched[id]++
		if l.closeRet {
			l.afterClose = append(l.afterClose, id)
		}
		if len(l.dispatched) == l.total && !l.allFired {
			l.allFired = true
			close(l.allDisp)
		}
	}
}

// forceTrigger releases a closer that is still waiting for its trigger event
// (only used after a watchdog expiry, to let the case clean up).
func (l *s1Log) forceTrigger() {
	l.mu.Lock()
	defer l.mu.Unlock()
	if !l.trigFired {
		l.trigFired = true
		close(l.trig)
	}
}

func (l *s1Log) len() int {
	l.mu.Lock()
	defer l.mu.Unlock()
	return len(l.ev)
}

func (l *s1Log) snapshot() []s1Ev {
	l.mu.Lock()
	defer l.mu.Unlock()
	return append([]s1Ev(nil), l.ev...)
}

func runS1(t *testing.T, r *rep.Reporter, env instrEnv, ys yieldStats) {
	// d=0
	n0 := r.N(8000, 120_000)
	for i := 0; i < n0; i++ {
		idx := baseS1d0 + i
		r.Run(idx, fmt.Sprintf("s1-d0-%d", i), func(c *rep.Case) {
			onReplayRepeat(r, c, 300, func() {
				p := prng.New(r.Seed(), uint64(idx), "c12/s1")
				s1Case(c, r, ys, p, genS1(p), stressPlan(p))
			})
		})
	}
	// d=1: exhaustive over timewheel.go sites x occurrence 1..4 x repetitions
	reps1 := r.N(6, 60)
	k := 0
	for _, site := range env.twSites {
		for occ := 1; occ <= 4; occ++ {
			for rp := 0; rp < reps1; rp++ {
				idx := baseS1d1 + k
				k++
				site, occ := site, occ
				r.Run(idx, fmt.Sprintf("s1-d1-%s#%d-r%d", site, occ, rp), func(c *rep.Case) {
					onReplayRepeat(r, c, 300, func() {
						p := prng.New(r.Seed(), uint64(idx), "c12/s1")
						s1Case(c, r, ys, p, genS1(p), planSpec{D: 1, Points: []verifkit.PlanPoint{{Site: site, Occ: occ}}})
					})
				})
			}
		}
	}
	r.Set("s1_d1_exhaustive", true)
	r.Set("s1_d1_plans", len(env.twSites)*4)
	// d=2: exhaustive over pairs of (site, occurrence) points of timewheel.go
	pairs := pairPlans(env.twSites, r.N(2, 4))
	reps2 := r.N(1, 20)
	k = 0
	for _, pr := range pairs {
		for rp := 0; rp < reps2; rp++ {
			idx := baseS1d2 + k
			k++
			pr := pr
			r.Run(idx, fmt.Sprintf("s1-d2-%s#%d+%s#%d-r%d", pr[0].Site, pr[0].Occ, pr[1].Site, pr[1].Occ, rp), func(c *rep.Case) {
				onReplayRepeat(r, c, 300, func() {
					p := prng.New(r.Seed(), uint64(idx), "c12/s1")
					s1Case(c, r, ys, p, genS1(p), planSpec{D: 2, Points: []verifkit.PlanPoint{pr[0], pr[1]}})
				})
			})
		}
	}
	r.Set("s1_d2_exhaustive_pairs", true)
	r.Set("s1_d2_plans", len(pairs))
}

func s1Case(c *rep.Case, r *rep.Reporter, ys yieldStats, p *prng.R, sc s1Scenario, plan planSpec) {
	lg := newS1Log(sc)
	plan.install(p.Uint64())

	tw := queue.NewTimeWheel(func(slot queue.TimeSlot) {
		now := time.Now()
		id, _ := slot.Value.(int)
		// monotonic comparison: both readings carry a monotonic clock value (a
		// zero slot.Time is before everything).
		if now.Before(slot.Time) {
			lg.mu.Lock()
			lg.early = append(lg.early, fmt.Sprintf("entry %d dispatched %v before its time", id, slot.Time.Sub(now)))
			lg.mu.Unlock()
		}
		lg.add("dispatch", id, "")
	})

	start := make(chan struct{})
	var wg sync.WaitGroup
	for _, es := range sc.Producers {
		es := es
		wg.Add(1)
		go func() {
			defer wg.Done()
			<-start
			for _, e := range es {
				var sched time.Time
				if e.OffUs >= 0 {
					sched = time.Now().Add(time.Duration(e.OffUs) * time.Microsecond)
				}
				lg.add("addcall", e.ID, "")
				func() {
					defer func() {
						if v := recover(); v != nil {
							lg.add("addpanic", e.ID, fmt.Sprint(v))
						}
					}()
					tw.Add(sched, e.ID)
					lg.add("addret", e.ID, "")
				}()
			}
		}()
	}
	closeDone := make(chan struct{})
	doClose := func() {
		defer close(closeDone)
		lg.add("closecall", 0, "")
		defer func() {
			if v := recover(); v != nil {
				lg.add("closepanic", 0, fmt.Sprint(v))
			}
		}()
		tw.Close()
		lg.add("closeret", 0, "")
	}
	if sc.CloseKind != "none" {
		go func() {
			<-start
			if sc.CloseKind != "start" {
				<-lg.trig
			}
			doClose()
		}()
	}
	close(start)
	prodDone := make(chan struct{})
	go func() { wg.Wait(); close(prodDone) }()

	undecided := ""
	closeStarted := sc.CloseKind != "none"
	if !waitDone(prodDone) {
		// An Add has not returned. Logical stuck condition: everything inside the
		// wheel is parked (e.g. Close has returned, the wheel's goroutine is gone
		// and nobody will ever receive).
		parked, dump := stuckAnalysis("internal/target/queue.(*TimeWheel)", "queue.(*TimeWheel).Add", lg.len)
		if parked {
			c.Violation("S1/add-never-returns", "TimeWheel.Add blocks forever: every goroutine inside the time wheel is parked and none can wake the producer",
				map[string]any{"scenario": sc, "plan": plan, "events": lg.snapshot(), "goroutines": dump})
		} else {
			undecided = "Add did not return within the watchdog, but the goroutines are not all parked"
		}
		lg.forceTrigger()
	} else {
		// Every Add returned. As long as nobody called Close every entry must be
		// dispatched: in "none" mode all of them, otherwise at least up to the
		// event that triggers the closer.
		waitFor := lg.allDisp
		if sc.CloseKind != "none" && sc.CloseKind != "start" {
			waitFor = lg.trig
		}
		if sc.CloseKind != "start" && !waitDone(waitFor) {
			parked, dump := stuckAnalysis("internal/target/queue.(*TimeWheel)", "queue.(*TimeWheel).tick", lg.len)
			if parked {
				c.Violation("S1/entry-never-dispatched", "every Add returned, Close was not called, the wheel's goroutine is parked and an entry whose time has passed long ago was not dispatched",
					map[string]any{"scenario": sc, "plan": plan, "events": lg.snapshot(), "goroutines": dump})
			} else {
				undecided = "not every entry dispatched within the watchdog, wheel goroutine not parked"
			}
			lg.forceTrigger()
		}
		if !closeStarted {
			closeStarted = true
			go doClose()
		}
	}
	if closeStarted && !waitDone(closeDone) {
		parked, dump := stuckAnalysis("internal/target/queue.(*TimeWheel)", "queue.(*TimeWheel).Close", lg.len)
		if parked {
			c.Violation("S1/close-never-returns", "TimeWheel.Close blocks forever: every goroutine inside the time wheel is parked",
				map[string]any{"scenario": sc, "plan": plan, "events": lg.snapshot(), "goroutines": dump})
		} else if undecided == "" {
			undecided = "Close did not return within the watchdog, but the goroutines are not all parked"
		}
	}

	// ---- oracle over the event log ----
	lg.mu.Lock()
	evs := append([]s1Ev(nil), lg.ev...)
	early := append([]string(nil), lg.early...)
	after := append([]int(nil), lg.afterClose...)
	disp := map[int]int{}
	for k, v := range lg.dispatched {
		disp[k] = v
	}
	lg.mu.Unlock()
	wit := func() map[string]any {
		return map[string]any{"scenario": sc, "plan": plan, "events": evs, "yield_trace_tail": tail(verifkit.Trace(), 60)}
	}
	for _, e := range evs {
		switch e.Kind {
		case "addpanic":
			c.Violation("S1/panic-in-add/"+panicClass(e.Info), "TimeWheel.Add panicked in a producer: "+e.Info, wit())
		case "closepanic":
			c.Violation("S1/panic-in-close/"+panicClass(e.Info), "TimeWheel.Close panicked: "+e.Info, wit())
		}
	}
	for id, n := range disp {
		if n > 1 {
			c.Violation("S1/dispatched-twice", fmt.Sprintf("entry %d was dispatched %d times", id, n), wit())
			break
		}
	}
	if len(early) > 0 {
		c.Violation("S1/dispatched-early", early[0], wit())
	}
	if len(after) > 0 {
		c.Violation("S1/dispatch-after-close-returned", fmt.Sprintf("entry %d was dispatched after Close had returned", after[0]), wit())
	}
	if sc.CloseKind == "none" && undecided == "" && !c.Violated() {
		for _, es := range sc.Producers {
			for _, e := range es {
				if disp[e.ID] != 1 {
					c.Violation("S1/not-dispatched-once", fmt.Sprintf("entry %d dispatched %d times in a run without shutdown", e.ID, disp[e.ID]), wit())
				}
			}
		}
	}
	if undecided != "" {
		c.Inconclusive(undecided)
	}

	r.Count("s1_runs", 1)
	r.Count("s1_adds", int64(lgCount(evs, "addcall")))
	r.Count("s1_adds_returned", int64(lgCount(evs, "addret")))
	r.Count("s1_dispatches", int64(lgCount(evs, "dispatch")))
	r.Count("s1_closes_returned", int64(lgCount(evs, "closeret")))
	if sc.CloseKind == "none" {
		r.Count("s1_runs_without_shutdown", 1)
	} else {
		r.Count("s1_runs_with_concurrent_close", 1)
		// how often the Close call really overlapped an Add
		if overlaps(evs) {
			r.Count("s1_close_overlapping_add", 1)
		}
	}
	hits := ys.collect("s1", plan)
	if c.Index%997 == 0 {
		r.Sample(map[string]any{"scenario": sc, "plan": plan.String(), "events": len(evs)})
	}
	goroutinesActive := len(sc.Producers) + 1 // producers + wheel goroutine (+ closer)
	nontrivial := goroutinesActive >= 2 && (plan.D == 0 || hits >= 1)
	c.Done(sc.shape()+" "+plan.String(), nontrivial)
}

func lgCount(evs []s1Ev, kind string) int {
	n := 0
	for _, e := range evs {
		if e.Kind == kind {
			n++
		}
	}
	return n
}

// overlaps: some Add was called and had not returned when Close was called, or
// was called while Close was running.
func overlaps(evs []s1Ev) bool {
	open := map[int]bool{}
	inClose := false
	for _, e := range evs {
		switch e.Kind {
		case "addcall":
			if inClose {
				return true
			}
			open[e.ID] = true
		case "addret", "addpanic":
			delete(open, e.ID)
		case "closecall":
			if len(open) > 0 {
				return true
			}
			inClose = true
		case "closeret", "closepanic":
			inClose = false
		}
	}
	return false
}

func tail(s []string, n int) []string {
	if len(s) > n {
		return s[len(s)-n:]
	}
	return s
}
