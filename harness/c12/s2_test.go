//go:build verif

package c12

import (
	"context"
	"fmt"
	"os"
	"sort"
	"strings"
	"sync"
	"testing"
	"time"

	"github.com/emersion/go-message/textproto"
	"github.com/emersion/go-smtp"
	"github.com/foxcpp/maddy/framework/buffer"
	"github.com/foxcpp/maddy/framework/module"
	"github.com/foxcpp/maddy/internal/target/queue"
	"github.com/foxcpp/maddy/internal/zzverif/mx"
	"verifkit"
	"verifkit/prng"
	"verifkit/rep"
)

// ---- S2: the real Queue with a scripted target -------------------------------

// s2Fault is the scripted result of one attempt of one message.
type s2Fault struct {
	Stage string `json:"stage"` // start | rcpt | body | status | commit
	Rcpt  int    `json:"rcpt"`  // index into the message's recipients for rcpt/status, -1 = all
	Class string `json:"class"` // temp | perm (perm only at stage rcpt)
	Var   int    `json:"var"`
}

type s2Msg struct {
	ID     string      `json:"id"`
	Rcpts  []string    `json:"rcpts"`
	Faults [][]s2Fault `json:"faults"` // Faults[a-1] (1-2 injected results) applies to attempt a; later attempts succeed
	// NullSender: enqueued with MAIL FROM:<> (a report or the like); the queue
	// generates no failure report for it.
	NullSender bool `json:"null_sender,omitempty"`
}

type s2Scenario struct {
	Enqueuers   [][]s2Msg `json:"enqueuers"`
	Partial     bool      `json:"partial"`
	Parallelism int       `json:"parallelism"`
	RetryUs     int       `json:"retry_us"`
	Hold        int       `json:"hold"`       // up to this many attempts are held in flight (inside Body) until the closer releases them
	CloseKind   string    `json:"close_kind"` // none | start | commitcall | commitret | attempt
	CloseK      int       `json:"close_k"`
	NMsgs       int       `json:"n_msgs"`

	// Extension (s2b_test.go), all zero in a legacy scenario.
	Extended          bool      `json:"extended,omitempty"`
	Bounce            string    `json:"bounce,omitempty"`             // "" | script | self | second: where the queue's bounce pipeline delivers
	ViaPipeline       bool      `json:"via_pipeline,omitempty"`       // a real msgpipeline built from configuration text sits in between
	PipelineForm      int       `json:"pipeline_form,omitempty"`      // which configuration text
	SecondCloseFirst  bool      `json:"second_close_first,omitempty"` // second queue is closed before the reporting queue
	SecondParallelism int       `json:"second_parallelism,omitempty"`
	BounceFail        string    `json:"bounce_fail,omitempty"` // script layout: stage at which the bounce target fails
	BounceFailClass   string    `json:"bounce_fail_class,omitempty"`
	HoldStage         string    `json:"hold_stage,omitempty"` // stage of the target at which attempts are held in flight ("" = body)
	DSNFaults         []s2Fault `json:"dsn_faults,omitempty"` // k-th report seen by a queue's target: temporary failure in its first attempt
}

// genS2x is genS2 plus the report dimensions, which are drawn from a PRNG
// stream of their own so that the base scenario of a case index is what it
// was before the extension existed.
func genS2x(seed uint64, p *prng.R, caseIdx int) s2Scenario {
	sc := genS2(p, caseIdx)
	extendS2(prng.New(seed, uint64(caseIdx), "c12/s2/bounce"), &sc, caseIdx)
	return sc
}

func genS2(p *prng.R, caseIdx int) s2Scenario {
	var sc s2Scenario
	sc.Partial = p.Bool()
	sc.Parallelism = p.Range(1, 4)
	sc.RetryUs = prng.Pick(p, []int{0, 0, 200, 1000, 3000})
	sc.Hold = p.Range(0, 3)
	ne := p.Range(1, 4)
	n := 0
	for e := 0; e < ne; e++ {
		var ms []s2Msg
		for k, nm := 0, p.Range(1, 2); k < nm; k++ {
			n++
			m := s2Msg{ID: fmt.Sprintf("c%dm%d", caseIdx, n)}
			for j, nr := 0, p.Range(1, 2); j < nr; j++ {
				m.Rcpts = append(m.Rcpts, fmt.Sprintf("r%d@m%d.example.org", j, n))
			}
			for a, nf := 0, p.Weighted([]int{3, 4, 2, 1}); a < nf; a++ {
				f := s2Fault{Class: mx.Temp, Rcpt: -1, Var: p.Intn(3)}
				stages := []string{"start", "rcpt", "body", "commit", "rcpt1"}
				if sc.Partial {
					stages = append(stages, "status1")
				}
				switch st := prng.Pick(p, stages); st {
				case "rcpt1":
					f.Stage, f.Rcpt = "rcpt", p.Intn(len(m.Rcpts))
					if p.Chance(1, 4) {
						f.Class = mx.Perm
					}
				case "status1":
					f.Stage, f.Rcpt = "status", p.Intn(len(m.Rcpts))
				default:
					f.Stage = st
				}
				fs := []s2Fault{f}
				if f.Stage == "rcpt" && f.Rcpt >= 0 && f.Class == mx.Perm && p.Bool() {
					// one recipient refused for good, the rest fails temporarily in the same attempt
					fs = append(fs, s2Fault{Stage: prng.Pick(p, []string{"body", "commit"}), Rcpt: -1, Class: mx.Temp, Var: p.Intn(3)})
				}
				m.Faults = append(m.Faults, fs)
			}
			ms = append(ms, m)
		}
		sc.Enqueuers = append(sc.Enqueuers, ms)
	}
	sc.NMsgs = n
	switch p.Intn(8) {
	case 0:
		sc.CloseKind = "none"
	case 1:
		sc.CloseKind = "start"
	case 2, 3:
		sc.CloseKind, sc.CloseK = "commitcall", p.Range(1, n)
	case 4, 5:
		sc.CloseKind, sc.CloseK = "commitret", p.Range(1, n)
	default:
		// reachable even when every attempt in flight is held: the first
		// min(n, parallelism) attempts start without waiting for anything.
		kmax := n
		if sc.Parallelism < kmax {
			kmax = sc.Parallelism
		}
		sc.CloseKind, sc.CloseK = "attempt", p.Range(1, kmax)
	}
	return sc
}

func (sc s2Scenario) shape() string {
	var f []string
	for _, ms := range sc.Enqueuers {
		for _, m := range ms {
			s := fmt.Sprintf("%d:", len(m.Rcpts))
			if m.NullSender {
				s = "n" + s
			}
			for _, fs := range m.Faults {
				for _, x := range fs {
					s += x.Stage[:2] + x.Class[:1]
				}
				s += "."
			}
			f = append(f, s)
		}
	}
	sort.Strings(f)
	return fmt.Sprintf("S2 e=%d par=%d partial=%v hold=%d retry=%d close=%s@%d msgs=%s", len(sc.Enqueuers), sc.Parallelism, sc.Partial, sc.Hold, sc.RetryUs, sc.CloseKind, sc.CloseK, strings.Join(f, ",")) + sc.extShape()
}

// baseID strips the "-<hex unix time>" suffix the queue appends for the target.
func baseID(id string) string {
	if k := strings.LastIndex(id, "-"); k > 0 {
		return id[:k]
	}
	return id
}

// s2Mon is the harness side of one queue instance: it scripts the target,
// counts attempts per message (by base id), holds attempts in flight and
// fires the closer's trigger.
type s2Mon struct {
	mu        sync.Mutex
	msgs      map[string]*s2Msg
	attempt   map[string]int         // base id -> attempts started
	cur       map[string]int         // target-side msg id -> attempt number
	tStart    map[string][]time.Time // base id -> start time of attempt n (index n-1)
	tLast     map[string][]time.Time // base id -> last observed call of attempt n
	held      int
	holdMax   int
	gate      chan struct{}
	gateOnce  sync.Once
	counts    map[string]int
	trigKind  string
	trigK     int
	trig      chan struct{}
	trigFired bool
	holdGuard []string
	holdStage string    // stage at which attempts are held
	dsnFaults []s2Fault // scripted first-attempt results of the reports this target sees
	nReports  int       // messages seen that the harness did not enqueue (reports)
}

func newS2Mon(sc s2Scenario, withFaults bool) *s2Mon {
	m := &s2Mon{msgs: map[string]*s2Msg{}, attempt: map[string]int{}, cur: map[string]int{}, tStart: map[string][]time.Time{}, tLast: map[string][]time.Time{},
		holdMax: sc.Hold, gate: make(chan struct{}), counts: map[string]int{}, trigKind: sc.CloseKind, trigK: sc.CloseK, trig: make(chan struct{}),
		holdStage: sc.HoldStage, dsnFaults: sc.DSNFaults}
	if m.holdStage == "" {
		m.holdStage = mx.StBody
	}
	if withFaults {
		for i := range sc.Enqueuers {
			for j := range sc.Enqueuers[i] {
				mm := &sc.Enqueuers[i][j]
				m.msgs[mm.ID] = mm
			}
		}
	} else {
		m.holdMax = 0
	}
	return m
}

func (m *s2Mon) event(kind string) {
	m.mu.Lock()
	defer m.mu.Unlock()
	m.counts[kind]++
	if kind == m.trigKind && m.counts[kind] == m.trigK && !m.trigFired {
		m.trigFired = true
		close(m.trig)
	}
}

func (m *s2Mon) openGate() { m.gateOnce.Do(func() { close(m.gate) }) }

func (m *s2Mon) forceTrigger() {
	m.mu.Lock()
	defer m.mu.Unlock()
	if !m.trigFired {
		m.trigFired = true
		close(m.trig)
	}
}

// hook runs inside every stage of the scripted target (before the scripted
// result is computed).
func (m *s2Mon) hook(pt mx.Point) {
	now := time.Now()
	b := baseID(pt.MsgID)
	hold := false
	m.mu.Lock()
	if pt.Stage == mx.StStart {
		m.attempt[b]++
		m.cur[pt.MsgID+"/"+fmt.Sprint(pt.Attempt)] = m.attempt[b]
		m.tStart[b] = append(m.tStart[b], now)
		m.tLast[b] = append(m.tLast[b], now)
		if m.msgs[b] == nil {
			// not enqueued by the harness: a report generated by a queue under test
			rm := &s2Msg{ID: b}
			if len(m.dsnFaults) > 0 {
				if f := m.dsnFaults[m.nReports%len(m.dsnFaults)]; f.Stage != "" {
					rm.Faults = [][]s2Fault{{f}}
				}
			}
			m.nReports++
			m.msgs[b] = rm
		}
	} else if n := len(m.tLast[b]); n > 0 {
		m.tLast[b][n-1] = now
	}
	if pt.Stage == m.holdStage && m.held < m.holdMax {
		m.held++
		hold = true
	}
	m.mu.Unlock()
	if pt.Stage == mx.StStart {
		m.event("attempt")
	}
	if hold {
		// in flight until the closer opens the gate; the guard only protects the
		// harness against its own mistakes and makes the case inconclusive.
		t := time.NewTimer(2 * watchdog)
		select {
		case <-m.gate:
		case <-t.C:
			m.mu.Lock()
			m.holdGuard = append(m.holdGuard, pt.MsgID)
			m.mu.Unlock()
		}
		t.Stop()
	}
}

// attemptOf returns the attempt number (per base id, 1-based) the point belongs to.
func (m *s2Mon) attemptOf(pt mx.Point) int {
	m.mu.Lock()
	defer m.mu.Unlock()
	return m.cur[pt.MsgID+"/"+fmt.Sprint(pt.Attempt)]
}

func (m *s2Mon) script(pt mx.Point) error {
	m.mu.Lock()
	msg := m.msgs[baseID(pt.MsgID)]
	m.mu.Unlock()
	if msg == nil {
		return nil
	}
	a := m.attemptOf(pt)
	if a < 1 || a > len(msg.Faults) {
		return nil
	}
	for _, f := range msg.Faults[a-1] {
		if f.Stage != pt.Stage {
			continue
		}
		if f.Rcpt >= 0 && (f.Rcpt >= len(msg.Rcpts) || msg.Rcpts[f.Rcpt] != pt.Rcpt) {
			continue
		}
		return mx.MakeErr(f.Class, f.Var, "c12")
	}
	return nil
}

// rcptState condenses what a target log says about one recipient of one message.
type rcptState struct {
	Delivered int  // deliveries that committed the message for this recipient
	PermFail  bool // refused permanently at RCPT
}

type msgView struct {
	Starts     int  // Start calls (attempts) seen for this message
	TempRounds int  // attempts in which some recipient got a temporary failure (each schedules exactly one retry)
	Open       int  // attempts that were started and neither committed nor aborted
	PermRounds int  // attempts in which some recipient failed permanently (each makes the queue generate one report)
	AllPerm    bool // Start itself was refused permanently: every recipient still to be tried failed for good
	Rcpt       map[string]*rcptState
}

func viewOf(lg *mx.Log) map[string]*msgView {
	out := map[string]*msgView{}
	get := func(id string) *msgView {
		v := out[id]
		if v == nil {
			v = &msgView{Rcpt: map[string]*rcptState{}}
			out[id] = v
		}
		return v
	}
	rs := func(v *msgView, r string) *rcptState {
		s := v.Rcpt[r]
		if s == nil {
			s = &rcptState{}
			v.Rcpt[r] = s
		}
		return s
	}
	evs := lg.Events()
	for _, e := range evs {
		if e.Kind == "start.call" {
			get(baseID(e.MsgID)).Starts++
		}
	}
	for _, s := range mx.Summaries(evs) {
		v := get(baseID(s.MsgID))
		temp := s.StartClass == mx.Temp || s.BodyClass == mx.Temp || s.Commit == mx.Temp
		perm := false
		if s.StartClass == mx.Perm {
			// recipients not offered in this attempt had their terminal outcome before
			v.AllPerm, perm = true, true
		}
		for r, cl := range s.Refused {
			if cl == mx.Temp {
				temp = true
			}
			if cl == mx.Perm {
				rs(v, r).PermFail, perm = true, true
			}
		}
		for r, cl := range s.Status {
			if cl == mx.Temp {
				temp = true
			}
			if cl == mx.Perm {
				rs(v, r).PermFail, perm = true, true
			}
		}
		if s.BodyClass == mx.Perm {
			// whole-body refusal: every accepted recipient failed for good
			for _, r := range s.Accepted {
				rs(v, r).PermFail, perm = true, true
			}
		}
		if s.Commit == mx.Perm {
			// Commit refusal concerns the recipients that were going to be committed
			for _, r := range s.Accepted {
				if _, bad := s.Status[r]; !bad {
					rs(v, r).PermFail, perm = true, true
				}
			}
		}
		if temp {
			v.TempRounds++
		}
		if perm {
			v.PermRounds++
		}
		if s.StartClass == mx.OK && s.Commit == "" && s.Abort == "" {
			v.Open++
		}
		for _, r := range s.Accepted {
			if s.DeliveredTo(r) {
				rs(v, r).Delivered++
			}
		}
	}
	return out
}

func runS2(t *testing.T, r *rep.Reporter, env instrEnv, ys yieldStats) {
	n0 := r.N(2000, 30_000)
	for i := 0; i < n0; i++ {
		idx := baseS2d0 + i
		r.Run(idx, fmt.Sprintf("s2-d0-%d", i), func(c *rep.Case) {
			onReplayRepeat(r, c, 100, func() {
				p := prng.New(r.Seed(), uint64(idx), "c12/s2")
				s2Case(t, c, r, ys, p, genS2x(r.Seed(), p, idx), stressPlan(p))
			})
		})
	}
	reps1 := r.N(3, 30)
	k := 0
	for _, site := range env.all {
		for occ := 1; occ <= 4; occ++ {
			for rp := 0; rp < reps1; rp++ {
				idx := baseS2d1 + k
				k++
				site, occ := site, occ
				r.Run(idx, fmt.Sprintf("s2-d1-%s#%d-r%d", site, occ, rp), func(c *rep.Case) {
					onReplayRepeat(r, c, 100, func() {
						p := prng.New(r.Seed(), uint64(idx), "c12/s2")
						s2Case(t, c, r, ys, p, genS2x(r.Seed(), p, idx), planSpec{D: 1, Points: []verifkit.PlanPoint{{Site: site, Occ: occ}}})
					})
				})
			}
		}
	}
	r.Set("s2_d1_exhaustive", true)
	r.Set("s2_d1_plans", len(env.all)*4)
	// d=2: PRNG-sampled pairs over all sites of both files, occurrences 1..6
	n2 := r.N(3000, 40_000)
	for i := 0; i < n2; i++ {
		idx := baseS2d2 + i
		r.Run(idx, fmt.Sprintf("s2-d2-%d", i), func(c *rep.Case) {
			onReplayRepeat(r, c, 100, func() {
				p := prng.New(r.Seed(), uint64(idx), "c12/s2")
				a := verifkit.PlanPoint{Site: prng.Pick(p, env.all), Occ: p.Range(1, 6)}
				b := verifkit.PlanPoint{Site: prng.Pick(p, env.all), Occ: p.Range(1, 6)}
				if a == b {
					b.Occ++
				}
				s2Case(t, c, r, ys, p, genS2x(r.Seed(), p, idx), planSpec{D: 2, Points: []verifkit.PlanPoint{a, b}})
			})
		})
	}
	r.Set("s2_d2_sampled_pairs", n2)
}

type s2Outcome struct {
	ID        string `json:"id"`
	Committed bool   `json:"committed"` // Commit returned to the enqueuer
	Panic     string `json:"panic,omitempty"`
	Refused   string `json:"refused,omitempty"` // Start or Body of the queue returned this error
}

func s2Case(t *testing.T, c *rep.Case, r *rep.Reporter, ys yieldStats, p *prng.R, sc s2Scenario, plan planSpec) {
	dir, err := os.MkdirTemp("", "c12q")
	if err != nil {
		t.Fatal(err)
	}
	defer os.RemoveAll(dir)
	globalLog.take()

	lg := mx.NewLog()
	mon := newS2Mon(sc, true)
	tgt := mx.NewTarget(fmt.Sprintf("c12t-%d", c.Index), lg)
	tgt.Partial = sc.Partial
	tgt.Hook = mon.hook
	tgt.Script = mon.script

	plan.install(p.Uint64())
	retry := time.Duration(sc.RetryUs) * time.Microsecond

	// ---- where the queue's failure reports go ----
	var (
		tap    *dsnTap
		bounce module.DeliveryTarget // stays a nil interface without a bounce pipeline
		lgB    *mx.Log               // scripted bounce target (layout script)
		lg2    *mx.Log               // target of the second queue (layout second)
		mon2   *s2Mon
		q2     *queue.Queue
		dir2   string
	)
	if sc.Bounce != bounceNone {
		tap = newTap(c.Index)
		bounce = tap
		switch sc.Bounce {
		case bounceScript:
			lgB = mx.NewLog()
			bt := mx.NewTarget(fmt.Sprintf("c12b-%d", c.Index), lgB)
			bt.Script = func(pt mx.Point) error {
				if sc.BounceFail == "" || pt.Stage != sc.BounceFail {
					return nil
				}
				return mx.MakeErr(sc.BounceFailClass, 0, "c12 bounce target")
			}
			tap.bind(bt)
		case bounceSecond:
			if dir2, err = os.MkdirTemp("", "c12q2"); err != nil {
				t.Fatal(err)
			}
			defer os.RemoveAll(dir2)
			lg2 = mx.NewLog()
			mon2 = newS2Mon(sc, false)
			tgtS := mx.NewTarget(fmt.Sprintf("c12s-%d", c.Index), lg2)
			tgtS.Partial = sc.Partial
			tgtS.Hook = mon2.hook
			tgtS.Script = mon2.script
			q2, err = queue.VerifNewQueue(queue.VerifOpts{Dir: dir2, Target: tgtS, MaxTries: 50, InitialRetryTime: retry, RetryTimeScale: 1, Parallelism: sc.SecondParallelism})
			if err != nil {
				t.Fatal(err)
			}
			tap.bind(q2)
		}
		if sc.ViaPipeline {
			// the bounce { } block as the configuration parser and msgpipeline build it
			mx.RegisterInstance(tap)
			pl, err := mx.BuildPipeline(bouncePipelineText(sc.PipelineForm, tap.InstanceName()), nil)
			if err != nil {
				t.Fatalf("case %s: bounce pipeline: %v", c.ID, err)
			}
			pl.Hostname = "mx.example.org"
			bounce = pl
		}
	}
	q, err := queue.VerifNewQueue(queue.VerifOpts{Dir: dir, Target: tgt, Bounce: bounce, MaxTries: 50, InitialRetryTime: retry, RetryTimeScale: 1, Parallelism: sc.Parallelism,
		Hostname: "mx.example.org", AutogenMsgDomain: "example.org"})
	if err != nil {
		t.Fatal(err)
	}
	if sc.Bounce == bounceSelf {
		tap.bind(q) // bounce { ... deliver_to &this_queue }
	}
	progress := func() int {
		n := lg.Len() + tap.len()
		if lg2 != nil {
			n += lg2.Len()
		}
		if lgB != nil {
			n += lgB.Len()
		}
		return n
	}

	var omu sync.Mutex
	outcomes := map[string]*s2Outcome{}
	start := make(chan struct{})
	var wg sync.WaitGroup
	for _, ms := range sc.Enqueuers {
		ms := ms
		wg.Add(1)
		go func() {
			defer wg.Done()
			<-start
			for i := range ms {
				m := &ms[i]
				o := &s2Outcome{ID: m.ID}
				omu.Lock()
				outcomes[m.ID] = o
				omu.Unlock()
				func() {
					defer func() {
						if v := recover(); v != nil {
							omu.Lock()
							o.Panic = fmt.Sprint(v)
							omu.Unlock()
							mon.event("commitret")
						}
					}()
					ctx := context.Background()
					from := "s@example.org"
					if m.NullSender {
						from = ""
					}
					// A queue that refuses the enqueue (Start or Body returns an error,
					// e.g. because it is shutting down) took no responsibility for the
					// message: it counts as not committed. The closer's triggers count
					// the refused enqueue like a Commit call that returned.
					refused := func(err error) {
						omu.Lock()
						o.Refused = err.Error()
						omu.Unlock()
						mon.event("commitcall")
						mon.event("commitret")
					}
					d, err := q.Start(ctx, &module.MsgMetadata{ID: m.ID, OriginalFrom: from}, from)
					if err != nil {
						refused(err)
						return
					}
					for _, rc := range m.Rcpts {
						d.AddRcpt(ctx, rc, smtp.RcptOptions{})
					}
					hdr := textproto.Header{}
					hdr.Add("Subject", "c12 "+m.ID)
					if err := d.Body(ctx, hdr, buffer.MemoryBuffer{Slice: []byte("body of " + m.ID + "\r\n")}); err != nil {
						d.Abort(ctx)
						refused(err)
						return
					}
					mon.event("commitcall")
					cerr := d.Commit(ctx)
					omu.Lock()
					o.Committed = cerr == nil
					omu.Unlock()
					mon.event("commitret")
				}()
			}
		}()
	}
	closeDone := make(chan struct{})
	var closeCalled, closeReturned bool
	var closePanic string
	doClose := func() {
		defer close(closeDone)
		omu.Lock()
		closeCalled = true
		omu.Unlock()
		// the held attempts are in flight now; let them finish while Close runs
		go func() {
			n := verifkit.YieldCount()
			for i := 0; i < 40 && verifkit.YieldCount() < n+4; i++ {
				time.Sleep(50 * time.Microsecond)
			}
			mon.openGate()
		}()
		defer func() {
			if v := recover(); v != nil {
				omu.Lock()
				closePanic = fmt.Sprint(v)
				omu.Unlock()
			}
		}()
		if q2 != nil && sc.SecondCloseFirst {
			q2.Close()
		}
		if tap != nil {
			tap.closing.Store(true)
		}
		q.Close()
		if tap != nil {
			tap.closing.Store(false)
		}
		if q2 != nil && !sc.SecondCloseFirst {
			q2.Close()
		}
		omu.Lock()
		closeReturned = true
		omu.Unlock()
	}
	if sc.CloseKind != "none" {
		go func() {
			<-start
			if sc.CloseKind != "start" {
				<-mon.trig
			}
			doClose()
		}()
	}
	close(start)
	enqDone := make(chan struct{})
	go func() { wg.Wait(); close(enqDone) }()

	var yieldTrace []string
	wit := func(extra map[string]any) map[string]any {
		w := map[string]any{"scenario": sc, "plan": plan, "target_log": tail(lg.Strings(0), 120), "yield_trace_tail": yieldTrace}
		if yieldTrace == nil {
			w["yield_trace_tail"] = tail(verifkit.Trace(), 60)
		}
		if tap != nil {
			w["reports_handed_to_bounce_pipeline"] = tap.snapshot()
		}
		if lg2 != nil {
			w["second_queue_target_log"] = tail(lg2.Strings(0), 60)
		}
		if lgB != nil {
			w["bounce_target_log"] = tail(lgB.Strings(0), 60)
		}
		for k, v := range extra {
			w[k] = v
		}
		return w
	}

	// reportSpool lists the reports whose Commit into a queue under test returned nil.
	reportSpool := func(recs []dsnRec) []spoolMsg {
		var out []spoolMsg
		if sc.Bounce != bounceSelf && sc.Bounce != bounceSecond {
			return nil
		}
		for _, rec := range recs {
			if rec.Committed {
				out = append(out, spoolMsg{ID: rec.ID, Rcpts: rec.Rcpts, Report: true})
			}
		}
		return out
	}
	// quiet: (1) every recipient of every enqueued message and of every report
	// committed to a queue has a terminal outcome and no attempt is open; (2)
	// every attempt that failed permanently for a message with a return path has
	// handed its report over, i.e. nothing is going to be enqueued any more.
	// The reports are read BEFORE the target logs: a terminal outcome stays one,
	// and a report missing from the earlier reading shows as a permanent failure
	// without report in the later one.
	quiet := func() (allTerminal, settled bool) {
		recs := tap.snapshot()
		view := viewOf(lg)
		if !s2AllTerminal(sc, view) {
			return false, false
		}
		rview := view
		if sc.Bounce == bounceSecond {
			rview = viewOf(lg2)
			for _, v := range rview {
				if v.Open > 0 {
					return false, false
				}
			}
		}
		for _, m := range reportSpool(recs) {
			v := rview[m.ID]
			if v == nil || v.Open > 0 {
				return false, false
			}
			for _, rc := range m.Rcpts {
				if !terminal(v, rc) {
					return false, false
				}
			}
		}
		if sc.Bounce == bounceNone {
			return true, true
		}
		expected := 0
		for _, ms := range sc.Enqueuers {
			for _, m := range ms {
				if v := view[m.ID]; v != nil && !m.NullSender {
					expected += v.PermRounds
				}
			}
		}
		if len(recs) != expected {
			return true, false
		}
		for _, rec := range recs {
			if !rec.Done {
				return true, false
			}
		}
		return true, true
	}

	undecided := ""
	enqOK := waitDone(enqDone)
	if !enqOK {
		parked, dump := stuckAnalysis("internal/target/queue.", "queue.(*TimeWheel).Add", progress)
		if parked {
			c.Violation("S2/enqueue-never-returns", "an enqueuer is blocked forever inside the queue: every goroutine inside package queue is parked", wit(map[string]any{"goroutines": dump}))
		} else {
			undecided = "enqueuers did not finish within the watchdog, goroutines not all parked"
		}
		mon.forceTrigger()
	}
	quiescent := false
	if enqOK && sc.CloseKind == "none" {
		// no shutdown: release the held attempts once every message is committed,
		// wait until every recipient has a terminal outcome, then close
		mon.openGate()
		deadline := time.Now().Add(currentWatchdog())
		allTerminal := false
		for {
			var settled bool
			if allTerminal, settled = quiet(); allTerminal && settled {
				quiescent = true
				break
			}
			if time.Now().After(deadline) {
				break
			}
			time.Sleep(300 * time.Microsecond)
		}
		if !quiescent && allTerminal {
			// not a verdict: the harness' model of how many reports are generated did not hold
			undecided = "the number of reports handed to the bounce pipeline did not settle within the watchdog"
		} else if !quiescent {
			parked, dump := stuckAnalysis("internal/target/queue.", "queue.(*TimeWheel).tick", progress)
			held := mon.heldNow()
			if parked && held == 0 {
				c.Violation("S2/message-never-dispatched", "no shutdown requested, every goroutine of the queue is parked and a committed message (or a scheduled retry) has not been dispatched", wit(map[string]any{"goroutines": dump}))
			} else {
				undecided = "messages not all terminal within the watchdog"
			}
		}
		go doClose()
	} else if enqOK && sc.CloseKind != "start" {
		if !waitDone(mon.trig) {
			undecided = "closer trigger not reached within the watchdog"
			mon.forceTrigger()
		}
	}
	if !waitDone(closeDone) {
		parked, dump := stuckAnalysis("internal/target/queue.", "queue.(*Queue).Close", progress)
		if parked && mon.heldNow() == 0 {
			c.Violation("S2/close-never-returns", "Queue.Close blocks forever: every goroutine inside package queue is parked", wit(map[string]any{"goroutines": dump}))
		} else if undecided == "" {
			undecided = "Queue.Close did not return within the watchdog, goroutines not all parked"
		}
	}
	mon.openGate()
	hits := ys.collect("s2", plan)
	yieldTrace = tail(verifkit.Trace(), 60)
	omu.Lock()
	closed := closeReturned
	cpanic := closePanic
	_ = closeCalled
	outs := map[string]s2Outcome{}
	for k, v := range outcomes {
		outs[k] = *v
	}
	omu.Unlock()
	mon.mu.Lock()
	guard := append([]string(nil), mon.holdGuard...)
	mon.mu.Unlock()
	if len(guard) > 0 && undecided == "" {
		undecided = "harness hold guard expired"
	}

	// ---- crashes ----
	if cpanic != "" {
		c.Violation("S2/panic-in-close/"+panicClass(cpanic), "Queue.Close panicked: "+cpanic, wit(nil))
	}
	for _, o := range sortedOutcomes(outs) {
		if o.Panic != "" && !strings.HasPrefix(o.Panic, "harness:") {
			c.Violation("S2/panic-in-enqueue/"+panicClass(o.Panic), fmt.Sprintf("enqueueing message %s panicked: %s", o.ID, o.Panic), wit(map[string]any{"outcomes": outs}))
			break
		}
		if strings.HasPrefix(o.Panic, "harness:") {
			t.Fatalf("case %s: %s", c.ID, o.Panic)
		}
	}
	panics := globalLog.take()

	// ---- spool(s) after shutdown ----
	view := viewOf(lg)
	primary := &spoolSite{Name: "primary", Dir: dir, Partial: sc.Partial, View: view}
	sites := []*spoolSite{primary}
	for _, ms := range sc.Enqueuers {
		for _, m := range ms {
			if outs[m.ID].Committed {
				primary.Msgs = append(primary.Msgs, spoolMsg{ID: m.ID, Rcpts: m.Rcpts})
			}
		}
	}
	var view2 map[string]*msgView
	switch sc.Bounce {
	case bounceSelf:
		primary.Msgs = append(primary.Msgs, reportSpool(tap.snapshot())...)
	case bounceSecond:
		view2 = viewOf(lg2)
		sites = append(sites, &spoolSite{Name: "second", Dir: dir2, Partial: sc.Partial, View: view2, Msgs: reportSpool(tap.snapshot())})
	}
	anyBroken := false
	for _, s := range sites {
		s.readDir()
		if len(s.Broken) > 0 {
			anyBroken = true
			c.Violation("S2/meta-broken/"+dispatchPanicClass(panics), fmt.Sprintf("after shutdown the spool contains %v: a panic in the dispatch goroutine was recovered and the message was quarantined, a restart will not pick it up", s.Broken),
				wit(map[string]any{"spool": keys(s.Files), "recovered_panics": panics, "outcomes": outs}))
		}
	}
	if !anyBroken && len(panics) > 0 {
		c.Violation("S2/panic-in-dispatch/"+dispatchPanicClass(panics), "a panic in the queue's dispatch goroutine was recovered", wit(map[string]any{"recovered_panics": panics}))
	}

	inFlight := 0
	for _, v := range view {
		inFlight += v.Open
	}
	for _, v := range view2 {
		inFlight += v.Open
	}
	if closed && inFlight > 0 {
		// The statement does not say in so many words that Close waits for the
		// attempts in flight; the spool oracle below needs a stable log, so such a
		// run is not judged.
		r.Count("s2_attempts_in_flight_after_close", int64(inFlight))
		if undecided == "" {
			undecided = "Queue.Close returned while an attempt was still in flight: spool not judged"
		}
	}
	nPending, reportsPending := 0, 0
	if closed && enqOK && inFlight == 0 {
		for _, s := range sites {
			missing, rp := s.pendingOf()
			nPending += len(s.Pending)
			reportsPending += rp
			for id, miss := range missing {
				if s.Files[id+".meta_broken"] {
					continue
				}
				c.Violation("S2/removed-without-terminal-outcome/"+strings.Join(miss, ""), fmt.Sprintf("message %s was committed to the %s queue, has recipients without a terminal outcome, and after shutdown its %v file(s) are gone", id, s.Name, miss),
					wit(map[string]any{"spool": keys(s.Files), "pending": s.Pending, "outcomes": outs}))
			}
		}
	}

	// ---- a permanent failure is the outcome of a message only through its report ----
	if closed && enqOK && inFlight == 0 && (sc.Bounce == bounceSelf || sc.Bounce == bounceSecond) {
		judged, viaReport, unlinked, lost := judgeReported(sc, outs, view, tap.snapshot(), primary)
		r.Count("s2_failed_rcpts_judged_for_report", int64(judged))
		r.Count("s2_failed_rcpts_report_accepted_by_queue", int64(viaReport))
		r.Count("s2_reports_unlinked", int64(unlinked))
		for _, l := range lost {
			if primary.Files[l.Msg+".meta_broken"] {
				continue
			}
			c.Violation("S2/removed-without-terminal-outcome/"+l.Cause, fmt.Sprintf("message %s was committed to the queue, recipient %s failed permanently in an attempt, %s, and after shutdown the message is not in the spool with that recipient either: the only outcome of the message is lost, a restart has nothing to pick up", l.Msg, l.Rcpt, l.What),
				wit(map[string]any{"spool": keys(primary.Files), "outcomes": outs, "still_to_try_in_meta": l.MetaTo}))
			break
		}
	}

	// ---- each dispatch = one attempt; a retry is not early ----
	for _, vw := range []map[string]*msgView{view, view2} {
		for id, v := range vw {
			if v.Starts > 1+v.TempRounds {
				c.Violation("S2/dispatched-more-than-once", fmt.Sprintf("message %s: %d attempts although only the commit and %d temporary failures scheduled one", id, v.Starts, v.TempRounds), wit(nil))
				break
			}
		}
	}
	for _, mm := range []*s2Mon{mon, mon2} {
		if mm == nil {
			continue
		}
		mm.mu.Lock()
		for id, st := range mm.tStart {
			la := mm.tLast[id]
			for n := 1; n < len(st); n++ {
				if gap := st[n].Sub(la[n-1]); gap < retry {
					c.Violation("S2/retry-dispatched-early", fmt.Sprintf("message %s: attempt %d started %v after the previous attempt's last call, retry delay is %v", id, n+1, gap, retry), wit(nil))
					break
				}
			}
		}
		mm.mu.Unlock()
	}
	if quiescent && undecided == "" && !c.Violated() {
		for _, vw := range []map[string]*msgView{view, view2} {
			for id, v := range vw {
				if v.Starts != 1+v.TempRounds {
					c.Violation("S2/not-dispatched-once", fmt.Sprintf("run without shutdown: message %s had %d attempts, expected %d", id, v.Starts, 1+v.TempRounds), wit(nil))
					break
				}
			}
		}
	}

	// ---- restart: a fresh queue on the same directory delivers what is pending ----
	restartDelivered := 0
	if closed && enqOK && inFlight == 0 && nPending > 0 && !anyBroken && !c.Violated() {
		verifkit.ResetYield()
		for _, s := range sites {
			if len(s.Pending) == 0 {
				continue
			}
			n, why, lgR := s.restart(t, c.Index)
			restartDelivered += n
			if why != "" {
				undecided = why
			}
			for id, v := range viewOf(lgR) {
				if v.Starts > 1+v.TempRounds {
					c.Violation("S2/dispatched-more-than-once", fmt.Sprintf("restarted queue: message %s had %d attempts, only one was scheduled", id, v.Starts), wit(map[string]any{"restart_log": tail(lgR.Strings(0), 80)}))
					break
				}
			}
		}
	}
	if undecided != "" {
		c.Inconclusive(undecided)
	}

	// ---- evidence ----
	r.Count("s2_runs", 1)
	r.Count("s2_messages_committed", int64(countCommitted(outs)))
	for _, o := range outs {
		if o.Refused != "" {
			r.Count("s2_enqueues_refused_by_queue", 1)
		}
	}
	r.Count("s2_target_events", int64(lg.Len()))
	att, temps := 0, 0
	for _, v := range view {
		att += v.Starts
		temps += v.TempRounds
	}
	r.Count("s2_attempts", int64(att))
	r.Count("s2_retries_scheduled", int64(temps))
	r.Count("s2_recipients_pending_at_shutdown", int64(nPending))
	r.Count("s2_recipients_delivered_by_restart", int64(restartDelivered))
	mon.mu.Lock()
	held := mon.held
	mon.mu.Unlock()
	r.Count("s2_attempts_held_in_flight", int64(held))
	if sc.CloseKind == "none" {
		r.Count("s2_runs_without_shutdown", 1)
	} else {
		r.Count("s2_runs_with_concurrent_close", 1)
	}
	if closed {
		r.Count("s2_closes_returned", 1)
	}
	if sc.Extended {
		r.Count("s2_runs_extended", 1)
		if sc.Bounce != bounceNone {
			r.Count("s2_runs_bounce_"+sc.Bounce, 1)
		}
		if sc.ViaPipeline {
			r.Count("s2_runs_bounce_via_msgpipeline", 1)
		}
		if sc.NMsgs > sc.Parallelism {
			r.Count("s2_runs_more_messages_than_slots", 1)
		}
		permAtt, nullPerm := 0, 0
		for _, ms := range sc.Enqueuers {
			for _, m := range ms {
				if v := view[m.ID]; v != nil {
					permAtt += v.PermRounds
					if m.NullSender {
						nullPerm += v.PermRounds
					}
				}
			}
		}
		r.Count("s2_attempts_failed_permanently", int64(permAtt))
		r.Count("s2_null_sender_attempts_failed_permanently", int64(nullPerm))
		recs := tap.snapshot()
		r.Count("s2_reports_generated", int64(len(recs)))
		for _, rec := range recs {
			inQueue := sc.Bounce == bounceSelf || sc.Bounce == bounceSecond
			if rec.Committed && inQueue {
				r.Count("s2_reports_enqueued_"+sc.Bounce+"_queue", 1)
			}
			if rec.WhileClosing {
				r.Count("s2_reports_generated_while_closing", 1)
				if rec.Committed && inQueue {
					r.Count("s2_reports_enqueued_while_closing", 1)
				}
				// counted when the enqueue got as far as the queue's Commit, whatever
				// Commit answered: the class was exercised also on a tree that refuses it
				if (rec.Committed || rec.CommitErr != "") && sc.Bounce == bounceSelf {
					r.Count("s2_reports_enqueued_into_same_queue_while_closing", 1)
				}
			}
		}
		r.Count("s2_reports_pending_at_shutdown", int64(reportsPending))
		if sc.Bounce == bounceSelf || sc.Bounce == bounceSecond {
			r.Count("s2_yield_events_during_report_enqueue", int64(tap.yields()))
		}
		if sc.Bounce == bounceSelf || sc.Bounce == bounceSecond {
			natt := 0
			vw := view
			if sc.Bounce == bounceSecond {
				vw = view2
			}
			for _, rec := range recs {
				if v := vw[rec.ID]; v != nil {
					natt += v.Starts
				}
			}
			r.Count("s2_report_delivery_attempts", int64(natt))
		}
	}
	if c.Index%997 == 0 {
		r.Sample(map[string]any{"scenario": sc, "plan": plan.String(), "target_events": lg.Len(), "pending": primary.Pending})
	}
	nontrivial := (plan.D == 0 || hits >= 1) && att >= 1
	c.Done(sc.shape()+" "+plan.String(), nontrivial)
}

func (m *s2Mon) heldNow() int {
	// attempts that entered the hold and whose gate is still shut
	select {
	case <-m.gate:
		return 0
	default:
	}
	m.mu.Lock()
	defer m.mu.Unlock()
	return m.held
}

func s2AllTerminal(sc s2Scenario, view map[string]*msgView) bool {
	for _, ms := range sc.Enqueuers {
		for _, m := range ms {
			v := view[m.ID]
			if v == nil || v.Open > 0 {
				return false
			}
			for _, rc := range m.Rcpts {
				if !terminal(v, rc) {
					return false
				}
			}
		}
	}
	return true
}

func sortedOutcomes(m map[string]s2Outcome) []s2Outcome {
	var out []s2Outcome
	for _, v := range m {
		out = append(out, v)
	}
	sort.Slice(out, func(i, j int) bool { return out[i].ID < out[j].ID })
	return out
}

func countCommitted(m map[string]s2Outcome) int {
	n := 0
	for _, v := range m {
		if v.Committed {
			n++
		}
	}
	return n
}

func keys(m map[string]bool) []string {
	var out []string
	for k := range m {
		out = append(out, k)
	}
	sort.Strings(out)
	return out
}
