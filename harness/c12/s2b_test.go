//go:build verif

package c12

import (
	"context"
	"encoding/json"
	"fmt"
	"io"
	"os"
	"path/filepath"
	"regexp"
	"strings"
	"sync"
	"sync/atomic"
	"testing"
	"time"

	"github.com/emersion/go-message/textproto"
	"github.com/emersion/go-smtp"
	"github.com/foxcpp/maddy/framework/buffer"
	"github.com/foxcpp/maddy/framework/config"
	"github.com/foxcpp/maddy/framework/module"
	"github.com/foxcpp/maddy/internal/target/queue"
	"github.com/foxcpp/maddy/internal/zzverif/mx"
	"verifkit"
	"verifkit/prng"
)

// ---- S2 extension: failure reports (bounce pipeline layouts) -------------------
//
// The queue generates a failure report (DSN) inside tryDelivery whenever an
// attempt ends with a permanent failure for a message with a non-null return
// path, and hands it to its bounce pipeline. The documentation describes
// bounce pipelines that deliver into a queue again (`bounce { ...
// deliver_to &remote_queue }`): the report is then an enqueue that comes from
// the queue's own dispatch goroutine, possibly while Queue.Close is running.
//
// Everything below is drawn from a PRNG stream of its own ("c12/s2/bounce") so
// that the scenarios generated before this extension are not reshuffled; one
// case in four stays exactly as it was (no bounce pipeline, permanent failures
// only at RCPT, holds inside Body).

const (
	bounceNone   = ""       // no bounce pipeline (legacy)
	bounceScript = "script" // scripted bounce target
	bounceSelf   = "self"   // bounce pipeline delivers into the same queue
	bounceSecond = "second" // bounce pipeline delivers into a second queue (own directory, own target)
)

// extendS2 adds the report dimensions to a generated scenario.
func extendS2(pe *prng.R, sc *s2Scenario, caseIdx int) {
	if pe.Chance(1, 4) {
		return // legacy scenario, unchanged
	}
	sc.Extended = true
	sc.Bounce = prng.Pick(pe, []string{bounceSelf, bounceSelf, bounceSelf, bounceSelf, bounceSecond, bounceSecond, bounceScript, bounceNone})
	if sc.Bounce != bounceNone {
		sc.ViaPipeline = pe.Chance(1, 3)
		sc.PipelineForm = pe.Intn(2)
	}
	if sc.Bounce == bounceSecond {
		sc.SecondCloseFirst = pe.Chance(1, 3)
		sc.SecondParallelism = pe.Range(1, 4)
	}
	if sc.Bounce == bounceScript && pe.Chance(1, 3) {
		sc.BounceFail = prng.Pick(pe, []string{mx.StStart, mx.StRcpt, mx.StBody, mx.StCommit})
		sc.BounceFailClass = prng.Pick(pe, []string{mx.Temp, mx.Perm})
	}
	sc.HoldStage = prng.Pick(pe, []string{mx.StBody, mx.StBody, mx.StRcpt, mx.StRcpt, mx.StStart, mx.StCommit})
	if sc.Hold == 0 && pe.Bool() {
		sc.Hold = pe.Range(1, 3)
	}
	// a burst: more due entries than parallelism slots
	if pe.Chance(1, 3) {
		var ms []s2Msg
		for k, nm := 0, pe.Range(3, 6); k < nm; k++ {
			sc.NMsgs++
			ms = append(ms, s2Msg{ID: fmt.Sprintf("c%dm%d", caseIdx, sc.NMsgs), Rcpts: []string{fmt.Sprintf("r0@m%d.example.org", sc.NMsgs)}})
		}
		sc.Enqueuers = append(sc.Enqueuers, ms)
	}
	for e := range sc.Enqueuers {
		for k := range sc.Enqueuers[e] {
			m := &sc.Enqueuers[e][k]
			if pe.Chance(1, 6) {
				m.NullSender = true // a report itself, or a message with MAIL FROM:<>: no report is generated for it
			}
			if !pe.Chance(3, 5) {
				continue
			}
			// attempt a (after a-1 temporary rounds generated above) ends with a
			// permanent failure, which is what makes the queue generate a report
			a := 1 + pe.Weighted([]int{5, 2, 1})
			if a > len(m.Faults)+1 {
				a = len(m.Faults) + 1
			}
			kinds := []string{"start", "rcptall", "rcptall", "rcpt1", "body", "commit"}
			if sc.Partial {
				kinds = append(kinds, "status1")
			}
			v := pe.Intn(3)
			var fs []s2Fault
			switch prng.Pick(pe, kinds) {
			case "start":
				fs = []s2Fault{{Stage: mx.StStart, Rcpt: -1, Class: mx.Perm, Var: v}}
			case "rcptall":
				fs = []s2Fault{{Stage: mx.StRcpt, Rcpt: -1, Class: mx.Perm, Var: v}}
			case "rcpt1":
				fs = []s2Fault{{Stage: mx.StRcpt, Rcpt: pe.Intn(len(m.Rcpts)), Class: mx.Perm, Var: v}}
				if pe.Bool() {
					fs = append(fs, s2Fault{Stage: prng.Pick(pe, []string{mx.StBody, mx.StCommit}), Rcpt: -1, Class: mx.Temp, Var: pe.Intn(3)})
				}
			case "body":
				fs = []s2Fault{{Stage: mx.StBody, Rcpt: -1, Class: mx.Perm, Var: v}}
			case "commit":
				fs = []s2Fault{{Stage: mx.StCommit, Rcpt: -1, Class: mx.Perm, Var: v}}
			case "status1":
				fs = []s2Fault{{Stage: mx.StStatus, Rcpt: pe.Intn(len(m.Rcpts)), Class: mx.Perm, Var: v}}
			}
			if a <= len(m.Faults) {
				m.Faults[a-1] = fs
			} else {
				m.Faults = append(m.Faults, fs)
			}
		}
	}
	// the k-th report seen by a queue's target fails temporarily in its first attempt
	for k, n := 0, pe.Range(0, 2); k < n; k++ {
		sc.DSNFaults = append(sc.DSNFaults, s2Fault{Stage: prng.Pick(pe, []string{mx.StStart, mx.StRcpt, mx.StBody, mx.StCommit, ""}), Rcpt: -1, Class: mx.Temp, Var: pe.Intn(3)})
	}
}

func (sc s2Scenario) extShape() string {
	if !sc.Extended {
		return ""
	}
	null := 0
	for _, ms := range sc.Enqueuers {
		for _, m := range ms {
			if m.NullSender {
				null++
			}
		}
	}
	return fmt.Sprintf(" bounce=%s pl=%v/%d 2nd=%v/%d bfail=%s%s holdat=%s null=%d dsnf=%d", sc.Bounce, sc.ViaPipeline, sc.PipelineForm, sc.SecondCloseFirst, sc.SecondParallelism,
		sc.BounceFail, sc.BounceFailClass, sc.HoldStage, null, len(sc.DSNFaults))
}

// ---- the tap: observes what the queue hands to its bounce pipeline ---------------

// dsnRec is one report the queue under test handed to its bounce pipeline.
type dsnRec struct {
	ID           string   `json:"id"`
	Rcpts        []string `json:"rcpts"`
	Orig         string   `json:"orig,omitempty"`          // X-Maddy-MsgID of the report: the message it reports on
	FailedRcpts  []string `json:"failed_rcpts,omitempty"`  // Final-Recipient fields: the recipients whose failure it reports
	StartErr     string   `json:"start_err,omitempty"`
	RcptErr      string   `json:"rcpt_err,omitempty"`
	BodyErr      string   `json:"body_err,omitempty"`
	CommitErr    string   `json:"commit_err,omitempty"`
	Aborted      bool     `json:"aborted,omitempty"`
	Committed    bool     `json:"committed"`     // Commit of the destination returned nil
	Done         bool     `json:"done"`          // Start failed, or Commit/Abort returned
	WhileClosing bool     `json:"while_closing"` // handed over while Queue.Close of the reporting queue was running
}

// dsnTap is a module.DeliveryTarget that forwards to a destination bound after
// construction (the queue itself does not exist yet when its bounce pipeline
// is built) and records what was handed over and with which result.
type dsnTap struct {
	name    string
	closing atomic.Bool

	mu   sync.Mutex
	dst  module.DeliveryTarget
	recs []*dsnRec
	// yield events (all goroutines) counted while the destination's Body and
	// Commit ran on behalf of the reporting queue's dispatch goroutine: the
	// instrumented synchronisation points of the report path (storeNewMessage
	// under whatever lock the tree takes, wheel.Add) are among them.
	yieldsInside uint64
}

var tapSeq atomic.Int64

func newTap(caseIdx int) *dsnTap {
	// unique per execution: under replay one case is executed many times in one process
	return &dsnTap{name: fmt.Sprintf("c12tap-%d-%d", caseIdx, tapSeq.Add(1))}
}

func (t *dsnTap) Name() string           { return "verif_c12_tap" }
func (t *dsnTap) InstanceName() string   { return t.name }
func (t *dsnTap) Init(*config.Map) error { return nil }

func (t *dsnTap) bind(dst module.DeliveryTarget) {
	t.mu.Lock()
	t.dst = dst
	t.mu.Unlock()
}

func (t *dsnTap) Start(ctx context.Context, msgMeta *module.MsgMetadata, mailFrom string) (module.Delivery, error) {
	rec := &dsnRec{ID: msgMeta.ID, WhileClosing: t.closing.Load()}
	t.mu.Lock()
	t.recs = append(t.recs, rec)
	dst := t.dst
	t.mu.Unlock()
	d, err := dst.Start(ctx, msgMeta, mailFrom)
	if err != nil {
		t.mu.Lock()
		rec.StartErr, rec.Done = err.Error(), true
		t.mu.Unlock()
		return nil, err
	}
	return &tapDelivery{t: t, rec: rec, d: d}, nil
}

type tapDelivery struct {
	t   *dsnTap
	rec *dsnRec
	d   module.Delivery
}

func (d *tapDelivery) AddRcpt(ctx context.Context, rcptTo string, opts smtp.RcptOptions) error {
	err := d.d.AddRcpt(ctx, rcptTo, opts)
	d.t.mu.Lock()
	if err == nil {
		d.rec.Rcpts = append(d.rec.Rcpts, rcptTo)
	} else {
		d.rec.RcptErr = err.Error()
	}
	d.t.mu.Unlock()
	return err
}

var (
	reDSNOrig = regexp.MustCompile(`(?mi)^X-Maddy-MsgID:[ \t]*(\S+)`)
	reDSNRcpt = regexp.MustCompile(`(?mi)^Final-Recipient:[ \t]*[^;\r\n]*;[ \t]*(\S+)`)
)

// reportSubject reads, from the delivery-status part of a report, which
// message and which of its recipients the report is about (only to link the
// report to the enqueued message; its content is C18's business).
func reportSubject(body buffer.Buffer) (orig string, failed []string) {
	rd, err := body.Open()
	if err != nil {
		return "", nil
	}
	defer rd.Close()
	b, err := io.ReadAll(io.LimitReader(rd, 1<<20))
	if err != nil {
		return "", nil
	}
	if m := reDSNOrig.FindSubmatch(b); m != nil {
		orig = string(m[1])
	}
	for _, m := range reDSNRcpt.FindAllSubmatch(b, -1) {
		failed = append(failed, string(m[1]))
	}
	return orig, failed
}

func (d *tapDelivery) Body(ctx context.Context, header textproto.Header, body buffer.Buffer) error {
	orig, failed := reportSubject(body)
	n0 := verifkit.YieldCount()
	err := d.d.Body(ctx, header, body)
	n1 := verifkit.YieldCount()
	d.t.mu.Lock()
	d.rec.Orig, d.rec.FailedRcpts = orig, failed
	d.t.yieldsInside += n1 - n0
	if err != nil {
		d.rec.BodyErr = err.Error()
	}
	d.t.mu.Unlock()
	return err
}

func (d *tapDelivery) Abort(ctx context.Context) error {
	err := d.d.Abort(ctx)
	d.t.mu.Lock()
	d.rec.Aborted, d.rec.Done = true, true
	d.t.mu.Unlock()
	return err
}

func (d *tapDelivery) Commit(ctx context.Context) error {
	n0 := verifkit.YieldCount()
	err := d.d.Commit(ctx)
	n1 := verifkit.YieldCount()
	d.t.mu.Lock()
	d.t.yieldsInside += n1 - n0
	if err != nil {
		d.rec.CommitErr = err.Error()
	} else {
		d.rec.Committed = true
	}
	d.rec.Done = true
	d.t.mu.Unlock()
	return err
}

func (t *dsnTap) snapshot() []dsnRec {
	if t == nil {
		return nil
	}
	t.mu.Lock()
	defer t.mu.Unlock()
	out := make([]dsnRec, 0, len(t.recs))
	for _, r := range t.recs {
		c := *r
		c.Rcpts = append([]string(nil), r.Rcpts...)
		c.FailedRcpts = append([]string(nil), r.FailedRcpts...)
		out = append(out, c)
	}
	return out
}

func (t *dsnTap) yields() uint64 {
	if t == nil {
		return 0
	}
	t.mu.Lock()
	defer t.mu.Unlock()
	return t.yieldsInside
}

func (t *dsnTap) len() int {
	if t == nil {
		return 0
	}
	t.mu.Lock()
	defer t.mu.Unlock()
	return len(t.recs)
}

// ---- one spool directory and what was committed to it ---------------------------

// spoolMsg is a message whose Commit into a queue returned nil: either
// enqueued by the harness or a report the queue under test enqueued itself.
type spoolMsg struct {
	ID     string
	Rcpts  []string
	Report bool
}

type spoolSite struct {
	Name    string // primary | second
	Dir     string
	Partial bool
	Msgs    []spoolMsg
	View    map[string]*msgView
	// filled by judge
	Files   map[string]bool
	Broken  []string
	Pending []string // "msg rcpt" without terminal outcome
}

// terminal reports whether the target log shows a terminal outcome for the
// recipient: delivered, or failed permanently.
func terminal(v *msgView, rcpt string) bool {
	if v == nil {
		return false
	}
	if v.AllPerm {
		return true
	}
	st := v.Rcpt[rcpt]
	return st != nil && (st.Delivered > 0 || st.PermFail)
}

func (s *spoolSite) readDir() {
	s.Files = map[string]bool{}
	s.Broken = nil
	if ents, err := os.ReadDir(s.Dir); err == nil {
		for _, e := range ents {
			s.Files[e.Name()] = true
			if strings.HasSuffix(e.Name(), ".meta_broken") {
				s.Broken = append(s.Broken, e.Name())
			}
		}
	}
}

// pendingOf lists the committed messages' recipients without a terminal
// outcome and returns, per message with such a recipient, the spool files
// that are missing.
func (s *spoolSite) pendingOf() (missing map[string][]string, reportsPending int) {
	s.Pending = nil
	pendingMsgs := map[string]bool{}
	for _, m := range s.Msgs {
		v := s.View[m.ID]
		for _, rc := range m.Rcpts {
			if terminal(v, rc) {
				continue
			}
			s.Pending = append(s.Pending, m.ID+" "+rc)
			if m.Report && !pendingMsgs[m.ID] {
				reportsPending++
			}
			pendingMsgs[m.ID] = true
		}
	}
	missing = map[string][]string{}
	for id := range pendingMsgs {
		for _, ext := range []string{".meta", ".header", ".body"} {
			if !s.Files[id+ext] {
				missing[id] = append(missing[id], ext)
			}
		}
	}
	return missing, reportsPending
}

// restart starts a fresh queue with an all-ok target on the directory and
// waits until it delivered every pending recipient. why != "" = not decided.
func (s *spoolSite) restart(t *testing.T, caseIdx int) (delivered int, why string, lg2 *mx.Log) {
	lg2 = mx.NewLog()
	tgt2 := mx.NewTarget(fmt.Sprintf("c12t2-%s-%d", s.Name, caseIdx), lg2)
	tgt2.Partial = s.Partial
	q2, err := queue.VerifNewQueue(queue.VerifOpts{Dir: s.Dir, Target: tgt2, MaxTries: 50, InitialRetryTime: 0, RetryTimeScale: 1, Parallelism: 4})
	if err != nil {
		t.Fatal(err)
	}
	deadline := time.Now().Add(currentWatchdog())
	var left []string
	for {
		v2 := viewOf(lg2)
		left = left[:0]
		for _, pr := range s.Pending {
			f := strings.Fields(pr)
			if v := v2[f[0]]; v == nil || v.Rcpt[f[1]] == nil || v.Rcpt[f[1]].Delivered == 0 {
				left = append(left, pr)
			}
		}
		if len(left) == 0 || time.Now().After(deadline) {
			break
		}
		time.Sleep(300 * time.Microsecond)
	}
	q2done := make(chan struct{})
	go func() { q2.Close(); close(q2done) }()
	if !waitDone(q2done) {
		why = "restarted queue did not close within the watchdog"
	} else if len(left) > 0 {
		// the restarted queue is closed: nothing is in flight or scheduled any more
		v2 := viewOf(lg2)
		var never []string
		for _, pr := range left {
			f := strings.Fields(pr)
			if v := v2[f[0]]; v == nil || v.Starts == 0 {
				never = append(never, pr)
			}
		}
		if len(never) > 0 && len(never) == len(left) {
			// never even attempted by the restarted queue although the files were there
			why = fmt.Sprintf("restarted queue (%s) did not attempt %v within the watchdog", s.Name, never)
		} else {
			why = fmt.Sprintf("restarted queue (%s) did not deliver %v within the watchdog", s.Name, left)
		}
	}
	return len(s.Pending) - len(left), why, lg2
}

// bouncePipelineText is the body of a `bounce { }` block that routes every
// report to the tap (which forwards to a queue or to the scripted target).
func bouncePipelineText(form int, inst string) string {
	if form == 0 {
		return "deliver_to &" + inst + "\n"
	}
	return "destination nowhere.invalid {\n    reject 550 5.0.0 \"not here\"\n}\ndefault_destination {\n    deliver_to &" + inst + "\n}\n"
}

// ---- a permanent failure is an outcome only through its report -------------------

// lostOutcome is a recipient that failed permanently and whose failure is
// recorded nowhere after the shutdown.
type lostOutcome struct {
	Msg, Rcpt, Cause, What string
	MetaTo                 []string
}

// judgeReported applies "never removes a spooled message without a terminal
// outcome" to recipients that failed permanently in a queue whose bounce
// pipeline delivers into a queue under test (the same or a second one). The
// permanent failure is an outcome somebody learns about only through the
// failure report, so it counts as the terminal outcome of the recipient when
// the report was accepted by the bounce destination (Commit returned nil: the
// report is then a committed message of that queue and judged as such by the
// spool oracle); otherwise the message has to be still in the spool with the
// recipient among those to be tried. On the unchanged tree a queue never
// refuses an enqueue (Start/AddRcpt/Commit cannot fail, Body only on I/O
// errors), stopped or not: the report is spooled and the restart delivers it.
// A refusal by a scripted bounce target (layout script) is the environment's
// doing and not judged.
func judgeReported(sc s2Scenario, outs map[string]s2Outcome, view map[string]*msgView, recs []dsnRec, primary *spoolSite) (judged, viaReport, unlinked int, lost []lostOutcome) {
	refusedUnlinked := false
	for _, rec := range recs {
		if rec.Orig == "" && (rec.Committed || rec.CommitErr != "" || rec.BodyErr != "") {
			unlinked++ // the destination's Body was reached but the report does not say what it is about
		}
		if rec.Orig == "" && (rec.StartErr != "" || rec.RcptErr != "") {
			refusedUnlinked = true
		}
	}
	if unlinked > 0 {
		return 0, 0, unlinked, nil
	}
	for _, ms := range sc.Enqueuers {
		for _, m := range ms {
			v := view[m.ID]
			if !outs[m.ID].Committed || m.NullSender || v == nil {
				continue
			}
			var metaTo []string
			metaRead := false
			for _, rc := range m.Rcpts {
				st := v.Rcpt[rc]
				if st != nil && st.Delivered > 0 {
					continue
				}
				if !(v.AllPerm || (st != nil && st.PermFail)) {
					continue
				}
				judged++
				var refused *dsnRec
				accepted := false
				for i := range recs {
					rec := &recs[i]
					if rec.Orig != m.ID || !contains(rec.FailedRcpts, rc) {
						continue
					}
					if rec.Committed {
						accepted = true
					} else {
						refused = rec
					}
				}
				if accepted {
					viaReport++
					continue
				}
				if !metaRead {
					metaRead = true
					if primary.Files[m.ID+".meta"] && primary.Files[m.ID+".header"] && primary.Files[m.ID+".body"] {
						metaTo = metaToOf(primary.Dir, m.ID)
					}
				}
				if contains(metaTo, rc) {
					continue // still spooled, the restart retries it
				}
				l := lostOutcome{Msg: m.ID, Rcpt: rc, MetaTo: metaTo}
				switch {
				case refused != nil:
					l.Cause = "report-refused-by-queue"
					l.What = fmt.Sprintf("the report about it (%s) was handed to the bounce pipeline, which delivers into a queue, and that queue refused it (start %q, rcpt %q, body %q, commit %q)", refused.ID, refused.StartErr, refused.RcptErr, refused.BodyErr, refused.CommitErr)
				case refusedUnlinked:
					l.Cause = "report-refused-by-queue"
					l.What = "a report was refused by the queue the bounce pipeline delivers into before its content was handed over"
				default:
					l.Cause = "no-report"
					l.What = "no report about it was handed to the bounce pipeline"
				}
				lost = append(lost, l)
			}
		}
	}
	return judged, viaReport, 0, lost
}

func contains(l []string, s string) bool {
	for _, x := range l {
		if x == s {
			return true
		}
	}
	return false
}

// metaToOf reads the recipients still to be tried from a spooled message's meta-data.
func metaToOf(dir, id string) []string {
	b, err := os.ReadFile(filepath.Join(dir, id+".meta"))
	if err != nil {
		return nil
	}
	var meta struct{ To []string }
	if json.Unmarshal(b, &meta) != nil {
		return nil
	}
	return meta.To
}
