//go:build verif

package c12

import (
	"context"
	"encoding/json"
	"fmt"
	"math"
	"os"
	"path/filepath"
	"sort"
	"strings"
	"sync"
	"testing"
	"time"

	"github.com/emersion/go-message/textproto"
	"github.com/emersion/go-smtp"
	"github.com/foxcpp/maddy/framework/buffer"
	"github.com/foxcpp/maddy/framework/log"
	"github.com/foxcpp/maddy/framework/module"
	"github.com/foxcpp/maddy/internal/target/queue"
	"github.com/foxcpp/maddy/internal/zzverif/mx"
	"verifkit"
	"verifkit/prng"
	"verifkit/rep"
)

// ---- S3: the retry schedule, in the running queue and across a restart ---------
//
// "Every retry [the queue] schedules is dispatched ... not before its scheduled
// time", and a shutdown leaves a spooled message "so that a restart picks it
// up": the retry a queue scheduled before it was shut down is still a scheduled
// retry of that message when the restarted queue loads it. S2 runs with retry
// scale 1 and restarts with delay 0, so the two places that compute the retry
// time (tryDelivery for the running queue, readDiskQueue for the restart) were
// never compared. S3 runs the real queue with growing retry delays
// (initial_retry_time 24-40 ms, retry_time_scale 1.25 / 1.5 / 2 / 1), lets
// messages fail temporarily 1-3 times, shuts the queue down once the retry is
// scheduled (or while the failing attempt is still in flight), and starts a
// queue with the same settings on the directory BEFORE the retry is due
// (optionally twice).
//
// The scheduled time is observed, not recomputed: the queue reports every
// retry it schedules ("will retry", next_try_delay = scheduled time - now), and
// the harness records the last call the target saw of the failed attempt
// (tLast, taken before the queue reads the clock for the schedule). So
// scheduled time >= tLast + next_try_delay, and an attempt that starts before
// tLast + next_try_delay started before its scheduled time. All instants are
// time.Now() readings; a retry is early only if it is early on the monotonic
// AND on the wall clock (the running queue's timer follows the monotonic
// clock, a restarted queue computes from the wall-clock time in the meta-data
// file). No time budget is involved anywhere.

const baseS3 = 6_000_000

type s3Scenario struct {
	InitialMs     int     `json:"initial_retry_ms"`
	Scale         float64 `json:"retry_scale"`
	PostInitMs    int     `json:"post_init_delay_ms"`
	Partial       bool    `json:"partial"`
	Parallelism   int     `json:"parallelism"`
	Msgs          []s2Msg `json:"msgs"`            // Faults[a-1]: temporary failure of recipient 0 (at least) in attempt a of the first queue
	Focus         int     `json:"focus"`           // index into Msgs
	FocusN        int     `json:"focus_n"`         // the queue is shut down when the focus message's FocusN-th retry is scheduled ...
	CloseInFlight bool    `json:"close_in_flight"` // ... or while its FocusN-th attempt is in flight (the retry is scheduled during the shutdown)
	Restarts      int     `json:"restarts"`        // 1-2 queues started on the directory; all but the last are closed at once
	FailAgain     bool    `json:"fail_again"`      // the first attempt after the restart fails temporarily as well
	Late          bool    `json:"late"`            // one more message is committed while the shutdown starts (possibly never attempted before the restart)
}

func genS3(p *prng.R, idx int) s3Scenario {
	var sc s3Scenario
	sc.Scale = prng.Pick(p, []float64{1.25, 1.25, 1.25, 1.5, 1.5, 2, 2, 1})
	sc.InitialMs = prng.Pick(p, []int{24, 32, 40})
	sc.PostInitMs = prng.Pick(p, []int{0, 0, 0, 5})
	sc.Partial = p.Bool()
	sc.Parallelism = p.Range(1, 3)
	sc.FocusN = 1 + p.Weighted([]int{1, 4, 3})
	nm := p.Range(1, 3)
	for k := 0; k < nm; k++ {
		m := s2Msg{ID: fmt.Sprintf("c%dm%d", idx, k+1)}
		for j, nr := 0, p.Range(1, 3); j < nr; j++ {
			m.Rcpts = append(m.Rcpts, fmt.Sprintf("r%d@m%d.example.org", j, k+1))
		}
		// every attempt of the first queue fails temporarily for recipient 0 at
		// least; "one" kinds let the other recipients through (delivered), so that
		// recipients of one message have different try counts
		for a := 0; a < 8; a++ {
			kinds := []string{"start", "rcptall", "rcpt0", "rcpt0", "body", "commit"}
			if sc.Partial {
				kinds = append(kinds, "status0", "status0")
			}
			f := s2Fault{Class: mx.Temp, Rcpt: -1, Var: p.Intn(3)}
			switch prng.Pick(p, kinds) {
			case "start":
				f.Stage = mx.StStart
			case "rcptall":
				f.Stage = mx.StRcpt
			case "rcpt0":
				f.Stage, f.Rcpt = mx.StRcpt, 0
			case "body":
				f.Stage = mx.StBody
			case "commit":
				f.Stage = mx.StCommit
			case "status0":
				f.Stage, f.Rcpt = mx.StStatus, 0
			}
			m.Faults = append(m.Faults, []s2Fault{f})
		}
		sc.Msgs = append(sc.Msgs, m)
	}
	sc.Focus = p.Intn(nm)
	sc.CloseInFlight = p.Chance(1, 3)
	sc.Restarts = 1
	if p.Chance(1, 3) {
		sc.Restarts = 2
	}
	sc.FailAgain = sc.FocusN <= 2 && p.Chance(1, 3)
	sc.Late = p.Chance(1, 3)
	return sc
}

func (sc s3Scenario) shape() string {
	var f []string
	for _, m := range sc.Msgs {
		s := fmt.Sprintf("%d:", len(m.Rcpts))
		for a := 0; a < sc.FocusN && a < len(m.Faults); a++ {
			x := m.Faults[a][0]
			s += fmt.Sprintf("%s%d.", x.Stage[:2], x.Rcpt)
		}
		f = append(f, s)
	}
	return fmt.Sprintf("S3 init=%d scale=%v post=%d partial=%v par=%d n=%d inflight=%v restarts=%d again=%v late=%v msgs=%s", sc.InitialMs, sc.Scale, sc.PostInitMs, sc.Partial, sc.Parallelism,
		sc.FocusN, sc.CloseInFlight, sc.Restarts, sc.FailAgain, sc.Late, strings.Join(f, ","))
}

// s3Att is one delivery attempt the target saw.
type s3Att struct {
	Gen   int       `json:"queue_generation"` // 0 = the first queue, 1.. = restarted queues
	N     int       `json:"n"`                // n-th attempt of the message on that queue's target
	Start time.Time `json:"start"`
	Last  time.Time `json:"last_call"`
}

// s3Sched is one retry the queue reported to have scheduled.
type s3Sched struct {
	Gen    int            `json:"queue_generation"`
	Msg    string         `json:"msg"`
	Delay  time.Duration  `json:"next_try_delay"`
	Counts map[string]int `json:"attempts_count"`
	Rcpts  []string       `json:"rcpts"`
	At     time.Time      `json:"logged_at"`
	Line   string         `json:"line"`
}

type s3Mon struct {
	sc s3Scenario

	mu       sync.Mutex
	msgs     map[string]*s2Msg
	atts     map[string][]*s3Att
	scheds   map[string][]s3Sched
	unparsed []string
	after    map[string]int // attempts seen by restarted queues, per message
	events   int

	focusID   string
	trig      chan struct{} // closed when the closer's trigger is reached
	trigOnce  sync.Once
	gate      chan struct{} // closed to release the held attempt
	gateOnce  sync.Once
	holdGuard bool
}

func newS3Mon(sc s3Scenario) *s3Mon {
	m := &s3Mon{sc: sc, msgs: map[string]*s2Msg{}, atts: map[string][]*s3Att{}, scheds: map[string][]s3Sched{}, after: map[string]int{},
		trig: make(chan struct{}), gate: make(chan struct{})}
	for i := range sc.Msgs {
		m.msgs[sc.Msgs[i].ID] = &sc.Msgs[i]
	}
	m.focusID = sc.Msgs[sc.Focus].ID
	return m
}

func (m *s3Mon) fire()     { m.trigOnce.Do(func() { close(m.trig) }) }
func (m *s3Mon) openGate() { m.gateOnce.Do(func() { close(m.gate) }) }

func (m *s3Mon) progress() int {
	m.mu.Lock()
	defer m.mu.Unlock()
	return m.events
}

// hook is the target's Hook of queue generation gen.
func (m *s3Mon) hook(gen int) func(mx.Point) {
	return func(pt mx.Point) {
		now := time.Now()
		b := baseID(pt.MsgID)
		hold := false
		m.mu.Lock()
		m.events++
		if pt.Stage == mx.StStart {
			m.atts[b] = append(m.atts[b], &s3Att{Gen: gen, N: pt.Attempt, Start: now, Last: now})
			if gen > 0 {
				m.after[b]++
			}
			hold = gen == 0 && m.sc.CloseInFlight && b == m.focusID && pt.Attempt == m.sc.FocusN
		} else if l := m.atts[b]; len(l) > 0 && l[len(l)-1].Gen == gen {
			l[len(l)-1].Last = now
		}
		m.mu.Unlock()
		if hold {
			m.fire() // the attempt is in flight: the closer calls Queue.Close and then opens the gate
			t := time.NewTimer(2 * watchdog)
			select {
			case <-m.gate:
			case <-t.C:
				m.mu.Lock()
				m.holdGuard = true
				m.mu.Unlock()
			}
			t.Stop()
		}
	}
}

// script is the target's Script of queue generation gen.
func (m *s3Mon) script(gen int) func(mx.Point) error {
	return func(pt mx.Point) error {
		b := baseID(pt.MsgID)
		m.mu.Lock()
		msg := m.msgs[b]
		after := m.after[b]
		m.mu.Unlock()
		if msg == nil {
			return nil // the late message: no faults
		}
		if gen > 0 {
			if m.sc.FailAgain && after == 1 && pt.Stage == mx.StStart {
				return mx.MakeErr(mx.Temp, len(b), "c12 s3 again")
			}
			return nil
		}
		if pt.Attempt < 1 || pt.Attempt > len(msg.Faults) {
			return nil
		}
		for _, f := range msg.Faults[pt.Attempt-1] {
			if f.Stage != pt.Stage {
				continue
			}
			if f.Rcpt >= 0 && (f.Rcpt >= len(msg.Rcpts) || msg.Rcpts[f.Rcpt] != pt.Rcpt) {
				continue
			}
			return mx.MakeErr(f.Class, f.Var, "c12 s3")
		}
		return nil
	}
}

// logOut receives the log of queue generation gen and keeps the retries it
// reports to have scheduled.
func (m *s3Mon) logOut(gen int) log.Output {
	return log.FuncOutput(func(_ time.Time, _ bool, s string) {
		k := strings.Index(s, "will retry\t")
		if k < 0 {
			return
		}
		now := time.Now()
		var f struct {
			Msg    string         `json:"msg_id"`
			Delay  string         `json:"next_try_delay"`
			Counts map[string]int `json:"attempts_count"`
			Rcpts  []string       `json:"rcpts"`
		}
		err := json.Unmarshal([]byte(s[k+len("will retry\t"):]), &f)
		d, derr := time.ParseDuration(f.Delay)
		m.mu.Lock()
		m.events++
		if err != nil || derr != nil || f.Msg == "" {
			if len(m.unparsed) < 8 {
				m.unparsed = append(m.unparsed, s)
			}
			m.mu.Unlock()
			return
		}
		m.scheds[f.Msg] = append(m.scheds[f.Msg], s3Sched{Gen: gen, Msg: f.Msg, Delay: d, Counts: f.Counts, Rcpts: f.Rcpts, At: now, Line: s})
		fire := gen == 0 && !m.sc.CloseInFlight && f.Msg == m.focusID && len(m.scheds[f.Msg]) == m.sc.FocusN
		m.mu.Unlock()
		if fire {
			m.fire()
		}
	}, func() error { return nil })
}

func runS3(t *testing.T, r *rep.Reporter, ys yieldStats) {
	n := r.N(420, 8000)
	for i := 0; i < n; i++ {
		idx := baseS3 + i
		r.Run(idx, fmt.Sprintf("s3-%d", i), func(c *rep.Case) {
			onReplayRepeat(r, c, 20, func() {
				p := prng.New(r.Seed(), uint64(idx), "c12/s3")
				s3Case(t, c, r, ys, p, genS3(p, idx), stressPlan(p))
			})
		})
	}
}

// monoWall returns b-a on the monotonic and on the wall clock.
func monoWall(a, b time.Time) (mono, wall time.Duration) {
	return b.Sub(a), b.Round(0).Sub(a.Round(0))
}

func s3Case(t *testing.T, c *rep.Case, r *rep.Reporter, ys yieldStats, p *prng.R, sc s3Scenario, plan planSpec) {
	dir, err := os.MkdirTemp("", "c12s3")
	if err != nil {
		t.Fatal(err)
	}
	defer os.RemoveAll(dir)
	globalLog.take()
	plan.install(p.Uint64())

	mon := newS3Mon(sc)
	var logs []*mx.Log
	newQueue := func(gen int) *queue.Queue {
		lg := mx.NewLog()
		logs = append(logs, lg)
		tgt := mx.NewTarget(fmt.Sprintf("c12s3-%d-g%d", c.Index, gen), lg)
		tgt.Partial = sc.Partial
		tgt.Hook = mon.hook(gen)
		tgt.Script = mon.script(gen)
		q, err := queue.VerifNewQueue(queue.VerifOpts{Dir: dir, Target: tgt, MaxTries: 50,
			InitialRetryTime: time.Duration(sc.InitialMs) * time.Millisecond, RetryTimeScale: sc.Scale, PostInitDelay: time.Duration(sc.PostInitMs) * time.Millisecond,
			Parallelism: sc.Parallelism, Log: &log.Logger{Out: mon.logOut(gen), Name: "queue"}})
		if err != nil {
			t.Fatal(err)
		}
		return q
	}
	progress := func() int {
		n := mon.progress()
		for _, lg := range logs {
			n += lg.Len()
		}
		return n
	}
	wit := func(extra map[string]any) map[string]any {
		mon.mu.Lock()
		ac := map[string][]s3Att{}
		for id, l := range mon.atts {
			for _, a := range l {
				ac[id] = append(ac[id], *a)
			}
		}
		scd := map[string][]s3Sched{}
		for id, l := range mon.scheds {
			scd[id] = append([]s3Sched(nil), l...)
		}
		mon.mu.Unlock()
		w := map[string]any{"scenario": sc, "plan": plan, "attempts": ac, "retries_scheduled": scd}
		for g, lg := range logs {
			w[fmt.Sprintf("target_log_generation_%d", g)] = tail(lg.Strings(0), 60)
		}
		for k, v := range extra {
			w[k] = v
		}
		return w
	}
	enqueue := func(q *queue.Queue, id string, rcpts []string) (committed bool) {
		defer func() {
			if v := recover(); v != nil {
				committed = false // panics of the enqueue path are S2's business
			}
		}()
		ctx := context.Background()
		d, err := q.Start(ctx, &module.MsgMetadata{ID: id, OriginalFrom: "s@example.org"}, "s@example.org")
		if err != nil {
			return false
		}
		for _, rc := range rcpts {
			d.AddRcpt(ctx, rc, smtp.RcptOptions{})
		}
		hdr := textproto.Header{}
		hdr.Add("Subject", "c12 "+id)
		if err := d.Body(ctx, hdr, buffer.MemoryBuffer{Slice: []byte("body of " + id + "\r\n")}); err != nil {
			return false
		}
		return d.Commit(ctx) == nil
	}

	undecided := ""
	finish := func(att int, hits int) {
		if undecided != "" {
			c.Inconclusive(undecided)
		}
		r.Count("s3_runs", 1)
		c.Done(sc.shape()+" "+plan.String(), att >= 2)
	}

	// ---- the first queue ----
	q0 := newQueue(0)
	committed := map[string][]string{}
	for _, m := range sc.Msgs {
		if enqueue(q0, m.ID, m.Rcpts) {
			committed[m.ID] = m.Rcpts
		}
	}
	if !waitDone(mon.trig) {
		undecided = "closer trigger (retry scheduled / attempt in flight) not reached within the watchdog"
	}
	lateID := fmt.Sprintf("c%dlate", c.Index)
	lateDone := make(chan struct{})
	go func() {
		defer close(lateDone)
		if sc.Late && enqueue(q0, lateID, []string{"r0@late.example.org"}) {
			mon.mu.Lock()
			committed[lateID] = []string{"r0@late.example.org"}
			mon.mu.Unlock()
		}
	}()
	closeCalled := time.Now()
	closeQueue := func(q *queue.Queue) bool {
		done := make(chan struct{})
		go func() {
			defer func() { recover(); close(done) }() // a panic in Close is S2's business
			q.Close()
		}()
		return waitDone(done)
	}
	go func() {
		// the held attempt finishes while Close is running
		n := verifkit.YieldCount()
		for i := 0; i < 40 && verifkit.YieldCount() < n+4; i++ {
			time.Sleep(50 * time.Microsecond)
		}
		mon.openGate()
	}()
	if !closeQueue(q0) {
		mon.openGate()
		if undecided == "" {
			undecided = "Queue.Close of the first queue did not return within the watchdog"
		}
		ys.collect("s3", plan)
		finish(0, 0)
		return
	}
	mon.openGate()
	if !waitDone(lateDone) && undecided == "" {
		undecided = "late enqueue did not return within the watchdog"
	}
	hits := ys.collect("s3", plan)

	// ---- what is pending, and what the spool says about it ----
	mon.mu.Lock()
	comm := map[string][]string{}
	for k, v := range committed {
		comm[k] = v
	}
	guard := mon.holdGuard
	mon.mu.Unlock()
	if guard && undecided == "" {
		undecided = "harness hold guard expired"
	}
	view0 := viewOf(logs[0])
	for _, v := range view0 {
		if v.Open > 0 && undecided == "" {
			undecided = "Queue.Close returned while an attempt was still in flight"
		}
	}
	type pend struct {
		Rcpts []string
		Stale bool // the meta-data lists a try count for a recipient that is not to be tried any more, smaller than those of the recipients to be tried
	}
	pending := map[string]*pend{}
	var ids []string
	for id := range comm {
		ids = append(ids, id)
	}
	sort.Strings(ids)
	for _, id := range ids {
		var left []string
		for _, rc := range comm[id] {
			if !terminal(view0[id], rc) {
				left = append(left, rc)
			}
		}
		if len(left) == 0 {
			continue
		}
		var miss []string
		for _, ext := range []string{".meta", ".header", ".body"} {
			if _, err := os.Stat(filepath.Join(dir, id+ext)); err != nil {
				miss = append(miss, ext)
			}
		}
		if len(miss) > 0 && undecided == "" {
			c.Violation("S3/removed-without-terminal-outcome/"+strings.Join(miss, ""), fmt.Sprintf("message %s was committed, recipients %v have no terminal outcome, and after shutdown its %v file(s) are gone", id, left, miss), wit(nil))
			continue
		}
		pd := &pend{Rcpts: left}
		var meta struct {
			To         []string
			TriesCount map[string]int
		}
		if b, err := os.ReadFile(filepath.Join(dir, id+".meta")); err == nil && json.Unmarshal(b, &meta) == nil {
			minTo, minOther := math.MaxInt, math.MaxInt
			for rc, n := range meta.TriesCount {
				if contains(meta.To, rc) {
					if n < minTo {
						minTo = n
					}
				} else if n < minOther {
					minOther = n
				}
			}
			pd.Stale = minOther < minTo
		}
		pending[id] = pd
	}
	if c.Violated() || undecided != "" {
		finish(0, hits)
		return
	}

	// ---- restart(s) with the same settings, before the retry is due ----
	verifkit.ResetYield()
	var ready []time.Time // ready[g-1]: queue generation g finished loading the spool
	delivered := func() (left []string) {
		got := map[string]bool{}
		for _, lg := range logs[1:] {
			for id, v := range viewOf(lg) {
				for rc, st := range v.Rcpt {
					if st.Delivered > 0 {
						got[id+" "+rc] = true
					}
				}
			}
		}
		for id, pd := range pending {
			for _, rc := range pd.Rcpts {
				if !got[id+" "+rc] {
					left = append(left, id+" "+rc)
				}
			}
		}
		sort.Strings(left)
		return left
	}
	for g := 1; g <= sc.Restarts; g++ {
		q := newQueue(g)
		ready = append(ready, time.Now())
		if g == sc.Restarts {
			deadline := time.Now().Add(watchdog)
			var left []string
			for {
				if left = delivered(); len(left) == 0 || time.Now().After(deadline) {
					break
				}
				time.Sleep(time.Millisecond)
			}
			if len(left) > 0 {
				parked, dump := stuckAnalysis("internal/target/queue.", "queue.(*TimeWheel).tick", progress)
				if parked {
					c.Violation("S3/retry-never-dispatched-after-restart", fmt.Sprintf("the restarted queue loaded the spool, every goroutine of the queue is parked and %v have not been delivered although the retry delays are a few hundred milliseconds at most", left), wit(map[string]any{"goroutines": dump}))
				} else {
					undecided = fmt.Sprintf("restarted queue did not deliver %v within the watchdog", left)
				}
			}
		}
		if !closeQueue(q) {
			if undecided == "" {
				undecided = "Queue.Close of a restarted queue did not return within the watchdog"
			}
			break
		}
	}

	// ---- judgement ----
	mon.mu.Lock()
	atts := map[string][]s3Att{}
	natt := 0
	for id, l := range mon.atts {
		for _, a := range l {
			atts[id] = append(atts[id], *a)
			natt++
		}
	}
	scheds := map[string][]s3Sched{}
	nsched := 0
	for id, l := range mon.scheds {
		scheds[id] = append([]s3Sched(nil), l...)
		nsched += len(l)
	}
	unparsed := append([]string(nil), mon.unparsed...)
	mon.mu.Unlock()
	if len(unparsed) > 0 && undecided == "" {
		undecided = "a 'will retry' line of the queue could not be read: " + unparsed[0]
	}
	views := make([]map[string]*msgView, len(logs))
	for g, lg := range logs {
		views[g] = viewOf(lg)
		for id, v := range views[g] {
			if v.Starts > 1+v.TempRounds {
				c.Violation("S3/dispatched-more-than-once", fmt.Sprintf("queue generation %d: message %s had %d attempts although only the commit/load and %d temporary failures scheduled one", g, id, v.Starts, v.TempRounds), wit(nil))
			}
		}
	}
	var judgedRun, judgedRestart, beforeDue, nonInt, stale, whileClosing, neverTried int
	for id, pd := range pending {
		if len(atts[id]) == 0 || atts[id][0].Gen > 0 {
			neverTried++
		}
		_ = pd
	}
	for id, sl := range scheds {
		al := atts[id]
		// pair the i-th scheduled retry with the i-th attempt: every attempt
		// but the last one of a message fails temporarily (script), the queue
		// reports exactly one retry per such attempt
		want := 0
		for _, v := range views {
			if v[id] != nil {
				want += v[id].TempRounds
			}
		}
		if len(sl) != want || len(al) < len(sl) || len(al) > len(sl)+1 {
			if undecided == "" {
				undecided = fmt.Sprintf("message %s: %d retries reported, %d attempts, %d attempts with a temporary failure: cannot pair them", id, len(sl), len(al), want)
			}
			continue
		}
		for i, s := range sl {
			if s.Gen != al[i].Gen {
				if undecided == "" {
					undecided = fmt.Sprintf("message %s: retry %d was reported by queue generation %d, attempt %d ran in generation %d", id, i+1, s.Gen, i+1, al[i].Gen)
				}
				break
			}
			if s.Gen == 0 && s.At.After(closeCalled) {
				whileClosing++
			}
			if i+1 >= len(al) {
				continue
			}
			mono, wall := monoWall(al[i].Last, al[i+1].Start)
			across := al[i+1].Gen != al[i].Gen
			kind := "running-queue"
			if across {
				kind = "after-restart"
				judgedRestart++
				if rm, _ := monoWall(al[i].Last, ready[al[i+1].Gen-1]); rm < s.Delay {
					beforeDue++
					n := math.MaxInt
					for _, rc := range s.Rcpts {
						if k := s.Counts[rc]; k < n {
							n = k
						}
					}
					if f := math.Pow(sc.Scale, float64(n-1)); n >= 1 && n < 64 && f != math.Floor(f) {
						nonInt++
					}
				}
			} else {
				judgedRun++
			}
			if mono >= s.Delay || wall >= s.Delay {
				continue
			}
			if across && pending[id] != nil && pending[id].Stale {
				// NOT JUDGED for now, suspected defect of the unchanged tree (see
				// NOTES.md, "stale try count"): readDiskQueue takes the smallest try
				// count over ALL entries of TriesCount, tryDelivery over the recipients
				// still to be tried; a recipient delivered after an earlier temporary
				// failure keeps its entry, so the restarted queue uses a smaller exponent.
				stale++
				// (judged since fix 3rd-session "queue: drop the try counter of a delivered
				// recipient"; C12_JUDGE_STALE=0 restores the exclusion for comparisons)
				if os.Getenv("C12_JUDGE_STALE") == "0" {
					continue
				}
				kind = "after-restart-stale-try-count"
			}
			c.Violation("S3/retry-dispatched-early/"+kind, fmt.Sprintf("message %s: the queue scheduled the retry after attempt %d for %v after that attempt (%s), attempt %d started %v (monotonic clock; %v wall clock) after the previous attempt's last call, i.e. at least %v before its scheduled time",
				id, i+1, s.Delay, strings.TrimSpace(s.Line), i+2, mono, wall, s.Delay-maxDur(mono, wall)), wit(map[string]any{"spool_meta_stale_try_count": pending[id] != nil && pending[id].Stale}))
			break
		}
	}
	r.Count("s3_attempts", int64(natt))
	r.Count("s3_retry_schedules_observed", int64(nsched))
	r.Count("s3_retries_judged_running_queue", int64(judgedRun))
	r.Count("s3_retries_judged_across_restart", int64(judgedRestart))
	r.Count("s3_restarts_before_scheduled_time", int64(beforeDue))
	r.Count("s3_restarts_before_scheduled_time_noninteger_factor", int64(nonInt))
	r.Count("s3_early_after_restart_with_stale_try_count_not_judged", int64(stale))
	r.Count("s3_retries_scheduled_while_closing", int64(whileClosing))
	r.Count("s3_never_attempted_messages_loaded_by_restart", int64(neverTried))
	r.Count("s3_messages_pending_at_shutdown", int64(len(pending)))
	if sc.Restarts > 1 {
		r.Count("s3_runs_two_restarts", 1)
	}
	for _, pd := range pending {
		if pd.Stale {
			r.Count("s3_pending_with_stale_try_count", 1)
		}
	}
	if c.Index%97 == 0 {
		r.Sample(map[string]any{"scenario": sc, "plan": plan.String(), "retries_scheduled": scheds})
	}
	finish(natt, hits)
}

func maxDur(a, b time.Duration) time.Duration {
	if a > b {
		return a
	}
	return b
}
