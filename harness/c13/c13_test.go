//go:build verif

// C13 — DANE authentication accepts only a matching TLSA record and fails closed.
//
// Runtime monitor over verifyDANE (internal/target/remote/dane.go): every
// generated (TLSA multiset, TLS connection state) is handed to the real
// function and its (overridePKIX, err) result is compared with a reference
// verdict written from the property statement: own digest code (SHA-256 /
// SHA-512 / exact bytes over the certificate DER or its SPKI) and crypto/x509
// as the trusted base for "validly chains for the MX host name".
// See DESIGN.md section 5, C13 and NOTES.md.
package c13

import (
	"crypto/sha256"
	"crypto/sha512"
	"crypto/tls"
	"crypto/x509"
	"encoding/hex"
	"fmt"
	"runtime/debug"
	"sort"
	"strings"
	"testing"
	"time"

	"github.com/foxcpp/maddy/internal/target/remote"
	miekgdns "github.com/miekg/dns"
	"verifkit/certs"
	"verifkit/prng"
	"verifkit/rep"
)

const mxName = "mx.example.invalid"

// ---------------------------------------------------------------- certificates

type world struct {
	now      time.Time
	root     *x509.Certificate
	inter    *x509.Certificate
	otherCA  *x509.Certificate
	stranger *x509.Certificate // never presented: "matches nothing", well-formed
	states   []*state
	// nBase: states[:nBase] are the connection states of the property's
	// quantifier; states[nBase:] the "unrelated CA appended" / "PKIX verified by
	// the client" variants (exhaustive in groups A, B; in a part of the batches
	// of group C).
	nBase int
	// fat: further association-data sources for data classes >= dFatBase (group J,
	// e2ez_test.go): never-presented certificates of growing size, so that an
	// RRset of at most four records exceeds 512 / 1232 / 4096 bytes on the wire.
	// nil in the direct groups (those classes are not part of allKinds).
	fat map[int]*x509.Certificate
}

// state is one TLS connection state handed to verifyDANE.
type state struct {
	id       int
	name     string
	leafKind string // cause class used in signatures
	hs       bool
	host     string // MX host name the chain is judged for ("" = mxName)
	chain    []*x509.Certificate
	// chainsTo[i] caches: the leaf validly chains (crypto/x509, name, time) to
	// chain[i] used as the only trust anchor. 0 unknown, 1 yes, 2 no.
	chainsTo []int8
	// verified is what crypto/tls puts into ConnectionState.VerifiedChains when
	// the CLIENT's own PKIX verification of the presented chain succeeded (the
	// client trusts the hierarchy's real root): the result of a real x509
	// verification, never hand-made. nil: the client does not trust the chain
	// (maddy then reconnects with InsecureSkipVerify) - crypto/tls leaves the
	// field empty. The statement does not mention the client's PKIX verdict, so
	// the reference ignores it.
	verified [][]*x509.Certificate
	// appended: a CA certificate that has nothing to do with the server
	// certificate is part of the presented chain.
	appended bool
}

func buildWorld() *world {
	w := &world{now: time.Now()}
	root := certs.NewCA("verif root")
	inter := root.Intermediate("verif intermediate")
	other := certs.NewCA("verif unrelated CA")
	leaf := inter.Leaf(certs.LeafOpts{DNSNames: []string{mxName}})
	expired := inter.Leaf(certs.LeafOpts{DNSNames: []string{mxName}, NotAfter: w.now.Add(-48 * time.Hour)})
	wrong := inter.Leaf(certs.LeafOpts{DNSNames: []string{"other.example.invalid"}})
	caLeaf := inter.Leaf(certs.LeafOpts{DNSNames: []string{mxName}, IsCA: true})
	self := certs.SelfSigned(certs.LeafOpts{DNSNames: []string{mxName}})
	selfCA := certs.SelfSigned(certs.LeafOpts{DNSNames: []string{mxName}, IsCA: true})
	stranger := other.Leaf(certs.LeafOpts{DNSNames: []string{mxName}})
	w.root, w.inter, w.otherCA, w.stranger = root.Cert, inter.Cert, other.Cert, stranger.Cert
	add := func(name, kind string, hs bool, chain ...*x509.Certificate) {
		w.states = append(w.states, &state{id: len(w.states), name: name, leafKind: kind, hs: hs, chain: chain, chainsTo: make([]int8, len(chain))})
	}
	add("no-handshake", "none", false)
	add("leaf", "ok", true, leaf.Cert)
	add("leaf+int", "ok", true, leaf.Cert, inter.Cert)
	add("leaf+int+root", "ok", true, leaf.Cert, inter.Cert, root.Cert)
	add("leaf+root", "ok", true, leaf.Cert, root.Cert)
	add("leaf+int+unrelatedCA", "ok", true, leaf.Cert, inter.Cert, other.Cert)
	add("expired+int+root", "expired", true, expired.Cert, inter.Cert, root.Cert)
	add("expired", "expired", true, expired.Cert)
	add("wrongname+int+root", "wrong-name", true, wrong.Cert, inter.Cert, root.Cert)
	add("caleaf+int+root", "ca-leaf", true, caLeaf.Cert, inter.Cert, root.Cert)
	add("selfsigned", "self-signed", true, self.Cert)
	add("selfsigned-ca", "self-signed-ca", true, selfCA.Cert)

	// Presented chains with an UNRELATED CA certificate appended or inserted
	// (a server may send any certificates it likes; a TLSA "2 x y" record for
	// such a CA must not authenticate a leaf that does not chain to it), for
	// leaves issued by the intermediate, directly by the root (rootleaf), and
	// for leaves that are not valid for the MX.
	rootLeaf := root.Leaf(certs.LeafOpts{DNSNames: []string{mxName}})
	first := len(w.states)
	w.nBase = first
	add("leaf+unrelatedCA", "ok", true, leaf.Cert, other.Cert)
	add("leaf+unrelatedCA+int", "ok", true, leaf.Cert, other.Cert, inter.Cert)
	add("rootleaf", "ok", true, rootLeaf.Cert)
	add("rootleaf+unrelatedCA", "ok", true, rootLeaf.Cert, other.Cert)
	add("expired+int+unrelatedCA", "expired", true, expired.Cert, inter.Cert, other.Cert)
	add("wrongname+unrelatedCA", "wrong-name", true, wrong.Cert, other.Cert)
	for _, st := range w.states[first:] {
		st.appended = st.name != "rootleaf"
	}
	for _, st := range w.states {
		if st.name == "leaf+int+unrelatedCA" {
			st.appended = true
		}
	}

	// The same presented chains as seen by a client whose own PKIX verification
	// SUCCEEDED (it trusts the hierarchy's root; first connection attempt of
	// remote.connect): ConnectionState.VerifiedChains is populated exactly the
	// way crypto/tls does it - Verify(Roots = client pool, Intermediates =
	// presented[1:], DNSName = ServerName). A chain the client cannot verify
	// gets no such variant (crypto/tls would have failed the handshake).
	clientRoots := x509.NewCertPool()
	clientRoots.AddCert(root.Cert)
	for _, st := range append([]*state(nil), w.states...) {
		if !st.hs {
			continue
		}
		opts := x509.VerifyOptions{DNSName: mxName, Roots: clientRoots, Intermediates: x509.NewCertPool(), CurrentTime: w.now}
		for _, c := range st.chain[1:] {
			opts.Intermediates.AddCert(c)
		}
		vc, err := st.chain[0].Verify(opts)
		if err != nil || len(vc) == 0 {
			continue
		}
		add(st.name+"/pkix-verified", st.leafKind+"-pkix-verified", true, st.chain...)
		nst := w.states[len(w.states)-1]
		nst.verified, nst.appended = vc, st.appended
	}
	return w
}

// ---------------------------------------------------------------- records

const (
	dLeaf = iota
	dInter
	dRoot
	dOther
	dNothing
	dMalformed
	nData
)

var dataNames = [...]string{"leaf", "inter", "root", "unrelatedCA", "nothing", "malformed"}

var usages = []uint8{0, 1, 2, 3, 4, 255}
var selectors = []uint8{0, 1, 2}
var mtypes = []uint8{0, 1, 2, 3}

// kind is an abstract record: parameters + what its association data was derived from.
type kind struct {
	usage, sel, mt uint8
	data           int
}

func (k kind) String() string {
	if k.data >= dFatBase {
		return fmt.Sprintf("%d %d %d <%s>", k.usage, k.sel, k.mt, fatDataName(k.data))
	}
	return fmt.Sprintf("%d %d %d <%s>", k.usage, k.sel, k.mt, dataNames[k.data])
}

var allKinds []kind

func init() {
	for _, u := range usages {
		for _, s := range selectors {
			for _, m := range mtypes {
				for d := 0; d < nData; d++ {
					allKinds = append(allKinds, kind{u, s, m, d})
				}
			}
		}
	}
}

// assoc is the harness' own implementation of RFC 6698 association data.
func assoc(sel, mt uint8, c *x509.Certificate) string {
	var in []byte
	if sel == 1 {
		in = c.RawSubjectPublicKeyInfo
	} else {
		in = c.Raw
	}
	switch mt {
	case 1:
		h := sha256.Sum256(in)
		return hex.EncodeToString(h[:])
	case 2:
		h := sha512.Sum512(in)
		return hex.EncodeToString(h[:])
	default:
		return hex.EncodeToString(in)
	}
}

var malformed = []string{"whatever", "", "abc", "zz00", "00"}

// concrete materialises a kind against a state: the association data is
// computed for the certificate the kind names (out-of-range selector/matching
// type fall back to selector 0 / SHA-256 so that the bytes still "look right").
func (w *world) concrete(k kind, st *state) miekgdns.TLSA {
	sel, mt := k.sel, k.mt
	if sel > 1 {
		sel = 0
	}
	if mt > 2 {
		mt = 1
	}
	var data string
	var target *x509.Certificate
	switch k.data {
	case dLeaf:
		if len(st.chain) > 0 {
			target = st.chain[0]
		} else {
			target = w.stranger
		}
	case dInter:
		target = w.inter
	case dRoot:
		target = w.root
	case dOther:
		target = w.otherCA
	case dNothing:
		target = w.stranger
	case dMalformed:
		data = malformed[(int(k.usage)+int(k.sel)*2+int(k.mt))%len(malformed)]
	default:
		// data classes of group J: a never-presented certificate of a given size
		target = w.fat[k.data]
		if target == nil {
			panic(fmt.Sprintf("c13: data class %d has no certificate in this world", k.data))
		}
	}
	if target != nil {
		data = assoc(sel, mt, target)
	}
	return miekgdns.TLSA{
		Hdr:          miekgdns.RR_Header{Name: "_25._tcp." + mxName + ".", Class: miekgdns.ClassINET, Rrtype: miekgdns.TypeTLSA, Ttl: 9999},
		Usage:        k.usage,
		Selector:     k.sel,
		MatchingType: k.mt,
		Certificate:  data,
	}
}

// ---------------------------------------------------------------- reference

func usableParams(k kind) bool {
	return (k.usage == 2 || k.usage == 3) && k.sel <= 1 && k.mt <= 2
}

func wellFormed(k kind, rec miekgdns.TLSA) bool {
	if k.data != dMalformed {
		return true
	}
	return false
}

// chains says whether the leaf of st validly chains, for the MX host name at
// the fixed verification time, to st.chain[i] taken as the only trust anchor,
// with the other presented certificates as possible intermediates.
func (w *world) chains(st *state, i int) bool {
	if st.chainsTo[i] != 0 {
		return st.chainsTo[i] == 1
	}
	host := st.host
	if host == "" {
		host = mxName
	}
	opts := x509.VerifyOptions{
		DNSName:       host,
		Roots:         x509.NewCertPool(),
		Intermediates: x509.NewCertPool(),
		CurrentTime:   w.now,
	}
	opts.Roots.AddCert(st.chain[i])
	for j, c := range st.chain {
		if j != i {
			opts.Intermediates.AddCert(c)
		}
	}
	_, err := st.chain[0].Verify(opts)
	if err == nil {
		st.chainsTo[i] = 1
	} else {
		st.chainsTo[i] = 2
	}
	return err == nil
}

// class of one record relative to a state (cause classes for signatures/shapes).
func (w *world) class(k kind, rec miekgdns.TLSA, st *state) string {
	switch {
	case k.usage != 2 && k.usage != 3:
		if k.usage <= 1 {
			return "unusable-pkix-usage"
		}
		return "unusable-usage"
	case k.sel > 1:
		return "unusable-selector"
	case k.mt > 2:
		return "unusable-mtype"
	case k.data == dMalformed:
		if k.usage == 3 {
			return "ee-malformed"
		}
		return "ta-malformed"
	}
	if !st.hs {
		if k.usage == 3 {
			return "ee"
		}
		return "ta"
	}
	if k.usage == 3 {
		if rec.Certificate == assoc(k.sel, k.mt, st.chain[0]) {
			return "ee-match"
		}
		for _, c := range st.chain[1:] {
			if rec.Certificate == assoc(k.sel, k.mt, c) {
				return "ee-matches-issuer-only"
			}
		}
		return "ee-nomatch"
	}
	best := "ta-nomatch"
	rank := map[string]int{"ta-nomatch": 0, "ta-match-nonca": 1, "ta-match-ca-chain-bad": 2, "ta-match-ca-chain-ok": 3}
	for i, c := range st.chain {
		if rec.Certificate != assoc(k.sel, k.mt, c) {
			continue
		}
		cl := "ta-match-nonca"
		if c.IsCA {
			if w.chains(st, i) {
				cl = "ta-match-ca-chain-ok"
			} else {
				cl = "ta-match-ca-chain-bad"
			}
		}
		if rank[cl] > rank[best] {
			best = cl
		}
	}
	return best
}

type verdict struct {
	auth bool
	// refuse under the two readings of a record with usable parameters but
	// malformed association data (A: it counts as usable, B: it does not).
	refuseA, refuseB bool
	usableA, usableB bool
}

func (w *world) reference(ks []kind, recs []miekgdns.TLSA, st *state) verdict {
	var v verdict
	for i, k := range ks {
		if !usableParams(k) {
			continue
		}
		v.usableA = true
		if !wellFormed(k, recs[i]) {
			continue
		}
		v.usableB = true
		if !st.hs {
			continue
		}
		if k.usage == 3 {
			if recs[i].Certificate == assoc(k.sel, k.mt, st.chain[0]) {
				v.auth = true
			}
			continue
		}
		for j, c := range st.chain {
			if c.IsCA && recs[i].Certificate == assoc(k.sel, k.mt, c) && w.chains(st, j) {
				v.auth = true
			}
		}
	}
	if !st.hs {
		v.refuseA = len(ks) > 0
		v.refuseB = v.refuseA
		v.auth = false
		return v
	}
	v.refuseA = v.usableA && !v.auth
	v.refuseB = v.usableB && !v.auth
	return v
}

// ---------------------------------------------------------------- monitor

type observed struct {
	override bool
	err      error
	panicked string
}

func callReal(recs []miekgdns.TLSA, st *state) (o observed) {
	cs := tls.ConnectionState{HandshakeComplete: st.hs, ServerName: mxName}
	if st.hs {
		cs.PeerCertificates = st.chain
		cs.VerifiedChains = st.verified
		cs.Version = tls.VersionTLS13
	}
	defer func() {
		if v := recover(); v != nil {
			o.panicked = fmt.Sprintf("%v\n%s", v, debug.Stack())
		}
	}()
	in := make([]miekgdns.TLSA, len(recs))
	copy(in, recs)
	o.override, o.err = remote.VerifVerifyDANE(in, cs)
	return o
}

// judge returns the violated clause ("" = none) for one evaluation.
func judge(v verdict, o observed, nrec int, st *state) string {
	if o.panicked != "" {
		return "panic"
	}
	authObs := o.err == nil && o.override
	refusedObs := o.err != nil
	switch {
	case authObs && !v.auth:
		return "authenticated-without-matching-record"
	case !st.hs && nrec > 0 && !refusedObs:
		return "tlsa-present-no-tls-not-refused"
	case st.hs && v.refuseA && v.refuseB && !refusedObs:
		return "usable-records-none-matches-not-refused"
	case st.hs && !v.usableA && !v.usableB && refusedObs:
		return "refused-tls-connection-without-usable-records"
	}
	return ""
}

type monitor struct {
	w      *world
	r      *rep.Reporter
	c      *rep.Case
	evals  int64
	shapes map[string]struct{}
	cnt    map[string]int64
}

func (m *monitor) classes(ks []kind, recs []miekgdns.TLSA, st *state) string {
	set := map[string]struct{}{}
	for i, k := range ks {
		set[m.w.class(k, recs[i], st)] = struct{}{}
	}
	if len(set) == 0 {
		return "no-records"
	}
	l := make([]string, 0, len(set))
	for s := range set {
		l = append(l, s)
	}
	sort.Strings(l)
	return strings.Join(l, "+")
}

// eval runs one (multiset, state) through the real code and the reference.
func (m *monitor) eval(ks []kind, st *state) {
	recs := make([]miekgdns.TLSA, len(ks))
	for i, k := range ks {
		recs[i] = m.w.concrete(k, st)
	}
	v := m.w.reference(ks, recs, st)
	o := callReal(recs, st)
	m.evals++
	cl := m.classes(ks, recs, st)
	refV := "neither"
	switch {
	case v.auth:
		refV = "authenticate"
	case v.refuseA && v.refuseB:
		refV = "refuse"
	case v.refuseA != v.refuseB:
		refV = "refuse-contested(malformed-data)"
	}
	m.cnt["ref_"+refV]++
	switch {
	case o.panicked != "":
		m.cnt["obs_panic"]++
	case o.err != nil:
		m.cnt["obs_refused"]++
		if o.override {
			m.cnt["obs_override_true_together_with_error(not judged)"]++
		}
	case o.override:
		m.cnt["obs_authenticated"]++
	default:
		m.cnt["obs_neither"]++
	}
	if v.auth && !(o.err == nil && o.override) && o.panicked == "" {
		m.cnt["ref_match_but_not_authenticated(not judged)"]++
	}
	if st.verified != nil {
		m.cnt["direct_pkix_verified_state"]++
	}
	if st.appended {
		m.cnt["direct_unrelated_ca_appended"]++
		if refV == "refuse" && strings.Contains(cl, "ta-match-ca-chain-bad") {
			// a usable DANE-TA record names the appended CA, the leaf does not chain to it
			if st.verified != nil {
				m.cnt["direct_ta_names_appended_ca_refuse/pkix-verified"]++
			} else {
				m.cnt["direct_ta_names_appended_ca_refuse/pkix-not-verified"]++
			}
		}
	}
	m.shapes[fmt.Sprintf("%s|%s|hs=%v|n=%d|%s", cl, st.leafKind, st.hs, len(ks), refV)] = struct{}{}
	clause := judge(v, o, len(ks), st)
	if clause == "" {
		return
	}
	// shrink to a minimal sub-multiset violating the same clause so that the
	// signature names the cause class, not the accidental companions.
	min := append([]kind(nil), ks...)
	for changed := true; changed && len(min) > 0; {
		changed = false
		for i := range min {
			cand := append(append([]kind(nil), min[:i]...), min[i+1:]...)
			crecs := make([]miekgdns.TLSA, len(cand))
			for j, k := range cand {
				crecs[j] = m.w.concrete(k, st)
			}
			if judge(m.w.reference(cand, crecs, st), callReal(crecs, st), len(cand), st) == clause {
				min = cand
				changed = true
				break
			}
		}
	}
	mrecs := make([]miekgdns.TLSA, len(min))
	for j, k := range min {
		mrecs[j] = m.w.concrete(k, st)
	}
	sig := fmt.Sprintf("%s/%s/leaf=%s", clause, m.classes(min, mrecs, st), st.leafKind)
	ws := func(l []kind) []string {
		out := make([]string, len(l))
		for i, k := range l {
			out[i] = k.String()
		}
		return out
	}
	wit := map[string]any{
		"state":           st.name,
		"handshake":       st.hs,
		"records":         ws(ks),
		"minimal_records": ws(min),
		"observed":        map[string]any{"overridePKIX": o.override, "err": fmt.Sprint(o.err)},
		"reference":       map[string]any{"authenticate": v.auth, "refuse": v.refuseA, "refuse_if_malformed_counts_unusable": v.refuseB},
	}
	if o.panicked != "" {
		wit["panic"] = o.panicked
	}
	mv := m.w.reference(min, mrecs, st)
	mo := callReal(mrecs, st)
	m.c.Violation(sig, fmt.Sprintf("verifyDANE(%v) on chain %q (handshake=%v): got overridePKIX=%v err=%v; the statement gives authenticate=%v refuse=%v (minimal form of the generated multiset %v)",
		ws(min), st.name, st.hs, mo.override, mo.err, mv.auth, mv.refuseA, ws(ks)), wit)
}

func (m *monitor) flush() {
	ss := make([]string, 0, len(m.shapes))
	for s := range m.shapes {
		ss = append(ss, s)
	}
	m.r.Eval(m.evals, ss...)
	for k, n := range m.cnt {
		m.r.Count(k, n)
	}
	m.r.Count("verifyDANE_calls_judged", m.evals)
}

// ---------------------------------------------------------------- self test

// selfTest cross-checks the harness' own association-data code against the
// certificates (a failure is a harness bug, never a verdict).
func selfTest(t *testing.T, w *world) {
	for _, c := range []*x509.Certificate{w.root, w.inter, w.stranger} {
		for sel := uint8(0); sel <= 1; sel++ {
			for mt := uint8(0); mt <= 2; mt++ {
				want, err := miekgdns.CertificateToDANE(sel, mt, c)
				if err != nil || want != assoc(sel, mt, c) {
					t.Fatalf("harness association data differs from miekg/dns for selector %d type %d", sel, mt)
				}
			}
		}
	}
	// the chain facts the scenarios rely on
	// (crypto/x509 accepts a certificate that is itself in the root pool even
	// when it is not a CA; the reference therefore checks IsCA itself.)
	want := map[string][]bool{
		"leaf":                 {true},
		"leaf+int":             {true, true},
		"leaf+int+root":        {true, true, true},
		"leaf+root":            {true, false},
		"leaf+int+unrelatedCA": {true, true, false},
		"expired+int+root":     {false, false, false},
		"wrongname+int+root":   {false, false, false},
		"caleaf+int+root":      {true, true, true},
		"selfsigned-ca":        {true},

		"leaf+unrelatedCA":                   {true, false},
		"leaf+unrelatedCA+int":               {true, false, true},
		"rootleaf":                           {true},
		"rootleaf+unrelatedCA":               {true, false},
		"expired+int+unrelatedCA":            {false, false, false},
		"wrongname+unrelatedCA":              {false, false},
		"leaf+int/pkix-verified":             {true, true},
		"leaf+int+root/pkix-verified":        {true, true, true},
		"leaf+int+unrelatedCA/pkix-verified": {true, true, false},
		"leaf+unrelatedCA+int/pkix-verified": {true, false, true},
		"rootleaf/pkix-verified":             {true},
		"rootleaf+unrelatedCA/pkix-verified": {true, false},
		"caleaf+int+root/pkix-verified":      {true, true, true},
	}
	seen := map[string]bool{}
	for _, st := range w.states {
		seen[st.name] = true
		if (st.verified != nil) != strings.HasSuffix(st.name, "/pkix-verified") {
			t.Fatalf("harness: state %s: VerifiedChains and name disagree", st.name)
		}
	}
	for name := range want {
		if !seen[name] {
			t.Fatalf("harness: connection state %s was not generated", name)
		}
	}
	for _, st := range w.states {
		exp, ok := want[st.name]
		if !ok {
			continue
		}
		for i := range st.chain {
			if got := w.chains(st, i); got != exp[i] {
				t.Fatalf("harness chain facts: state %s anchor %d chains=%v, expected %v", st.name, i, got, exp[i])
			}
		}
	}
}

// ---------------------------------------------------------------- entry point

const (
	groupPairs   = 1_000_000
	groupSampled = 2_000_000
	perBatch     = 400
)

func TestVerif(t *testing.T) {
	r := rep.Open("C13")
	defer r.Close()
	w := buildWorld()
	remote.VerifSetVerifyDANETime(w.now)
	selfTest(t, w)

	// wall-clock marks in the shard log: information for whoever tunes the tier
	// sizes, never part of a verdict
	t0 := time.Now()
	mark := func(what string) {
		fmt.Printf("c13 timing: %s done %.1fs after start\n", what, time.Since(t0).Seconds())
	}

	r.Set("record_kinds", len(allKinds))
	r.Set("connection_states", len(w.states))
	r.Set("exhaustive_1_record", true)
	r.Set("exhaustive_2_record_multisets", true)

	// Group A: the empty set and every single record kind against every state
	// (one case per state).
	for si, st := range w.states {
		r.Run(si, "single/"+st.name, func(c *rep.Case) {
			m := &monitor{w: w, r: r, c: c, shapes: map[string]struct{}{}, cnt: map[string]int64{}}
			m.eval(nil, st)
			for _, k := range allKinds {
				m.eval([]kind{k}, st)
			}
			m.flush()
			r.Count("multisets_size_0", 1)
			r.Count("multisets_size_1", int64(len(allKinds)))
			c.Done("single/"+st.name, true)
		})
	}

	// Group B (both tiers; it costs a few seconds): every multiset of two record
	// kinds against every state (one case per first kind).
	{
		for a := range allKinds {
			r.Run(groupPairs+a, fmt.Sprintf("pairs/%d", a), func(c *rep.Case) {
				m := &monitor{w: w, r: r, c: c, shapes: map[string]struct{}{}, cnt: map[string]int64{}}
				for b := a; b < len(allKinds); b++ {
					ks := []kind{allKinds[a], allKinds[b]}
					for _, st := range w.states {
						m.eval(ks, st)
					}
				}
				m.flush()
				r.Count("multisets_size_2", int64(len(allKinds)-a))
				c.Done(fmt.Sprintf("pairs/%v", allKinds[a]), true)
			})
		}
	}

	mark("groups A, B (direct, exhaustive)")

	// Group E: end to end through dns.ExtResolver, the DANE policy and a real remote target.
	e2eGroup(t, r, w)
	mark("group E")

	// Groups F, G: the same path under hostile next hops on the refusal path
	// (QUIT/RSET/NOOP behaviour, second MX, connection reuse, second delivery)
	// and with two- and three-record sets (e2ex_test.go).
	e2exGroups(t, r, w, mark)

	// Group C: PRNG-sampled multisets of 2-4 records, each against every state.
	// Half of the draws are biased towards records with usable parameters so
	// that interactions (unusable next to mismatching usable, EE next to TA,
	// several TA anchors) are frequent.
	var usable []kind
	for _, k := range allKinds {
		if usableParams(k) {
			usable = append(usable, k)
		}
	}
	nb := r.N(300, 10000)
	nbAll := r.N(100, 2000) // batches that are also run against states[nBase:]
	for b := 0; b < nb; b++ {
		r.Run(groupSampled+b, fmt.Sprintf("sampled/%d", b), func(c *rep.Case) {
			p := prng.New(r.Seed(), uint64(b), "c13")
			m := &monitor{w: w, r: r, c: c, shapes: map[string]struct{}{}, cnt: map[string]int64{}}
			sizes := [5]int64{}
			for i := 0; i < perBatch; i++ {
				n := p.Range(2, 4)
				ks := make([]kind, n)
				for j := range ks {
					if p.Bool() {
						ks[j] = prng.Pick(p, usable)
					} else {
						ks[j] = prng.Pick(p, allKinds)
					}
				}
				sizes[n]++
				sts := w.states
				if b >= nbAll {
					sts = w.states[:w.nBase]
				}
				for _, st := range sts {
					m.eval(ks, st)
				}
				if b == 0 && i < 3 {
					l := make([]string, n)
					for j, k := range ks {
						l[j] = k.String()
					}
					r.Sample(map[string]any{"records": l, "against": "all connection states"})
				}
			}
			m.flush()
			for n := 2; n <= 4; n++ {
				r.Count(fmt.Sprintf("multisets_size_%d", n), sizes[n])
			}
			c.Done("sampled", true)
		})
	}
	mark("group C (direct, sampled)")
}
