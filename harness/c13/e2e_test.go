//go:build verif

// Group E: the same statement decided END TO END - TLSA records published in a
// (mock, DNSSEC-"authenticated") zone, looked up by the real dns.ExtResolver,
// consumed by the real DANE policy inside a real remote.Target that delivers to a
// scripted next hop. What verifyDANE is given is whatever framework/dns/dnssec.go
// makes of the RRset, so a filter or conversion applied on the way (e.g.
// "callers cannot use records with unassigned parameters anyway") is visible
// here and nowhere in groups A-C, which call verifyDANE directly.
//
// Oracle (statement, no model of the code): the next hop receives message
// content only if  (no TLS: no TLSA record exists at all)  resp.  (TLS: there is
// no usable record, or a usable record authenticates the presented chain).
// And the converse where the statement gives one: absent or exclusively unusable
// records never cause a refusal of a TLS connection; no records never cause a
// refusal of a plaintext connection (DANE is the only policy in force).
package c13

import (
	"context"
	"crypto/tls"
	"crypto/x509"
	"fmt"
	"net"
	"strconv"
	"strings"
	"testing"
	"time"

	"github.com/emersion/go-message/textproto"
	"github.com/emersion/go-smtp"
	"github.com/foxcpp/go-mockdns"
	"github.com/foxcpp/maddy/framework/buffer"
	"github.com/foxcpp/maddy/framework/dns"
	"github.com/foxcpp/maddy/framework/module"
	"github.com/foxcpp/maddy/internal/target/remote"
	miekgdns "github.com/miekg/dns"
	"verifkit/certs"
	"verifkit/rep"
	"verifkit/smtpd"
)

const groupE2E = 3_000_000

type nopLog struct{}

func (nopLog) Printf(string, ...interface{}) {}

type e2eEnv struct {
	zones  map[string]mockdns.Zone
	dnsSrv *mockdns.Server
	extR   *dns.ExtResolver
	srv    *smtpd.Server
	tgt    *remote.Target
	st     *state // the connection state the next hop produces (nil chain without TLS)
	w      *world
}

func (e *e2eEnv) close() {
	if e.tgt != nil {
		e.tgt.Close()
	}
	if e.srv != nil {
		e.srv.Close()
	}
	if e.dnsSrv != nil {
		e.dnsSrv.Close()
	}
}

const e2eDomain = "dest.example.invalid"

// newE2E builds DNS + next hop + target. withTLS: the next hop offers STARTTLS
// and presents leaf+intermediate (valid for the MX name, chains to the client's
// root); otherwise it offers no STARTTLS at all.
func newE2E(w *world, pki *e2ePKI, withTLS bool) (*e2eEnv, error) {
	e := &e2eEnv{w: w}
	e.zones = map[string]mockdns.Zone{
		e2eDomain + ".": {AD: true, MX: []net.MX{{Host: mxName + ".", Pref: 10}}},
		mxName + ".":    {AD: true, A: []string{"127.0.0.1"}},
	}
	var err error
	for try := 0; try < 40; try++ {
		e.dnsSrv, err = mockdns.NewServerWithLogger(e.zones, nopLog{}, false)
		if err == nil || !strings.Contains(err.Error(), "address already in use") {
			break
		}
		time.Sleep(100 * time.Millisecond)
	}
	if err != nil {
		return nil, err
	}
	addr := e.dnsSrv.LocalAddr().(*net.UDPAddr)
	e.extR, err = dns.NewExtResolver()
	if err != nil {
		e.close()
		return nil, err
	}
	e.extR.Cfg.Servers = dnsServers(addr.IP.String())
	e.extR.Cfg.Port = strconv.Itoa(addr.Port)

	cfg := smtpd.Config{ListenAddr: "127.0.0.1:0", Hostname: mxName, PIPELINING: true, EightBitMIME: true}
	if withTLS {
		cfg.STARTTLS = true
		cfg.TLS = &tls.Config{Certificates: []tls.Certificate{pki.leafTLS}}
		e.st = pki.st
	} else {
		e.st = w.states[0] // "no-handshake"
	}
	e.srv, err = smtpd.New(cfg)
	if err != nil {
		e.close()
		return nil, err
	}
	pol, err := remote.VerifDANEPolicy(e.extR, nil)
	if err != nil {
		e.close()
		return nil, err
	}
	srvAddr := e.srv.Addr()
	e.tgt, err = remote.VerifNewTarget(remote.VerifTargetOpts{
		Name: "c13e2e", Hostname: "client.example.invalid",
		Resolver: &mockdns.Resolver{Zones: e.zones},
		Dialer: func(ctx context.Context, network, _ string) (net.Conn, error) {
			return (&net.Dialer{}).DialContext(ctx, "tcp", srvAddr)
		},
		ExtResolver: e.extR, Policies: []module.MXAuthPolicy{pol},
		TLSConfig: &tls.Config{RootCAs: pki.root.Pool()}, ConnReuseLimit: -1,
		ConnectTimeout: 20 * time.Second, CommandTimeout: 20 * time.Second, SubmissionTimeout: 20 * time.Second,
	})
	if err != nil {
		e.close()
		return nil, err
	}
	return e, nil
}

// deliver publishes recs (nil: no TLSA name at all) and sends one message.
// It reports whether message content reached the next hop.
func (e *e2eEnv) deliver(id string, recs []miekgdns.TLSA) (content bool, outcome string) {
	tn := "_25._tcp." + mxName + "."
	if recs == nil {
		delete(e.zones, tn)
	} else {
		var rrs []miekgdns.RR
		for i := range recs {
			r := recs[i]
			r.Hdr = miekgdns.RR_Header{Name: tn, Class: miekgdns.ClassINET, Rrtype: miekgdns.TypeTLSA, Ttl: 9999}
			rrs = append(rrs, &r)
		}
		e.zones[tn] = mockdns.Zone{AD: true, Misc: map[miekgdns.Type][]miekgdns.RR{miekgdns.Type(miekgdns.TypeTLSA): rrs}}
	}
	before := len(e.srv.Txns())
	ctx, cancel := context.WithTimeout(context.Background(), 60*time.Second)
	defer cancel()
	meta := &module.MsgMetadata{ID: id, OriginalFrom: "sender@origin.example.invalid", DontTraceSender: true}
	d, err := e.tgt.Start(ctx, meta, "sender@origin.example.invalid")
	if err != nil {
		return false, "start: " + err.Error()
	}
	rcpt := "rcpt@" + e2eDomain
	if err := d.AddRcpt(ctx, rcpt, smtp.RcptOptions{}); err != nil {
		d.Abort(ctx)
		outcome = "rcpt: " + err.Error()
	} else {
		hdr := textproto.Header{}
		hdr.Add("Subject", "c13 "+id)
		if err := d.Body(ctx, hdr, buffer.MemoryBuffer{Slice: []byte("token-" + id + "\r\n")}); err != nil {
			d.Abort(ctx)
			outcome = "body: " + err.Error()
		} else {
			d.Commit(ctx)
			outcome = "accepted"
		}
	}
	for _, tx := range e.srv.Txns()[before:] {
		if tx.DataCmdCode != 0 || len(tx.Data) > 0 {
			content = true
		}
	}
	return content, outcome
}

type e2ePKI struct {
	root    *certs.CA
	leafTLS tls.Certificate
	st      *state
}

// e2eWorld makes a second small PKI whose private keys are kept (the states of
// buildWorld hold certificates only) and registers its leaf+intermediate chain
// as an additional connection state so that reference() and concrete() apply.
func e2eWorld(w *world) *e2ePKI {
	root := certs.NewCA("verif e2e root")
	inter := root.Intermediate("verif e2e intermediate")
	leaf := inter.Leaf(certs.LeafOpts{DNSNames: []string{mxName}})
	st := &state{id: len(w.states), name: "e2e:leaf+int", leafKind: "ok", hs: true, chain: []*x509.Certificate{leaf.Cert, inter.Cert}, chainsTo: make([]int8, 2)}
	return &e2ePKI{root: root, leafTLS: leaf.TLSCertificate(inter), st: st}
}

func e2eGroup(t *testing.T, r *rep.Reporter, w *world) {
	// e2e world: own root/intermediate/leaf with keys; "root"/"inter"/"otherCA"/"stranger"
	// of the record-data classes must refer to THIS chain, so a private copy of the world is used.
	pki := e2eWorld(w)
	ew := &world{now: w.now, root: pki.root.Cert, inter: pki.st.chain[1], otherCA: w.otherCA, stranger: w.stranger}
	ew.states = []*state{{id: 0, name: "no-handshake", leafKind: "none", hs: false}, pki.st}
	pki.st.id = 1

	var kinds []kind
	for _, k := range allKinds {
		if k.data == dLeaf || k.data == dInter || k.data == dNothing {
			kinds = append(kinds, k)
		}
	}
	ci := 0
	for _, withTLS := range []bool{false, true} {
		for ui, u := range usages {
			withTLS, u := withTLS, u
			idx := groupE2E + ci
			ci++
			r.Run(idx, fmt.Sprintf("e2e/tls=%v/usage=%d", withTLS, u), func(c *rep.Case) {
				env, err := newE2E(ew, pki, withTLS)
				if err != nil {
					c.Inconclusive("cannot build the end-to-end environment: " + err.Error())
					c.Done("", false)
					return
				}
				defer env.close()
				st := env.st
				n := 0
				run := func(label string, ks []kind) {
					var recs []miekgdns.TLSA
					if ks != nil {
						recs = []miekgdns.TLSA{}
						for _, k := range ks {
							recs = append(recs, ew.concrete(k, pki.st))
						}
					}
					n++
					content, outcome := env.deliver(fmt.Sprintf("c13e%d-%d", idx-groupE2E, n), recs)
					r.Count("e2e_deliveries", 1)
					v := ew.reference(ks, recs, st)
					wit := map[string]any{"records": label, "next_hop_tls": withTLS, "delivery_outcome": outcome, "content_reached_next_hop": content}
					tlsTag := "plaintext"
					if withTLS {
						tlsTag = "tls"
					}
					switch {
					case !withTLS && len(ks) > 0:
						r.Count("e2e_record_exists_and_no_tls", 1)
						if content {
							c.Violation("e2e/record-exists-no-tls-not-refused/"+kindClass(ks), "a TLSA record is published for the MX and TLS was not negotiated, but message content was sent: "+label, wit)
						}
					case !withTLS:
						if !content && envFailure(outcome) {
							r.Count("env_io_timeout(not judged)", 1)
							break
						}
						if !content {
							c.Violation("e2e/no-records-refused/plaintext", "no TLSA record exists, DANE is the only policy, yet the plaintext delivery was refused: "+outcome, wit)
						}
						r.Count("e2e_no_records_delivered", 1)
					case v.refuseA && v.refuseB:
						r.Count("e2e_usable_none_matches", 1)
						if content {
							c.Violation("e2e/usable-records-none-matches-not-refused/"+kindClass(ks), "usable TLSA records exist and none matches the presented chain, but message content was sent: "+label, wit)
						}
					case !v.refuseA && !v.refuseB:
						if v.auth {
							r.Count("e2e_authenticated_delivered", 1)
						} else {
							r.Count("e2e_absent_or_only_unusable_over_tls", 1)
						}
						if !content && envFailure(outcome) {
							r.Count("env_io_timeout(not judged)", 1)
							break
						}
						if !content {
							c.Violation("e2e/refused-without-cause/"+tlsTag+"/"+kindClass(ks), "absent, exclusively unusable or matching records must not cause a refusal of a TLS connection, yet nothing was delivered ("+outcome+"): "+label, wit)
						}
					default:
						r.Count("e2e_malformed_reading_dependent_not_judged", 1)
					}
					if n <= 2 && ui == 0 {
						r.Sample(map[string]any{"group": "end-to-end", "records": label, "next_hop_tls": withTLS, "content_reached_next_hop": content, "outcome": outcome})
					}
				}
				if ui == 0 {
					run("(no TLSA name)", nil)
					run("(empty RRset)", []kind{})
				}
				for _, k := range kinds {
					if k.usage != u {
						continue
					}
					run(k.String(), []kind{k})
					// next to an unusable record with unassigned parameters, in both orders
					if k.usage == 3 && k.sel == 1 && k.mt == 1 {
						un := kind{4, 0, 1, dLeaf}
						run(k.String()+" ; "+un.String(), []kind{k, un})
						run(un.String()+" ; "+k.String(), []kind{un, k})
					}
				}
				c.Done(fmt.Sprintf("e2e/tls=%v/usage=%d", withTLS, u), true)
			})
		}
	}
}

func kindClass(ks []kind) string {
	if len(ks) == 0 {
		return "no-records"
	}
	var l []string
	for _, k := range ks {
		switch {
		case usableParams(k):
			l = append(l, fmt.Sprintf("usable-%d", k.usage))
		case k.usage <= 1:
			l = append(l, fmt.Sprintf("pkix-usage-%d", k.usage))
		case k.usage > 3:
			l = append(l, "unassigned-usage")
		case k.sel > 1:
			l = append(l, "unassigned-selector")
		default:
			l = append(l, "unassigned-matching-type")
		}
	}
	return strings.Join(l, "+")
}
