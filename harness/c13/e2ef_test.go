//go:build verif

// Group K: the end-to-end path of groups E-J (zone -> real dns.ExtResolver ->
// real DANE policy -> real remote.Target -> scripted next hop) with a DNS SERVER
// THAT FAILS ONE LOOKUP OF THE TLSA DISCOVERY the way a real resolver can.
//
// The address lookup of the MX host succeeds with AD=1 (signed zone) and TLSA
// records are really published (the scenario's ground truth), but the answer to
// the TLSA query alone - or, now and then, to the address query that opens the
// discovery - is
//
//	a failure RCODE: SERVFAIL, NOTIMP, FORMERR, REFUSED, YXDOMAIN, YXRRSET,
//	    NXRRSET, NOTAUTH, NOTZONE, the unassigned 11-15 and the extended codes
//	    BADVERS(16) / BADCOOKIE(23) - what a validating resolver reports for a
//	    bogus signature, an unreachable or lame authoritative server, a
//	    middlebox that does not know the TLSA type, an on-path attacker; with the
//	    AD bit set or clear, with or without the OPT record echoed, the answer
//	    section empty or (broken servers) still carrying the records; from every
//	    configured server or only from the first one / two (the unchanged client
//	    moves on to the next server),
//	NXDOMAIN or NOERROR with an empty answer section (NODATA), AD set or clear:
//	    the DNS says that NO record exists - by the statement the records are
//	    absent then, whatever the scenario had in the zone file,
//	nothing special (control).
//
// combined with next hops without STARTTLS, with a failing handshake, and
// presenting a valid / self-signed / expired chain, and record sets of 1-4
// records that the statement refuses, that are exclusively unusable, that
// contain a matching record, or no record at all.
//
// Oracle: judgeDelivery, i.e. the statement on the PUBLISHED records. A failure
// RCODE does not make published records go away: when records exist and TLS was
// not negotiated, or usable records exist and none matches, the connection must
// not carry the message (content / MAIL command at that next hop = violation) -
// the client does not know the records, it must not go on as if there were
// none. A NON-delivery after a failed lookup is caused by the lookup (temporary
// failure), not by the records, and is not judged (lookupIncomplete, as in
// group J). After NXDOMAIN / NODATA the records ARE absent: the converse clause
// is judged (a TLS connection / a plaintext connection that was contacted must
// get the message).
package c13

import (
	"fmt"
	"strings"
	"testing"

	"github.com/foxcpp/go-mockdns"
	miekgdns "github.com/miekg/dns"
	"verifkit/prng"
	"verifkit/rep"
)

const groupDNSFault = 9_000_000

// cnameTarget: in one delivery of four the MX host is a DNSSEC-secure CNAME to
// this name; address and TLSA records are published there (RFC 7672 2.2.2: the
// TLSA base domain of such an MX is the CNAME target), the original name has no
// TLSA name, and a TLSA fault hits the query for the target's records only.
const cnameTarget = "mx.cname-target.invalid."

// rcodeNoData: NOERROR with an empty answer section.
const rcodeNoData = -1

// dnsFault: how the queries of one type are answered instead of from the zone.
type dnsFault struct {
	qtype      uint16 // miekgdns.TypeTLSA | miekgdns.TypeA
	rcode      int    // RCODE of the answer; rcodeNoData
	ad         bool   // AD bit of the answer
	keepAnswer bool   // failure RCODE but the records are in the answer section all the same
	noOPT      bool   // the OPT record of the query is not echoed
	first      int    // only the first n queries of that type (0: all of them)
	owner      string // only queries for this owner name (lower case, fully qualified; "": any)
}

// class is signature / counter material: no numbers that vary within a class.
func (f *dnsFault) class() string {
	if f == nil {
		return "none"
	}
	switch f.rcode {
	case rcodeNoData:
		return "nodata"
	case miekgdns.RcodeServerFailure:
		return "servfail"
	case miekgdns.RcodeNotImplemented:
		return "notimp"
	case miekgdns.RcodeFormatError:
		return "formerr"
	case miekgdns.RcodeRefused:
		return "refused"
	case miekgdns.RcodeNameError:
		return "nxdomain"
	}
	return "other-rcode"
}

// deniesRecords: the answer says that no record exists (NXDOMAIN, NODATA).
func (f *dnsFault) deniesRecords() bool {
	return f != nil && (f.rcode == rcodeNoData || f.rcode == miekgdns.RcodeNameError)
}

// serveFault answers m with the configured fault if it applies (s.mu held).
// zoneReply is what the zone data would have given.
func (s *bigDNS) serveFault(w miekgdns.ResponseWriter, m *miekgdns.Msg, zoneReply *miekgdns.Msg) bool {
	ft := s.beh.fault
	if ft == nil || m.Question[0].Qtype != ft.qtype {
		return false
	}
	if ft.owner != "" && strings.ToLower(miekgdns.Fqdn(m.Question[0].Name)) != ft.owner {
		return false
	}
	s.facts.faultMatched++
	if ft.first > 0 && s.facts.faultMatched > ft.first {
		return false
	}
	fr := new(miekgdns.Msg)
	fr.SetReply(m)
	fr.RecursionAvailable = true
	fr.AuthenticatedData = ft.ad
	if ft.rcode != rcodeNoData {
		fr.Rcode = ft.rcode
	}
	if ft.keepAnswer && zoneReply != nil {
		fr.Answer = zoneReply.Answer
	}
	if o := m.IsEdns0(); (o != nil && !ft.noOPT) || fr.Rcode > 0xF {
		ro := new(miekgdns.OPT)
		ro.Hdr.Name = "."
		ro.Hdr.Rrtype = miekgdns.TypeOPT
		ro.SetUDPSize(4096)
		fr.Extra = append(fr.Extra, ro)
	}
	if err := w.WriteMsg(fr); err != nil {
		s.facts.packErr++
		return true
	}
	s.facts.faultServed++
	return true
}

// ---------------------------------------------------------------- generator

var faultHopModes = []hopSpec{
	{mode: "plain"}, {mode: "tls-broken"},
	{mode: "tls", chain: "valid"}, {mode: "tls", chain: "selfsigned"}, {mode: "tls", chain: "expired"},
}

// the fault classes every environment goes through, in this order
var faultClasses = []string{"none", "servfail", "notimp", "formerr", "refused", "other-rcode", "nxdomain", "nodata"}

var otherRcodes = []int{
	miekgdns.RcodeYXDomain, miekgdns.RcodeYXRrset, miekgdns.RcodeNXRrset, miekgdns.RcodeNotAuth, miekgdns.RcodeNotZone,
	11, 12, 13, 14, 15, miekgdns.RcodeBadVers, miekgdns.RcodeBadCookie,
}

func drawFault(p *prng.R, class string) *dnsFault {
	if class == "none" {
		return nil
	}
	f := &dnsFault{qtype: miekgdns.TypeTLSA, ad: p.Chance(1, 3), noOPT: p.Chance(1, 4)}
	switch class {
	case "servfail":
		f.rcode = miekgdns.RcodeServerFailure
	case "notimp":
		f.rcode = miekgdns.RcodeNotImplemented
	case "formerr":
		f.rcode = miekgdns.RcodeFormatError
	case "refused":
		f.rcode = miekgdns.RcodeRefused
	case "other-rcode":
		f.rcode = prng.Pick(p, otherRcodes)
	case "nxdomain":
		f.rcode = miekgdns.RcodeNameError
		f.ad = p.Bool()
	case "nodata":
		f.rcode = rcodeNoData
		f.ad = p.Bool()
	}
	if f.deniesRecords() {
		// every server says the same: the world is consistent
		return f
	}
	f.keepAnswer = p.Chance(1, 5)
	if p.Chance(1, 5) {
		f.first = 1 + p.Intn(2) // the later servers of the list answer from the zone
	}
	if p.Chance(1, 6) {
		// the address lookup that opens the TLSA discovery fails instead
		f.qtype = miekgdns.TypeA
	}
	return f
}

var faultNoMatchData = []int{dNothing, dNothing, dOther, dRoot}

// drawFaultSet draws the published record set: 1-4 records (the quantifier's
// range) or none. force: "" or the intent to use.
func drawFaultSet(p *prng.R, hasInter bool, force string) (intent string, ks []kind, noName bool) {
	intent = []string{"refuse", "refuse", "refuse", "refuse", "only-unusable", "only-unusable", "match", "match", "absent"}[p.Intn(9)]
	if force != "" {
		intent = force
	}
	n := p.Range(1, 4)
	nomatch := func() kind {
		k := drawUsable(p)
		k.data = prng.Pick(p, faultNoMatchData)
		return k
	}
	switch intent {
	case "absent":
		if p.Bool() {
			return intent, nil, true
		}
		return intent, []kind{}, false
	case "only-unusable":
		for i := 0; i < n; i++ {
			ks = append(ks, drawUnusable(p))
		}
		return intent, ks, false
	case "match":
		k := drawUsable(p)
		if hasInter && p.Bool() {
			k.usage, k.data = 2, dInter
		} else {
			k.usage, k.data = 3, dLeaf
		}
		ks = append(ks, k)
	default:
		ks = append(ks, nomatch())
	}
	for len(ks) < n {
		if p.Chance(1, 3) {
			ks = append(ks, drawUnusable(p))
		} else {
			ks = append(ks, nomatch())
		}
	}
	pm := p.Perm(len(ks))
	sh := make([]kind, len(ks))
	for i, j := range pm {
		sh[i] = ks[j]
	}
	return intent, sh, false
}

// ---------------------------------------------------------------- group K

func dnsFaultGroup(t *testing.T, r *rep.Reporter, pki *xPKI) {
	rounds := r.N(4, 40)
	const perClass = 4 // deliveries per fault class and environment; the first two publish a set biased to "refuse"
	ci := 0
	for round := 0; round < rounds; round++ {
		for mi := range faultHopModes {
			spec := faultHopModes[mi]
			spec.host, spec.quit, spec.rset, spec.noop = mxName, "221", "250", "250"
			idx := groupDNSFault + ci
			ci++
			id := fmt.Sprintf("e2e-dnsfault/%s:%s/%d", spec.mode, spec.chain, round)
			r.Run(idx, id, func(c *rep.Case) {
				p := prng.New(r.Seed(), uint64(idx), "c13-dnsfault")
				env, err := newEnvXOpt(pki, []hopSpec{spec}, false, fmt.Sprintf("k%d", idx-groupDNSFault), envOpts{bigDNS: "full"})
				if err != nil {
					c.Inconclusive("cannot build the end-to-end environment: " + err.Error())
					c.Done("", false)
					return
				}
				defer env.close()
				h := env.hops[0]
				hasInter := h.st.hs && len(h.st.chain) > 1
				tlsTag := "no-tls"
				if h.st.hs {
					tlsTag = "over-tls"
				}
				n := 0
				for _, class := range faultClasses {
					for k := 0; k < perClass; k++ {
						n++
						force := ""
						if k < 2 {
							force = "refuse"
						}
						intent, ks, noName := drawFaultSet(p, hasInter, force)
						ft := drawFault(p, class)
						// own stream: the draws above are those of the group without the CNAME dimension
						cname := prng.New(r.Seed(), uint64(idx)*1000+uint64(n), "c13-dnsfault-cname").Chance(1, 4)
						if cname && ft != nil && ft.qtype == miekgdns.TypeTLSA {
							ft.owner = "_25._tcp." + cnameTarget
						}
						env.big.configure(dnsBehaviour{maxUDP: 4096, style: "empty", fault: ft}, func() {
							env.publish(h, ks, noName)
							tn, ctn := tlsaName(h.spec.host), "_25._tcp."+cnameTarget
							delete(env.zones, ctn)
							delete(env.zones, cnameTarget)
							env.zones[h.spec.host+"."] = mockdns.Zone{AD: true, A: []string{"127.0.0.1"}}
							if cname {
								if tz, ok := env.zones[tn]; ok {
									for _, rr := range tz.Misc[miekgdns.Type(miekgdns.TypeTLSA)] {
										rr.Header().Name = ctn
									}
									env.zones[ctn] = tz
									delete(env.zones, tn)
								}
								env.zones[h.spec.host+"."] = mockdns.Zone{AD: true, CNAME: cnameTarget}
								env.zones[cnameTarget] = mockdns.Zone{AD: true, A: []string{"127.0.0.1"}}
							}
						})
						// what the scenario has in the zone file, by the statement
						zoneV, _, _ := env.hopVerdict(h)
						if ft.deniesRecords() {
							// every resolver says that there is no record: for the
							// statement the records are absent (the zone still holds
							// ks; the server does not hand them out)
							h.ks, h.noName = nil, true
						}
						env.lookupIncomplete = ft != nil && !ft.deniesRecords()
						outcome := env.send(fmt.Sprintf("c13k%d-%d", idx-groupDNSFault, n), env.domain)
						f := env.big.takeFacts()
						now := h.observe()
						delta := []hopObs{now.minus(h.last)}
						h.last = now
						if f.packErr > 0 {
							c.Inconclusive("harness: the DNS server could not pack an answer")
						}
						v, _, ref := env.hopVerdict(h)

						qt := "tlsa"
						if ft != nil && ft.qtype == miekgdns.TypeA {
							qt = "a"
						}
						served := ft != nil && f.faultServed > 0
						mxTag := "mx-host-has-address"
						if cname {
							mxTag = "mx-host-is-secure-cname"
							r.Count("e2ek_mx_host_is_secure_cname", 1)
							if ft == nil && delta[0].conns > 0 {
								switch {
								case v == vRefused:
									r.Count("e2ek_cname_no_fault_statement_refuses", 1)
								case delta[0].contents > 0:
									r.Count("e2ek_cname_no_fault_delivered", 1)
								}
							}
						}
						r.Count("e2ek_published/"+intent, 1)
						switch {
						case ft == nil:
							r.Count("e2ek_control_no_fault", 1)
						case !served:
							r.Count("e2ek_fault_not_reached(not counted as exercised)", 1)
						default:
							r.Count("e2ek_fault_served/"+qt+":"+class, 1)
						if qt == "a" {
							r.Count("e2ek_fault_on_address_lookup", 1)
						}
							if ft.first > 0 {
								r.Count("e2ek_fault_from_first_servers_only", 1)
								if f.tlsaFromZone > 0 {
									r.Count("e2ek_later_server_answered_from_zone", 1)
								}
							} else {
								r.Count("e2ek_fault_from_every_server", 1)
							}
							if ft.keepAnswer {
								r.Count("e2ek_failure_rcode_with_records_in_answer", 1)
							}
							if ft.ad {
								r.Count("e2ek_fault_answer_ad=1", 1)
							} else {
								r.Count("e2ek_fault_answer_ad=0", 1)
							}
							if ft.noOPT {
								r.Count("e2ek_fault_answer_without_opt", 1)
							}
							switch {
							case ft.deniesRecords():
								// records were in the zone file; the answer denies them
								if zoneV == vRefused && delta[0].contents > 0 {
									r.Count("e2ek_answer_denies_records_delivered/"+class+"/"+tlsTag, 1)
								}
							case v == vRefused:
								r.Count("e2ek_lookup_failed_statement_refuses/"+class+"/"+tlsTag, 1)
								if ft.first == 0 && qt == "tlsa" {
									r.Count("e2ek_tlsa_lookup_failed_everywhere_statement_refuses/"+tlsTag, 1)
								}
								if ft.owner != "" {
									r.Count("e2ek_cname_target_tlsa_lookup_failed_statement_refuses/"+tlsTag, 1)
								}
							case v == vAllowed && ref.auth:
								r.Count("e2ek_lookup_failed_statement_allows/matching-record", 1)
							case v == vAllowed:
								r.Count("e2ek_lookup_failed_statement_allows/absent-or-only-unusable", 1)
							}
						}
						cause := func(*hop) string {
							if ft == nil {
								return "lookups-answered-from-zone/" + mxTag
							}
							where := "every-server"
							if ft.first > 0 {
								where = "first-servers-only"
							}
							return "lookup-fault=" + qt + ":" + class + "/" + where + "/" + mxTag
						}
						env.converseCause = func(h *hop) string {
							if len(h.ks) == 0 || h.noName {
								return "no-records/" + cause(h)
							}
							return "only-unusable-records/" + cause(h)
						}
						var fw any
						if ft != nil {
							rc := "NOERROR, empty answer section"
							if ft.rcode != rcodeNoData {
								rc = miekgdns.RcodeToString[ft.rcode]
								if rc == "" {
									rc = fmt.Sprintf("RCODE %d", ft.rcode)
								}
							}
							fw = map[string]any{"query_type": strings.ToUpper(qt), "answer": rc, "ad_bit": ft.ad, "records_in_answer_section": ft.keepAnswer,
								"opt_echoed": !ft.noOPT, "only_first_n_queries": ft.first, "fault_answers_sent": f.faultServed, "tlsa_queries_answered_from_zone": f.tlsaFromZone}
						}
						env.judgeDelivery(c, r, "e2e-dnsfault", "e2ek", cause, outcome, delta, map[string]any{
							"zone_file": map[string]any{"intent": intent, "records": kindsLabel(ks, noName), "mx_host_is_secure_cname_records_at_target": cname},
							"dns_fault": fw,
						})
						if round == 0 && k == 0 {
							r.Sample(map[string]any{"group": "failing TLSA discovery lookup", "next_hop": spec.String(), "zone_file_records": kindsLabel(ks, noName),
								"fault": class, "query_type": qt, "fault_answers_sent": f.faultServed, "outcome": outcome, "content_reached_next_hop": delta[0].contents > 0})
						}
					}
				}
				c.Done(fmt.Sprintf("e2e-dnsfault/%s:%s", spec.mode, spec.chain), true)
			})
		}
	}
}
