//go:build verif

// Groups F and G: the end-to-end path of group E (mock DNSSEC zone -> real
// dns.ExtResolver -> real DANE policy -> real remote.Target -> scripted
// verifkit/smtpd next hops) under
//
//	F  a HOSTILE next hop on the refusal path. "The connection is refused for
//	   delivery" is only true if nothing of the message travels over that
//	   connection WHATEVER the peer does after the refusal: QUIT answered with
//	   221 / 421 keeping the TCP connection open / 421 and close / other codes /
//	   garbage / nothing at all, RSET and NOOP answered oddly, a second MX
//	   candidate that is acceptable / refused as well / unreachable, connection
//	   reuse on and off with a second delivery to the same domain right after
//	   the refused one (same records, or records repaired in between).
//	G  record SETS of two and three records in the interaction shapes of groups
//	   B/C (unusable record before/after a usable one with the same association
//	   data, EE next to TA, duplicates, three-record mixes) against next hops
//	   presenting a valid / expired / self-signed / wrong-name chain, no
//	   STARTTLS, or a STARTTLS whose handshake fails (plaintext fallback), so
//	   that ordering / de-duplication / filtering faults in whatever sits
//	   between the DNS answer and verifyDANE are visible end to end.
//
// Oracle (the statement, per MX connection): message content - and, reported
// under its own cause class, a mail transaction (MAIL command) - may reach a
// next hop only if   no TLS: no TLSA record exists for that MX;   TLS: no usable
// record exists or a usable record authenticates the presented chain.
// Converse, judged only for the first MX candidate the statement does not
// refuse and only if that next hop was actually contacted: absent or
// exclusively unusable records never cause a refusal of a TLS connection, no
// records never cause a refusal of a plaintext one (DANE is the only policy in
// force; every next hop accepts MAIL/RCPT/DATA). A refusal although a usable
// record matches is counted, not judged (the statement says "only if").
package c13

import (
	"context"
	"crypto/tls"
	"crypto/x509"
	"errors"
	"fmt"
	"net"
	"sort"
	"strconv"
	"strings"
	"testing"
	"time"

	"github.com/emersion/go-message/textproto"
	"github.com/emersion/go-smtp"
	"github.com/foxcpp/go-mockdns"
	"github.com/foxcpp/maddy/framework/buffer"
	"github.com/foxcpp/maddy/framework/dns"
	"github.com/foxcpp/maddy/framework/module"
	"github.com/foxcpp/maddy/internal/target/remote"
	miekgdns "github.com/miekg/dns"
	"verifkit/certs"
	"verifkit/prng"
	"verifkit/rep"
	"verifkit/smtpd"
)

const (
	groupHostile = 4_000_000
	groupMulti   = 5_000_000
	mx2Name      = "mx2.example.invalid"
	mx3Name      = "mx3.example.invalid"
)

// ---------------------------------------------------------------- PKI with keys

var xChains = []string{"valid", "expired", "selfsigned", "wrongname"}

type xPKI struct {
	w     *world // root/inter of THIS hierarchy, so that the data classes refer to it
	root  *certs.CA
	certs map[string]tls.Certificate // host/chain
	state map[string]*state          // host/chain -> handshake state; host/plain -> no handshake
}

func newXPKI(base *world) *xPKI {
	root := certs.NewCA("verif e2ex root")
	inter := root.Intermediate("verif e2ex intermediate")
	p := &xPKI{root: root, certs: map[string]tls.Certificate{}, state: map[string]*state{}}
	p.w = &world{now: base.now, root: root.Cert, inter: inter.Cert, otherCA: base.otherCA, stranger: base.stranger, fat: map[int]*x509.Certificate{}}
	// never-presented certificates of growing size (group J: an RRset of at most
	// four '3 0 0' / '2 0 0' records that exceeds 512 / 1232 / 4096 bytes)
	for d, n := range fatSANs {
		p.w.fat[d] = inter.Leaf(certs.LeafOpts{DNSNames: padNames("never-presented.example.invalid", n)}).Cert
	}
	add := func(host, chain, leafKind string, tc tls.Certificate, cs ...*x509.Certificate) {
		p.certs[host+"/"+chain] = tc
		p.state[host+"/"+chain] = &state{name: "e2ex:" + chain, leafKind: leafKind, hs: true, host: host, chain: cs, chainsTo: make([]int8, len(cs))}
	}
	// with appends the certificate of the unrelated CA (no key needed: a server
	// may send any certificate it likes after its own) to a server chain.
	with := func(tc tls.Certificate, extra ...*x509.Certificate) tls.Certificate {
		out := tls.Certificate{PrivateKey: tc.PrivateKey, Leaf: tc.Leaf}
		out.Certificate = append(out.Certificate, tc.Certificate...)
		for _, c := range extra {
			out.Certificate = append(out.Certificate, c.Raw)
		}
		return out
	}
	un := base.otherCA
	for _, host := range []string{mxName, mx2Name, mx3Name} {
		l := inter.Leaf(certs.LeafOpts{DNSNames: []string{host}})
		add(host, "valid", "ok", l.TLSCertificate(inter), l.Cert, inter.Cert)
		e := inter.Leaf(certs.LeafOpts{DNSNames: []string{host}, NotAfter: base.now.Add(-48 * time.Hour)})
		add(host, "expired", "expired", e.TLSCertificate(inter), e.Cert, inter.Cert)
		s := certs.SelfSigned(certs.LeafOpts{DNSNames: []string{host}})
		add(host, "selfsigned", "self-signed", s.TLSCertificate(), s.Cert)
		wn := inter.Leaf(certs.LeafOpts{DNSNames: []string{"other.example.invalid"}})
		add(host, "wrongname", "wrong-name", wn.TLSCertificate(inter), wn.Cert, inter.Cert)
		// chains with an unrelated CA certificate appended / inserted (group H)
		dl := root.Leaf(certs.LeafOpts{DNSNames: []string{host}}) // issued directly by the root
		add(host, "direct", "ok", dl.TLSCertificate(), dl.Cert)
		add(host, "valid+unrelatedCA", "ok", with(l.TLSCertificate(inter), un), l.Cert, inter.Cert, un)
		add(host, "unrelatedCA-before-int", "ok", with(l.TLSCertificate(), un, inter.Cert), l.Cert, un, inter.Cert)
		add(host, "direct+unrelatedCA", "ok", with(dl.TLSCertificate(), un), dl.Cert, un)
		add(host, "expired+unrelatedCA", "expired", with(e.TLSCertificate(inter), un), e.Cert, inter.Cert, un)
		add(host, "wrongname+unrelatedCA", "wrong-name", with(wn.TLSCertificate(inter), un), wn.Cert, inter.Cert, un)
		add(host, "selfsigned+unrelatedCA", "self-signed", with(s.TLSCertificate(), un), s.Cert, un)
		// a valid chain whose leaf is large (many subjectAltNames, about the size of
		// an RSA-4096 certificate): a matching '3 0 0' record alone is > 1232 bytes (group J)
		fl := inter.Leaf(certs.LeafOpts{DNSNames: padNames(host, 28)})
		add(host, "fat", "ok", fl.TLSCertificate(inter), fl.Cert, inter.Cert)
		p.state[host+"/plain"] = &state{name: "e2ex:no-handshake", leafKind: "none", hs: false, host: host}
	}
	return p
}

// ---------------------------------------------------------------- scripted next hops

// Reply classes for QUIT / RSET / NOOP. "-open": the reply is sent and the
// server keeps reading commands on the connection (and would accept MAIL /
// RCPT / DATA and record them).
var quitClasses = []string{"221", "421-open", "421-close", "421-rst", "421-multiline-open", "250-open", "451-open", "500-open", "554-open", "garbage-open", "drop"}

const quitSilent = "silent-open" // no reply at all, the server keeps reading (costs the client's 5 s QUIT time-out)

var rsetClasses = []string{"250", "250", "250", "421-open", "421-close", "500-open", "drop"}
var noopClasses = []string{"250", "250", "421-open", "500-open", "drop"}

func replyAction(class string) *smtpd.Action {
	switch class {
	case "221", "250":
		return nil // the conforming default
	case "421-open":
		return &smtpd.Action{Code: 421, Enh: "4.3.2", Text: []string{"Service not available, closing transmission channel"}}
	case "421-close":
		return &smtpd.Action{Code: 421, Enh: "4.3.2", Text: []string{"Service not available, closing transmission channel"}, DropAfter: true}
	case "421-rst":
		return &smtpd.Action{Code: 421, Enh: "4.3.2", Text: []string{"Service not available"}, DropAfter: true, RST: true}
	case "421-multiline-open":
		return &smtpd.Action{Code: 421, Enh: "4.3.2", Text: []string{"Service not available", "try again later", "bye"}}
	case "250-open":
		// a positive reply that is not 221; Code keeps the server's own state
		// machine from taking it for a completed QUIT
		return &smtpd.Action{Code: 421, Raw: []byte("250 2.0.0 OK\r\n")}
	case "451-open":
		return &smtpd.Action{Code: 451, Enh: "4.3.0", Text: []string{"Try again later"}}
	case "500-open":
		return &smtpd.Action{Code: 500, Enh: "5.5.1", Text: []string{"Command not recognized"}}
	case "554-open":
		return &smtpd.Action{Code: 554, Enh: "5.3.0", Text: []string{"Transaction failed"}}
	case "garbage-open":
		return &smtpd.Action{Code: 421, Raw: []byte("hello there\r\n")}
	case "drop":
		return &smtpd.Action{DropBefore: true}
	case quitSilent:
		// nothing is written (empty Raw) and the server goes on reading commands
		return &smtpd.Action{Code: 421, Raw: []byte{}}
	}
	panic("c13: unknown reply class " + class)
}

type hopSpec struct {
	host  string
	mode  string // "plain" | "tls" | "tls-broken" (STARTTLS offered, handshake fails) | "unreachable"
	chain string // for mode tls: one of xChains
	quit  string
	rset  string
	noop  string
}

func (s hopSpec) String() string {
	m := s.mode
	if s.mode == "tls" {
		m += ":" + s.chain
	}
	return fmt.Sprintf("%s[%s quit=%s rset=%s noop=%s]", s.host, m, s.quit, s.rset, s.noop)
}

type hop struct {
	spec   hopSpec
	srv    *smtpd.Server // nil: unreachable
	st     *state
	ks     []kind // published record kinds
	noName bool   // no TLSA owner name at all
	last   hopObs
}

// hopObs are cumulative facts read from the next hop's transcript.
type hopObs struct {
	conns, mails, contents, quits, rsets, noops int
}

func (o hopObs) minus(b hopObs) hopObs {
	return hopObs{o.conns - b.conns, o.mails - b.mails, o.contents - b.contents, o.quits - b.quits, o.rsets - b.rsets, o.noops - b.noops}
}

func (h *hop) observe() hopObs {
	var o hopObs
	if h.srv == nil {
		return o
	}
	for _, cr := range h.srv.Transcript() {
		o.conns++
		for _, cm := range cr.Commands {
			switch cm.Stage {
			case smtpd.StageQuit:
				o.quits++
			case smtpd.StageRset:
				o.rsets++
			case smtpd.StageNoop:
				o.noops++
			}
		}
		for _, tx := range cr.Txns {
			o.mails++
			if tx.DataCmdCode != 0 || len(tx.Data) > 0 {
				o.contents++
			}
		}
	}
	return o
}

type envX struct {
	pki    *xPKI
	zones  map[string]mockdns.Zone
	dnsSrv *mockdns.Server
	big    *bigDNS // group J: the truncating DNS server used instead of dnsSrv
	extR   *dns.ExtResolver
	hops   []*hop
	tgt    *remote.Target
	domain string
	// mutable: zone data may be changed between deliveries (only when every
	// TLSA lookup of the previous delivery is known to have been awaited, i.e.
	// no unreachable hop).
	mutable bool
	// lookupIncomplete (group J, set per delivery): a UDP answer was truncated
	// and the server gives no complete answer over TCP, so a lookup of this
	// delivery cannot be completed by any client. A non-delivery is then caused by
	// the lookup failure, not by the records: the converse clauses are not judged.
	lookupIncomplete bool
	// converseCause (group J): cause class of a refused-without-cause violation
	// (nil: the parameter classes of the published records).
	converseCause func(h *hop) string
}

func (e *envX) close() {
	// next hops first: a pooled connection whose QUIT would go unanswered
	// must not make Target.Close wait for the time-out
	for _, h := range e.hops {
		if h.srv != nil {
			h.srv.Close()
		}
	}
	if e.tgt != nil {
		e.tgt.Close()
	}
	if e.dnsSrv != nil {
		e.dnsSrv.Close()
	}
	if e.big != nil {
		e.big.close()
	}
}

func tlsaName(host string) string { return "_25._tcp." + host + "." }

func (e *envX) publish(h *hop, ks []kind, noName bool) {
	h.ks, h.noName = ks, noName
	tn := tlsaName(h.spec.host)
	if noName {
		delete(e.zones, tn)
		return
	}
	rrs := []miekgdns.RR{}
	for _, k := range ks {
		r := e.pki.w.concrete(k, h.st)
		r.Hdr = miekgdns.RR_Header{Name: tn, Class: miekgdns.ClassINET, Rrtype: miekgdns.TypeTLSA, Ttl: 9999}
		rrs = append(rrs, &r)
	}
	e.zones[tn] = mockdns.Zone{AD: true, Misc: map[miekgdns.Type][]miekgdns.RR{miekgdns.Type(miekgdns.TypeTLSA): rrs}}
}

// envOpts are the optional dimensions of an environment (zero value = groups F, G).
type envOpts struct {
	// clientRoots replaces the client's root pool (nil: the client trusts the
	// root of the next hops' hierarchy, so a well-formed chain is PKIX-valid).
	clientRoots *x509.CertPool
	// domainPerHop: every hop is the only MX of its own recipient domain
	// (domainOf(i)) instead of all hops being MX candidates of one domain.
	domainPerHop bool
	// onConnect is consulted for the greeting of every connection to hop i.
	onConnect func(i int) *smtpd.Action
	// bigDNS: serve the zone through the truncating DNS server of group J
	// (e2ez_test.go) with this TCP behaviour instead of go-mockdns's server.
	bigDNS string
}

func domainOf(i int) string { return fmt.Sprintf("dest%d.example.invalid", i+1) }

func newEnvX(pki *xPKI, specs []hopSpec, reuse bool, tag string) (*envX, error) {
	return newEnvXOpt(pki, specs, reuse, tag, envOpts{})
}

func newEnvXOpt(pki *xPKI, specs []hopSpec, reuse bool, tag string, opt envOpts) (*envX, error) {
	e := &envX{pki: pki, domain: e2eDomain, mutable: true}
	var mxs []net.MX
	e.zones = map[string]mockdns.Zone{}
	byHost := map[string]*hop{}
	for i, s := range specs {
		mxs = append(mxs, net.MX{Host: s.host + ".", Pref: uint16(10 * (i + 1))})
		e.zones[s.host+"."] = mockdns.Zone{AD: true, A: []string{fmt.Sprintf("127.0.0.%d", i+1)}}
		h := &hop{spec: s, noName: true}
		e.hops = append(e.hops, h)
		byHost[s.host] = h
		if s.mode == "unreachable" {
			e.mutable = false
			h.st = pki.state[s.host+"/plain"]
			continue
		}
		cfg := smtpd.Config{ListenAddr: "127.0.0.1:0", Hostname: s.host, PIPELINING: true, EightBitMIME: true}
		switch s.mode {
		case "plain":
			h.st = pki.state[s.host+"/plain"]
		case "tls-broken":
			cfg.STARTTLS = true
			cfg.StartTLSBroken = "handshake"
			h.st = pki.state[s.host+"/plain"]
		case "tls":
			cfg.STARTTLS = true
			cfg.TLS = &tls.Config{Certificates: []tls.Certificate{pki.certs[s.host+"/"+s.chain]}}
			h.st = pki.state[s.host+"/"+s.chain]
		default:
			return nil, errors.New("c13: unknown hop mode " + s.mode)
		}
		s, i := s, i
		cfg.Script = func(ev smtpd.Event) *smtpd.Action {
			switch ev.Stage {
			case smtpd.StageConnect:
				if opt.onConnect != nil {
					return opt.onConnect(i)
				}
			case smtpd.StageQuit:
				return replyAction(s.quit)
			case smtpd.StageRset:
				return replyAction(s.rset)
			case smtpd.StageNoop:
				return replyAction(s.noop)
			}
			return nil
		}
		var err error
		for try := 0; try < 40; try++ {
			// bind(:0)+listen can collide with another process' socket when the
			// shared machine is short of ephemeral ports; simply try again
			h.srv, err = smtpd.New(cfg)
			if err == nil || !strings.Contains(err.Error(), "address already in use") {
				break
			}
			time.Sleep(50 * time.Millisecond)
		}
		if err != nil {
			e.close()
			return nil, err
		}
	}
	if opt.domainPerHop {
		for i := range mxs {
			e.zones[domainOf(i)+"."] = mockdns.Zone{AD: true, MX: []net.MX{{Host: mxs[i].Host, Pref: 10}}}
		}
	} else {
		e.zones[e.domain+"."] = mockdns.Zone{AD: true, MX: mxs}
	}
	roots := pki.root.Pool()
	if opt.clientRoots != nil {
		roots = opt.clientRoots
	}

	var err error
	var addr *net.UDPAddr
	for try := 0; try < 40; try++ {
		if opt.bigDNS != "" {
			e.big, err = newBigDNS(e.zones, opt.bigDNS)
		} else {
			e.dnsSrv, err = mockdns.NewServerWithLogger(e.zones, nopLog{}, false)
		}
		if err == nil || !strings.Contains(err.Error(), "address already in use") {
			break
		}
		time.Sleep(50 * time.Millisecond)
	}
	if err != nil {
		e.close()
		return nil, err
	}
	if e.big != nil {
		addr = e.big.addr
	} else {
		addr = e.dnsSrv.LocalAddr().(*net.UDPAddr)
	}
	e.extR, err = dns.NewExtResolver()
	if err != nil {
		e.close()
		return nil, err
	}
	e.extR.Cfg.Servers = dnsServers(addr.IP.String())
	e.extR.Cfg.Port = strconv.Itoa(addr.Port)

	pol, err := remote.VerifDANEPolicy(e.extR, nil)
	if err != nil {
		e.close()
		return nil, err
	}
	limit := -1
	if reuse {
		limit = 10 // the production default
	}
	e.tgt, err = remote.VerifNewTarget(remote.VerifTargetOpts{
		Name: "c13x" + tag, Hostname: "client.example.invalid",
		Resolver: &mockdns.Resolver{Zones: e.zones},
		Dialer: func(ctx context.Context, network, addr string) (net.Conn, error) {
			host, _, err := net.SplitHostPort(addr)
			if err != nil {
				host = addr
			}
			h := byHost[strings.TrimSuffix(host, ".")]
			if h == nil || h.srv == nil {
				return nil, &net.OpError{Op: "dial", Net: "tcp", Err: errors.New("connect: connection refused")}
			}
			return (&net.Dialer{}).DialContext(ctx, "tcp", h.srv.Addr())
		},
		ExtResolver: e.extR, Policies: []module.MXAuthPolicy{pol},
		TLSConfig: &tls.Config{RootCAs: roots}, ConnReuseLimit: limit,
		ConnectTimeout: 20 * time.Second, CommandTimeout: 20 * time.Second, SubmissionTimeout: 20 * time.Second,
	})
	if err != nil {
		e.close()
		return nil, err
	}
	return e, nil
}

// deliver sends one message to rcpt@domain and returns the outcome text and,
// per hop, what arrived there since the previous call.
func (e *envX) deliver(id string) (outcome string, delta []hopObs) {
	outcome = e.send(id, e.domain)
	for _, h := range e.hops {
		now := h.observe()
		delta = append(delta, now.minus(h.last))
		h.last = now
	}
	return outcome, delta
}

// send runs one delivery of one message to rcpt@domain through the target
// (safe to call from several goroutines at once: one remote delivery each).
func (e *envX) send(id, domain string) (outcome string) {
	ctx, cancel := context.WithTimeout(context.Background(), 90*time.Second)
	defer cancel()
	meta := &module.MsgMetadata{ID: id, OriginalFrom: "sender@origin.example.invalid", DontTraceSender: true}
	d, err := e.tgt.Start(ctx, meta, "sender@origin.example.invalid")
	if err != nil {
		outcome = "start: " + err.Error()
	} else if err := d.AddRcpt(ctx, "rcpt@"+domain, smtp.RcptOptions{}); err != nil {
		d.Abort(ctx)
		outcome = "rcpt: " + err.Error()
	} else {
		hdr := textproto.Header{}
		hdr.Add("Subject", "c13 "+id)
		if err := d.Body(ctx, hdr, buffer.MemoryBuffer{Slice: []byte("token-" + id + "\r\n")}); err != nil {
			d.Abort(ctx)
			outcome = "body: " + err.Error()
		} else {
			d.Commit(ctx)
			outcome = "accepted"
		}
	}
	return outcome
}

// dnsServers lists the mock DNS server three times: ExtResolver.exchange moves
// on to the next configured server after a failed exchange, so a 2 s UDP read
// time-out of the DNS client (its goroutine or the mock server's starved on a
// loaded machine) is retried instead of failing the delivery.
func dnsServers(ip string) []string { return []string{ip, ip, ip} }

// envFailure: the delivery failed because an I/O time-out hit the test
// environment (mock DNS over UDP, loopback TCP) - a wall-clock effect that
// says nothing about DANE; such a non-delivery is counted, never judged.
func envFailure(outcome string) bool { return strings.Contains(outcome, "i/o timeout") }

// ---------------------------------------------------------------- oracle

// judgeMatchingRefused: the statement says "authenticates ONLY IF a usable
// record matches" and gives a converse only for absent / exclusively unusable
// records; a connection that is refused although a usable record matches is
// therefore counted, not judged (the same reading as groups A-C:
// ref_match_but_not_authenticated).
const judgeMatchingRefused = false

const (
	vAllowed = iota
	vRefused
	vContested
	vUnreachable
)

// hopVerdict is the statement applied to one MX: may message content travel
// over a connection to it?
func (e *envX) hopVerdict(h *hop) (v int, clause string, ref verdict) {
	if h.spec.mode == "unreachable" {
		return vUnreachable, "", ref
	}
	ks := h.ks
	if h.noName {
		ks = nil
	}
	recs := make([]miekgdns.TLSA, len(ks))
	for i, k := range ks {
		recs[i] = e.pki.w.concrete(k, h.st)
	}
	ref = e.pki.w.reference(ks, recs, h.st)
	switch {
	case !h.st.hs && len(ks) > 0:
		return vRefused, "record-exists-no-tls-not-refused", ref
	case !h.st.hs:
		return vAllowed, "", ref
	case ref.refuseA && ref.refuseB:
		return vRefused, "usable-records-none-matches-not-refused", ref
	case !ref.refuseA && !ref.refuseB:
		return vAllowed, "", ref
	}
	return vContested, "", ref
}

func kindsLabel(ks []kind, noName bool) string {
	if noName {
		return "(no TLSA name)"
	}
	if len(ks) == 0 {
		return "(empty RRset)"
	}
	l := make([]string, len(ks))
	for i, k := range ks {
		l[i] = k.String()
	}
	return strings.Join(l, " ; ")
}

// kindClassSet: sorted, de-duplicated parameter classes (signature material).
func kindClassSet(ks []kind) string {
	if len(ks) == 0 {
		return "no-records"
	}
	set := map[string]struct{}{}
	for _, k := range ks {
		set[kindClass([]kind{k})] = struct{}{}
	}
	l := make([]string, 0, len(set))
	for s := range set {
		l = append(l, s)
	}
	sort.Strings(l)
	return strings.Join(l, "+")
}

// judgeDelivery applies the oracle to one delivery. group is the signature
// prefix, cause(h) the cause class appended for a violation at hop h, pfx the
// counter prefix.
func (e *envX) judgeDelivery(c *rep.Case, r *rep.Reporter, group, pfx string, cause func(h *hop) string, outcome string, delta []hopObs, extra map[string]any) {
	r.Count(pfx+"_deliveries", 1)
	total := 0
	for _, o := range delta {
		total += o.contents
	}
	wit := func() map[string]any {
		m := map[string]any{"delivery_outcome": outcome}
		for k, v := range extra {
			m[k] = v
		}
		var hs []map[string]any
		for i, h := range e.hops {
			o := delta[i]
			v, _, ref := e.hopVerdict(h)
			hs = append(hs, map[string]any{
				"hop": h.spec.String(), "records": kindsLabel(h.ks, h.noName),
				"statement":       []string{"allowed", "refused", "contested", "unreachable"}[v],
				"reference":       map[string]any{"authenticate": ref.auth, "refuse": ref.refuseA},
				"new_connections": o.conns, "mail_commands": o.mails, "transactions_with_content": o.contents,
				"quit_commands": o.quits, "rset_commands": o.rsets,
			})
		}
		m["next_hops"] = hs
		return m
	}
	firstAllowed, blocked := -1, false
	for i, h := range e.hops {
		o := delta[i]
		v, clause, ref := e.hopVerdict(h)
		switch v {
		case vRefused:
			if o.conns > 0 {
				r.Count(pfx+"_refused_hop_contacted", 1)
				if h.st.hs {
					r.Count(pfx+"_refused_over_tls", 1)
				} else {
					r.Count(pfx+"_refused_no_tls", 1)
				}
			}
			if o.quits > 0 {
				r.Count(pfx+"_quit_after_refusal/"+h.spec.quit, int64(o.quits))
			}
			switch {
			case o.contents > 0:
				c.Violation(group+"/"+clause+"/content-sent/"+cause(h),
					fmt.Sprintf("MX %s must be refused for delivery (%s; records: %s) but message content was sent to it", h.spec.String(), clause, kindsLabel(h.ks, h.noName)), wit())
			case o.mails > 0:
				c.Violation(group+"/"+clause+"/mail-transaction-started/"+cause(h),
					fmt.Sprintf("MX %s must be refused for delivery (%s; records: %s) but a mail transaction was started on a connection to it", h.spec.String(), clause, kindsLabel(h.ks, h.noName)), wit())
			}
		case vAllowed:
			if o.contents > 0 {
				if ref.auth {
					r.Count(pfx+"_authenticated_delivered", 1)
				} else if h.st.hs {
					r.Count(pfx+"_absent_or_only_unusable_over_tls_delivered", 1)
				} else {
					r.Count(pfx+"_no_records_plaintext_delivered", 1)
				}
				if o.conns == 0 {
					r.Count(pfx+"_pooled_connection_reused", 1)
				}
			}
			if firstAllowed < 0 && !blocked {
				firstAllowed = i
			}
		case vContested:
			r.Count(pfx+"_malformed_reading_dependent_not_judged", 1)
			if firstAllowed < 0 {
				blocked = true
			}
		}
		if o.rsets > 0 {
			r.Count(pfx+"_rset_seen/"+h.spec.rset, int64(o.rsets))
		}
	}
	if firstAllowed >= 0 && total == 0 && outcome != "accepted" {
		h, o := e.hops[firstAllowed], delta[firstAllowed]
		if envFailure(outcome) {
			r.Count("env_io_timeout(not judged)", 1)
			return
		}
		if e.lookupIncomplete {
			r.Count(pfx+"_lookup_cannot_complete_not_delivered(not judged)", 1)
			return
		}
		if _, _, ref := e.hopVerdict(h); ref.auth && !judgeMatchingRefused {
			r.Count(pfx+"_matching_record_but_not_delivered(not judged)", 1)
			return
		}
		if o.conns == 0 && o.mails == 0 {
			r.Count(pfx+"_not_delivered_acceptable_hop_never_contacted(not judged)", 1)
			return
		}
		if h.st.hs {
			cc := kindClassSet(h.ks)
			if e.converseCause != nil {
				cc = e.converseCause(h)
			}
			c.Violation(group+"/refused-without-cause/tls/"+cc,
				fmt.Sprintf("MX %s (records: %s) has absent or exclusively unusable records, was contacted over TLS, yet nothing was delivered (%s)", h.spec.String(), kindsLabel(h.ks, h.noName), outcome), wit())
		} else {
			c.Violation(group+"/no-records-refused/plaintext",
				fmt.Sprintf("MX %s has no TLSA record, DANE is the only policy, yet the plaintext delivery was refused (%s)", h.spec.String(), outcome), wit())
		}
	}
}

// ---------------------------------------------------------------- group F

type refusalScenario struct {
	name  string
	mode  string
	chain string
	ks    []kind
}

// Every scenario is a refusal by the statement (checked at run time against reference()).
var refusalScenarios = []refusalScenario{
	{"plain/usable-ee", "plain", "", []kind{{3, 1, 1, dLeaf}}},
	{"plain/usable-ta", "plain", "", []kind{{2, 0, 1, dInter}}},
	{"plain/unassigned-usage", "plain", "", []kind{{4, 0, 1, dLeaf}}},
	{"plain/pkix-usage", "plain", "", []kind{{1, 0, 1, dLeaf}}},
	{"broken-handshake/usable-ee", "tls-broken", "", []kind{{3, 1, 1, dNothing}}},
	{"broken-handshake/unusable-pair", "tls-broken", "", []kind{{255, 2, 3, dNothing}, {0, 1, 2, dNothing}}},
	{"tls/ee-nomatch", "tls", "valid", []kind{{3, 1, 1, dNothing}}},
	{"tls/ta-nomatch", "tls", "valid", []kind{{2, 0, 1, dNothing}}},
	{"tls/ee-matches-issuer-only", "tls", "valid", []kind{{3, 0, 1, dInter}}},
	{"tls/ta-matches-nonca-leaf", "tls", "valid", []kind{{2, 1, 1, dLeaf}}},
	{"tls/ta-root-not-presented", "tls", "valid", []kind{{2, 0, 1, dRoot}}},
	{"tls/unusable+ee-nomatch", "tls", "valid", []kind{{4, 0, 1, dLeaf}, {3, 1, 2, dNothing}}},
	{"tls/expired/ta-chain-bad", "tls", "expired", []kind{{2, 0, 1, dInter}}},
	{"tls/selfsigned/ee-nomatch", "tls", "selfsigned", []kind{{3, 1, 1, dNothing}}},
	{"tls/wrongname/ta-chain-bad", "tls", "wrongname", []kind{{2, 1, 1, dInter}}},
}

type acceptableScenario struct {
	mode   string
	chain  string
	ks     []kind
	noName bool
}

var acceptableScenarios = []acceptableScenario{
	{"tls", "valid", nil, true},
	{"tls", "valid", []kind{}, false},
	{"tls", "valid", []kind{{3, 1, 1, dLeaf}}, false},
	{"tls", "valid", []kind{{2, 0, 1, dInter}}, false},
	{"tls", "valid", []kind{{4, 0, 1, dLeaf}}, false},
	{"tls", "expired", []kind{{3, 0, 1, dLeaf}}, false},
	{"tls", "selfsigned", []kind{{3, 1, 2, dLeaf}}, false},
	{"plain", "", nil, true},
	{"tls-broken", "", nil, true},
}

var layouts = []string{"only-mx", "second-mx-acceptable", "second-mx-refused", "second-mx-unreachable"}

// hostileEnv runs one environment of group F: MX1 is refused by the
// statement (scenario sc, QUIT behaviour quit); layout / reuse as given; the
// rest is drawn from p. Two deliveries to the same domain, the second right
// after the first.
func hostileEnv(c *rep.Case, r *rep.Reporter, pki *xPKI, p *prng.R, tag string, sc refusalScenario, quit, layout string, reuse bool) {
	nonSilent := func() string { return prng.Pick(p, quitClasses) }
	specs := []hopSpec{{host: mxName, mode: sc.mode, chain: sc.chain, quit: quit, rset: prng.Pick(p, rsetClasses), noop: prng.Pick(p, noopClasses)}}
	var sc2 *refusalScenario
	var ac2 *acceptableScenario
	switch layout {
	case "second-mx-acceptable":
		a := prng.Pick(p, acceptableScenarios)
		ac2 = &a
		specs = append(specs, hopSpec{host: mx2Name, mode: a.mode, chain: a.chain, quit: nonSilent(), rset: prng.Pick(p, rsetClasses), noop: prng.Pick(p, noopClasses)})
	case "second-mx-refused":
		s := prng.Pick(p, refusalScenarios)
		sc2 = &s
		q2 := nonSilent()
		if quit == quitSilent {
			q2 = "421-open"
		}
		specs = append(specs, hopSpec{host: mx2Name, mode: s.mode, chain: s.chain, quit: q2, rset: prng.Pick(p, rsetClasses), noop: prng.Pick(p, noopClasses)})
	case "second-mx-unreachable":
		specs = append(specs, hopSpec{host: mx2Name, mode: "unreachable", quit: "221", rset: "250", noop: "250"})
	}
	repair := p.Chance(1, 4)
	env, err := newEnvX(pki, specs, reuse, tag)
	if err != nil {
		c.Inconclusive("cannot build the end-to-end environment: " + err.Error())
		return
	}
	defer env.close()
	env.publish(env.hops[0], sc.ks, false)
	if v, _, _ := env.hopVerdict(env.hops[0]); v != vRefused {
		c.Inconclusive("harness: scenario " + sc.name + " is not a refusal by the reference")
		return
	}
	if sc2 != nil {
		env.publish(env.hops[1], sc2.ks, false)
	}
	if ac2 != nil {
		env.publish(env.hops[1], ac2.ks, ac2.noName)
		if v, _, _ := env.hopVerdict(env.hops[1]); v != vAllowed {
			c.Inconclusive("harness: acceptable scenario is not acceptable by the reference")
			return
		}
	}
	cause := func(h *hop) string { return "peer-quit=" + h.spec.quit }
	reuseTag := "off"
	if reuse {
		reuseTag = "on"
	}
	for d := 1; d <= 2; d++ {
		history := "first"
		if d == 2 {
			history = "second-right-after"
			if repair && env.mutable {
				// the operator repaired the records in between: the second
				// delivery is to be accepted
				// (records removed, or only an unusable one left: the cases for
				// which the statement forbids a refusal of a TLS connection)
				h := env.hops[0]
				if h.st.hs && p.Bool() {
					env.publish(h, []kind{{4, 0, 1, dLeaf}}, false)
				} else {
					env.publish(h, nil, true)
				}
				history = "second-after-records-repaired"
				r.Count("e2ex_second_delivery_after_repair", 1)
			} else {
				r.Count("e2ex_second_delivery_same_records/reuse="+reuseTag, 1)
			}
		}
		outcome, delta := env.deliver(fmt.Sprintf("c13x%s-%d", tag, d))
		env.judgeDelivery(c, r, "e2e-hostile", "e2ex", cause, outcome, delta,
			map[string]any{"scenario": sc.name, "layout": layout, "conn_reuse": reuse, "delivery": history})
		r.Count("e2ex_layout/"+layout, 1)
		if len(env.hops) > 1 {
			v, _, _ := env.hopVerdict(env.hops[1])
			o := delta[1]
			switch {
			case v == vAllowed && o.contents > 0:
				r.Count("e2ex_second_mx_acceptable_delivered", 1)
			case v == vRefused && o.conns > 0:
				r.Count("e2ex_second_mx_refused_too", 1)
			case v == vUnreachable:
				r.Count("e2ex_second_mx_unreachable", 1)
			}
		}
	}
}

func hostileGroup(t *testing.T, r *rep.Reporter, pki *xPKI) {
	ci := 0
	for si := range refusalScenarios {
		for qi := range quitClasses {
			sc, quit := refusalScenarios[si], quitClasses[qi]
			idx := groupHostile + ci
			ci++
			r.Run(idx, fmt.Sprintf("e2e-hostile/%s/quit=%s", sc.name, quit), func(c *rep.Case) {
				// quick: every layout once, connection reuse alternating over
				// (scenario, QUIT class, layout); thorough: both settings
				for li, layout := range layouts {
					for ri, reuse := range []bool{false, true} {
						if r.Quick() && (si+qi+li)%2 != ri {
							continue
						}
						n := li*2 + ri
						p := prng.New(r.Seed(), uint64(idx)*16+uint64(n), "c13-hostile")
						hostileEnv(c, r, pki, p, fmt.Sprintf("%d-%d", idx-groupHostile, n), sc, quit, layout, reuse)
					}
				}
				c.Done(fmt.Sprintf("e2e-hostile/%s/quit=%s", sc.name, quit), true)
			})
		}
	}
	// QUIT never answered, connection kept open: every refused connection costs
	// the client's 5 s QUIT time-out, so only a handful of environments, one
	// per case (the shards run them side by side).
	silent := []struct {
		sc     int
		layout string
	}{{0, "only-mx"}, {6, "only-mx"}, {6, "second-mx-acceptable"}, {4, "second-mx-refused"}}
	for i, s := range silent {
		sc := refusalScenarios[s.sc]
		idx := groupHostile + 900_000 + i
		r.Run(idx, fmt.Sprintf("e2e-hostile/%s/quit=%s/%s", sc.name, quitSilent, s.layout), func(c *rep.Case) {
			p := prng.New(r.Seed(), uint64(idx), "c13-hostile")
			hostileEnv(c, r, pki, p, fmt.Sprintf("s%d", i), sc, quitSilent, s.layout, true)
			c.Done(fmt.Sprintf("e2e-hostile/%s/quit=%s/%s", sc.name, quitSilent, s.layout), true)
		})
	}
}

// ---------------------------------------------------------------- group G

var multiModes = []hopSpec{
	{mode: "plain"}, {mode: "tls-broken"},
	{mode: "tls", chain: "valid"}, {mode: "tls", chain: "valid"}, {mode: "tls", chain: "expired"},
	{mode: "tls", chain: "selfsigned"}, {mode: "tls", chain: "wrongname"},
}

var multiData = []int{dLeaf, dLeaf, dInter, dInter, dRoot, dNothing, dNothing, dOther}

func drawUsable(p *prng.R) kind {
	return kind{uint8(2 + p.Intn(2)), uint8(p.Intn(2)), uint8(p.Intn(3)), prng.Pick(p, multiData)}
}

// unusableTwin returns an unusable record carrying the SAME association data
// bytes as the (possibly adjusted) usable record u, and u itself.
func unusableTwin(p *prng.R, u kind) (twin, adj kind) {
	twin = u
	switch p.Intn(4) {
	case 0, 1:
		twin.usage = prng.Pick(p, []uint8{0, 1, 4, 255})
	case 2:
		u.sel = 0 // concrete() computes the bytes of an out-of-range selector as selector 0
		twin = u
		twin.sel = 2
	default:
		u.mt = 1 // ... and of an out-of-range matching type as SHA-256
		twin = u
		twin.mt = 3
	}
	return twin, u
}

func drawUnusable(p *prng.R) kind {
	k := drawUsable(p)
	switch p.Intn(3) {
	case 0:
		k.usage = prng.Pick(p, []uint8{0, 1, 4, 255})
	case 1:
		k.sel = 2
	default:
		k.mt = 3
	}
	return k
}

// drawMulti draws one ordered record set and names its interaction shape.
func drawMulti(p *prng.R) (string, []kind) {
	switch p.Intn(9) {
	case 8:
		ks := []kind{drawUnusable(p), drawUnusable(p)}
		if p.Bool() {
			ks = append(ks, drawUnusable(p))
		}
		return "exclusively-unusable", ks
	case 0:
		t, u := unusableTwin(p, drawUsable(p))
		return "unusable-before-usable-same-data", []kind{t, u}
	case 1:
		t, u := unusableTwin(p, drawUsable(p))
		return "unusable-after-usable-same-data", []kind{u, t}
	case 2:
		ee, ta := drawUsable(p), drawUsable(p)
		ee.usage, ta.usage = 3, 2
		if p.Bool() {
			return "ee-next-to-ta", []kind{ee, ta}
		}
		return "ee-next-to-ta", []kind{ta, ee}
	case 3:
		u := drawUsable(p)
		return "duplicate-usable", []kind{u, u}
	case 4:
		a, b := drawUsable(p), drawUsable(p)
		a.usage = b.usage
		return "same-usage-pair", []kind{a, b}
	case 5:
		t, u := unusableTwin(p, drawUsable(p))
		o := drawUsable(p)
		ks := []kind{t, u, o}
		pm := p.Perm(3)
		return "three-with-twin", []kind{ks[pm[0]], ks[pm[1]], ks[pm[2]]}
	case 6:
		ks := []kind{drawUnusable(p), drawUsable(p), drawUsable(p)}
		pm := p.Perm(3)
		return "three-unusable+two-usable", []kind{ks[pm[0]], ks[pm[1]], ks[pm[2]]}
	default:
		ee, ta := drawUsable(p), drawUsable(p)
		ee.usage, ta.usage = 3, 2
		ks := []kind{ee, ta, drawUnusable(p)}
		pm := p.Perm(3)
		return "three-ee+ta+unusable", []kind{ks[pm[0]], ks[pm[1]], ks[pm[2]]}
	}
}

func multiGroup(t *testing.T, r *rep.Reporter, pki *xPKI) {
	rounds := r.N(3, 40)
	const perCase = 36
	ci := 0
	for round := 0; round < rounds; round++ {
		for mi := range multiModes {
			spec := multiModes[mi]
			spec.host, spec.quit, spec.rset, spec.noop = mxName, "221", "250", "250"
			idx := groupMulti + ci
			ci++
			id := fmt.Sprintf("e2e-multi/%s:%s/%d", spec.mode, spec.chain, round)
			r.Run(idx, id, func(c *rep.Case) {
				p := prng.New(r.Seed(), uint64(idx), "c13-multi")
				env, err := newEnvX(pki, []hopSpec{spec}, false, fmt.Sprintf("m%d", idx-groupMulti))
				if err != nil {
					c.Inconclusive("cannot build the end-to-end environment: " + err.Error())
					c.Done("", false)
					return
				}
				defer env.close()
				h := env.hops[0]
				for n := 0; n < perCase; n++ {
					shape, ks := drawMulti(p)
					env.publish(h, ks, false)
					outcome, delta := env.deliver(fmt.Sprintf("c13m%d-%d", idx-groupMulti, n))
					r.Count("e2eg_shape/"+shape, 1)
					r.Count(fmt.Sprintf("e2eg_records_%d", len(ks)), 1)
					env.judgeDelivery(c, r, "e2e-multi", "e2eg", func(h *hop) string { return kindClassSet(h.ks) }, outcome, delta,
						map[string]any{"shape": shape})
					if round == 0 && n < 1 {
						r.Sample(map[string]any{"group": "end-to-end record sets", "next_hop": spec.String(), "records": kindsLabel(ks, false), "shape": shape, "outcome": outcome, "content_reached_next_hop": delta[0].contents > 0})
					}
				}
				c.Done(fmt.Sprintf("e2e-multi/%s:%s", spec.mode, spec.chain), true)
			})
		}
	}
}

// e2exGroups is called from TestVerif.
func e2exGroups(t *testing.T, r *rep.Reporter, w *world, mark func(string)) {
	pki := newXPKI(w)
	hostileGroup(t, r, pki)
	mark("group F")
	multiGroup(t, r, pki)
	mark("group G")
	appendedGroup(t, r, pki)
	mark("group H")
	concurrentGroup(t, r, pki)
	mark("group I")
	bigDNSGroup(t, r, pki)
	mark("group J")
	dnsFaultGroup(t, r, pki)
	mark("group K")
}
