//go:build verif

// Groups H and I: two more dimensions of the end-to-end path of groups E-G
// (mock DNSSEC zone -> real dns.ExtResolver -> real DANE policy -> real
// remote.Target -> scripted verifkit/smtpd next hops).
//
//	H  PRESENTED CHAINS WITH AN UNRELATED CA APPENDED. A server may send any
//	   certificate it likes after its own. The statement lets a DANE-TA record
//	   authenticate only through "a CA certificate of the presented chain TO
//	   WHICH THE SERVER CERTIFICATE VALIDLY CHAINS": a record naming a CA that is
//	   merely part of the presented list must leave the connection refused
//	   ("usable records exist and none matches") - whether or not the client's
//	   own PKIX verification of the leaf succeeded. The next hops present
//	   leaf+int+unrelatedCA, leaf+unrelatedCA+int, rootleaf+unrelatedCA (PKIX-
//	   valid for a client trusting the real root: first connection attempt
//	   succeeds, tls.ConnectionState.VerifiedChains is populated by crypto/tls)
//	   and expired / wrong-name / self-signed leaves with the CA appended
//	   (PKIX fails, maddy reconnects without verification); the client trusts
//	   the leaf's real root, or only the unrelated CA itself.
//	I  CONCURRENT DELIVERIES through ONE remote.Target / ONE DANE policy
//	   instance to two or three domains whose MX hosts have different TLSA facts
//	   (refusing records / absent or only unusable records / matching records).
//	   The interleaving is made deterministic at the policy hooks: every next
//	   hop withholds its greeting until every delivery of the round has
//	   connected, i.e. PrepareConn has run for every MX before CheckConn runs
//	   for any - the deliveries are started one after another in a drawn order,
//	   each after the previous one reached its next hop. Every delivery is
//	   judged by the facts of ITS OWN MX only (same oracle as groups F, G).
package c13

import (
	"crypto/x509"
	"fmt"
	"strings"
	"sync"
	"testing"
	"time"

	"verifkit/prng"
	"verifkit/rep"
	"verifkit/smtpd"
)

const (
	groupAppended   = 6_000_000
	groupConcurrent = 7_000_000
)

// ---------------------------------------------------------------- group H

type appendedEnv struct {
	chain   string
	trusted bool // the client trusts the real root of the leaf (else: only the unrelated CA)
}

var appendedEnvs = []appendedEnv{
	{"valid+unrelatedCA", true}, {"valid+unrelatedCA", false},
	{"unrelatedCA-before-int", true},
	{"direct+unrelatedCA", true}, {"direct+unrelatedCA", false},
	{"expired+unrelatedCA", true}, {"wrongname+unrelatedCA", true}, {"selfsigned+unrelatedCA", true},
	{"direct", true}, // control: nothing appended; a TA record for the root (verified by the client, not presented)
}

// appendedSets: the enumerated record sets of group H (nil entry = no TLSA name).
func appendedSets() [][]kind {
	var sets [][]kind
	for sel := uint8(0); sel <= 1; sel++ {
		for mt := uint8(0); mt <= 2; mt++ {
			sets = append(sets, []kind{{2, sel, mt, dOther}})
		}
	}
	sets = append(sets,
		[]kind{{2, 0, 1, dOther}, {3, 1, 1, dNothing}},
		[]kind{{3, 1, 1, dNothing}, {2, 1, 1, dOther}},
		[]kind{{4, 0, 1, dLeaf}, {2, 0, 1, dOther}},
		[]kind{{2, 1, 2, dOther}, {2, 0, 1, dNothing}},
		[]kind{{2, 0, 1, dOther}, {2, 0, 1, dOther}},
		[]kind{{3, 0, 1, dOther}},                    // DANE-EE naming the appended CA
		[]kind{{0, 0, 1, dOther}},                    // PKIX-TA naming it: unusable
		[]kind{{0, 0, 1, dOther}, {2, 1, 1, dOther}}, // ... next to the usable twin
		[]kind{{2, 0, 1, dRoot}},                     // the real root: verified by the client, never presented
		[]kind{{2, 0, 1, dInter}},                    // control: the real issuer (where presented)
		[]kind{{2, 1, 1, dOther}, {2, 0, 1, dInter}}, // appended CA next to the real issuer
		[]kind{{3, 1, 1, dLeaf}},                     // control: EE match
		[]kind{{3, 1, 1, dLeaf}, {2, 0, 1, dOther}},  // EE match next to the appended CA
		[]kind{}, // empty RRset
		nil,      // no TLSA name
	)
	return sets
}

var appendedData = []int{dOther, dOther, dOther, dOther, dInter, dRoot, dLeaf, dNothing}

func appendedGroup(t *testing.T, r *rep.Reporter, pki *xPKI) {
	sampled := r.N(16, 300)
	onlyUnrelated := x509.NewCertPool()
	onlyUnrelated.AddCert(pki.w.otherCA)
	for ei := range appendedEnvs {
		ae := appendedEnvs[ei]
		idx := groupAppended + ei
		id := fmt.Sprintf("e2e-appended/%s/client-trusts-root=%v", ae.chain, ae.trusted)
		r.Run(idx, id, func(c *rep.Case) {
			p := prng.New(r.Seed(), uint64(idx), "c13-appended")
			spec := hopSpec{host: mxName, mode: "tls", chain: ae.chain, quit: "221", rset: "250", noop: "250"}
			opt := envOpts{}
			roots := pki.root.Pool()
			if !ae.trusted {
				opt.clientRoots = onlyUnrelated
				roots = onlyUnrelated
			}
			env, err := newEnvXOpt(pki, []hopSpec{spec}, false, fmt.Sprintf("h%d", ei), opt)
			if err != nil {
				c.Inconclusive("cannot build the end-to-end environment: " + err.Error())
				c.Done("", false)
				return
			}
			defer env.close()
			h := env.hops[0]
			// the client's own PKIX verdict on the presented chain (decides which
			// path maddy takes and whether VerifiedChains is populated); a fact
			// for counters and signatures only, the oracle does not use it
			vo := x509.VerifyOptions{DNSName: mxName, Roots: roots, Intermediates: x509.NewCertPool()}
			for _, cc := range h.st.chain[1:] {
				vo.Intermediates.AddCert(cc)
			}
			_, verr := h.st.chain[0].Verify(vo)
			pkix := "client-pkix=valid"
			if verr != nil {
				pkix = "client-pkix=invalid"
			}
			cause := func(h *hop) string { return "leaf=" + h.st.leafKind + "/" + pkix + "/" + kindClassSet(h.ks) }
			sets := appendedSets()
			for n := 0; n < sampled; n++ {
				// drawn sets of 1-3 records, association data biased to the appended CA
				m := p.Range(1, 3)
				ks := make([]kind, m)
				for j := range ks {
					if p.Chance(1, 4) {
						ks[j] = drawUnusable(p)
					} else {
						ks[j] = drawUsable(p)
					}
					ks[j].data = prng.Pick(p, appendedData)
				}
				sets = append(sets, ks)
			}
			for n, ks := range sets {
				env.publish(h, ks, ks == nil)
				outcome, delta := env.deliver(fmt.Sprintf("c13h%d-%d", ei, n))
				v, _, _ := env.hopVerdict(h)
				names := false
				for _, k := range ks {
					if usableParams(k) && k.usage == 2 && k.data == dOther {
						names = true
					}
				}
				appended := strings.Contains(ae.chain, "unrelatedCA")
				if names && appended && v == vRefused {
					r.Count("e2eh_ta_names_appended_ca_refused/"+pkix, 1)
				}
				if names && appended && v == vAllowed {
					r.Count("e2eh_ta_names_appended_ca_next_to_matching_record", 1)
				}
				env.judgeDelivery(c, r, "e2e-appended", "e2eh", cause, outcome, delta,
					map[string]any{"presented_chain": ae.chain, "client_trusts_real_root": ae.trusted, "client_pkix_verdict": pkix})
				if n == 0 {
					r.Sample(map[string]any{"group": "unrelated CA appended", "next_hop": spec.String(), "client": pkix, "records": kindsLabel(ks, ks == nil), "outcome": outcome, "content_reached_next_hop": delta[0].contents > 0})
				}
			}
			c.Done(id, true)
		})
	}
}

// ---------------------------------------------------------------- group I

// concFact is one MX's TLSA facts + what it presents; class is the statement's
// verdict class for a connection to it.
type concFact struct {
	class  string // "refuse" | "absent" | "auth"
	mode   string
	chain  string
	ks     []kind
	noName bool
}

var concFacts = map[string][]concFact{
	"refuse": {
		{"refuse", "tls", "valid", []kind{{3, 1, 1, dNothing}}, false},
		{"refuse", "tls", "valid", []kind{{2, 0, 1, dNothing}}, false},
		{"refuse", "tls", "valid", []kind{{4, 0, 1, dLeaf}, {3, 1, 2, dNothing}}, false},
		{"refuse", "tls", "selfsigned", []kind{{3, 1, 1, dNothing}}, false},
		{"refuse", "tls", "valid+unrelatedCA", []kind{{2, 0, 1, dOther}}, false},
		{"refuse", "plain", "", []kind{{3, 1, 1, dLeaf}}, false},
		{"refuse", "plain", "", []kind{{4, 0, 1, dLeaf}}, false},
		{"refuse", "tls-broken", "", []kind{{3, 1, 1, dNothing}}, false},
	},
	"absent": {
		{"absent", "tls", "valid", nil, true},
		{"absent", "tls", "valid", []kind{}, false},
		{"absent", "tls", "valid", []kind{{4, 0, 1, dLeaf}}, false},
		{"absent", "tls", "valid", []kind{{1, 0, 1, dLeaf}, {3, 2, 1, dLeaf}}, false},
		{"absent", "tls", "selfsigned", nil, true},
		{"absent", "plain", "", nil, true},
	},
	"auth": {
		{"auth", "tls", "valid", []kind{{3, 1, 1, dLeaf}}, false},
		{"auth", "tls", "valid", []kind{{2, 0, 1, dInter}}, false},
		{"auth", "tls", "selfsigned", []kind{{3, 1, 2, dLeaf}}, false},
		{"auth", "tls", "expired", []kind{{3, 0, 1, dLeaf}}, false},
	},
}

var concHosts = []string{mxName, mx2Name, mx3Name}

// gate withholds the greeting of every next hop until it is opened.
type gate struct {
	mu      sync.Mutex
	release chan struct{}
	seen    []chan struct{}
}

func (g *gate) arm(n int) (release chan struct{}, seen []chan struct{}) {
	g.mu.Lock()
	defer g.mu.Unlock()
	g.release = make(chan struct{})
	g.seen = make([]chan struct{}, n)
	for i := range g.seen {
		g.seen[i] = make(chan struct{}, 16)
	}
	return g.release, g.seen
}

func (g *gate) disarm() {
	g.mu.Lock()
	defer g.mu.Unlock()
	g.release, g.seen = nil, nil
}

func (g *gate) onConnect(i int) *smtpd.Action {
	g.mu.Lock()
	defer g.mu.Unlock()
	if g.release == nil {
		return nil
	}
	select {
	case g.seen[i] <- struct{}{}:
	default:
	}
	return &smtpd.Action{Hold: g.release}
}

// concEnv runs one environment of group I.
func concEnv(c *rep.Case, r *rep.Reporter, pki *xPKI, p *prng.R, tag string) {
	n := 2 + p.Intn(2)
	classes := []string{"refuse", "absent", "auth"}
	pm := p.Perm(3)
	facts := make([]concFact, n)
	for i := range facts {
		cl := classes[pm[i]]
		if i > 0 && p.Chance(1, 8) {
			cl = facts[i-1].class // now and then two MXs of the same class (different certificates / records)
		}
		facts[i] = prng.Pick(p, concFacts[cl])
	}
	reuse := p.Chance(1, 4)
	specs := make([]hopSpec, n)
	for i, f := range facts {
		specs[i] = hopSpec{host: concHosts[i], mode: f.mode, chain: f.chain, quit: "221", rset: "250", noop: "250"}
	}
	g := &gate{}
	env, err := newEnvXOpt(pki, specs, reuse, tag, envOpts{domainPerHop: true, onConnect: g.onConnect})
	if err != nil {
		c.Inconclusive("cannot build the end-to-end environment: " + err.Error())
		return
	}
	defer env.close()
	want := map[string]int{"refuse": vRefused, "absent": vAllowed, "auth": vAllowed}
	for i, f := range facts {
		env.publish(env.hops[i], f.ks, f.noName)
		v, _, ref := env.hopVerdict(env.hops[i])
		if v != want[f.class] || ref.auth != (f.class == "auth") {
			c.Inconclusive("harness: concurrent-delivery fact of class " + f.class + " is not of that class by the reference")
			return
		}
	}
	// Rounds: a drawn start order held at the greeting, the reverse order held,
	// and one free-running round (all started together, no gate).
	order := p.Perm(n)
	rev := make([]int, n)
	for i := range order {
		rev[n-1-i] = order[i]
	}
	type roundSpec struct {
		order []int
		held  bool
	}
	for ri, rs := range []roundSpec{{order, true}, {rev, true}, {order, false}} {
		outcomes := make([]string, n)
		done := make([]chan struct{}, n)
		start := func(k int) {
			done[k] = make(chan struct{})
			go func() {
				defer close(done[k])
				outcomes[k] = env.send(fmt.Sprintf("c13c%s-%d-%d", tag, ri, k), domainOf(k))
			}()
		}
		allHeld := rs.held
		if rs.held {
			release, seen := g.arm(n)
			for _, k := range rs.order {
				start(k)
				select {
				case <-seen[k]: // delivery k ran PrepareConn(mx k) and is waiting for the greeting
				case <-done[k]: // it ended without contacting its next hop (pooled connection, early failure)
					allHeld = false
				case <-time.After(60 * time.Second):
					close(release)
					g.disarm()
					c.Inconclusive("concurrent deliveries: a delivery neither reached its next hop nor ended within the watchdog")
					return
				}
			}
			close(release)
		} else {
			for _, k := range rs.order {
				start(k)
			}
		}
		for k := range done {
			select {
			case <-done[k]:
			case <-time.After(150 * time.Second):
				g.disarm()
				c.Inconclusive("concurrent deliveries: a delivery did not end within the watchdog")
				return
			}
		}
		g.disarm()
		if allHeld {
			r.Count("e2ec_rounds_all_connections_held_together", 1)
			r.Count(fmt.Sprintf("e2ec_rounds_held_together/%d-deliveries", n), 1)
			last := rs.order[n-1]
			for _, k := range rs.order[:n-1] {
				// delivery k's CheckConn ran after PrepareConn of the MX of class ...
				r.Count("e2ec_checked_after_prepare_of/"+facts[k].class+"-after-"+facts[last].class, 1)
			}
		} else if rs.held {
			r.Count("e2ec_rounds_not_all_held(pooled connection)", 1)
		} else {
			r.Count("e2ec_rounds_free_running", 1)
		}
		var startOrder []string
		for _, k := range rs.order {
			startOrder = append(startOrder, concHosts[k]+":"+facts[k].class)
		}
		for k, h := range env.hops {
			now := h.observe()
			delta := now.minus(h.last)
			h.last = now
			view := &envX{pki: env.pki, hops: []*hop{h}}
			cause := func(h *hop) string { return "own-mx=" + facts[k].class + "/concurrent-with=" + otherClasses(facts, k) }
			view.judgeDelivery(c, r, "e2e-concurrent", "e2ec", cause, outcomes[k], []hopObs{delta},
				map[string]any{"concurrent_deliveries": n, "start_order": startOrder, "greetings_held_until_all_connected": rs.held, "all_held": allHeld, "conn_reuse": reuse, "this_delivery": concHosts[k]})
		}
	}
}

func otherClasses(facts []concFact, k int) string {
	set := map[string]bool{}
	for i, f := range facts {
		if i != k {
			set[f.class] = true
		}
	}
	var l []string
	for _, cl := range []string{"absent", "auth", "refuse"} {
		if set[cl] {
			l = append(l, cl)
		}
	}
	return strings.Join(l, "+")
}

func concurrentGroup(t *testing.T, r *rep.Reporter, pki *xPKI) {
	cases := r.N(32, 400)
	const envsPerCase = 4
	for ci := 0; ci < cases; ci++ {
		idx := groupConcurrent + ci
		r.Run(idx, fmt.Sprintf("e2e-concurrent/%d", ci), func(c *rep.Case) {
			p := prng.New(r.Seed(), uint64(idx), "c13-concurrent")
			for e := 0; e < envsPerCase; e++ {
				concEnv(c, r, pki, p, fmt.Sprintf("%d-%d", ci, e))
			}
			c.Done("e2e-concurrent", true)
		})
	}
}
