//go:build verif

// Group J: the end-to-end path of groups E-I (zone -> real dns.ExtResolver ->
// real DANE policy -> real remote.Target -> scripted next hop) with a DNS SERVER
// THAT BEHAVES LIKE A REAL RESOLVER FOR LARGE ANSWERS.
//
// go-mockdns's server writes whatever it has into one UDP datagram. A real
// resolver honours the UDP payload size the client advertised in EDNS0 (512
// without EDNS0), capped by its own max-udp-size (512 / 1232 - the value of
// the 2020 DNS flag day - / 4096), and answers an RRset that does not fit with
// the TC bit set and records left out - all of them (BIND, Unbound) or only
// those that do not fit (dnsmasq, CoreDNS, miekg/dns.Msg.Truncate) - and serves
// the full answer over TCP. A client that takes the truncated answer for the
// RRset hands the DANE policy an empty or partial record set: "any TLSA record
// exists and TLS was not negotiated" / "usable records exist and none matches"
// are then decided on records that are not the published ones.
//
// The group publishes TLSA RRsets of
//
//	<= 4 records carrying large association data (full certificates of ~0.8 /
//	     1.6 / 3 / 4.7 KB: the sizes of multi-SAN and RSA-4096 certificates),
//	2-12 full-certificate records of the ordinary chain certificates,
//	6-70 hash records (roll-over and shared-hosting sets),
//
// i.e. answers below 512, between 512 and 1232, between 1232 and 4096 and above
// 4096 bytes, in the orders as-drawn / unusable-first / usable-first /
// match-first / match-last, with a server whose limit is 512 / 1232 / 4096 or
// exactly the size of the answer / one byte less, truncation style
// "empty + TC" or "partial + TC", and TCP service full / refused / answering
// truncated again / closing the connection. Now and then the A RRset of the MX
// host (the first lookup of TLSA discovery) is large as well.
//
// Oracle: the statement on the PUBLISHED records, exactly as in groups F-I
// (judgeDelivery). When a lookup cannot be completed by any client (UDP answer
// truncated and no complete answer over TCP) the refusal clauses are judged as
// always - records exist, so a plaintext or non-matching connection must not
// carry the message - but a non-delivery is not judged: it is caused by the
// lookup failure (temporary failure), not by the records.
package c13

import (
	"fmt"
	"net"
	"sort"
	"strings"
	"sync"
	"testing"
	"time"

	"github.com/foxcpp/go-mockdns"
	miekgdns "github.com/miekg/dns"
	"verifkit/prng"
	"verifkit/rep"
)

const groupBigDNS = 8_000_000

// ---------------------------------------------------------------- data classes of large association data

const (
	dFatBase = 100
	dFatS    = dFatBase + iota // never-presented certificate, ~0.8 KB
	dFatM                      // ~1.6 KB (an RSA-4096 certificate is about this size)
	dFatL                      // ~3 KB
	dFatXL                     // ~4.7 KB: one '3 0 0' record alone exceeds 4096 bytes
)

// fatSANs: number of padding subjectAltNames per class.
var fatSANs = map[int]int{dFatS: 8, dFatM: 25, dFatL: 55, dFatXL: 90}

var fatData = []int{dFatS, dFatM, dFatM, dFatL, dFatXL}

func fatDataName(d int) string {
	switch d {
	case dFatS:
		return "nothing:0.8k-certificate"
	case dFatM:
		return "nothing:1.6k-certificate"
	case dFatL:
		return "nothing:3k-certificate"
	case dFatXL:
		return "nothing:4.7k-certificate"
	}
	return fmt.Sprintf("data-class-%d", d)
}

func padNames(first string, n int) []string {
	l := []string{first}
	for i := 0; i < n; i++ {
		l = append(l, fmt.Sprintf("pad%03d.shared-hosting-customer.example.invalid", i))
	}
	return l
}

// ---------------------------------------------------------------- the DNS server

// dnsBehaviour is what may change between two deliveries of one environment.
type dnsBehaviour struct {
	// maxUDP: the server's own max-udp-size. A UDP answer is limited to
	// min(size advertised by the client in EDNS0, maxUDP); 512 without EDNS0.
	maxUDP int
	// edge: "" | "exact-fit" (the limit is the size of the full answer) |
	// "one-byte-short" (one byte less), within 512 .. min(advertised, 4096).
	edge string
	// style of a truncated answer: "empty" (TC, answer section empty) |
	// "partial" (TC, the longest prefix of the answer section that fits).
	style string
	// fault (group K, e2ef_test.go): answer the queries of one type with a
	// failure RCODE / an answer that denies the records; nil: none.
	fault *dnsFault
}

// dnsFacts: what the server saw since the last reset.
type dnsFacts struct {
	udpQueries, tcpQueries int
	tcUDP, tcTCP           int
	tcByType               map[string]int // truncated UDP answers per query type
	tlsaFull               int            // wire size of the complete answer to the last TLSA query (0: none)
	tlsaLimit              int            // limit applied to the last truncated UDP TLSA answer
	tlsaKept, tlsaTotal    int            // records left in / belonging to that answer
	exactFit               int            // UDP answers that exactly filled the limit and were sent complete
	packErr                int
	faultServed            int // answers replaced by the configured fault (group K)
	faultMatched           int // queries of the fault's type seen (served with the fault or, after the first n, from the zone)
	tlsaFromZone           int // TLSA queries answered from the zone data
}

// bigDNS serves a go-mockdns zone map through miekg/dns servers on one UDP and
// one TCP port, applying the size limit of a real resolver.
type bigDNS struct {
	mu      sync.Mutex
	inner   *mockdns.Server // no sockets; only its ServeDNS and zone map are used
	tcpMode string          // "full" | "refused" | "tc-again" | "close"
	beh     dnsBehaviour
	facts   dnsFacts
	udp     *miekgdns.Server
	tcp     *miekgdns.Server
	addr    *net.UDPAddr
}

var tcpModes = []string{"full", "refused", "tc-again", "close"}

// captureWriter records the answer of the inner handler instead of sending it.
type captureWriter struct {
	miekgdns.ResponseWriter
	msg *miekgdns.Msg
}

func (c *captureWriter) WriteMsg(m *miekgdns.Msg) error { c.msg = m; return nil }

func newBigDNS(zones map[string]mockdns.Zone, tcpMode string) (*bigDNS, error) {
	s := &bigDNS{tcpMode: tcpMode, beh: dnsBehaviour{maxUDP: 4096, style: "empty"}}
	s.inner = &mockdns.Server{Log: nopLog{}}
	s.inner.Resolver().Zones = zones
	// as go-mockdns does: TCP first, then UDP on the same port number
	tcpL, err := net.Listen("tcp4", "127.0.0.1:0")
	if err != nil {
		return nil, err
	}
	pc, err := net.ListenPacket("udp4", tcpL.Addr().String())
	if err != nil {
		tcpL.Close()
		return nil, err
	}
	s.addr = pc.LocalAddr().(*net.UDPAddr)
	started := make(chan struct{}, 2)
	s.udp = &miekgdns.Server{PacketConn: pc, Net: "udp", Handler: miekgdns.HandlerFunc(func(w miekgdns.ResponseWriter, m *miekgdns.Msg) { s.serve(w, m, false) }),
		NotifyStartedFunc: func() { started <- struct{}{} }}
	go s.udp.ActivateAndServe()
	n := 1
	if tcpMode == "refused" {
		// nobody listens on the TCP port: connection refused
		tcpL.Close()
	} else {
		s.tcp = &miekgdns.Server{Listener: tcpL, Net: "tcp", Handler: miekgdns.HandlerFunc(func(w miekgdns.ResponseWriter, m *miekgdns.Msg) { s.serve(w, m, true) }),
			NotifyStartedFunc: func() { started <- struct{}{} }}
		go s.tcp.ActivateAndServe()
		n = 2
	}
	for i := 0; i < n; i++ {
		select {
		case <-started:
		case <-time.After(60 * time.Second):
			return nil, fmt.Errorf("c13: the DNS server did not start")
		}
	}
	return s, nil
}

func (s *bigDNS) close() {
	if s.udp != nil {
		s.udp.Shutdown()
	}
	if s.tcp != nil {
		s.tcp.Shutdown()
	}
}

// configure sets the behaviour for the next delivery, runs change (zone data)
// while no query is being served, and forgets the facts collected so far.
func (s *bigDNS) configure(b dnsBehaviour, change func()) {
	s.mu.Lock()
	defer s.mu.Unlock()
	s.beh = b
	s.facts = dnsFacts{tcByType: map[string]int{}}
	if change != nil {
		change()
	}
}

func (s *bigDNS) takeFacts() dnsFacts {
	s.mu.Lock()
	defer s.mu.Unlock()
	f := s.facts
	f.tcByType = map[string]int{}
	for k, v := range s.facts.tcByType {
		f.tcByType[k] = v
	}
	return f
}

func clampInt(v, lo, hi int) int {
	if v < lo {
		return lo
	}
	if v > hi {
		return hi
	}
	return v
}

func (s *bigDNS) serve(w miekgdns.ResponseWriter, m *miekgdns.Msg, overTCP bool) {
	s.mu.Lock()
	defer s.mu.Unlock()
	if overTCP {
		s.facts.tcpQueries++
		if s.tcpMode == "close" {
			w.Close()
			return
		}
	} else {
		s.facts.udpQueries++
	}
	cw := &captureWriter{ResponseWriter: w}
	s.inner.ServeDNS(cw, m)
	reply := cw.msg
	if reply == nil || len(m.Question) == 0 {
		return
	}
	qtype := miekgdns.TypeToString[m.Question[0].Qtype]
	if s.serveFault(w, m, reply) {
		return
	}
	if qtype == "TLSA" {
		s.facts.tlsaFromZone++
	}
	adv := 512
	if o := m.IsEdns0(); o != nil {
		if int(o.UDPSize()) > adv {
			adv = int(o.UDPSize())
		}
		ro := new(miekgdns.OPT)
		ro.Hdr.Name = "."
		ro.Hdr.Rrtype = miekgdns.TypeOPT
		ro.SetUDPSize(uint16(s.beh.maxUDP))
		reply.Extra = append(reply.Extra, ro)
	}
	reply.Compress = true
	size := func() int {
		b, err := reply.Pack()
		if err != nil {
			return -1
		}
		return len(b)
	}
	full := size()
	if full < 0 {
		s.facts.packErr++
		w.WriteMsg(reply)
		return
	}
	if qtype == "TLSA" {
		s.facts.tlsaFull = full
	}
	if overTCP && s.tcpMode != "tc-again" {
		w.WriteMsg(reply) // the complete answer
		return
	}
	limit := adv
	if s.beh.maxUDP < limit {
		limit = s.beh.maxUDP
	}
	hi := adv
	if hi > 4096 {
		hi = 4096
	}
	switch s.beh.edge {
	case "exact-fit":
		limit = clampInt(full, 512, hi)
	case "one-byte-short":
		limit = clampInt(full-1, 512, hi)
	}
	if full <= limit {
		if full == limit && !overTCP {
			s.facts.exactFit++
		}
		w.WriteMsg(reply)
		return
	}
	all := reply.Answer
	reply.Truncated = true
	reply.Ns = nil
	reply.Answer = nil
	kept := 0
	if s.beh.style == "partial" {
		// the longest prefix of the answer section that fits
		lo, hiN := 0, len(all)-1
		for lo < hiN {
			mid := (lo + hiN + 1) / 2
			reply.Answer = all[:mid]
			if sz := size(); sz >= 0 && sz <= limit {
				lo = mid
			} else {
				hiN = mid - 1
			}
		}
		kept = lo
		reply.Answer = all[:kept]
	}
	if overTCP {
		s.facts.tcTCP++
	} else {
		s.facts.tcUDP++
		s.facts.tcByType[qtype]++
		if qtype == "TLSA" {
			s.facts.tlsaLimit, s.facts.tlsaKept, s.facts.tlsaTotal = limit, kept, len(all)
		}
	}
	w.WriteMsg(reply)
}

// ---------------------------------------------------------------- generator

var bigHopModes = []hopSpec{
	{mode: "plain"}, {mode: "tls-broken"},
	{mode: "tls", chain: "valid"}, {mode: "tls", chain: "selfsigned"}, {mode: "tls", chain: "fat"},
}

var bigNoMatchData = []int{dNothing, dNothing, dOther, dRoot, dFatS, dFatM, dFatL, dFatXL}

var bigMechs = []string{"few-large-records", "few-large-records", "full-certificate-records", "many-hash-records", "many-hash-records"}

var bigOrders = []string{"as-drawn", "unusable-first", "usable-first", "match-first", "match-last"}

type bigRec struct {
	k    kind
	role string // "nomatch" | "unusable" | "match"
}

// drawBigSet draws one ordered TLSA RRset. hasInter: the next hop presents the
// issuing CA (a DANE-TA record for it matches).
func drawBigSet(p *prng.R, hs, hasInter bool) (mech, intent, order string, ks []kind) {
	mech = prng.Pick(p, bigMechs)
	intent = []string{"refuse", "refuse", "refuse", "refuse", "refuse", "only-unusable", "only-unusable", "match", "match", "match"}[p.Intn(10)]
	var n int
	switch mech {
	case "few-large-records":
		n = p.Range(1, 4)
	case "full-certificate-records":
		n = p.Range(2, 12)
	default:
		n = []int{p.Range(6, 12), p.Range(13, 24), p.Range(25, 50), p.Range(51, 70)}[p.Intn(4)]
	}
	// one record of the given role, sized by the mechanism
	one := func(role string, large bool) kind {
		k := drawUsable(p)
		switch role {
		case "match":
			if hasInter && p.Bool() {
				k.usage, k.data = 2, dInter
			} else {
				k.usage, k.data = 3, dLeaf
			}
		default:
			k.data = prng.Pick(p, bigNoMatchData)
		}
		switch {
		case mech == "many-hash-records" || (mech == "few-large-records" && !large):
			if k.mt == 0 {
				k.mt = uint8(1 + p.Intn(2))
			}
		default: // the complete certificate
			k.sel, k.mt = 0, 0
			if mech == "few-large-records" && role != "match" {
				k.data = prng.Pick(p, fatData)
			}
			if mech == "full-certificate-records" && k.data >= dFatBase {
				k.data = dNothing
			}
		}
		if role == "unusable" {
			// break one parameter without changing the association data bytes
			// (concrete() computes an out-of-range selector as 0 and an
			// out-of-range matching type as SHA-256)
			switch {
			case k.sel == 0 && p.Chance(1, 4):
				k.sel = 2
			case k.mt == 1 && p.Chance(1, 3):
				k.mt = 3
			default:
				k.usage = prng.Pick(p, []uint8{0, 1, 4, 255})
			}
		}
		return k
	}
	var recs []bigRec
	seen := map[kind]bool{}
	add := func(role string, large bool) {
		var k kind
		for try := 0; try < 8; try++ {
			k = one(role, large)
			if !seen[k] {
				break
			}
		}
		seen[k] = true
		recs = append(recs, bigRec{k, role})
	}
	nLarge := n
	if mech == "few-large-records" {
		nLarge = p.Range(1, n)
		if nLarge > 3 {
			nLarge = 3
		}
	}
	matchAt := -1
	if intent == "match" {
		matchAt = p.Intn(n)
	}
	for i := 0; i < n; i++ {
		large := i < nLarge
		switch {
		case i == matchAt:
			add("match", large && p.Bool())
		case intent == "only-unusable":
			add("unusable", large)
		case i == 0 && matchAt != 0, !p.Chance(1, 3):
			add("nomatch", large)
		default:
			add("unusable", large)
		}
	}
	// the small records of a few-large-records set are not always last
	if mech == "few-large-records" {
		pm := p.Perm(len(recs))
		sh := make([]bigRec, len(recs))
		for i, j := range pm {
			sh[i] = recs[j]
		}
		recs = sh
	}
	order = prng.Pick(p, bigOrders)
	rank := func(role string) int {
		switch order {
		case "unusable-first":
			return map[string]int{"unusable": 0, "match": 1, "nomatch": 1}[role]
		case "usable-first":
			return map[string]int{"unusable": 1, "match": 0, "nomatch": 0}[role]
		case "match-first":
			return map[string]int{"unusable": 1, "match": 0, "nomatch": 1}[role]
		case "match-last":
			return map[string]int{"unusable": 0, "match": 1, "nomatch": 0}[role]
		}
		return 0
	}
	sort.SliceStable(recs, func(i, j int) bool { return rank(recs[i].role) < rank(recs[j].role) })
	for _, rc := range recs {
		ks = append(ks, rc.k)
	}
	return mech, intent, order, ks
}

func sizeClass(n int) string {
	switch {
	case n <= 512:
		return "<=512"
	case n <= 1232:
		return "513-1232"
	case n <= 4096:
		return "1233-4096"
	}
	return ">4096"
}

func manyAddrs(n int) []string {
	l := make([]string, 0, n)
	for i := 0; i < n; i++ {
		l = append(l, fmt.Sprintf("127.%d.%d.1", 1+i/250, 1+i%250))
	}
	return l
}

// ---------------------------------------------------------------- group J

func bigDNSGroup(t *testing.T, r *rep.Reporter, pki *xPKI) {
	rounds := r.N(1, 8)
	perCase := 14
	tcps := []string{"full", "full", "refused", "tc-again", "close"}
	ci := 0
	for round := 0; round < rounds; round++ {
		for mi := range bigHopModes {
			for _, style := range []string{"empty", "partial"} {
				for ti, tcpMode := range tcps {
					spec := bigHopModes[mi]
					spec.host, spec.quit, spec.rset, spec.noop = mxName, "221", "250", "250"
					style, tcpMode := style, tcpMode
					idx := groupBigDNS + ci
					ci++
					id := fmt.Sprintf("e2e-bigdns/%s:%s/udp=%s+tc/tcp=%s/%d", spec.mode, spec.chain, style, tcpMode, round*len(tcps)+ti)
					r.Run(idx, id, func(c *rep.Case) {
						p := prng.New(r.Seed(), uint64(idx), "c13-bigdns")
						env, err := newEnvXOpt(pki, []hopSpec{spec}, false, fmt.Sprintf("j%d", idx-groupBigDNS), envOpts{bigDNS: tcpMode})
						if err != nil {
							c.Inconclusive("cannot build the end-to-end environment: " + err.Error())
							c.Done("", false)
							return
						}
						defer env.close()
						h := env.hops[0]
						hasInter := h.st.hs && len(h.st.chain) > 1
						tcpTag := "tcp=unavailable"
						if tcpMode == "full" {
							tcpTag = "tcp=full"
						}
						for n := 0; n < perCase; n++ {
							mech, intent, order, ks := drawBigSet(p, h.st.hs, hasInter)
							beh := dnsBehaviour{style: style, maxUDP: []int{512, 1232, 4096, 4096}[p.Intn(4)]}
							switch p.Intn(8) {
							case 0:
								beh.edge = "exact-fit"
							case 1:
								beh.edge = "one-byte-short"
							}
							nA := 1
							if p.Chance(1, 6) {
								nA = []int{40, 90, 270}[p.Intn(3)]
							}
							env.big.configure(beh, func() {
								env.publish(h, ks, false)
								env.zones[h.spec.host+"."] = mockdns.Zone{AD: true, A: manyAddrs(nA)}
							})
							env.lookupIncomplete = false
							outcome := env.send(fmt.Sprintf("c13j%d-%d", idx-groupBigDNS, n), env.domain)
							f := env.big.takeFacts()
							now := h.observe()
							delta := []hopObs{now.minus(h.last)}
							h.last = now
							env.lookupIncomplete = f.tcUDP > 0 && tcpMode != "full"

							// what the server did (observation counters)
							r.Count("tc_responses_served", int64(f.tcUDP))
							r.Count("tcp_retries_seen", int64(f.tcpQueries))
							for qt, v := range f.tcByType {
								r.Count("e2ej_tc_served/"+strings.ToLower(qt), int64(v))
							}
							if f.packErr > 0 {
								c.Inconclusive("harness: the DNS server could not pack an answer")
							}
							r.Count("e2ej_exact_fit_answer_sent_complete", int64(f.exactFit))
							r.Count("e2ej_tc_over_tcp_served", int64(f.tcTCP))
							r.Count("e2ej_mechanism/"+mech, 1)
							r.Count("e2ej_order/"+order, 1)
							switch {
							case len(ks) <= 4:
								r.Count("e2ej_records/1-4", 1)
							case len(ks) <= 20:
								r.Count("e2ej_records/5-20", 1)
							default:
								r.Count("e2ej_records/21-70", 1)
							}
							truncated := []string{}
							for _, qt := range []string{"A", "TLSA"} {
								if f.tcByType[qt] > 0 {
									truncated = append(truncated, strings.ToLower(qt))
								}
							}
							for qt := range f.tcByType {
								if qt != "A" && qt != "TLSA" {
									truncated = append(truncated, "other")
									break
								}
							}
							v, _, ref := env.hopVerdict(h)
							if f.tlsaFull > 0 {
								r.Count("e2ej_tlsa_full_answer/"+sizeClass(f.tlsaFull), 1)
							}
							if f.tcByType["TLSA"] > 0 {
								r.Count("e2ej_tlsa_truncated/udp="+style+"+tc/tcp="+tcpMode, 1)
								lim := fmt.Sprint(f.tlsaLimit)
								if beh.edge == "one-byte-short" && f.tlsaLimit == f.tlsaFull-1 {
									lim = "one-byte-short"
								} else if f.tlsaLimit != 512 && f.tlsaLimit != 1232 && f.tlsaLimit != 4096 {
									lim = "other"
								}
								r.Count("e2ej_tlsa_truncated_at_limit/"+lim, 1)
								if style == "partial" {
									if f.tlsaKept > 0 {
										r.Count("e2ej_tlsa_partial_answer_kept_some_records", 1)
									} else {
										r.Count("e2ej_tlsa_partial_answer_kept_no_record", 1)
									}
								}
								switch {
								case v == vRefused && !h.st.hs:
									r.Count("e2ej_tlsa_truncated_statement_refuses/no-tls", 1)
								case v == vRefused:
									r.Count("e2ej_tlsa_truncated_statement_refuses/over-tls", 1)
								case v == vAllowed && ref.auth:
									r.Count("e2ej_tlsa_truncated_statement_allows/matching-record", 1)
								case v == vAllowed:
									r.Count("e2ej_tlsa_truncated_statement_allows/only-unusable", 1)
								}
								if v == vRefused && f.tlsaFull > 4096 && f.tlsaLimit == 4096 {
									r.Count("e2ej_tlsa_above_4096_truncated_at_4096_statement_refuses", 1)
								}
								if v == vAllowed && tcpMode == "full" && delta[0].contents > 0 {
									r.Count("e2ej_tlsa_truncated_tcp_full_delivered", 1)
								}
							}
							cause := func(*hop) string {
								if len(truncated) == 0 {
									return "udp-answers-complete"
								}
								return "truncated=" + strings.Join(truncated, "+") + "/udp-answer=" + style + "+tc/" + tcpTag
							}
							// large record sets: the parameter-class set would make one signature per set
							env.converseCause = func(h *hop) string {
								if len(h.ks) == 0 || h.noName {
									return "no-records/" + cause(h)
								}
								return "only-unusable-records/" + cause(h)
							}
							env.judgeDelivery(c, r, "e2e-bigdns", "e2ej", cause, outcome, delta, map[string]any{
								"record_set": map[string]any{"mechanism": mech, "intent": intent, "order": order, "records": len(ks)},
								"dns_server": map[string]any{
									"max_udp_size": beh.maxUDP, "edge": beh.edge, "truncated_answer_style": style, "tcp": tcpMode,
									"udp_queries": f.udpQueries, "tcp_queries": f.tcpQueries, "tc_answers_over_udp": f.tcByType,
									"tlsa_full_answer_bytes": f.tlsaFull, "tlsa_udp_limit": f.tlsaLimit,
									"tlsa_records_in_truncated_answer": f.tlsaKept, "tlsa_records_published": len(ks),
									"mx_host_a_records": nA,
								},
							})
							if n == 0 && round == 0 && ti == 0 {
								r.Sample(map[string]any{"group": "truncating DNS server", "next_hop": spec.String(), "records": len(ks), "mechanism": mech,
									"tlsa_full_answer_bytes": f.tlsaFull, "tc_answers_over_udp": f.tcUDP, "tcp_queries": f.tcpQueries, "tcp": tcpMode,
									"outcome": outcome, "content_reached_next_hop": delta[0].contents > 0})
							}
						}
						c.Done(fmt.Sprintf("e2e-bigdns/%s:%s/udp=%s+tc/tcp=%s", spec.mode, spec.chain, style, tcpMode), true)
					})
				}
			}
		}
	}
}
