//go:build verif

// Package c14 monitors property C14: password authentication succeeds exactly
// with the current password of the account the user name normalizes to; PLAIN
// and LOGIN agree; a foreign authorization identity is refused; a submission
// endpoint starts no mail transaction before a successful AUTH.
//
// Group A (indices 0..): histories of account management and SASL exchanges
// against the real auth.pass_table (over an mx.MemTable) wrapped by the real
// auth.SASLAuth with a real user-name map table, judged by a reference map
// "canonical account name -> current password".
//
// Group B (indices 1_000_000..): the same credentials store behind a
// submission endpoint built from configuration text, driven over TCP.
//
// Groups C (2_000_000..) and D (3_000_000..): the same histories and wire
// scenarios with the credentials in a real table back end (table.sql_table on
// sqlite3, read-only table.file), over user names that are special to SQL
// LIKE / globs / regexps / quoting / configuration syntax or that an
// over-eager normalisation would merge, and with user-name maps built from
// configuration text that cover the documented table options (xenv_test.go,
// xnames_test.go).
//
// Groups E (4_000_000..) and F (5_000_000..): histories and wire scenarios over
// e-mail-like user names with internationalised domains - accounts under the
// canonical U-label spelling, logins through A-label / upper-case / decomposed
// spellings (idn_test.go). The wire groups B, D and F place auth_map and
// auth_map_normalize in the endpoint block, in the global configuration scope
// (read by maddy.ReadGlobals), or in both (scope_test.go).
//
// Group G (6_000_000..): rounds of 2-8 logins that run at the same time against
// one auth.pass_table instance (directly, through SASL exchanges, over parallel
// connections to a submission endpoint), account management only between the
// rounds; the sequential reference decides every login (conc_test.go).
//
// Group H (7_000_000..): group A histories whose user-name map / credentials
// table answer chosen lookups with an error (outage of a table back end); an
// exchange that saw such an answer must not succeed (fault_test.go).
package c14

import (
	"fmt"
	"net"
	"os"
	"sort"
	"strings"
	"testing"

	"github.com/foxcpp/maddy/framework/config"
	"github.com/foxcpp/maddy/framework/log"
	"github.com/foxcpp/maddy/framework/module"
	"github.com/foxcpp/maddy/internal/auth"
	"github.com/foxcpp/maddy/internal/auth/pass_table"
	"github.com/foxcpp/maddy/internal/authz"
	"github.com/foxcpp/maddy/internal/table"
	"github.com/foxcpp/maddy/internal/zzverif/mx"
	"golang.org/x/text/secure/precis"
	"verifkit/prng"
	"verifkit/rep"
)

const (
	groupB = 1_000_000
	groupC = 2_000_000 // third widening: histories (real table back ends, special names, configured maps)
	groupD = 3_000_000 // third widening: wire scenarios
)

func TestVerif(t *testing.T) {
	log.DefaultLogger.Out = log.NopOutput{}
	r := rep.Open("C14")
	defer r.Close()

	selfCheckClasses(t)

	// development switch: VERIF_C14_GROUPS=CD runs only the named groups (the
	// run is then inconclusive by min_observed, as it must be)
	only := os.Getenv("VERIF_C14_GROUPS")
	want := func(g string) int {
		if only == "" || strings.Contains(only, g) {
			return 1
		}
		return 0
	}
	nA := r.N(1000, 20000) * want("A")
	for i := 0; i < nA; i++ {
		r.Run(i, fmt.Sprintf("hist-%d", i), func(c *rep.Case) { runHistory(t, r, c, i) })
	}
	nB := r.N(128, 2000) * want("B")
	for i := 0; i < nB; i++ {
		r.Run(groupB+i, fmt.Sprintf("wire-%d", i), func(c *rep.Case) { runWire(t, r, c, groupB+i) })
	}
	selfCheckSpecial(t)
	nC := r.N(475, 9500) * want("C")
	for i := 0; i < nC; i++ {
		r.Run(groupC+i, fmt.Sprintf("xhist-%d", i), func(c *rep.Case) { runHistoryX(t, r, c, groupC+i) })
	}
	nD := r.N(95, 1900) * want("D")
	for i := 0; i < nD; i++ {
		r.Run(groupD+i, fmt.Sprintf("xwire-%d", i), func(c *rep.Case) { runWireX(t, r, c, groupD+i) })
	}
	// fifth widening: internationalised domains (idn_test.go); the wire groups
	// B, D and F also vary the configuration scope of auth_map /
	// auth_map_normalize (scope_test.go)
	selfCheckIDN(t)
	nE := r.N(160, 3840) * want("E")
	for i := 0; i < nE; i++ {
		r.Run(groupE+i, fmt.Sprintf("idnhist-%d", i), func(c *rep.Case) { runHistoryIDN(t, r, c, groupE+i) })
	}
	nF := r.N(48, 1280) * want("F")
	for i := 0; i < nF; i++ {
		r.Run(groupF+i, fmt.Sprintf("idnwire-%d", i), func(c *rep.Case) { runWireIDN(t, r, c, groupF+i) })
	}
	// seventh widening: logins that overlap in time (conc_test.go)
	nG := r.N(concQuick, concThorough) * want("G")
	for i := 0; i < nG; i++ {
		r.Run(groupG+i, fmt.Sprintf("conc-%d", i), func(c *rep.Case) { runConc(t, r, c, groupG+i) })
	}
	// eighth widening: user-name map / credentials table that fail at run time (fault_test.go)
	nH := r.N(faultQuick, faultThorough) * want("H")
	for i := 0; i < nH; i++ {
		r.Run(groupH+i, fmt.Sprintf("faulthist-%d", i), func(c *rep.Case) { runHistoryFault(t, r, c, groupH+i) })
	}
}

// selfCheckSpecial validates the special / near-merge names against x/text's
// UsernameCaseMapped (library code): every canonical name that can be a user
// name is a fixed point, the two members of a pair are different accounts, and
// every generated spelling folds to the canonical name. Names that cannot be
// user names (the space) must be refused by the profile.
func selfCheckSpecial(t *testing.T) {
	p := prng.New(1, 2, "c14-selfcheck-x")
	for _, f := range append(append([]family(nil), families...), family{"case-folding", foldPairs}) {
		for _, pr := range f.pairs {
			ka, ea := precis.UsernameCaseMapped.CompareKey(pr.A)
			kb, eb := precis.UsernameCaseMapped.CompareKey(pr.B)
			if (ea == nil) != precisOK(pr.A) || (eb == nil) != precisOK(pr.B) {
				t.Fatalf("harness: precisOK wrong for pair %q / %q: %v / %v", pr.A, pr.B, ea, eb)
			}
			if ea == nil && eb == nil && ka == kb {
				t.Fatalf("harness: pair %q / %q is one account under UsernameCaseMapped", pr.A, pr.B)
			}
			var all []string
			all = append(all, formsOf(pr.A)...)
			all = append(all, formsOf(pr.B)...)
			selfCheckNames(t, all)
			for _, canon := range all {
				if !precisOK(canon) {
					continue
				}
				for _, kind := range variantKinds {
					for rep := 0; rep < 3; rep++ {
						s, _ := spell(p, canon, kind)
						key, err := precis.UsernameCaseMapped.CompareKey(s)
						if err != nil || key != canon {
							t.Fatalf("harness: spelling %q (%s) of %q folds to %q, %v", s, kind, canon, key, err)
						}
						if foldAll(s) != canon {
							t.Fatalf("harness: foldAll(%q) = %q, want %q", s, foldAll(s), canon)
						}
					}
				}
			}
		}
	}
}

// selfCheckNames: canonical names are fixed points of UsernameCaseMapped (or
// refused by it when precisOK says so).
func selfCheckNames(t *testing.T, names []string) {
	for _, n := range names {
		key, err := precis.UsernameCaseMapped.CompareKey(n)
		if !precisOK(n) {
			if err == nil {
				t.Fatalf("harness: %q should not be a user name, folds to %q", n, key)
			}
			continue
		}
		if err != nil || key != n {
			t.Fatalf("harness: canonical name %q folds to %q, %v", n, key, err)
		}
		if !spellingOK(n) {
			t.Fatalf("harness: local part of canonical name %q is no user name on its own", n)
		}
	}
}

// selfCheckClasses makes sure the harness' own class construction is what RFC
// 8265 UsernameCaseMapped (x/text implementation, not maddy code) says: every
// spelling folds to the canonical name and canonical names are pairwise
// distinct. A failure is a harness error (inconclusive), never a verdict.
func selfCheckClasses(t *testing.T) {
	p := prng.New(1, 1, "c14-selfcheck")
	seen := map[string]bool{}
	for _, a := range atoms {
		for f := form(0); f < nForms; f++ {
			canon := canonName(a, f)
			if seen[canon] {
				t.Fatalf("harness: duplicate canonical name %q", canon)
			}
			seen[canon] = true
			for _, k := range variantKinds {
				for rep := 0; rep < 4; rep++ {
					s, _ := spell(p, canon, k)
					key, err := precis.UsernameCaseMapped.CompareKey(s)
					if err != nil || key != canon {
						t.Fatalf("harness: spelling %q (%s) of %q folds to %q, %v", s, k, canon, key, err)
					}
				}
			}
		}
	}
}

// ---------------- user-name maps ----------------

type mapKind int

const (
	mapNone mapKind = iota
	mapIdentity
	mapStatic
	mapRegexpStrip  // (.+)@corp\.example -> ${1}
	mapRegexpSuffix // (.+) -> ${1}.mx     (not idempotent)
	nMapKinds
	// mapExt: a map of the third widening (xenv_test.go): built from
	// configuration text, reference = nameMap.apply on the literal normal form.
	mapExt mapKind = 100
)

func (k mapKind) String() string {
	if k == mapExt {
		return "ext"
	}
	return [...]string{"none", "identity", "static", "regexp-strip", "regexp-suffix"}[k]
}

// name is the stable name of the map kind for signatures and shapes.
func (m *nameMap) name() string {
	if m.kind == mapExt {
		return m.label
	}
	return m.kind.String()
}

// nameMap is the real table module plus the harness' reference of it on
// canonical names.
type nameMap struct {
	kind   mapKind
	tbl    module.Table
	static map[string]string // canonical login -> canonical account (reference)
	config []string          // literal entries, for witnesses

	// third widening (kind == mapExt)
	label      string                          // one of xMapLabels
	cfgText    string                          // `auth_map <cfgText>` builds the table
	altCfgText string                          // the same with the option spelling the code reads
	apply      func(nf string) (string, bool)  // documented semantics on the literal normal form
	inv        func(canonAcct string) []string // universe names the map sends to the account
}

func (m *nameMap) ref(canonLogin string) (string, bool) {
	switch m.kind {
	case mapNone, mapIdentity:
		return canonLogin, true
	case mapStatic:
		v, ok := m.static[canonLogin]
		return v, ok
	case mapRegexpStrip:
		suf := "@" + corpDomain
		if strings.HasSuffix(canonLogin, suf) && len(canonLogin) > len(suf) {
			return strings.TrimSuffix(canonLogin, suf), true
		}
		return "", false
	case mapRegexpSuffix:
		return canonLogin + ".mx", true
	case mapExt:
		if v, ok := m.apply(canonLogin); ok {
			return storeKey(v)
		}
	}
	return "", false
}

// resolve is the reference for one SPELLED login name of class canonLogin
// under the configured auth_map_normalize: the canonical account name the
// credentials store ends up looking for, or mapped=false when the documented
// behaviour is a refusal (normalisation not applicable, no entry in the map).
// Only the static table depends on the exact normal form (its keys are the
// canonical names); the regexp tables match case-insensitively and the store
// folds what it is given, so they are class functions.
func (e *env) resolve(spelled, canonLogin string) (string, bool) {
	nf, ok := docNormalize(e.norm, spelled)
	if !ok {
		return "", false
	}
	if e.nmap.kind == mapExt {
		// literal: the table sees exactly the normal form, the credentials
		// store folds what the table returns
		v, ok := e.nmap.apply(nf)
		if !ok {
			return "", false
		}
		return storeKey(v)
	}
	if e.nmap.kind == mapStatic && nf != canonLogin {
		return "", false
	}
	return e.nmap.ref(canonLogin)
}

// invert proposes a canonical login name that maps to the account (best effort).
func (m *nameMap) invert(p *prng.R, canonAcct string) string {
	switch m.kind {
	case mapStatic:
		var ks []string
		for k, v := range m.static {
			if v == canonAcct {
				ks = append(ks, k)
			}
		}
		sort.Strings(ks)
		if len(ks) > 0 {
			return prng.Pick(p, ks)
		}
	case mapRegexpStrip:
		if !strings.Contains(canonAcct, "@") {
			return canonAcct + "@" + corpDomain
		}
	case mapRegexpSuffix:
		if strings.HasSuffix(canonAcct, ".mx") {
			return strings.TrimSuffix(canonAcct, ".mx")
		}
	case mapExt:
		if ls := m.inv(canonAcct); len(ls) > 0 {
			return prng.Pick(p, ls)
		}
	}
	return canonAcct
}

func quote(s string) string {
	return `"` + strings.NewReplacer(`\`, `\\`, `"`, `\"`).Replace(s) + `"`
}

func buildMap(p *prng.R, kind mapKind, names []string) (*nameMap, error) {
	m := &nameMap{kind: kind}
	switch kind {
	case mapNone:
		return m, nil
	case mapIdentity:
		mod, _ := table.NewIdentity("table.identity", "", nil, nil)
		m.tbl = mod.(module.Table)
		return m, mx.InitModule(mod, "", nil)
	case mapStatic:
		// A chain-prone static map: some logins map onto names that are map
		// keys themselves (alice -> bob7, bob7 -> emile), some onto themselves,
		// some are missing.
		m.static = map[string]string{}
		var cfg strings.Builder
		// ... and several logins share one account (many-to-one).
		perm := p.Perm(len(names))
		shared := names[p.Intn(len(names))]
		sharedVal, _ := spell(p, shared, prng.Pick(p, []string{"canon", "canon", "upper", "nfd"}))
		for i, idx := range perm {
			login := names[idx]
			if p.Chance(1, 5) {
				continue // unmapped login
			}
			acct := names[perm[(i+1)%len(perm)]]
			switch p.Intn(4) {
			case 0:
				acct = login
			case 1:
				acct = shared
			}
			// The value may be any spelling of the account name: the
			// credentials module normalises the name it is given.
			val, _ := spell(p, acct, prng.Pick(p, []string{"canon", "canon", "upper", "nfd"}))
			if acct == shared {
				val = sharedVal // co-owners are written with the same value
			}
			m.static[login] = acct
			fmt.Fprintf(&cfg, "entry %s %s\n", quote(login), quote(val))
			m.config = append(m.config, login+" -> "+val)
		}
		mod, _ := table.NewStatic("table.static", "", nil, nil)
		m.tbl = mod.(module.Table)
		return m, mx.InitModule(mod, cfg.String(), nil)
	case mapRegexpStrip:
		mod, _ := table.NewRegexp("table.regexp", "", nil, []string{`(.+)@corp\.example`, `${1}`})
		m.tbl = mod.(module.Table)
		m.config = []string{`regexp (.+)@corp\.example ${1}`}
		return m, mx.InitModule(mod, "", nil)
	case mapRegexpSuffix:
		mod, _ := table.NewRegexp("table.regexp", "", nil, []string{`(.+)`, `${1}.mx`})
		m.tbl = mod.(module.Table)
		m.config = []string{`regexp (.+) ${1}.mx`}
		return m, mx.InitModule(mod, "", nil)
	}
	return nil, fmt.Errorf("bad map kind")
}

// foreignAuthzid picks an authorization identity of another class than the
// login name; half of the time (when the map has one) a login name that the
// map sends to the SAME account - the identity a co-owner of a shared account
// would try to assume.
func (e *env) foreignAuthzid(p *prng.R, canonLogin, canonAcct string, mapped bool) (string, bool) {
	if mapped && p.Chance(3, 4) {
		var co []string
		for _, n := range e.names {
			if n == canonLogin {
				continue
			}
			if a, ok := e.nmap.ref(n); ok && a == canonAcct {
				co = append(co, n)
			}
		}
		if len(co) > 0 {
			return prng.Pick(p, co), true
		}
	}
	other := prng.Pick(p, e.names)
	for other == canonLogin {
		other = prng.Pick(p, e.names)
	}
	return other, false
}

// ---------------- reference model ----------------

type acct struct {
	exists  bool
	pw      string
	scheme  string
	stale   []string // earlier passwords of this account (incl. before deletion)
	deleted bool
}

type model struct {
	accts map[string]*acct // canonical account name ->
}

func (m *model) get(canon string) *acct {
	a := m.accts[canon]
	if a == nil {
		a = &acct{}
		m.accts[canon] = a
	}
	return a
}

func (m *model) set(canon, pw, scheme string) {
	a := m.get(canon)
	if a.exists {
		a.stale = append(a.stale, a.pw)
	}
	a.exists, a.pw, a.scheme, a.deleted = true, pw, scheme, false
}

func (m *model) del(canon string) {
	a := m.get(canon)
	if a.exists {
		a.stale = append(a.stale, a.pw)
		a.deleted = true
	}
	a.exists = false
}

func (m *model) otherPasswords(canon string) []string {
	var out []string
	for k, a := range m.accts {
		if k != canon && a.exists {
			out = append(out, a.pw)
		}
	}
	sort.Strings(out)
	return out
}

func (m *model) existing() []string {
	var out []string
	for k, a := range m.accts {
		if a.exists {
			out = append(out, k)
		}
	}
	sort.Strings(out)
	return out
}

// ---------------- SASL exchanges ----------------

type authObs struct {
	OK       bool   `json:"ok"`
	Identity string `json:"identity"`
	Username string `json:"ctx_username"`
	CBCalls  int    `json:"callback_calls"`
	Err      string `json:"err,omitempty"`
}

var remote = &net.TCPAddr{IP: net.IPv4(127, 0, 0, 1), Port: 40000}

func runPlain(sa *auth.SASLAuth, authzid, user, pw string) authObs {
	var o authObs
	srv := sa.CreateSASL("PLAIN", remote, func(id string, d auth.ContextData) error {
		o.CBCalls++
		o.Identity, o.Username = id, d.Username
		return nil
	})
	_, done, err := srv.Next([]byte(authzid + "\x00" + user + "\x00" + pw))
	if err != nil {
		o.Err = err.Error()
	}
	o.OK = err == nil && done
	return o
}

func runLogin(sa *auth.SASLAuth, user, pw string, initial bool) authObs {
	var o authObs
	srv := sa.CreateSASL("LOGIN", remote, func(id string, d auth.ContextData) error {
		o.CBCalls++
		o.Identity, o.Username = id, d.Username
		return nil
	})
	var err error
	var done bool
	if !initial {
		_, done, err = srv.Next(nil)
	}
	if err == nil && !done {
		_, done, err = srv.Next([]byte(user))
	}
	if err == nil && !done {
		_, done, err = srv.Next([]byte(pw))
	}
	if err != nil {
		o.Err = err.Error()
	}
	o.OK = err == nil && done
	return o
}

// ---------------- environment of one case ----------------

type env struct {
	id    string
	mem   *mx.MemTable
	pt    *pass_table.Auth
	nmap  *nameMap
	norm  string
	sasl  *auth.SASLAuth
	names []string // canonical names in play
	model *model
	x     *xenv // third widening (nil in groups A and B)
	fault *faultCtl // eighth widening, group H (fault_test.go): tables that fail at run time
}

// auth_map_normalize settings; the documented folding of each is mirrored by
// docNormalize (names_test.go).
var normalizers = []string{"auto", "auto", "auto", "auto", "precis_casefold", "precis_casefold_email", "precis_email", "precis", "casefold", "noop"}

func newEnv(p *prng.R, id string, kind mapKind) (*env, error) {
	return newEnvTbl(p, id, kind, nil)
}

// newEnvTbl: wrap (group G, conc_test.go) puts a harness table in front of the
// in-memory credentials table; same draws as ever.
func newEnvTbl(p *prng.R, id string, kind mapKind, wrap func(*mx.MemTable) module.Module) (*env, error) {
	e := &env{id: id, model: &model{accts: map[string]*acct{}}}
	// 3 atoms, all forms: a small universe so that names collide often.
	perm := p.Perm(len(atoms))
	for _, ai := range perm[:3] {
		for f := form(0); f < nForms; f++ {
			e.names = append(e.names, canonName(atoms[ai], f))
		}
	}
	e.mem = mx.NewTable("c14tbl_" + id)
	if wrap != nil {
		mx.RegisterInstance(wrap(e.mem))
	} else {
		mx.RegisterInstance(e.mem)
	}
	mod, err := pass_table.New("auth.pass_table", "c14pt_"+id, nil, nil)
	if err != nil {
		return nil, err
	}
	if err := mx.InitModule(mod, "table &c14tbl_"+id, nil); err != nil {
		return nil, fmt.Errorf("pass_table init: %w", err)
	}
	e.pt = mod.(*pass_table.Auth)
	mx.RegisterInstance(e.pt)
	e.nmap, err = buildMap(p, kind, e.names)
	if err != nil {
		return nil, fmt.Errorf("map init: %w", err)
	}
	e.norm = prng.Pick(p, normalizers)
	e.sasl = &auth.SASLAuth{
		Log:           log.Logger{Name: "c14/sasl", Out: log.NopOutput{}},
		EnableLogin:   true,
		AuthMap:       e.nmap.tbl,
		AuthNormalize: authz.NormalizeFuncs[e.norm],
		Plain:         []module.PlainAuth{e.pt},
	}
	if e.nmap.tbl != nil {
		mx.RegisterInstance(namedTable{e.nmap.tbl, "c14map_" + id})
	}
	return e, nil
}

// namedTable gives an inline table module an instance name so that endpoint
// configuration text can reference it.
type namedTable struct {
	module.Table
	name string
}

func (n namedTable) Name() string           { return "verif_named_table" }
func (n namedTable) InstanceName() string   { return n.name }
func (n namedTable) Init(*config.Map) error { return nil }

// ---------------- operations ----------------

type opRec struct {
	Op      string   `json:"op"`
	Name    string   `json:"name,omitempty"`
	Canon   string   `json:"class,omitempty"`
	Variant string   `json:"variant,omitempty"`
	PwLen   int      `json:"pw_len"`
	Pw      string   `json:"pw"`
	Scheme  string   `json:"scheme,omitempty"`
	Err     string   `json:"err,omitempty"`
	Expect  *bool    `json:"expect,omitempty"`
	Plain   *authObs `json:"plain,omitempty"`
	Login   *authObs `json:"login,omitempty"`
	Note    string   `json:"note,omitempty"`
}

func showPw(pw string) string {
	if len(pw) > 24 {
		return fmt.Sprintf("%s…(%d bytes, %d chars)…%s", truncBytesAtRune(pw, 8), len(pw), runeLen(pw), strings.ToValidUTF8(pw[len(pw)-6:], "?"))
	}
	return strings.ToValidUTF8(pw, "?")
}

type schemeOpt struct {
	name string
	algo string
	opts pass_table.HashOpts
}

var schemes = []schemeOpt{
	{"bcrypt4", pass_table.HashBcrypt, pass_table.HashOpts{BcryptCost: 4}},
	{"bcrypt4", pass_table.HashBcrypt, pass_table.HashOpts{BcryptCost: 4}},
	{"argon2", pass_table.HashArgon2, pass_table.HashOpts{Argon2Time: 1, Argon2Memory: 64, Argon2Threads: 1}},
}

type counters struct {
	create, createRefused, createErr, setpw, setpwErr, del int64
	authPlain, authLogin, authOK, authRefused              int64
	authzid, authzidSame                                   int64
	okVariant, okMapped, refusedStale, refusedDeleted      int64
	extNonASCII72, truncLong, authzidCoMapped              int64
	okUnstable, sweeps, sweepAfterSuccess, bypass, primed  int64

	// third widening (group C); xs holds per-class counters
	x  bool
	xs map[string]int64
}

func (k *counters) xc(name string, n int64) {
	if k.xs == nil {
		k.xs = map[string]int64{}
	}
	k.xs[name] += n
}

func (k *counters) flush(r *rep.Reporter) {
	r.Count("op_create_ok", k.create)
	r.Count("op_create_refused_existing", k.createRefused)
	r.Count("op_create_error_other", k.createErr)
	r.Count("op_set_password_ok", k.setpw)
	r.Count("op_set_password_error", k.setpwErr)
	r.Count("op_delete", k.del)
	r.Count("sasl_plain_exchanges", k.authPlain)
	r.Count("sasl_login_exchanges", k.authLogin)
	r.Count("sasl_success_expected_and_observed", k.authOK)
	r.Count("sasl_refusal_expected_and_observed", k.authRefused)
	r.Count("sasl_plain_foreign_authzid", k.authzid)
	r.Count("sasl_plain_same_authzid", k.authzidSame)
	r.Count("sasl_plain_foreign_authzid_mapped_to_same_account", k.authzidCoMapped)
	r.Count("success_via_noncanonical_spelling", k.okVariant)
	r.Count("success_via_mapped_name", k.okMapped)
	r.Count("refused_stale_password", k.refusedStale)
	r.Count("refused_deleted_account", k.refusedDeleted)
	r.Count("success_with_password_unstable_under_unicode_normalization", k.okUnstable)
	r.Count("earlier_passwords_probed_after_change", k.sweeps)
	r.Count("earlier_passwords_probed_after_change_following_successful_auth", k.sweepAfterSuccess)
	r.Count("attempts_with_password_of_account_named_like_unmapped_or_remapped_login", k.bypass)
	r.Count("successful_auth_right_before_a_change", k.primed)
	r.Count("attempts_extending_nonascii_72_byte_password_within_72_chars", k.extNonASCII72)
	r.Count("attempts_truncating_longer_than_72_byte_password", k.truncLong)
	for name, n := range k.xs {
		r.Count(name, n)
	}
}

// choosePassword picks the password of an authentication attempt: often the
// current one, often a near miss of it (second result: kind of the attempt).
func choosePassword(p *prng.R, a *acct, m *model, canon string) (string, string) {
	if a != nil && a.exists {
		switch p.Weighted([]int{11, 5, 3, 9}) {
		case 0:
			return a.pw, "current"
		case 1:
			if len(a.stale) > 0 {
				return prng.Pick(p, a.stale), "stale"
			}
		case 2:
			if o := m.otherPasswords(canon); len(o) > 0 {
				return prng.Pick(p, o), "other-account"
			}
		case 3:
			return probePassword(p, a.pw)
		}
	} else if a != nil && len(a.stale) > 0 && p.Bool() {
		return prng.Pick(p, a.stale), "stale"
	}
	if p.Chance(1, 4) {
		return boundaryPassword(p, 0), "random"
	}
	return prng.Pick(p, passwordPool), "random"
}

// judgeAuth compares one exchange with the reference. otherOK says whether
// the other mechanism accepted the same credentials; retryCanon re-runs the
// same mechanism with the canonical spelling of the name (attribution of a
// wrong refusal to the spelling, the mechanism or the stored hash).
func judgeAuth(c *rep.Case, e *env, mech string, o authObs, expect bool, canonLogin, canonAcct string, mapped bool, variant, pw string, otherOK *bool, retryCanon func() bool, wit func() any) {
	a := e.model.accts[canonAcct]
	if o.OK && o.CBCalls != 1 {
		c.Violation(fmt.Sprintf("auth/success-without-identity/mech=%s", mech),
			fmt.Sprintf("%s exchange succeeded but the identity callback ran %d times", mech, o.CBCalls), wit())
	}
	if o.OK && !expect {
		var cause string
		switch {
		case !mapped:
			cause = "name-has-no-mapping"
			if _, classMapped := e.nmap.ref(canonLogin); classMapped {
				cause = "name-spelling-not-folded-by=" + e.norm
				if e.nmap.kind == mapExt {
					cause = "name-has-no-mapping/spelling-or-option-of-map=" + e.nmap.name()
				}
			}
		case a == nil || (!a.exists && !a.deleted):
			cause = "account-never-existed"
		case !a.exists:
			cause = "account-deleted"
		default:
			cause = relation(pw, a.pw, a.stale, e.model.otherPasswords(canonAcct))
		}
		if by := e.model.accts[canonLogin]; by != nil && by.exists && by.pw == pw && (!mapped || canonAcct != canonLogin) {
			cause += "/password-of-account-named-like-the-login"
		}
		if e.x != nil && mapped {
			for _, y := range e.x.uni.partner[canonAcct] {
				if ya := e.model.accts[y]; ya != nil && ya.exists && ya.pw == pw {
					if e.x.uni.pattern[canonAcct] {
						cause += "/password-of-account-the-name-matches-as-pattern-or-near-duplicate"
					} else {
						cause += "/password-of-account-whose-name-is-a-pattern-or-near-duplicate-of-this-one"
					}
					break
				}
			}
		}
		c.Violation(fmt.Sprintf("auth/accepted-wrong-password/mech=%s/%s", mech, cause),
			fmt.Sprintf("%s accepted user %q password %q although the reference says no (%s; map %s)", mech, canonLogin, showPw(pw), cause, e.nmap.name()), wit())
	}
	if !o.OK && expect {
		var cause string
		switch {
		case otherOK != nil && *otherOK:
			cause = "other-mechanism-accepts/map=" + e.nmap.name()
		case variant != "canon" && retryCanon != nil && retryCanon():
			cause = "name-spelling=" + variant
			if strings.HasPrefix(variant, "idn-") {
				// one cause class per kind of domain spelling (A-label / U-label in
				// another case or decomposed), not per letter-case pattern
				cause = "name-spelling=idn-" + idnClass(variant) + "-domain"
			}
		case e.x != nil && e.pt.AuthPlain(canonAcct, pw) == nil:
			// the credentials module itself accepts (documented account name,
			// password): whatever stands before it - normaliser, user-name map,
			// mechanism - sent the login elsewhere or changed the password
			cause = "provider-accepts-documented-account-name/map=" + e.nmap.name()
		default:
			cause = "scheme=" + a.scheme + "/pw=" + pwKind(pw)
			if unstable(pw) {
				cause += "/unstable-under-unicode-normalization"
			}
			if e.x != nil {
				cause = "store=" + e.x.backend + "/name-family=" + e.x.uni.family
			}
		}
		c.Violation(fmt.Sprintf("auth/refused-current-password/mech=%s/%s", mech, cause),
			fmt.Sprintf("%s refused the current password of account %q (login class %q, spelling kind %s, map %s): %s", mech, canonAcct, canonLogin, variant, e.nmap.name(), o.Err), wit())
	}
}

func runHistory(t *testing.T, r *rep.Reporter, c *rep.Case, idx int) {
	p := prng.New(r.Seed(), uint64(idx), "c14")
	kind := mapKind(idx % int(nMapKinds))
	e, err := newEnv(p, fmt.Sprintf("%d_%d", r.Seed(), idx), kind)
	if err != nil {
		t.Fatalf("harness: %v", err)
	}
	playHistory(t, r, c, idx, p, e, "A")
}

// runHistoryX: group C - the histories of group A on a real table back end,
// over a universe of special / near-merge names, with a user-name map built
// from configuration text (xenv_test.go). Own PRNG stream.
func runHistoryX(t *testing.T, r *rep.Reporter, c *rep.Case, idx int) {
	p := prng.New(r.Seed(), uint64(idx), "c14-x")
	e, err := newEnvX(p, fmt.Sprintf("x%d_%d", r.Seed(), idx), idx-groupC)
	if err != nil {
		t.Fatalf("harness: %v", err)
	}
	defer e.close()
	selfCheckNames(t, e.names)
	playHistory(t, r, c, idx, p, e, "C")
}

func (e *env) witness(hist []opRec) map[string]any {
	w := map[string]any{"map": e.nmap.name(), "map_config": e.nmap.config, "auth_map_normalize": e.norm, "history": hist}
	if e.x != nil {
		w["credentials_table"] = e.x.backend
		w["name_family"] = e.x.uni.family
		w["names"] = e.names
		if e.x.fileTxt != "" {
			w["auth_map_file"] = e.x.fileTxt
		}
		if e.x.optNote != "" {
			w["note"] = e.x.optNote
		}
	}
	return w
}

func playHistory(t *testing.T, r *rep.Reporter, c *rep.Case, idx int, p *prng.R, e *env, grp string) {
	var k counters
	k.x = e.x != nil
	defer k.flush(r)
	nops := p.Range(5, 12)
	slowBudget := 2 // default-cost bcrypt hashes allowed in this history
	if e.x != nil {
		slowBudget = 1
	}
	var hist []opRec
	wit := func() any {
		return e.witness(hist)
	}
	shape := map[string]bool{}
	nontrivial := false
	lastAuthOK := map[string]bool{} // account class -> a successful authentication happened since its last change

	// authPair runs one set of credentials through PLAIN and LOGIN, judges
	// both against the reference and each other.
	type pairRes struct {
		expect, mapped bool
		canonAcct      string
		a              *acct
	}
	authPair := func(op, canonLogin, name, vk, pw, probe string) pairRes {
		canonAcct, mapped := e.resolve(name, canonLogin)
		var a *acct
		if mapped {
			a = e.model.accts[canonAcct]
		}
		expect := mapped && a != nil && a.exists && a.pw == pw
		if a != nil && a.exists {
			r.Distinct("password_attempt_kinds", probe+" on "+a.scheme+"/"+pwKind(a.pw))
			if !expect && len(a.pw) == 72 && pwKind(a.pw) == "nonascii-len72" && strings.HasPrefix(pw, a.pw) && runeLen(pw) <= 72 {
				k.extNonASCII72++
			}
			if !expect && len(a.pw) > 72 && strings.HasPrefix(a.pw, pw) && len(pw) >= 71 {
				k.truncLong++
			}
		}
		var po, lo authObs
		initial := p.Chance(1, 3)
		// group H: the tables may fail while this pair runs (fault_test.go)
		var fa *faultArm
		byLogin := e.model.accts[canonLogin]
		verbatimOK := byLogin != nil && byLogin.exists && byLogin.pw == pw // a check of the name as supplied would pass
		if e.fault != nil {
			if fa = e.fault.next(expect || verbatimOK, verbatimOK && !mapped); fa != nil {
				e.fault.arm(fa)
			}
		}
		var fP, fL, fD [2]int // faulted lookups (map, credentials) seen by each exchange
		exch := func(f *[2]int, run func()) {
			if fa == nil {
				run()
				return
			}
			m0, c0 := e.fault.s.faultedSoFar()
			run()
			m1, c1 := e.fault.s.faultedSoFar()
			f[0], f[1] = m1-m0, c1-c0
		}
		if p.Bool() {
			exch(&fP, func() { po = runPlain(e.sasl, "", name, pw) })
			exch(&fL, func() { lo = runLogin(e.sasl, name, pw, initial) })
		} else {
			exch(&fL, func() { lo = runLogin(e.sasl, name, pw, initial) })
			exch(&fP, func() { po = runPlain(e.sasl, "", name, pw) })
		}
		k.authPlain++
		k.authLogin++
		ex2 := expect
		if fa != nil {
			// the entry point below the mechanisms, under the same fault
			var derr error
			exch(&fD, func() { derr = e.sasl.AuthPlain(name, pw) })
			e.fault.s.disarm()
			do := authObs{OK: derr == nil}
			if derr != nil {
				do.Err = derr.Error()
			}
			if fP[0]+fP[1]+fL[0]+fL[1]+fD[0]+fD[1] > 0 {
				hc := healthyClass(mapped, canonLogin, canonAcct)
				rel := "other-password"
				switch {
				case verbatimOK && !(mapped && canonAcct == canonLogin):
					rel = "password-of-account-named-like-the-login"
				case expect:
					rel = "current-password-of-the-mapped-account"
				}
				hist = append(hist, opRec{Op: op + "/tables-failing", Name: name, Canon: canonLogin, Variant: vk, Pw: showPw(pw), PwLen: len(pw), Expect: &ex2, Plain: &po, Login: &lo,
					Note: fmt.Sprintf("%s; reference with healthy tables: login class %q -> account %q (mapped=%v); fault %+v, two providers=%v; lookups answered with an error (map, credentials): PLAIN %v LOGIN %v direct AuthPlain %v; direct AuthPlain ok=%v err=%q",
						probe, canonLogin, canonAcct, mapped, *fa, e.fault.twoProv, fP, fL, fD, do.OK, do.Err)})
				for _, x := range []struct {
					mech string
					o    authObs
					f    [2]int
				}{{"PLAIN", po, fP}, {"LOGIN", lo, fL}, {"direct-AuthPlain", do, fD}} {
					if x.f[0]+x.f[1] == 0 {
						// this exchange saw healthy tables: the reference decides
						if x.mech != "direct-AuthPlain" {
							judgeAuth(c, e, x.mech, x.o, expect, canonLogin, canonAcct, mapped, vk, pw, nil, nil, wit)
						} else if x.o.OK != expect {
							c.Violation(fmt.Sprintf("auth/direct-AuthPlain-differs-from-reference/expect=%v/map=%s", expect, e.nmap.name()),
								fmt.Sprintf("SASLAuth.AuthPlain(%q, %q) = %q, reference says success=%v", name, showPw(pw), x.o.Err, expect), wit())
						}
						if x.o.OK == expect {
							k.xc(fmt.Sprintf("fault_exchange_without_faulted_lookup_in_faulted_pair_decided_like_reference/expect=%v", expect), 1)
						}
						continue
					}
					tbl := "user-name-map"
					if x.f[0] == 0 {
						tbl = "credentials-table"
					}
					if x.o.OK && expect {
						// The statement allows a success with the current password of the account the
						// documented mapping yields; an implementation that retries a failed lookup or asks
						// a second provider may get there although one lookup failed. The reference decides
						// (identity included); only successes the healthy tables would refuse are judged below.
						if x.mech != "direct-AuthPlain" {
							judgeAuth(c, e, x.mech, x.o, expect, canonLogin, canonAcct, mapped, vk, pw, nil, nil, wit)
						}
						k.xc("fault_success_with_current_password_of_mapped_account_not_judged_as_outage_bypass", 1)
						continue
					}
					if x.o.OK {
						c.Violation(fmt.Sprintf("auth/accepted-although-%s-lookup-failed/mech=%s/%s/%s", tbl, x.mech, hc, rel),
							fmt.Sprintf("%s accepted user %q password %q (identity %q) although a lookup of the %s returned an error during the exchange (fault %+v); with healthy tables: %s, reference success=%v",
								x.mech, name, showPw(pw), x.o.Identity, tbl, *fa, hc, expect), wit())
						continue
					}
					k.xc("fault_attempt_not_successful_while_"+tbl+"_lookup_fails", 1)
					k.xc("fault_attempt_not_successful/mech="+x.mech, 1)
					k.xc("fault_attempt_not_successful/mode="+fa.Mode, 1)
					k.xc("fault_attempt_not_successful/error="+fa.ErrKind, 1)
					if fa.Partial {
						k.xc("fault_attempt_not_successful/value-returned-with-error", 1)
					}
					if e.fault.twoProv {
						k.xc("fault_attempt_not_successful/two-providers", 1)
					}
					if x.f[0] > 0 {
						if rel != "other-password" {
							// a fallback to the name as supplied would have been accepted
							k.xc("fault_map_outage/"+hc+"/"+rel, 1)
						}
						k.xc("fault_map_outage/map="+e.nmap.name(), 1)
					} else if expect {
						k.xc("fault_credentials_outage/current-password", 1)
					}
				}
				nontrivial = true
				shape[fmt.Sprintf("%s/%s/fault=%s-%s-%s/%s/%s", op, vk, fa.Target, fa.Mode, fa.ErrKind, hc, rel)] = true
				r.Distinct("fault_situations", fmt.Sprintf("map=%s table=%s mode=%s err=%s partial=%v twoprov=%v %s %s", e.nmap.name(), fa.Target, fa.Mode, fa.ErrKind, fa.Partial, e.fault.twoProv, hc, rel))
				return pairRes{expect, mapped, canonAcct, a}
			}
			k.xc("fault_armed_but_no_lookup_reached", 1)
		}
		hist = append(hist, opRec{Op: op, Name: name, Canon: canonLogin, Variant: vk, Pw: showPw(pw), PwLen: len(pw), Expect: &ex2, Plain: &po, Login: &lo,
			Note: fmt.Sprintf("%s; reference: login class %q -> account %q (mapped=%v)", probe, canonLogin, canonAcct, mapped)})
		judgeAuth(c, e, "PLAIN", po, expect, canonLogin, canonAcct, mapped, vk, pw, &lo.OK,
			func() bool { return runPlain(e.sasl, "", canonLogin, pw).OK }, wit)
		judgeAuth(c, e, "LOGIN", lo, expect, canonLogin, canonAcct, mapped, vk, pw, &po.OK,
			func() bool { return runLogin(e.sasl, canonLogin, pw, false).OK }, wit)
		if po.OK != lo.OK {
			c.Violation(fmt.Sprintf("mech-disagree/decision/map=%s", e.nmap.name()),
				fmt.Sprintf("same credentials (user %q): PLAIN ok=%v, LOGIN ok=%v", name, po.OK, lo.OK), wit())
		} else if po.OK && (po.Identity != lo.Identity || po.Username != lo.Username) {
			c.Violation(fmt.Sprintf("mech-disagree/identity/map=%s", e.nmap.name()),
				fmt.Sprintf("same credentials (user %q): PLAIN reports identity %q, LOGIN %q", name, po.Identity, lo.Identity), wit())
		}
		if po.OK == expect && lo.OK == expect {
			if e.fault != nil {
				if m, cr := e.fault.s.faultedSoFar(); m+cr > 0 {
					// healthy again (or this pair was not hit): same decisions as ever
					k.xc(fmt.Sprintf("fault_pair_with_healthy_tables_after_an_outage_decided_like_reference/expect=%v", expect), 1)
					if !mapped {
						k.xc("fault_unmapped_name_refused_with_healthy_tables_after_an_outage", 1)
					}
				}
			}
			if expect {
				k.authOK += 2
				nontrivial = true
				lastAuthOK[canonAcct] = true
				if vk != "canon" {
					k.okVariant++
				}
				if canonAcct != canonLogin {
					k.okMapped++
				}
				if unstable(pw) {
					k.okUnstable++
				}
				if e.x != nil && e.x.idn && strings.HasPrefix(vk, "idn-") {
					k.xc("idn_success_via_"+idnClass(vk)+"_spelling_of_domain", 1)
					k.xc("idn_success_via_"+idnClass(vk)+"_spelling_of_domain/auth_map_normalize="+e.norm, 1)
					r.Distinct("idn_spellings_accepted", vk+" under "+e.norm)
				}
				if e.x != nil {
					k.xc(e.x.cp+"success_on_store="+e.x.backend, 1)
					k.xc(e.x.cp+"success_via_map="+e.nmap.name(), 1)
					k.xc(e.x.cp+"success_in_name_family="+e.x.uni.family, 1)
					if len(e.x.uni.partner[canonAcct]) > 0 {
						k.xc(e.x.cp+"success_on_account_of_a_pattern_or_near_merge_pair", 1)
					}
				}
			} else {
				k.authRefused += 2
				if a != nil && a.exists {
					nontrivial = true // a live account refused a wrong password
					for _, s := range a.stale {
						if s == pw {
							k.refusedStale++
							break
						}
					}
				}
				if a != nil && a.deleted && !a.exists {
					k.refusedDeleted++
					nontrivial = true
				}
				if e.x != nil && e.x.idn && strings.HasPrefix(vk, "idn-") && a != nil && a.exists {
					k.xc("idn_refused_wrong_password_via_"+idnClass(vk)+"_spelling_of_domain", 1)
				}
				if e.x != nil {
					k.xc(e.x.cp+"refusal_on_store="+e.x.backend, 1)
					if !mapped {
						k.xc(e.x.cp+"refused_no_mapping_via_map="+e.nmap.name(), 1)
						// refused only because the map (option case_insensitive no, a
						// key written in another case) is case-sensitive
						if nf, ok := docNormalize(e.norm, name); ok && nf != strings.ToLower(nf) {
							if v, ok := e.nmap.apply(strings.ToLower(nf)); ok {
								if _, ok := storeKey(v); ok {
									k.xc(e.x.cp+"refused_where_a_case_insensitive_map_lookup_would_have_mapped", 1)
								}
							}
						}
					}
					// the supplied password is the current one of a partner
					// (pattern / near-merge) account of the one looked up
					for _, y := range e.x.uni.partner[canonAcct] {
						if ya := e.model.accts[y]; mapped && ya != nil && ya.exists && ya.pw == pw {
							k.xc(e.x.cp+"refused_password_of_partner_account_on_store="+e.x.backend, 1)
							k.xc(e.x.cp+"refused_password_of_partner_account_in_name_family="+e.x.uni.family, 1)
							if a == nil || !a.exists {
								k.xc(e.x.cp+"refused_password_of_partner_account_for_missing_account", 1)
							}
							if strings.ContainsAny(y+canonAcct, "ßς") {
								k.xc(e.x.cp+"refused_password_of_account_that_differs_by_case_folding_only", 1)
							}
							nontrivial = true
							break
						}
					}
				}
			}
		}
		st := "no-account"
		if a != nil && a.exists {
			st = "live/" + a.scheme
		} else if a != nil && a.deleted {
			st = "deleted"
		}
		shape[fmt.Sprintf("%s/%s/%s/expect=%v/%s", op, vk, st, expect, pwKind(pw))] = true
		r.Distinct("auth_situations", fmt.Sprintf("map=%s norm=%s name=%s acct=%s expect=%v pw=%s", e.nmap.name(), e.norm, vk, st, expect, pwKind(pw)))
		return pairRes{expect, mapped, canonAcct, a}
	}
	// loginFor gives a login name (class and spelling) the map sends to the account.
	loginFor := func(canonAcct string) (string, string, string) {
		cl := e.nmap.invert(p, canonAcct)
		kinds := variantKinds
		if !(e.norm == "auto" || e.norm == "precis_casefold") && p.Bool() {
			kinds = []string{"canon"} // weak normalisers: keep the canonical spelling frequent
		}
		name, vk := e.spellLogin(p, cl, prng.Pick(p, kinds))
		return cl, name, vk
	}
	// prime: a successful authentication right before the account changes.
	prime := func(canon string) {
		a := e.model.accts[canon]
		if a == nil || !a.exists || a.scheme == "bcrypt-default" && !p.Chance(1, 3) || !p.Chance(2, 3) {
			return
		}
		cl, name, vk := loginFor(canon)
		if res := authPair("auth-before-change", cl, name, vk, a.pw, "current"); res.expect {
			k.primed++
		}
	}
	// sweep: after a change every password the account class ever had (other
	// than the current one) must be refused - in particular right after a
	// successful authentication with the old one.
	sweep := func(canon string) {
		a := e.model.accts[canon]
		if a == nil || len(a.stale) == 0 {
			return
		}
		max := 3
		if a.exists && a.scheme == "bcrypt-default" {
			max = 1 // every verification costs a default-cost bcrypt
		}
		seen := map[string]bool{}
		for i := len(a.stale) - 1; i >= 0 && max > 0; i-- {
			old := a.stale[i]
			if seen[old] || (a.exists && old == a.pw) {
				continue
			}
			seen[old] = true
			max--
			cl, name, vk := loginFor(canon)
			authPair("auth-earlier-password-after-change", cl, name, vk, old, "earlier-password")
			k.sweeps++
			if lastAuthOK[canon] {
				k.sweepAfterSuccess++
			}
		}
		lastAuthOK[canon] = false
	}
	// cross (group C): after a change of an account, its partners - the
	// accounts whose name it matches as a pattern / would be merged with, and
	// vice versa - must be untouched, and neither name may open the other
	// account. authPair decides from the reference, whatever the state is.
	slow := func(canon string) bool {
		a := e.model.accts[canon]
		return a != nil && a.exists && a.scheme == "bcrypt-default" && !p.Chance(1, 3)
	}
	cross := func(canon string) {
		if e.x == nil {
			return
		}
		ys := e.x.uni.partner[canon]
		for i, y := range ys {
			if i >= 2 {
				break
			}
			xa, ya := e.model.accts[canon], e.model.accts[y]
			if ya != nil && ya.exists && !slow(y) {
				cl, name, vk := loginFor(y)
				authPair("auth-partner-own-password-after-change", cl, name, vk, ya.pw, "current")
				k.xc(e.x.cp+"partner_account_probed_with_its_own_password_after_change", 1)
			}
			if xa != nil && xa.exists && (ya == nil || !ya.exists || ya.pw != xa.pw) && !slow(y) {
				cl, name, vk := loginFor(y)
				authPair("auth-partner-name-with-password-of-changed-account", cl, name, vk, xa.pw, "password-of-partner")
				k.xc(e.x.cp+"cross_attempts_between_partner_accounts", 1)
			}
			if ya != nil && ya.exists && (xa == nil || !xa.exists || xa.pw != ya.pw) && !slow(canon) {
				cl, name, vk := loginFor(canon)
				authPair("auth-changed-name-with-password-of-partner", cl, name, vk, ya.pw, "password-of-partner")
				k.xc(e.x.cp+"cross_attempts_between_partner_accounts", 1)
			}
		}
	}
	if e.x != nil {
		for _, canon := range e.x.initial {
			cross(canon)
		}
		k.xc(e.x.cp+"histories_on_store="+e.x.backend, 1)
		k.xc(e.x.cp+"histories_with_map="+e.nmap.name(), 1)
		if e.x.optNote != "" {
			k.xc(e.x.cp+"documented_regexp_option_name_refused_alternative_used", 1)
		}
	}

	for step := 0; step < nops; step++ {
		op := p.Weighted([]int{3, 2, 2, 7})
		if step == 0 {
			op = 0
		}
		if op == 1 && slowBudget == 0 {
			op = 3
		}
		switch op {
		case 0: // create (often: re-create a deleted account)
			canon := prng.Pick(p, e.names)
			var gone []string
			for _, n := range e.names {
				if a := e.model.accts[n]; a != nil && a.deleted && !a.exists {
					gone = append(gone, n)
				}
			}
			if e.x != nil {
				canon = e.pickAccountName(p)
			}
			if len(gone) > 0 && p.Chance(2, 3) {
				canon = prng.Pick(p, gone)
			}
			name, vk := e.spellMgmt(p, canon, prng.Pick(p, variantKinds))
			sc := prng.Pick(p, schemes)
			pw := genPassword(p, sc.algo == pass_table.HashBcrypt)
			existed := e.model.get(canon).exists
			if existed {
				prime(canon)
			}
			err := e.pt.CreateUserHash(name, pw, sc.algo, sc.opts)
			rec := opRec{Op: "create", Name: name, Canon: canon, Variant: vk, Pw: showPw(pw), PwLen: len(pw), Scheme: sc.name}
			if err == nil {
				e.model.set(canon, pw, sc.name)
				k.create++
				if existed {
					rec.Note = "create succeeded on an existing account; reference follows (password replaced)"
				}
			} else {
				rec.Err = err.Error()
				if existed {
					k.createRefused++
				} else {
					k.createErr++
				}
			}
			hist = append(hist, rec)
			shape["create/"+vk+"/"+sc.name+"/"+pwKind(pw)] = true
			sweep(canon)
			cross(canon)
		case 1: // set password (always default-cost bcrypt: slow)
			slowBudget--
			var canon string
			if ex := e.model.existing(); len(ex) > 0 && p.Chance(4, 5) {
				canon = prng.Pick(p, ex)
			} else {
				canon = prng.Pick(p, e.names)
			}
			name, vk := e.spellMgmt(p, canon, prng.Pick(p, variantKinds))
			pw := genPassword(p, true)
			prime(canon)
			err := e.pt.SetUserPassword(name, pw)
			rec := opRec{Op: "set-password", Name: name, Canon: canon, Variant: vk, Pw: showPw(pw), PwLen: len(pw), Scheme: "bcrypt-default"}
			if err == nil {
				e.model.set(canon, pw, "bcrypt-default")
				k.setpw++
			} else {
				rec.Err = err.Error()
				k.setpwErr++
			}
			hist = append(hist, rec)
			shape["setpw/"+vk+"/"+pwKind(pw)] = true
			sweep(canon)
			cross(canon)
		case 2: // delete
			var canon string
			if ex := e.model.existing(); len(ex) > 0 && p.Chance(4, 5) {
				canon = prng.Pick(p, ex)
			} else {
				canon = prng.Pick(p, e.names)
			}
			name, vk := e.spellMgmt(p, canon, prng.Pick(p, variantKinds))
			prime(canon)
			err := e.pt.DeleteUser(name)
			rec := opRec{Op: "delete", Name: name, Canon: canon, Variant: vk}
			if err == nil {
				e.model.del(canon)
				k.del++
			} else {
				rec.Err = err.Error()
			}
			hist = append(hist, rec)
			shape["delete/"+vk] = true
			keep := lastAuthOK[canon]
			sweep(canon)
			lastAuthOK[canon] = keep // still relevant for the re-creation that may follow
			cross(canon)
		case 3: // authenticate
			// Target an account (mostly an existing or a deleted one), then a
			// login name that the map sends there - or, to probe the map's
			// domain, the provider's account name itself / any other name.
			var canonAcctWanted string
			ex := e.model.existing()
			switch {
			case len(ex) > 0 && p.Chance(7, 10):
				canonAcctWanted = prng.Pick(p, ex)
			default:
				canonAcctWanted = prng.Pick(p, e.names)
			}
			canonLogin := e.nmap.invert(p, canonAcctWanted)
			switch p.Intn(8) {
			case 0:
				canonLogin = prng.Pick(p, e.names)
			case 1, 2:
				canonLogin = canonAcctWanted // the provider's account name, bypassing the map
			}
			name, vk := e.spellLogin(p, canonLogin, prng.Pick(p, variantKinds))
			if e.x != nil && len(e.x.logins) > 0 && p.Chance(1, 6) {
				// a map key written in a non-canonical spelling, supplied literally
				name, vk = prng.Pick(p, e.x.logins), "literal-map-key"
				canonLogin = foldAll(name)
			}
			canonAcct, mapped := e.resolve(name, canonLogin)
			var a *acct
			if mapped {
				a = e.model.accts[canonAcct]
			}
			pw, probe := choosePassword(p, a, e.model, canonAcct)
			if e.x != nil && mapped && p.Chance(1, 3) {
				// the password of a partner account (pattern / near-merge pair)
				for _, y := range e.x.uni.partner[canonAcct] {
					if ya := e.model.accts[y]; ya != nil && ya.exists {
						pw, probe = ya.pw, "password-of-partner"
						break
					}
				}
			}
			// A name the map does not know (or sends elsewhere) together with
			// the password of the account that bears that very name.
			if by := e.model.accts[canonLogin]; by != nil && by.exists && (!mapped || canonAcct != canonLogin) && p.Chance(3, 5) {
				pw, probe = by.pw, "password-of-account-named-like-the-login"
				k.bypass++
			}
			res := authPair("auth", canonLogin, name, vk, pw, probe)
			expect := res.expect
			ex2 := expect

			// Authorization identity clause (PLAIN only carries one).
			// Hostile scenario first: a co-owner of a shared account (another
			// login name the map sends to the same account) presents VALID
			// credentials and asks for the other co-owner's identity.
			if a != nil && a.exists && mapped && p.Bool() {
				if other, co := e.foreignAuthzid(p, canonLogin, canonAcct, true); co {
					zid, _ := e.spellLogin(p, other, prng.Pick(p, variantKinds))
					zo := runPlain(e.sasl, zid, name, a.pw)
					k.authzid++
					k.authzidCoMapped++
					k.authPlain++
					f := false
					hist = append(hist, opRec{Op: "auth-plain-authzid-co-owner", Name: name, Canon: canonLogin, Pw: showPw(a.pw), PwLen: len(a.pw), Expect: &f, Plain: &zo, Note: "authzid=" + zid + " (maps to the same account), valid credentials"})
					if zo.OK {
						c.Violation("authzid/accepted-different-identity/valid-credentials/authzid-maps-to-same-account",
							fmt.Sprintf("PLAIN with authzid %q and authcid %q (both mapped to account %q) was accepted (identity reported: %q)", zid, name, canonAcct, zo.Identity), wit())
					}
					nontrivial = true
				}
			}
			if p.Chance(1, 3) {
				if p.Chance(1, 3) {
					// byte-identical authzid: must decide like no authzid at all
					zo := runPlain(e.sasl, name, name, pw)
					k.authzidSame++
					k.authPlain++
					hist = append(hist, opRec{Op: "auth-plain-authzid-same", Name: name, Canon: canonLogin, Pw: showPw(pw), PwLen: len(pw), Expect: &ex2, Plain: &zo})
					judgeAuth(c, e, "PLAIN", zo, expect, canonLogin, canonAcct, mapped, vk, pw, nil,
						func() bool { return runPlain(e.sasl, canonLogin, canonLogin, pw).OK }, wit)
				} else {
					// authzid of a different class (another user, existing or not)
					other, coMapped := e.foreignAuthzid(p, canonLogin, canonAcct, mapped)
					zid, _ := e.spellLogin(p, other, prng.Pick(p, variantKinds))
					zo := runPlain(e.sasl, zid, name, pw)
					k.authzid++
					if coMapped {
						k.authzidCoMapped++
					}
					k.authPlain++
					f := false
					hist = append(hist, opRec{Op: "auth-plain-authzid-foreign", Name: name, Canon: canonLogin, Pw: showPw(pw), PwLen: len(pw), Expect: &f, Plain: &zo, Note: "authzid=" + zid})
					if zo.OK {
						valid := "wrong-password"
						if expect {
							valid = "valid-credentials"
						}
						if coMapped {
							valid += "/authzid-maps-to-same-account"
						}
						c.Violation("authzid/accepted-different-identity/"+valid,
							fmt.Sprintf("PLAIN with authzid %q and authcid %q was accepted (identity reported: %q)", zid, name, zo.Identity), wit())
					}
					if expect {
						nontrivial = true
					}
				}
			}
		}
	}
	if len(hist) > 0 && idx < 3 {
		r.Sample(map[string]any{"case": c.ID, "map": e.nmap.name(), "history": hist})
	}
	var ss []string
	for s := range shape {
		ss = append(ss, s)
	}
	sort.Strings(ss)
	c.Done(grp+"/"+e.nmap.name()+"/"+e.norm+"/"+strings.Join(ss, ","), nontrivial)
}
