//go:build verif

package c14

// Group G (6_000_000..), seventh widening: logins that overlap in time.
//
// Every other group authenticates sequentially. Here, for accounts whose
// current password the reference knows, N (2..8) logins run at the same time
// against the SAME auth.pass_table instance: directly through AuthPlain, through
// auth.SASLAuth (PLAIN and LOGIN exchanges) and - in a third of the cases -
// through N connections to a submission endpoint. Each login has its own
// candidate: the current password, an earlier one, a near miss (prefix,
// extension, case variant), another account's password, or it targets another
// account with this account's password. Account management (delete / re-create
// / set-password) runs only BETWEEN the rounds, never next to a login, so the
// oracle is the sequential one, unchanged: a login succeeds exactly when its
// candidate is the current password of the account its name maps to -
// whatever runs next to it.
//
// Overlap is not left to luck: the credentials table handed to pass_table is a
// harness table (gateTable) whose Lookup holds every login of a round until all
// of them have either arrived there or finished (names the map refuses never
// get that far), and then lets them go together - or, in leader-first rounds,
// one chosen login first and the others a moment later. The verifications of
// the stored hash therefore start within microseconds of each other. The gate
// only aligns; no verdict depends on it or on any clock.

import (
	"context"
	"fmt"
	"runtime"
	"sort"
	"strings"
	"sync"
	"sync/atomic"
	"testing"
	"time"

	"github.com/foxcpp/maddy/framework/module"
	"github.com/foxcpp/maddy/internal/auth/pass_table"
	"github.com/foxcpp/maddy/internal/zzverif/mx"
	"golang.org/x/text/unicode/norm"
	"verifkit/prng"
	"verifkit/rep"
)

const (
	groupG       = 6_000_000
	concQuick    = 96
	concThorough = 1500

	gateWatchdog  = 5 * time.Second   // a login that never comes: the others go on (counted, no verdict)
	roundWatchdog = 180 * time.Second // expiry = inconclusive
)

// ---------------- the gate ----------------

type gate struct {
	mu       sync.Mutex
	armed    bool
	released bool
	total    int // logins of the round
	done     int // logins that have finished
	chans    []chan struct{}
	keys     []string // looked-up keys in order of arrival
	leader   bool     // leader-first: the first arrival is let go before the others
	pause    time.Duration
	first    chan struct{} // closed at the first arrival
	atOpen   []string      // keys waiting when the gate opened
	expired  int64
}

func (g *gate) arm(total int, leader bool, pause time.Duration) {
	g.mu.Lock()
	defer g.mu.Unlock()
	g.armed, g.released, g.total, g.done = true, false, total, 0
	g.chans, g.keys, g.atOpen = nil, nil, nil
	g.leader, g.pause = leader, pause
	g.first = make(chan struct{})
}

func (g *gate) disarm() {
	g.mu.Lock()
	defer g.mu.Unlock()
	g.armed = false
	if !g.released {
		g.openLocked()
	}
}

// openLocked lets the waiting lookups go: all at once, or the first arrival
// first and the others after a short pause (spinning: a sleeping goroutine
// oversleeps by milliseconds on a loaded machine).
func (g *gate) openLocked() {
	g.released = true
	g.atOpen = append([]string(nil), g.keys...)
	chans := g.chans
	if !g.leader || len(chans) < 2 {
		for _, ch := range chans {
			close(ch)
		}
		return
	}
	pause := g.pause
	go func() {
		close(chans[0])
		for t0 := time.Now(); time.Since(t0) < pause; {
			runtime.Gosched()
		}
		for _, ch := range chans[1:] {
			close(ch)
		}
	}()
}

// pass is called by the credentials table after every lookup.
func (g *gate) pass(key string) {
	g.mu.Lock()
	if !g.armed || g.released {
		g.mu.Unlock()
		return
	}
	ch := make(chan struct{})
	g.chans = append(g.chans, ch)
	g.keys = append(g.keys, key)
	if len(g.chans) == 1 {
		close(g.first)
	}
	if len(g.chans)+g.done >= g.total {
		g.openLocked()
	}
	g.mu.Unlock()
	select {
	case <-ch:
	case <-time.After(gateWatchdog):
		atomic.AddInt64(&g.expired, 1)
	}
}

// finished is called by the harness when a login has its answer.
func (g *gate) finished() {
	g.mu.Lock()
	defer g.mu.Unlock()
	g.done++
	if g.armed && !g.released && len(g.chans)+g.done >= g.total {
		g.openLocked()
	}
}

// gateTable is the credentials table pass_table is configured with: the
// in-memory table of the other groups plus the gate after each lookup.
type gateTable struct {
	*mx.MemTable
	g *gate
}

func (t *gateTable) Lookup(ctx context.Context, k string) (string, bool, error) {
	v, ok, err := t.MemTable.Lookup(ctx, k)
	t.g.pass(k)
	return v, ok, err
}

// ---------------- one login of a round ----------------

type cAtt struct {
	Via      string `json:"via"` // direct | sasl-plain | sasl-login | wire-plain | wire-login
	Name     string `json:"name"`
	Class    string `json:"login_class"`
	Variant  string `json:"variant"`
	Pw       string `json:"pw"`
	PwLen    int    `json:"pw_len"`
	Probe    string `json:"candidate"`
	Acct     string `json:"reference_account"`
	Mapped   bool   `json:"reference_mapped"`
	Expect   bool   `json:"expect"`
	Leader   bool   `json:"released_first,omitempty"`
	OK       bool   `json:"ok"`
	Identity string `json:"identity,omitempty"`
	CtxUser  string `json:"ctx_username,omitempty"`
	CB       int    `json:"callback_calls,omitempty"`
	Code     int    `json:"smtp_reply,omitempty"`
	MailCode int    `json:"mail_reply_after_auth,omitempty"`
	Err      string `json:"err,omitempty"`

	pw      string
	initial bool // LOGIN with initial response
	idCheck bool // compare the reported identity with the other mechanism (drawn in advance)
	w       *wire
	final   string // last line of the AUTH exchange (wire)
	early   bool   // the exchange ended before its last line
	ioErr   error
	a       *acct // reference account (nil: none)
}

type concScheme struct {
	schemeOpt
	weight int
	slow   bool
	pause  time.Duration // leader-first: head start of the first verification
}

var concSchemes = []concScheme{
	{schemeOpt{"bcrypt4", pass_table.HashBcrypt, pass_table.HashOpts{BcryptCost: 4}}, 4, false, 150 * time.Microsecond},
	{schemeOpt{"bcrypt6", pass_table.HashBcrypt, pass_table.HashOpts{BcryptCost: 6}}, 3, false, 400 * time.Microsecond},
	{schemeOpt{"bcrypt8", pass_table.HashBcrypt, pass_table.HashOpts{BcryptCost: 8}}, 3, false, time.Millisecond},
	{schemeOpt{"bcrypt-default", pass_table.HashBcrypt, pass_table.HashOpts{BcryptCost: 10}}, 3, true, 3 * time.Millisecond},
	{schemeOpt{"argon2", pass_table.HashArgon2, pass_table.HashOpts{Argon2Time: 1, Argon2Memory: 64, Argon2Threads: 1}}, 2, false, 30 * time.Microsecond},
	{schemeOpt{"argon2-1MiB", pass_table.HashArgon2, pass_table.HashOpts{Argon2Time: 1, Argon2Memory: 1024, Argon2Threads: 1}}, 2, false, 150 * time.Microsecond},
	{schemeOpt{"argon2-4MiB-2threads", pass_table.HashArgon2, pass_table.HashOpts{Argon2Time: 1, Argon2Memory: 4096, Argon2Threads: 2}}, 2, false, 500 * time.Microsecond},
}

func concPause(scheme string) time.Duration {
	for _, s := range concSchemes {
		if s.name == scheme {
			return s.pause
		}
	}
	return 300 * time.Microsecond
}

// sameUnderNormalization: candidates that differ from the current password
// only by Unicode normalisation are not judged anywhere in C14 (NOTES.md) and
// are not generated here either.
func sameUnderNormalization(a, b string) bool {
	return a != b && (norm.NFC.String(a) == norm.NFC.String(b) || norm.NFKC.String(a) == norm.NFKC.String(b))
}

func runConc(t *testing.T, r *rep.Reporter, c *rep.Case, idx int) {
	p := prng.New(r.Seed(), uint64(idx), "c14-conc")
	i := idx - groupG
	kind := mapKind(i % int(nMapKinds))
	id := fmt.Sprintf("g%d_%d", r.Seed(), idx)
	g := &gate{}
	e, err := newEnvTbl(p, id, kind, func(m *mx.MemTable) module.Module { return &gateTable{m, g} })
	if err != nil {
		t.Fatalf("harness: %v", err)
	}
	cnt := map[string]int64{}
	defer func() {
		for k, n := range cnt {
			r.Count(k, n)
		}
	}()

	// ---- accounts: names the configured map can reach ----
	reachable := func(n string) bool {
		for try := 0; try < 4; try++ {
			if a, ok := e.nmap.ref(e.nmap.invert(p, n)); ok && a == n {
				return true
			}
		}
		return false
	}
	var accts []string
	for _, j := range p.Perm(len(e.names)) {
		if n := e.names[j]; reachable(n) {
			accts = append(accts, n)
		}
		if len(accts) == 3 {
			break
		}
	}
	for _, j := range p.Perm(len(e.names)) {
		if len(accts) >= 2 {
			break
		}
		if n := e.names[j]; !contains(accts, n) {
			accts = append(accts, n) // only the direct path reaches this one
		}
	}

	var hist []any
	slowBudget := 1
	pickScheme := func() concScheme {
		w := make([]int, len(concSchemes))
		for j, s := range concSchemes {
			w[j] = s.weight
			if s.slow && slowBudget <= 0 {
				w[j] = 0
			}
		}
		s := concSchemes[p.Weighted(w)]
		if s.slow {
			slowBudget--
		}
		return s
	}
	mgmt := func(op, canon, pw string, sc *concScheme) {
		name, vk := e.spellMgmt(p, canon, prng.Pick(p, variantKinds))
		rec := opRec{Op: op, Name: name, Canon: canon, Variant: vk, Pw: showPw(pw), PwLen: len(pw)}
		var err error
		switch op {
		case "create":
			rec.Scheme = sc.name
			if err = e.pt.CreateUserHash(name, pw, sc.algo, sc.opts); err == nil {
				e.model.set(canon, pw, sc.name)
			}
		case "set-password":
			rec.Scheme = "bcrypt-default"
			if err = e.pt.SetUserPassword(name, pw); err == nil {
				e.model.set(canon, pw, "bcrypt-default")
			}
		case "delete":
			if err = e.pt.DeleteUser(name); err == nil {
				e.model.del(canon)
			}
		}
		if err != nil {
			rec.Err = err.Error()
		}
		hist = append(hist, rec)
	}
	newPassword := func(canon string, bcryptScheme bool) string {
		a := e.model.get(canon)
		// sometimes an earlier password of the account comes back, sometimes the
		// password of another account (the reference decides by equality)
		switch p.Intn(8) {
		case 0:
			if len(a.stale) > 0 {
				if pw := prng.Pick(p, a.stale); !bcryptScheme || len(pw) <= 72 {
					return pw
				}
			}
		case 1:
			if o := e.model.otherPasswords(canon); len(o) > 0 {
				if pw := prng.Pick(p, o); !bcryptScheme || len(pw) <= 72 {
					return pw
				}
			}
		}
		return genPassword(p, bcryptScheme)
	}
	create := func(canon string) {
		sc := pickScheme()
		for try := 0; try < 3 && !e.model.get(canon).exists; try++ {
			// (a password bcrypt refuses - longer than 72 bytes - leaves the account missing: once more)
			mgmt("create", canon, newPassword(canon, sc.algo == pass_table.HashBcrypt), &sc)
		}
	}
	for _, n := range accts {
		create(n)
	}
	// mutate changes an account between two rounds.
	mutate := func(canon string) {
		a := e.model.get(canon)
		cnt["conc_account_changes_between_rounds"]++
		switch {
		case !a.exists:
			create(canon)
		case slowBudget > 0 && p.Chance(1, 3):
			slowBudget--
			mgmt("set-password", canon, newPassword(canon, true), nil)
		case p.Chance(1, 8):
			mgmt("delete", canon, "", nil) // stays deleted for the next round
		default:
			mgmt("delete", canon, "", nil)
			create(canon)
		}
	}

	// ---- optional submission endpoint over the same pass_table instance ----
	withWire := i%3 == 2
	var addr, cfgText string
	if withWire {
		lg := mx.NewLog()
		tgt := mx.NewTarget("c14tgt_"+id, lg)
		mx.RegisterInstance(tgt)
		var cfg strings.Builder
		fmt.Fprintf(&cfg, "hostname mx.c14.test\ntls off\nauth &c14pt_%s\nsasl_login yes\n", id)
		if e.nmap.tbl != nil {
			fmt.Fprintf(&cfg, "auth_map &c14map_%s\n", id)
		}
		fmt.Fprintf(&cfg, "auth_map_normalize %s\ndeliver_to &c14tgt_%s\n", e.norm, id)
		cfgText = cfg.String()
		globals, err := readGlobalScope("")
		if err != nil {
			t.Fatalf("harness: global scope: %v", err)
		}
		endp, a, err := startSubmission(cfgText, globals)
		if err != nil {
			t.Fatalf("harness: endpoint init: %v\n%s", err, cfgText)
		}
		addr = a
		defer func() {
			if !closeEndpoint(endp, addr) {
				r.Count("endpoint_close_abandoned_by_watchdog", 1)
			}
		}()
	}

	wit := func(round any) any {
		w := e.witness(nil)
		delete(w, "history")
		w["account_management_and_earlier_rounds"] = hist
		w["round"] = round
		if withWire {
			w["config"] = cfgText
		}
		return w
	}

	loginFor := func(canonAcct string) (string, string, string) {
		cl := e.nmap.invert(p, canonAcct)
		kinds := variantKinds
		if !(e.norm == "auto" || e.norm == "precis_casefold") || p.Bool() {
			kinds = []string{"canon"}
		}
		name, vk := e.spellLogin(p, cl, prng.Pick(p, kinds))
		return cl, name, vk
	}
	// refer fills in the reference of a login: account, expected decision.
	refer := func(at *cAtt, wanted string) {
		if at.Via == "direct" {
			// the credentials module is handed an account name, in any spelling
			at.Class = wanted
			at.Name, at.Variant = e.spellMgmt(p, wanted, prng.Pick(p, variantKinds))
			at.Acct, at.Mapped = wanted, true
		} else {
			at.Class, at.Name, at.Variant = loginFor(wanted)
			at.Acct, at.Mapped = e.resolve(at.Name, at.Class)
		}
		at.a = nil
		if at.Mapped {
			at.a = e.model.accts[at.Acct]
		}
	}

	shape := map[string]bool{}
	nontrivial := false
	nrounds := p.Range(3, 5)
	for rd := 0; rd < nrounds; rd++ {
		// ---- between the rounds: account management ----
		if rd == 0 {
			if p.Chance(2, 3) {
				mutate(accts[0]) // an earlier password exists from the first round on
			}
		} else {
			if p.Chance(5, 6) {
				mutate(accts[0])
			}
			if p.Chance(1, 3) {
				mutate(accts[1])
			}
		}
		target := accts[0]
		if p.Chance(1, 4) {
			target = accts[1]
		}
		ta := e.model.get(target)
		n := prng.Pick(p, []int{2, 3, 3, 4, 4, 5, 6, 8})
		if ta.exists && ta.scheme == "bcrypt-default" && n > 4 {
			n = 4
		}
		others := func() []string {
			var o []string
			for _, x := range accts {
				if x != target {
					o = append(o, x)
				}
			}
			return o
		}()

		// ---- the logins of the round ----
		atts := make([]*cAtt, n)
		for j := range atts {
			at := &cAtt{}
			vias := []int{3, 3, 3, 0, 0}
			if withWire {
				vias = []int{2, 2, 2, 3, 3}
			}
			at.Via = []string{"direct", "sasl-plain", "sasl-login", "wire-plain", "wire-login"}[p.Weighted(vias)]
			at.initial = p.Chance(1, 3)
			at.idCheck = p.Chance(1, 3)
			wanted := target
			ck := p.Weighted([]int{3, 3, 4, 2, 1, 2, 1})
			switch j {
			case 0:
				ck = 0 // the current password is always among the candidates
			case 1:
				for ck == 0 || ck >= 5 {
					ck = p.Weighted([]int{0, 3, 4, 2, 1}) // ... and a wrong one for the same account
				}
			}
			if ck >= 5 {
				wanted = prng.Pick(p, others) // another account, with the target's or its own password
			}
			refer(at, wanted)
			if !at.Mapped && at.Via != "direct" && p.Chance(3, 4) {
				// the configured map / normaliser refuses this login before the
				// credentials are looked at: mostly take the direct path instead
				at.Via = "direct"
				refer(at, wanted)
			}
			cur := ""
			if at.a != nil && at.a.exists {
				cur = at.a.pw
			}
			switch ck {
			case 0:
				at.pw, at.Probe = cur, "current"
				if at.a == nil || !at.a.exists {
					at.pw, at.Probe = prng.Pick(p, passwordPool), "random"
					if at.a != nil && len(at.a.stale) > 0 {
						at.pw, at.Probe = at.a.stale[len(at.a.stale)-1], "earlier-password"
					}
				}
			case 1:
				if at.a != nil && len(at.a.stale) > 0 {
					at.pw, at.Probe = prng.Pick(p, at.a.stale), "earlier-password"
				} else {
					at.pw, at.Probe = probePassword(p, cur)
				}
			case 2:
				at.pw, at.Probe = probePassword(p, cur)
				if p.Chance(1, 3) && len(cur) > 1 {
					// a proper prefix / a suffix of the current password
					if k := p.Range(1, len(cur)-1); p.Bool() {
						at.pw, at.Probe = cur[:k], "prefix"
					} else {
						at.pw, at.Probe = cur[k:], "suffix"
					}
				}
			case 3:
				if o := e.model.otherPasswords(at.Acct); len(o) > 0 {
					at.pw, at.Probe = prng.Pick(p, o), "password-of-other-account"
				} else {
					at.pw, at.Probe = probePassword(p, cur)
				}
			case 4:
				at.pw, at.Probe = prng.Pick(p, passwordPool), "random"
			case 5:
				// another account, with the current password of the round's target
				at.pw, at.Probe = ta.pw, "password-of-the-account-the-other-logins-are-for"
				if !ta.exists {
					at.pw, at.Probe = cur, "current"
				}
			case 6:
				at.pw, at.Probe = cur, "current"
			}
			if sameUnderNormalization(at.pw, cur) {
				at.pw, at.Probe = cur+"x", "ext+1byte"
			}
			at.Expect = at.Mapped && at.a != nil && at.a.exists && at.a.pw == at.pw
			at.Pw, at.PwLen = showPw(at.pw), len(at.pw)
			atts[j] = at
		}
		// launch order
		perm := p.Perm(n)
		ordered := make([]*cAtt, n)
		for j, k := range perm {
			ordered[j] = atts[k]
		}
		atts = ordered
		// leader-first: one login of the target account that reaches the
		// credentials gets a head start - one with the current password or one
		// with a wrong one
		leaderMode := p.Bool()
		leader := -1
		if leaderMode {
			wantOK := p.Bool()
			for j, at := range atts {
				if at.Mapped && at.Acct == target && at.Expect == wantOK {
					leader = j
					break
				}
			}
			if leader < 0 {
				leaderMode = false
			} else {
				atts[leader].Leader = true
			}
		}

		// ---- wire logins: everything but the last line, one after another ----
		wireFail := func(at *cAtt, err error) {
			c.Inconclusive("wire i/o: " + err.Error())
			for _, x := range atts {
				if x.w != nil {
					x.w.conn.Close()
				}
			}
		}
		for _, at := range atts {
			if !strings.HasPrefix(at.Via, "wire-") {
				continue
			}
			w, err := dialWire(addr)
			if err != nil {
				c.Inconclusive("dial: " + err.Error())
				return
			}
			at.w = w
			if w.unix {
				r.Count("wire_connections_over_unix_socket_fallback", 1)
			}
			if _, _, err := w.read(); err != nil {
				wireFail(at, err)
				return
			}
			if code, text, err := w.cmd("EHLO client.c14.test"); err != nil {
				wireFail(at, err)
				return
			} else if code != 250 || !strings.Contains(text, "LOGIN") || !strings.Contains(text, "PLAIN") {
				t.Fatalf("harness: EHLO reply does not offer AUTH PLAIN LOGIN: %d %q", code, text)
			}
			if at.Via == "wire-plain" {
				at.final = "AUTH PLAIN " + b64("\x00"+at.Name+"\x00"+at.pw)
				continue
			}
			var code int
			if at.initial {
				code, _, err = w.cmd("AUTH LOGIN " + b64(at.Name))
			} else {
				code, _, err = w.cmd("AUTH LOGIN")
				if err == nil && code == 334 {
					code, _, err = w.cmd(b64(at.Name))
				}
			}
			if err != nil {
				wireFail(at, err)
				return
			}
			if code != 334 {
				at.early, at.Code = true, code
			}
			at.final = b64(at.pw)
		}

		// ---- run ----
		pause := 300 * time.Microsecond
		if ta.exists {
			pause = concPause(ta.scheme)
		}
		g.arm(n, leaderMode, pause)
		var inflight, maxInflight int32
		var wg sync.WaitGroup
		exec := func(at *cAtt) {
			defer wg.Done()
			defer g.finished()
			cur := atomic.AddInt32(&inflight, 1)
			for {
				m := atomic.LoadInt32(&maxInflight)
				if cur <= m || atomic.CompareAndSwapInt32(&maxInflight, m, cur) {
					break
				}
			}
			defer atomic.AddInt32(&inflight, -1)
			switch at.Via {
			case "direct":
				if err := e.pt.AuthPlain(at.Name, at.pw); err != nil {
					at.Err = err.Error()
				} else {
					at.OK = true
				}
			case "sasl-plain", "sasl-login":
				var o authObs
				if at.Via == "sasl-plain" {
					o = runPlain(e.sasl, "", at.Name, at.pw)
				} else {
					o = runLogin(e.sasl, at.Name, at.pw, at.initial)
				}
				at.OK, at.Identity, at.CtxUser, at.CB, at.Err = o.OK, o.Identity, o.Username, o.CBCalls, o.Err
			default:
				if at.early {
					return
				}
				code, _, err := at.w.cmd(at.final)
				if err != nil {
					at.ioErr = err
					return
				}
				at.Code, at.OK = code, code == 235
			}
		}
		wg.Add(n)
		if leaderMode {
			ldone := make(chan struct{})
			go func() { exec(atts[leader]); close(ldone) }()
			select {
			case <-g.first: // its verification is about to start; it waits for the others
			case <-ldone:
			case <-time.After(gateWatchdog):
			}
		}
		for j, at := range atts {
			if j != leader {
				go exec(at)
			}
		}
		joined := make(chan struct{})
		go func() { wg.Wait(); close(joined) }()
		select {
		case <-joined:
		case <-time.After(roundWatchdog):
			g.disarm()
			c.Inconclusive("the logins of a concurrent round did not all return (watchdog); not judged")
			return
		}
		g.disarm()
		atOpen := g.atOpen
		for _, at := range atts {
			if at.ioErr != nil {
				wireFail(at, at.ioErr)
				return
			}
		}

		// ---- what overlapped (facts of this run, for the evidence) ----
		together := map[string]int{} // stored key -> lookups let go together
		for _, k := range atOpen {
			together[k]++
		}
		byAcct := map[string][]*cAtt{}
		for _, at := range atts {
			if at.Mapped {
				byAcct[at.Acct] = append(byAcct[at.Acct], at)
			}
		}
		overl := func(at *cAtt) bool { // its verification started together with another one of the same stored hash
			return at.Mapped && at.a != nil && at.a.exists && together[at.Acct] >= 2
		}
		mode := "all-at-once"
		if leaderMode {
			mode = "first-" + map[bool]string{true: "current", false: "wrong"}[atts[leader].Expect] + "-then-others"
		}
		cnt["conc_rounds"]++
		cnt["conc_logins"] += int64(n)
		cnt["conc_rounds_released="+mode]++
		if maxInflight >= 2 {
			cnt["conc_rounds_with_2_or_more_logins_in_flight"]++
		}
		if maxInflight >= 4 {
			cnt["conc_rounds_with_4_or_more_logins_in_flight"]++
		}
		mixed, same := false, false
		for k, as := range byAcct {
			if a := e.model.accts[k]; a == nil || !a.exists || together[k] < 2 {
				continue
			}
			same = true
			var yes, no bool
			for _, at := range as {
				yes = yes || at.Expect
				no = no || !at.Expect
			}
			if yes && no {
				mixed = true
			}
			cnt["conc_rounds_with_verifications_of_one_stored_hash_started_together/scheme="+e.model.accts[k].scheme]++
		}
		if same {
			cnt["conc_rounds_with_verifications_of_one_stored_hash_started_together"]++
			nontrivial = true
		}
		if mixed {
			cnt["conc_rounds_with_current_and_wrong_password_for_one_account_verified_together"]++
			if leaderMode && together[target] >= 2 {
				cnt["conc_rounds_with_current_and_wrong_password_verified_together/released="+mode]++
			}
		}
		if withWire {
			cnt["conc_rounds_with_submission_endpoint"]++
		}
		if len(ta.stale) > 0 {
			cnt["conc_rounds_on_account_with_earlier_passwords"]++
		}
		if ex := atomic.SwapInt64(&g.expired, 0); ex > 0 {
			cnt["conc_gate_watchdog_expired"] += ex
		}

		// ---- wire: the connection's state after the exchange ----
		for _, at := range atts {
			if at.w == nil {
				continue
			}
			code, _, err := at.w.cmd("MAIL FROM:<sender@c14.test>")
			if err != nil {
				wireFail(at, err)
				return
			}
			at.MailCode = code
			at.w.cmd("QUIT")
			at.w.conn.Close()
		}
		round := map[string]any{"index": rd, "released": mode, "logins": atts, "max_logins_in_flight": maxInflight, "credential_lookups_released_together": atOpen}

		// ---- judge: the sequential oracle ----
		for _, at := range atts {
			cnt["conc_logins_via="+at.Via]++
			mech := map[string]string{"direct": "none", "sasl-plain": "PLAIN", "sasl-login": "LOGIN", "wire-plain": "PLAIN", "wire-login": "LOGIN"}[at.Via]
			path := strings.SplitN(at.Via, "-", 2)[0] // direct | sasl | wire
			rerun := func() bool {                    // the same login on its own, afterwards (attribution only)
				switch at.Via {
				case "direct":
					return e.pt.AuthPlain(at.Name, at.pw) == nil
				case "sasl-login", "wire-login":
					return runLogin(e.sasl, at.Name, at.pw, at.initial).OK
				}
				return runPlain(e.sasl, "", at.Name, at.pw).OK
			}
			seq := func() string {
				if rerun() == at.Expect {
					return "alone-afterwards-decided-correctly"
				}
				return "alone-afterwards-decided-the-same"
			}
			var sibYes, sibNo, samePwElsewhere bool
			for _, o := range atts {
				if o == at {
					continue
				}
				if o.Mapped && at.Mapped && o.Acct == at.Acct {
					sibYes = sibYes || o.Expect
					sibNo = sibNo || !o.Expect
				} else if o.Expect && o.pw == at.pw {
					samePwElsewhere = true
				}
			}
			if at.OK && (at.Via == "sasl-plain" || at.Via == "sasl-login") && at.CB != 1 {
				c.Violation(fmt.Sprintf("auth/success-without-identity/mech=%s", mech),
					fmt.Sprintf("%s exchange succeeded but the identity callback ran %d times", mech, at.CB), wit(round))
			}
			switch {
			case at.OK && !at.Expect:
				next := "no-other-login-of-that-account"
				switch {
				case sibYes:
					next = "next-to-login-with-current-password-of-same-account"
				case samePwElsewhere:
					next = "next-to-accepted-login-of-other-account-with-that-password"
				case sibNo:
					next = "next-to-refused-logins-of-same-account"
				}
				cause := "name-has-no-mapping"
				switch {
				case at.Mapped && (at.a == nil || (!at.a.exists && !at.a.deleted)):
					cause = "account-never-existed"
				case at.Mapped && !at.a.exists:
					cause = "account-deleted"
				case at.Mapped:
					cause = relation(at.pw, at.a.pw, at.a.stale, e.model.otherPasswords(at.Acct))
				}
				c.Violation(fmt.Sprintf("concurrent-logins/accepted-wrong-password/via=%s/%s/%s", path, next, seq()),
					fmt.Sprintf("%s login of %q with password %q (%s; %s) was accepted while %d logins ran at the same time (%s)", at.Via, at.Name, at.Pw, at.Probe, cause, n, next), wit(round))
			case !at.OK && at.Expect:
				next := "no-other-login-of-that-account"
				switch {
				case sibNo:
					next = "next-to-login-with-wrong-password-of-same-account"
				case sibYes:
					next = "next-to-logins-with-current-password-of-same-account"
				}
				c.Violation(fmt.Sprintf("concurrent-logins/refused-current-password/via=%s/%s/%s", path, next, seq()),
					fmt.Sprintf("%s login of %q with the current password of account %q was refused while %d logins ran at the same time (%s): %s %d", at.Via, at.Name, at.Acct, n, next, at.Err, at.Code), wit(round))
			default:
				if at.Expect {
					cnt["conc_logins_accepted_as_expected"]++
					if overl(at) {
						cnt["conc_current_password_accepted_while_other_verification_of_same_hash_ran"]++
						if sibNo {
							cnt["conc_current_password_accepted_next_to_wrong_password_for_same_account"]++
						}
					}
				} else {
					cnt["conc_logins_refused_as_expected"]++
					if overl(at) {
						cnt["conc_wrong_password_refused_while_other_verification_of_same_hash_ran"]++
						if sibYes {
							cl := relation(at.pw, at.a.pw, at.a.stale, e.model.otherPasswords(at.Acct))
							cnt["conc_wrong_password_refused_next_to_current_password_for_same_account"]++
							cnt["conc_wrong_password_refused_next_to_current_password_for_same_account/candidate="+cl]++
						}
					}
					if at.Mapped && at.Acct != target && at.pw == ta.pw && ta.exists && together[target] >= 1 && at.a != nil && at.a.exists {
						cnt["conc_other_account_refused_password_that_a_concurrent_login_was_accepted_with"]++
					}
				}
			}
			// identity: the other mechanism, alone, reports the same for the same credentials
			if at.OK && at.Expect && (at.Via == "sasl-plain" || at.Via == "sasl-login") && (at.a.scheme != "bcrypt-default" || at.idCheck) {
				var o authObs
				if at.Via == "sasl-plain" {
					o = runLogin(e.sasl, at.Name, at.pw, false)
				} else {
					o = runPlain(e.sasl, "", at.Name, at.pw)
				}
				cnt["conc_identity_compared_with_other_mechanism_alone"]++
				if o.OK && (o.Identity != at.Identity || o.Username != at.CtxUser) {
					c.Violation("concurrent-logins/mech-disagree/identity/via="+path,
						fmt.Sprintf("%s among concurrent logins reports identity %q / %q, the other mechanism alone %q / %q for the same credentials", mech, at.Identity, at.CtxUser, o.Identity, o.Username), wit(round))
				}
			}
			// submission: no transaction on a connection whose AUTH was refused
			if at.w != nil {
				switch {
				case at.Code != 235 && at.MailCode >= 200 && at.MailCode < 400:
					c.Violation(fmt.Sprintf("submission/accepted-before-auth/cmd=MAIL/after-refused-%s/concurrent-logins", mech),
						fmt.Sprintf("MAIL answered %d on a connection whose AUTH %s was answered %d (other connections authenticated at the same time)", at.MailCode, mech, at.Code), wit(round))
				case at.Code != 235:
					cnt["conc_wire_mail_refused_after_refused_auth"]++
				case at.MailCode >= 200 && at.MailCode < 400:
					cnt["conc_wire_mail_accepted_after_auth"]++
				}
			}
			sch := "none"
			if at.a != nil && at.a.exists {
				sch = at.a.scheme
			}
			shape[fmt.Sprintf("%s/%s/%s/expect=%v/%s", at.Via, sch, at.Probe, at.Expect, mode)] = true
			r.Distinct("concurrent_login_situations", fmt.Sprintf("via=%s scheme=%s candidate=%s expect=%v released=%s map=%s", at.Via, sch, at.Probe, at.Expect, mode, e.nmap.name()))
		}
		hist = append(hist, round)
		if c.Violated() {
			break // later rounds would only repeat it
		}
	}
	if i < 2 {
		r.Sample(map[string]any{"case": c.ID, "map": e.nmap.name(), "auth_map_normalize": e.norm, "history": hist})
	}
	var ss []string
	for s := range shape {
		ss = append(ss, s)
	}
	sort.Strings(ss)
	c.Done("G/"+e.nmap.name()+"/"+e.norm+"/"+strings.Join(ss, ","), nontrivial)
}
