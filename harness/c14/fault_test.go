//go:build verif

package c14

// Eighth widening, group H (7_000_000..): tables that FAIL at run time.
//
// The user-name map (auth_map) and the credentials table of the histories of
// group A are put behind a scripted wrapper whose Lookup returns an error on
// chosen calls: on every call while a pair of exchanges runs, on the first or
// the second call only, or during a window of several consecutive
// authentication steps of the history (an outage). Between the faulted calls
// the wrapper is transparent. Optionally a first credentials provider that
// knows nobody stands before the real one, so that SASLAuth consults the map
// twice per attempt and a one-call fault hits either consultation.
//
// Oracle (playHistory.authPair, c14_test.go): an exchange during which a lookup
// of the map or of the credentials table returned an error must not succeed -
// the account the name maps to / its current password could not be determined
// (how it is refused - invalid credentials or temporary failure - is not
// judged). An exchange that saw no faulted lookup is judged by the reference
// as in every other group, so the decisions before, between and after the
// outages are still demanded. The decision uses the faults the wrapper
// actually delivered inside the exchange (a count), not the plan.

import (
	"context"
	"errors"
	"fmt"
	"sync"
	"testing"

	"github.com/foxcpp/maddy/framework/exterrors"
	"github.com/foxcpp/maddy/framework/module"
	"github.com/foxcpp/maddy/internal/zzverif/mx"
	"verifkit/prng"
	"verifkit/rep"
)

const (
	groupH        = 7_000_000
	faultQuick    = 300
	faultThorough = 6000
)

// faultScript is shared by the two wrappers of one environment: one stream of
// lookup calls, one armed fault at a time.
type faultScript struct {
	mu      sync.Mutex
	target  string // "" (disarmed) | "map" | "credentials"
	skip    int    // lookups of the target table to let through first
	n       int    // then fail this many (-1: all)
	err     error
	partial bool // return the healthy value together with the error
	faulted map[string]int
	calls   map[string]int
}

func (s *faultScript) arm(target string, skip, n int, err error, partial bool) {
	s.mu.Lock()
	s.target, s.skip, s.n, s.err, s.partial = target, skip, n, err, partial
	s.mu.Unlock()
}

func (s *faultScript) disarm() { s.arm("", 0, 0, nil, false) }

// faultedSoFar: number of lookups of either table answered with an error.
func (s *faultScript) faultedSoFar() (mapN, credN int) {
	s.mu.Lock()
	defer s.mu.Unlock()
	return s.faulted["map"], s.faulted["credentials"]
}

// hit decides one lookup of table which.
func (s *faultScript) hit(which string) (error, bool) {
	s.mu.Lock()
	defer s.mu.Unlock()
	s.calls[which]++
	if s.target != which {
		return nil, false
	}
	if s.skip > 0 {
		s.skip--
		return nil, false
	}
	if s.n == 0 {
		return nil, false
	}
	if s.n > 0 {
		s.n--
	}
	s.faulted[which]++
	return s.err, s.partial
}

// faultMap wraps the user-name map table.
type faultMap struct {
	module.Table
	s *faultScript
}

func (t *faultMap) Lookup(ctx context.Context, k string) (string, bool, error) {
	if err, partial := t.s.hit("map"); err != nil {
		if partial {
			v, ok, _ := t.Table.Lookup(ctx, k)
			return v, ok, err
		}
		return "", false, err
	}
	return t.Table.Lookup(ctx, k)
}

// faultCreds wraps the credentials table (management calls pass through; the
// script is only armed while authentication exchanges run).
type faultCreds struct {
	*mx.MemTable
	s *faultScript
}

func (t *faultCreds) Lookup(ctx context.Context, k string) (string, bool, error) {
	if err, partial := t.s.hit("credentials"); err != nil {
		if partial {
			v, ok, _ := t.MemTable.Lookup(ctx, k)
			return v, ok, err
		}
		return "", false, err
	}
	return t.MemTable.Lookup(ctx, k)
}

// nobodyAuth is a credentials provider without accounts.
type nobodyAuth struct{}

func (nobodyAuth) AuthPlain(string, string) error { return module.ErrUnknownCredentials }

var faultErrs = []struct {
	kind string
	err  error
}{
	{"temporary", exterrors.WithTemporary(errors.New("verif table: connection refused"), true)},
	{"temporary", exterrors.WithTemporary(errors.New("verif table: connection refused"), true)},
	{"plain", errors.New("verif table: backend failure")},
	{"deadline", fmt.Errorf("verif table: lookup: %w", context.DeadlineExceeded)},
	{"canceled", fmt.Errorf("verif table: lookup: %w", context.Canceled)},
}

// faultCtl draws, per pair of exchanges, whether and how the tables fail. Own
// PRNG stream: the history itself is drawn like a group A history.
type faultCtl struct {
	p          *prng.R
	s          *faultScript
	hasMap     bool
	twoProv    bool
	windowLeft int
	window     faultArm
}

type faultArm struct {
	Target  string `json:"table"`
	Mode    string `json:"mode"` // all | first | second | window
	ErrKind string `json:"error"`
	Partial bool   `json:"value_returned_with_error"`
	err     error
	skip, n int
}

// next draws the fault of the next pair of exchanges (nil: none). hot: the
// attempt is one a broken fallback would let through (password of the account
// named like the login, or the current password through a mapped name);
// unmapped: the healthy map refuses the name.
func (f *faultCtl) next(hot, unmapped bool) *faultArm {
	if f.windowLeft > 0 {
		f.windowLeft--
		a := f.window
		return &a
	}
	num := 2
	if hot {
		num = 4
		if unmapped {
			num = 5 // the rarest class: a name the healthy map refuses, with the password of the account of that name
		}
	}
	if !f.p.Chance(num, 6) {
		return nil
	}
	a := faultArm{Target: "map"}
	if !f.hasMap || f.p.Chance(1, 4) {
		a.Target = "credentials"
	}
	fe := prng.Pick(f.p, faultErrs)
	a.ErrKind, a.err = fe.kind, fe.err
	a.Partial = f.p.Chance(1, 4)
	switch f.p.Weighted([]int{4, 2, 2, 3}) {
	case 0:
		a.Mode, a.skip, a.n = "all", 0, -1
	case 1:
		a.Mode, a.skip, a.n = "first", 0, 1
	case 2:
		a.Mode, a.skip, a.n = "second", 1, 1
	case 3:
		a.Mode, a.skip, a.n = "window", 0, -1
		f.windowLeft = f.p.Range(1, 3)
		f.window = a
	}
	return &a
}

func (f *faultCtl) arm(a *faultArm) { f.s.arm(a.Target, a.skip, a.n, a.err, a.Partial) }

func newEnvFault(seed uint64, idx int, p *prng.R, id string) (*env, error) {
	fp := prng.New(seed, uint64(idx), "c14-fault")
	s := &faultScript{faulted: map[string]int{}, calls: map[string]int{}}
	kind := mapKind((idx - groupH) % int(nMapKinds))
	e, err := newEnvTbl(p, id, kind, func(m *mx.MemTable) module.Module { return &faultCreds{m, s} })
	if err != nil {
		return nil, err
	}
	f := &faultCtl{p: fp, s: s, hasMap: e.nmap.tbl != nil, twoProv: fp.Chance(1, 3)}
	if f.hasMap {
		e.sasl.AuthMap = &faultMap{e.nmap.tbl, s}
	}
	if f.twoProv {
		e.sasl.Plain = []module.PlainAuth{nobodyAuth{}, e.pt}
	}
	e.fault = f
	return e, nil
}

func runHistoryFault(t *testing.T, r *rep.Reporter, c *rep.Case, idx int) {
	p := prng.New(r.Seed(), uint64(idx), "c14-h")
	e, err := newEnvFault(r.Seed(), idx, p, fmt.Sprintf("h%d_%d", r.Seed(), idx))
	if err != nil {
		t.Fatalf("harness: %v", err)
	}
	playHistory(t, r, c, idx, p, e, "H")
}

// healthyClass names what the working map does with the login: the cause class
// of a success during an outage.
func healthyClass(mapped bool, canonLogin, canonAcct string) string {
	switch {
	case !mapped:
		return "healthy-map-refuses-the-name"
	case canonAcct != canonLogin:
		return "healthy-map-sends-the-name-to-another-account"
	}
	return "name-maps-to-itself"
}
