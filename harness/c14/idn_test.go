//go:build verif

package c14

import (
	"fmt"
	"strings"
	"testing"

	"golang.org/x/net/idna"
	"golang.org/x/text/secure/precis"
	"golang.org/x/text/unicode/norm"
	"verifkit/prng"
	"verifkit/rep"
)

// Fifth widening, groups E (4_000_000.., histories) and F (5_000_000.., wire):
// e-mail-like user names whose DOMAIN is internationalised.
//
// docs/reference/global-config.md: auth_map_normalize `auto` =
// `precis_casefold_email` for valid e-mails; `precis_casefold_email` /
// `precis_email` = PRECIS profile for the local part + "U-labels form for
// domain". So every spelling of the domain that IDNA (RFC 5890/5891) defines as
// the same name - the A-label `xn--...` in any letter case (RFC 5890 2.3.2.1:
// A-labels are compared case-insensitively), the U-label in upper / mixed case
// or canonically decomposed (a U-label is lower-case NFC by definition) - names
// the account stored under the canonical lower-case NFC U-label spelling.
//
// What stays out of the picture: the credentials store applies
// UsernameCaseMapped to the WHOLE string, so a management call given an
// A-label spelling would create another key than the one `auto` looks for
// (documented inconsistency, see NOTES.md). All management calls of these
// groups therefore use the canonical spelling (spellMgmt), only the
// authenticating side varies it (spellLogin). Fullwidth characters and a
// trailing dot in the domain are not generated (the documentation says nothing
// about them).

const (
	groupE = 4_000_000
	groupF = 5_000_000
)

// idnPairs: A = an internationalised domain, B = a DIFFERENT domain an
// over-eager folding (accent stripping, dropping a label or a letter, a wrong
// punycode decoding) would merge with it. Accounts exist at both.
var idnPairs = []pair{
	{"тест.example", "тесты.example"},
	{"bücher.example", "bucher.example"},
	{"δοκιμή.example", "δοκιμη.example"},
	{"例子.example", "例.example"},
	{"mail.тест.example", "mail.test.example"},
	{"пример.рф", "пример.example"},
	{"zoë.example", "zoe.example"},
	{"münchen.example", "muenchen.example"},
	{"тест.example", "тесу.example"}, // the A-labels differ in the last character only
	{"español.example", "espanol.example"},
}

var idnLocals = []string{"anna", "bob7", "émile", "иван", "zoë.k"}

// idnALabels: A-label (lower case) -> U-label, for every non-ASCII label of
// the table above; built with the punycode encoder of golang.org/x/net/idna
// (library code) and checked by decoding again.
var idnALabels = map[string]string{}

func idnLabelToA(l string) string {
	if isASCII(l) {
		return l
	}
	a, err := idna.Punycode.ToASCII(l)
	if err != nil {
		panic("harness: punycode " + l + ": " + err.Error())
	}
	return a
}

func init() {
	for _, pr := range idnPairs {
		for _, d := range []string{pr.A, pr.B} {
			for _, l := range strings.Split(d, ".") {
				if !isASCII(l) {
					idnALabels[idnLabelToA(l)] = l
				}
			}
		}
	}
}

// foldDomain is the reference of "U-labels form for domain" on the harness'
// own domains: a label that is one of the known A-labels (any letter case)
// becomes its U-label, every other label is lower-cased NFC.
func foldDomain(d string) string {
	labels := strings.Split(d, ".")
	for i, l := range labels {
		if u, ok := idnALabels[strings.ToLower(l)]; ok && isASCII(l) {
			labels[i] = u
			continue
		}
		labels[i] = norm.NFC.String(strings.ToLower(norm.NFC.String(l)))
	}
	return strings.Join(labels, ".")
}

// ---- spellings ----

var idnDomainKinds = []string{
	"alabel", "alabel", "alabel-upper", "alabel-mixed", "alabel-partial",
	"ulabel-upper", "ulabel-mixed", "ulabel-nfd", "ulabel-nfd-upper", "canon",
}

func mixASCIICase(p *prng.R, s string) string {
	b := []byte(s)
	for i, c := range b {
		if c >= 'a' && c <= 'z' && p.Bool() {
			b[i] = c - 'a' + 'A'
		}
	}
	return string(b)
}

// spellDomain returns a spelling of the canonical (lower-case NFC U-label)
// domain and the kind actually applied.
func spellDomain(p *prng.R, d, kind string) (string, string) {
	labels := strings.Split(d, ".")
	alabels := make([]string, len(labels))
	for i, l := range labels {
		alabels[i] = idnLabelToA(l)
	}
	a := strings.Join(alabels, ".")
	out := d
	switch kind {
	case "alabel":
		out = a
	case "alabel-upper":
		out = strings.ToUpper(a)
	case "alabel-mixed":
		out = mixASCIICase(p, a)
	case "alabel-partial":
		// some labels as A-labels, the others as U-labels (possibly upper case)
		mixed := make([]string, len(labels))
		for i := range labels {
			switch {
			case isASCII(labels[i]):
				mixed[i] = mixASCIICase(p, labels[i])
			case p.Bool():
				mixed[i] = mixASCIICase(p, alabels[i])
			default:
				mixed[i] = labels[i]
			}
		}
		out = strings.Join(mixed, ".")
	case "ulabel-upper":
		out = strings.ToUpper(d)
	case "ulabel-mixed":
		out = mixCase(p, d)
	case "ulabel-nfd":
		out = norm.NFD.String(d)
	case "ulabel-nfd-upper":
		out = strings.ToUpper(norm.NFD.String(d))
	}
	if out == d {
		return d, "canon"
	}
	return out, kind
}

// spellIDN: a spelling of an e-mail-like name - the local part through the
// classic transformations, the domain through spellDomain. kind "canon" (the
// caller wants the canonical spelling) is respected.
func spellIDN(p *prng.R, canon, kind string) (string, string) {
	i := strings.LastIndexByte(canon, '@')
	if i < 0 {
		return spell(p, canon, kind)
	}
	if kind == "canon" {
		return canon, "canon"
	}
	local, lk := canon[:i], "canon"
	if p.Bool() {
		local, lk = spell(p, canon[:i], kind)
	}
	dom, dk := spellDomain(p, canon[i+1:], prng.Pick(p, idnDomainKinds))
	s := local + "@" + dom
	if !spellingOK(s) {
		return canon, "canon"
	}
	switch {
	case dk == "canon" && lk == "canon":
		return canon, "canon"
	case dk == "canon":
		return s, lk
	case lk == "canon":
		return s, "idn-" + dk
	}
	return s, "idn-" + dk + "+local-variant"
}

// idnClass names the class of an IDN spelling kind for the counters.
func idnClass(vk string) string {
	switch {
	case strings.HasPrefix(vk, "idn-alabel"):
		return "a-label"
	case strings.HasPrefix(vk, "idn-ulabel"):
		return "u-label-case-or-nfd"
	}
	return "other"
}

// spellLogin / spellMgmt: the spelling of a name on the authenticating side
// and in a management call. Outside groups E/F both are spell (same draws as
// ever); in groups E/F management calls keep the canonical spelling.
func (e *env) spellLogin(p *prng.R, canon, kind string) (string, string) {
	if e.x != nil && e.x.idn {
		return spellIDN(p, canon, kind)
	}
	return spell(p, canon, kind)
}

func (e *env) spellMgmt(p *prng.R, canon, kind string) (string, string) {
	if e.x != nil && e.x.idn {
		return canon, "canon"
	}
	return spell(p, canon, kind)
}

// ---- universe ----

func drawIDNUniverse(p *prng.R) *universe {
	u := &universe{family: "idn", partner: map[string][]string{}, pattern: map[string]bool{}}
	pr := prng.Pick(p, idnPairs)
	u.idnDomain = pr.A
	perm := p.Perm(len(idnLocals))
	seen := map[string]bool{}
	add := func(n string) {
		if !seen[n] {
			seen[n] = true
			u.names = append(u.names, n)
		}
	}
	for _, li := range perm[:2] {
		l := idnLocals[li]
		a, b := l+"@"+pr.A, l+"@"+pr.B
		add(a)
		add(b)
		u.pattern[a] = true
		u.partner[a] = append(u.partner[a], b)
		u.partner[b] = append(u.partner[b], a)
		add(l)
	}
	add(idnLocals[perm[0]] + "@" + corpDomain)
	// a second internationalised domain now and then: two IDN domains in play
	if p.Bool() {
		other := prng.Pick(p, idnPairs)
		if other.A != pr.A && other.A != pr.B {
			add(idnLocals[perm[1]] + "@" + other.A)
		}
	}
	return u
}

var idnMapLabels = []string{
	"none", "identity", "static-special", "regexp-idn-domain", "email_localpart_optional",
	"file", "regexp-partial-localpart", "chain-two-statics",
}

var idnBackends = []string{"mem", "sql"}

// the settings that are documented to produce the U-label form carry the
// weight; the whole-string ones are kept for the converse (an A-label is then
// just another string: it names another account).
var idnNormalizers = []string{
	"auto", "auto", "auto", "auto", "auto",
	"precis_casefold_email", "precis_casefold_email", "precis_casefold_email",
	"precis_email", "precis_email", "precis_email",
	"precis_casefold", "precis", "casefold", "noop",
}

func newEnvIDN(p *prng.R, id string, idx int) (*env, error) {
	backend := idnBackends[idx%len(idnBackends)]
	label := idnMapLabels[(idx/len(idnBackends))%len(idnMapLabels)]
	e, err := newEnvWith(p, id, "idn_", backend, label, func() *universe { return drawIDNUniverse(p) }, idnNormalizers)
	if err != nil {
		return nil, err
	}
	e.x.idn = true
	return e, nil
}

func runHistoryIDN(t *testing.T, r *rep.Reporter, c *rep.Case, idx int) {
	p := prng.New(r.Seed(), uint64(idx), "c14-idn")
	e, err := newEnvIDN(p, fmt.Sprintf("i%d_%d", r.Seed(), idx), idx-groupE)
	if err != nil {
		t.Fatalf("harness: %v", err)
	}
	defer e.close()
	selfCheckNames(t, e.names)
	playHistory(t, r, c, idx, p, e, "E")
}

func runWireIDN(t *testing.T, r *rep.Reporter, c *rep.Case, idx int) {
	p := prng.New(r.Seed(), uint64(idx), "c14-wire-idn")
	id := fmt.Sprintf("iw%d_%d", r.Seed(), idx)
	e, err := newEnvIDN(p, id, idx-groupF)
	if err != nil {
		t.Fatalf("harness: %v", err)
	}
	defer e.close()
	selfCheckNames(t, e.names)
	playWire(t, r, c, idx, p, e, id, "F")
}

// selfCheckIDN validates the construction against library code (x/net/idna
// punycode, x/text PRECIS), never against maddy: every A-label decodes to its
// U-label, the two domains of a pair are different names, every canonical
// e-mail name is a fixed point of UsernameCaseMapped (the key the credentials
// store uses), and every generated spelling folds back to the canonical name:
// per label, an `xn--` label (lower-cased) is decoded by the library, then the
// library's UsernameCaseMapped (lower case + NFC) is applied to the domain.
func selfCheckIDN(t *testing.T) {
	p := prng.New(1, 3, "c14-selfcheck-idn")
	libFold := func(dom string) (string, error) {
		labels := strings.Split(dom, ".")
		for i, l := range labels {
			if isASCII(l) && strings.HasPrefix(strings.ToLower(l), "xn--") {
				u, err := idna.Punycode.ToUnicode(strings.ToLower(l))
				if err != nil {
					return "", err
				}
				labels[i] = u
			}
		}
		return precis.UsernameCaseMapped.CompareKey(strings.Join(labels, "."))
	}
	for a, u := range idnALabels {
		back, err := idna.Punycode.ToUnicode(a)
		if err != nil || back != u || a != strings.ToLower(a) || !strings.HasPrefix(a, "xn--") {
			t.Fatalf("harness: A-label %q does not decode to %q: %q, %v", a, u, back, err)
		}
	}
	for _, pr := range idnPairs {
		if pr.A == pr.B || foldDomain(pr.A) != pr.A || foldDomain(pr.B) != pr.B {
			t.Fatalf("harness: IDN pair %q / %q is not a pair of canonical, different domains", pr.A, pr.B)
		}
		for _, d := range []string{pr.A, pr.B} {
			var names []string
			for _, l := range idnLocals {
				names = append(names, l+"@"+d)
			}
			selfCheckNames(t, names)
			for _, kind := range idnDomainKinds {
				for rep := 0; rep < 4; rep++ {
					s, k := spellDomain(p, d, kind)
					lf, err := libFold(s)
					if err != nil || lf != d || foldDomain(s) != d {
						t.Fatalf("harness: spelling %q (%s) of domain %q folds to %q (library) / %q (reference), %v", s, k, d, lf, foldDomain(s), err)
					}
					if other := map[bool]string{true: pr.B, false: pr.A}[d == pr.A]; lf == other {
						t.Fatalf("harness: spelling %q of %q is the other domain of the pair", s, d)
					}
				}
			}
			for _, l := range idnLocals {
				for _, kind := range variantKinds {
					s, _ := spellIDN(p, l+"@"+d, kind)
					i := strings.LastIndexByte(s, '@')
					lk, err := precis.UsernameCaseMapped.CompareKey(s[:i])
					lf, err2 := libFold(s[i+1:])
					if err != nil || err2 != nil || lk+"@"+lf != l+"@"+d {
						t.Fatalf("harness: spelling %q of %q folds to %q@%q, %v %v", s, l+"@"+d, lk, lf, err, err2)
					}
					if nf, ok := docNormalize("auto", s); !ok || nf != l+"@"+d {
						t.Fatalf("harness: reference normal form of %q is %q, want %q", s, nf, l+"@"+d)
					}
				}
			}
		}
	}
}
