//go:build verif

package c14

import (
	"strings"
	"unicode"

	"golang.org/x/text/unicode/norm"
	"verifkit/prng"
)

// User-name classes known by construction.
//
// A class is identified by its canonical spelling (lower case, NFC, narrow
// width). Every other spelling of the class is derived from the canonical one
// by transformations RFC 8265 UsernameCaseMapped is specified to undo: case
// (simple upper-casing of letters that have a simple lower-case round trip),
// canonical decomposition (NFD) and width (fullwidth ASCII letters/digits,
// halfwidth katakana). The reference model only ever compares canonical
// strings; it never calls a maddy normaliser.

// atoms are pairwise distinct under PRECIS (no accent stripping, no
// sub-addressing): "emile" and "émile" are different accounts.
var atoms = []string{
	"alice", "bob7", "émile", "emile", "ωmega", "иван", "zoë.k", "アキ", "alice1",
}

const corpDomain = "corp.example"

type form int

const (
	formPlain form = iota // atom
	formCorp              // atom@corp.example
	formMx                // atom.mx
	formMxMx              // atom.mx.mx
	nForms
)

func (f form) String() string {
	return [...]string{"plain", "corp", "mx", "mxmx"}[f]
}

func canonName(atom string, f form) string {
	switch f {
	case formCorp:
		return atom + "@" + corpDomain
	case formMx:
		return atom + ".mx"
	case formMxMx:
		return atom + ".mx.mx"
	}
	return atom
}

var variantKinds = []string{"canon", "upper", "mixed", "nfd", "nfd-upper", "wide", "wide-upper", "domain-upper"}

var halfKana = map[rune]rune{'ア': 'ｱ', 'キ': 'ｷ'}

func widen(s string) string {
	var b strings.Builder
	for _, r := range s {
		switch {
		case r >= '0' && r <= '9', r >= 'a' && r <= 'z', r >= 'A' && r <= 'Z':
			b.WriteRune(r + 0xFEE0)
		default:
			if h, ok := halfKana[r]; ok {
				b.WriteRune(h)
			} else {
				b.WriteRune(r)
			}
		}
	}
	return b.String()
}

func mixCase(p *prng.R, s string) string {
	var b strings.Builder
	for _, r := range s {
		if p.Bool() {
			b.WriteRune(unicode.ToUpper(r))
		} else {
			b.WriteRune(r)
		}
	}
	return b.String()
}

// spell returns a spelling of the class whose canonical name is canon. The
// second result is the variant kind actually applied ("canon" when the
// requested transformation does not change the name).
func spell(p *prng.R, canon, kind string) (string, string) {
	local, domain := canon, ""
	if i := strings.LastIndexByte(canon, '@'); i >= 0 {
		local, domain = canon[:i], canon[i:]
	}
	out := local
	switch kind {
	case "upper":
		out = strings.ToUpper(local)
	case "mixed":
		out = mixCase(p, local)
	case "nfd":
		out = norm.NFD.String(local)
	case "nfd-upper":
		out = strings.ToUpper(norm.NFD.String(local))
	case "wide":
		out = widen(local)
	case "wide-upper":
		out = widen(strings.ToUpper(local))
	case "domain-upper":
		if domain != "" {
			domain = strings.ToUpper(domain)
		}
	}
	s := out + domain
	if s == canon {
		return s, "canon"
	}
	return s, kind
}

// ---- passwords ----

var (
	pw72  = strings.Repeat("0123456789abcdef", 4) + "01234567" // exactly 72 bytes
	pw71  = pw72[:71]
	pw72b = pw71 + "Z" // 72 bytes, differs from pw72 in the last byte only
	pw73  = pw72 + "x"
	pw200 = pw72 + strings.Repeat("y", 128)
	pwL   = strings.Repeat("Lq", 100) // 200 bytes, unrelated
)

var passwordPool = []string{
	"", "pw-one", "Pw-One", "pw-one ", "pw-on", "pw-one1", " ",
	"пароль-ü-密", "пароль-ü-密!", "pässwörd",
	pw71, pw72, pw72b, pw73, pw200, pwL,
}

func pwKind(pw string) string {
	switch {
	case pw == "":
		return "empty"
	case len(pw) > 72:
		return "gt72"
	case len(pw) == 72:
		return "len72"
	case len(pw) == 71:
		return "len71"
	}
	for i := 0; i < len(pw); i++ {
		if pw[i] >= 0x80 {
			return "nonascii"
		}
	}
	return "short"
}

// relation names how a wrongly accepted password relates to the current one.
func relation(supplied, current string, stale, others []string) string {
	switch {
	case len(current) >= 72 && len(supplied) > len(current) && strings.HasPrefix(supplied, current):
		return "extension-beyond-72-bytes"
	case len(supplied) > 72 && len(current) > 72 && supplied[:72] == current[:72]:
		return "same-first-72-bytes"
	case len(supplied) > len(current) && strings.HasPrefix(supplied, current):
		return "extension-of-current"
	case len(supplied) < len(current) && strings.HasPrefix(current, supplied):
		return "prefix-of-current"
	case strings.EqualFold(supplied, current):
		return "case-variant-of-current"
	}
	for _, s := range stale {
		if s == supplied {
			return "stale-password"
		}
	}
	for _, s := range others {
		if s == supplied {
			return "password-of-other-account"
		}
	}
	return "unrelated"
}
