//go:build verif

package c14

import (
	"strings"
	"unicode"
	"unicode/utf8"

	"golang.org/x/text/unicode/norm"
	"golang.org/x/text/width"
	"verifkit/prng"
)

// User-name classes known by construction.
//
// A class is identified by its canonical spelling (lower case, NFC, narrow
// width). Every other spelling of the class is derived from the canonical one
// by transformations RFC 8265 UsernameCaseMapped is specified to undo: case
// (simple upper-casing of letters that have a simple lower-case round trip),
// canonical decomposition (NFD) and width (fullwidth ASCII letters/digits,
// halfwidth katakana). The reference model only ever compares canonical
// strings; it never calls a maddy normaliser.

// atoms are pairwise distinct under PRECIS (no accent stripping, no
// sub-addressing): "emile" and "émile" are different accounts.
var atoms = []string{
	"alice", "bob7", "émile", "emile", "ωmega", "иван", "zoë.k", "アキ", "alice1",
}

const corpDomain = "corp.example"

type form int

const (
	formPlain form = iota // atom
	formCorp              // atom@corp.example
	formMx                // atom.mx
	formMxMx              // atom.mx.mx
	nForms
)

func (f form) String() string {
	return [...]string{"plain", "corp", "mx", "mxmx"}[f]
}

func canonName(atom string, f form) string {
	switch f {
	case formCorp:
		return atom + "@" + corpDomain
	case formMx:
		return atom + ".mx"
	case formMxMx:
		return atom + ".mx.mx"
	}
	return atom
}

var variantKinds = []string{"canon", "upper", "mixed", "nfd", "nfd-upper", "wide", "wide-upper", "domain-upper"}

var halfKana = map[rune]rune{'ア': 'ｱ', 'キ': 'ｷ'}

func widen(s string) string {
	var b strings.Builder
	for _, r := range s {
		switch {
		case r >= '0' && r <= '9', r >= 'a' && r <= 'z', r >= 'A' && r <= 'Z':
			b.WriteRune(r + 0xFEE0)
		default:
			if h, ok := halfKana[r]; ok {
				b.WriteRune(h)
			} else {
				b.WriteRune(r)
			}
		}
	}
	return b.String()
}

func mixCase(p *prng.R, s string) string {
	var b strings.Builder
	for _, r := range s {
		if p.Bool() {
			b.WriteRune(unicode.ToUpper(r))
		} else {
			b.WriteRune(r)
		}
	}
	return b.String()
}

// spell returns a spelling of the class whose canonical name is canon. The
// second result is the variant kind actually applied ("canon" when the
// requested transformation does not change the name).
func spell(p *prng.R, canon, kind string) (string, string) {
	local, domain := canon, ""
	if i := strings.LastIndexByte(canon, '@'); i >= 0 {
		local, domain = canon[:i], canon[i:]
	}
	if noCaseRound(canon) {
		kind = downgradeCaseKind(kind) // letters without an upper/lower round trip: no case variants
	}
	out := local
	switch kind {
	case "upper":
		out = strings.ToUpper(local)
	case "mixed":
		out = mixCase(p, local)
	case "nfd":
		out = norm.NFD.String(local)
	case "nfd-upper":
		out = strings.ToUpper(norm.NFD.String(local))
	case "wide":
		out = widen(local)
	case "wide-upper":
		out = widen(strings.ToUpper(local))
	case "domain-upper":
		if domain != "" {
			domain = strings.ToUpper(domain)
		}
	}
	s := out + domain
	if s == canon || !spellingOK(s) {
		// (the second condition never holds in groups A and B; third widening:
		// x/text refuses some non-ASCII spellings of names with symbols)
		return canon, "canon"
	}
	return s, kind
}

// ---- documented auth_map_normalize functions (reference) ----
//
// docs/reference/global-config.md:
//   auto                   precis_casefold_email for valid emails, precis_casefold otherwise
//   precis_casefold_email  PRECIS UsernameCaseMapped profile + U-labels form for domain
//   precis_casefold        PRECIS UsernameCaseMapped profile for the entire string
//   precis_email           PRECIS UsernameCasePreserved profile + U-labels form for domain
//   precis                 PRECIS UsernameCasePreserved profile for the entire string
//   casefold               Convert to lower case
//   noop                   Nothing
// RFC 8265: both profiles map fullwidth/halfwidth characters to their
// decomposition and apply NFC; only the CaseMapped one lower-cases. The
// reference below re-implements that with x/text width/norm and
// strings.ToLower on the harness' own alphabet - never with maddy code.

func foldWidthNFC(s string) string { return norm.NFC.String(width.Fold.String(s)) }

// foldAll is UsernameCaseMapped on the harness alphabet (what the credentials
// store applies to the name it is given).
func foldAll(s string) string {
	return norm.NFC.String(strings.ToLower(foldWidthNFC(s)))
}

// docNormalize returns the documented normal form of a spelled login name;
// ok=false when the function is documented for e-mail addresses only and the
// name is none.
func docNormalize(fn, s string) (string, bool) {
	i := strings.LastIndexByte(s, '@')
	email := i > 0 && i < len(s)-1
	if fn == "auto" {
		if email {
			fn = "precis_casefold_email"
		} else {
			fn = "precis_casefold"
		}
	}
	// RFC 8264 IdentifierClass: a space is no part of a user name, the PRECIS
	// profiles refuse the string (third widening; no such name before)
	switch fn {
	case "precis_casefold_email":
		if !email || !precisOK(s[:i]) {
			return "", false
		}
		return foldAll(s[:i]) + "@" + foldDomain(s[i+1:]), true // "U-labels form for domain" (idn_test.go)
	case "precis_casefold":
		if !precisOK(s) {
			return "", false
		}
		return foldAll(s), true
	case "precis_email":
		if !email || !precisOK(s[:i]) {
			return "", false
		}
		return foldWidthNFC(s[:i]) + "@" + foldDomain(s[i+1:]), true
	case "precis":
		if !precisOK(s) {
			return "", false
		}
		return foldWidthNFC(s), true
	case "casefold":
		return strings.ToLower(s), true
	case "noop":
		return s, true
	}
	return "", false
}

// ---- passwords ----

var (
	pw72  = strings.Repeat("0123456789abcdef", 4) + "01234567" // exactly 72 bytes
	pw71  = pw72[:71]
	pw72b = pw71 + "Z" // 72 bytes, differs from pw72 in the last byte only
	pw73  = pw72 + "x"
	pw200 = pw72 + strings.Repeat("y", 128)
	pwL   = strings.Repeat("Lq", 100) // 200 bytes, unrelated
)

var passwordPool = []string{
	"", "pw-one", "Pw-One", "pw-one ", "pw-on", "pw-one1", " ",
	"пароль-ü-密", "пароль-ü-密!", "pässwörd",
	pw71, pw72, pw72b, pw73, pw200, pwL,
	// non-ASCII at the 72 byte boundary: bytes and characters differ
	strings.Repeat("é", 36),        // 72 bytes, 36 characters
	strings.Repeat("密", 24),        // 72 bytes, 24 characters
	strings.Repeat("😀", 18),        // 72 bytes, 18 characters
	strings.Repeat("é", 35) + "a",  // 71 bytes
	pw72[:71] + "é",                // 73 bytes, a character straddles byte 72
	pw72[:70] + "密",                // 73 bytes, straddling
	pw72[:69] + "😀",                // 73 bytes, straddling
	strings.Repeat("é", 72),        // 72 characters, 144 bytes
	strings.Repeat("aé", 36) + "b", // 109 bytes, 73 characters
	// byte strings that change under NFC / NFKC / PRECIS OpaqueString /
	// case folding. Only ONE member of each equivalence class is in the pool:
	// supplying exactly these bytes must succeed; whether another
	// normalisation form of the same text may also succeed is not judged.
	"pa\u0301ss",                // decomposed (NFD) a + combining acute
	"q\u0323\u0307x",            // two combining marks
	"d\u0307\u0323y",            // two combining marks in non-canonical order
	"p\u00a0w",                  // NO-BREAK SPACE
	"p\u2003w\u3000z",           // EM SPACE, IDEOGRAPHIC SPACE
	"\ufb01n-\u212bng",          // ligature fi, ANGSTROM SIGN
	"\u1112\u1161\u11ab-jamo",   // Hangul conjoining jamo (NFC composes them)
	"\uff50\uff57-wide",         // fullwidth letters
	"Stra\u00dfe-\u0130-\u017f", // sharp s, dotted capital I, long s
	"\u2126hm \u00b5m",          // OHM SIGN, MICRO SIGN (compatibility / singleton mappings)
	"tab\there",                 // control character
}

// Boundary family: passwords whose BYTE length is 70..74 or 140..146, built
// from 1-, 2-, 3- and 4-byte characters, optionally with one character
// straddling byte 72 (bcrypt's input limit is 72 bytes, not characters).
var widthChars = [5][]string{
	1: {"a", "Z", "7", "-", "q"},
	2: {"é", "ж", "ω", "ü", "\u0301", "\u00a0"},
	3: {"密", "€", "ア", "ह", "\u2003", "\u212b", "\ufb01"},
	4: {"😀", "𝄞", "𐍈"},
}

var boundaryLens = []int{70, 71, 72, 72, 72, 72, 73, 73, 74, 140, 141, 142, 143, 144, 144, 145, 146}

func fillChars(p *prng.R, b *strings.Builder, cur, target int, widths []int) int {
	for cur < target {
		w := prng.Pick(p, widths)
		if cur+w > target {
			w = 1
		}
		b.WriteString(prng.Pick(p, widthChars[w]))
		cur += w
	}
	return cur
}

// boundaryPassword returns a password of one of the boundary byte lengths;
// maxLen > 0 restricts the choice (bcrypt refuses more than 72 bytes when a
// password is set).
func boundaryPassword(p *prng.R, maxLen int) string {
	L := prng.Pick(p, boundaryLens)
	for maxLen > 0 && L > maxLen {
		L = prng.Pick(p, boundaryLens)
	}
	widths := prng.Pick(p, [][]int{{1, 2, 3, 4}, {2}, {3}, {4}, {1, 2}, {2, 3, 4}, {1}})
	var b strings.Builder
	cur := 0
	if L >= 73 && p.Bool() {
		// one character of width w starts at byte 72-k (0 < k < w) and so
		// straddles the 72 byte boundary
		w := p.Range(2, 4)
		k := p.Range(1, w-1)
		if 72-k+w <= L {
			cur = fillChars(p, &b, cur, 72-k, widths)
			b.WriteString(prng.Pick(p, widthChars[w]))
			cur += w
		}
	}
	fillChars(p, &b, cur, L, widths)
	return b.String()
}

// genPassword is the password of a create / set-password operation.
func genPassword(p *prng.R, bcryptScheme bool) string {
	if p.Chance(3, 5) {
		return prng.Pick(p, passwordPool)
	}
	if bcryptScheme && p.Chance(4, 5) {
		return boundaryPassword(p, 72)
	}
	pw := boundaryPassword(p, 0)
	if !bcryptScheme && p.Bool() {
		for len(pw) <= 72 { // schemes without a length limit: mostly beyond 72 bytes
			pw = boundaryPassword(p, 0)
		}
	}
	return pw
}

// unstable says whether a password's byte string changes under NFC or NFKC
// (decomposed sequences, compatibility characters, non-ASCII spaces ...).
func unstable(pw string) bool {
	return utf8.ValidString(pw) && (norm.NFC.String(pw) != pw || norm.NFKC.String(pw) != pw)
}

func runeLen(s string) int { return utf8.RuneCountInString(s) }

// truncRunes returns the first n characters of s.
func truncRunes(s string, n int) string {
	i := 0
	for j := range s {
		if i == n {
			return s[:j]
		}
		i++
	}
	return s
}

// truncBytesAtRune returns the longest prefix of at most n bytes that ends at
// a character boundary.
func truncBytesAtRune(s string, n int) string {
	if len(s) <= n {
		return s
	}
	for n > 0 && !utf8.RuneStart(s[n]) {
		n--
	}
	return s[:n]
}

// probePassword derives a near miss of the current password: extensions and
// truncations at byte and at character granularity. The result may be invalid
// UTF-8 (cut inside a character); such strings are only ever *supplied*, never
// set.
func probePassword(p *prng.R, cur string) (string, string) {
	switch p.Intn(14) {
	case 0:
		return cur + "x", "ext+1byte"
	case 1:
		return cur + " ", "ext+space"
	case 2:
		return cur + prng.Pick(p, []string{"é", "密", "😀"}), "ext+1char"
	case 3:
		if n := runeLen(cur); n < 72 {
			return cur + strings.Repeat(prng.Pick(p, []string{"é", "密", "😀"}), 72-n), "ext-to-72-chars-multibyte"
		}
	case 4:
		if n := runeLen(cur); n < 72 {
			return cur + strings.Repeat("x", 72-n), "ext-to-72-chars-ascii"
		}
	case 5:
		if len(cur) < 72 {
			return cur + strings.Repeat("x", 72-len(cur)), "ext-to-72-bytes"
		}
	case 6:
		return cur + strings.Repeat("z", 130), "ext+130bytes"
	case 7:
		if len(cur) > 0 {
			return cur[:len(cur)-1], "trunc-1byte"
		}
	case 8:
		if n := runeLen(cur); n > 0 {
			return truncRunes(cur, n-1), "trunc-1char"
		}
	case 9:
		if len(cur) > 72 {
			return cur[:72], "trunc-to-72-bytes"
		}
	case 10:
		if len(cur) > 72 {
			return truncBytesAtRune(cur, 72), "trunc-to-72-bytes-char-boundary"
		}
	case 11:
		if runeLen(cur) > 72 {
			return truncRunes(cur, 72), "trunc-to-72-chars"
		}
	case 12:
		if len(cur) > 71 {
			return cur[:71], "trunc-to-71-bytes"
		}
	case 13:
		if s := strings.ToUpper(cur); s != cur {
			return s, "case-variant"
		}
	}
	return cur + "x", "ext+1byte"
}

func pwKind(pw string) string {
	ascii := true
	for i := 0; i < len(pw); i++ {
		if pw[i] >= 0x80 {
			ascii = false
		}
	}
	pre := ""
	if !ascii {
		pre = "nonascii-"
	}
	switch {
	case pw == "":
		return "empty"
	case len(pw) > 72:
		return pre + "gt72"
	case len(pw) == 72:
		return pre + "len72"
	case len(pw) >= 70:
		return pre + "len70-71"
	}
	if !ascii {
		return "nonascii"
	}
	return "short"
}

// relation names how a wrongly accepted password relates to the current one.
func relation(supplied, current string, stale, others []string) string {
	switch {
	case len(current) >= 72 && len(supplied) > len(current) && strings.HasPrefix(supplied, current):
		if runeLen(supplied) <= 72 {
			return "extension-beyond-72-bytes/within-72-characters"
		}
		return "extension-beyond-72-bytes"
	case len(current) > 72 && supplied == current[:72]:
		return "first-72-bytes-of-current"
	case runeLen(current) > 72 && supplied == truncRunes(current, 72):
		return "first-72-characters-of-current"
	case len(supplied) > 72 && len(current) > 72 && supplied[:72] == current[:72]:
		return "same-first-72-bytes"
	}
	for _, s := range stale { // an earlier password of this account, whatever else it resembles
		if s == supplied {
			return "stale-password"
		}
	}
	switch {
	case norm.NFC.String(supplied) == norm.NFC.String(current) || norm.NFKC.String(supplied) == norm.NFKC.String(current):
		return "other-unicode-normalization-form-of-current" // not generated on purpose; would be contested
	case len(supplied) > len(current) && strings.HasPrefix(supplied, current):
		return "extension-of-current"
	case len(supplied) < len(current) && strings.HasPrefix(current, supplied):
		return "prefix-of-current"
	case strings.EqualFold(supplied, current):
		return "case-variant-of-current"
	}
	for _, s := range stale {
		if s == supplied {
			return "stale-password"
		}
	}
	for _, s := range others {
		if s == supplied {
			return "password-of-other-account"
		}
	}
	return "unrelated"
}
