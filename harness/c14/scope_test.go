//go:build verif

package c14

import (
	"fmt"
	"os"
	"strings"
	"sync"

	"github.com/foxcpp/maddy"
	"github.com/foxcpp/maddy/internal/zzverif/mx"
	"verifkit/prng"
)

// Fifth widening, configuration scope (wire groups B, D and F).
//
// docs/reference/global-config.md documents `auth_map` and
// `auth_map_normalize` as GLOBAL directives ("These directives can be specified
// outside of any configuration block"); docs/reference/endpoints/smtp.md gives
// "Default: global directive value" for directives an endpoint inherits. The
// documented inheritance: a directive inside the endpoint block wins, otherwise
// the value of the global scope applies, otherwise the default (no map / auto).
//
// The wire groups used to write both directives inside the endpoint block
// only. Now each of them is placed, independently:
//   block                       inside the endpoint block (as before)
//   global                      in the global scope only
//   global-overridden-by-block  a DIFFERENT map / function in the global scope
//                               (a decoy), the real one inside the block
//   both                        the same directive in both scopes
//   default                     (normaliser `auto` only) written nowhere
// The global scope is read by maddy's own ReadGlobals (maddy.go) from
// configuration text and the resulting map is handed to the endpoint's Init,
// exactly like moduleMain / initModules do. The reference does not change: the
// effective map and function are the ones of the case.
//
// The placement is drawn from its own PRNG stream, so the scenarios of the
// groups are draw-for-draw what they were.

type scopePlan struct {
	mapIn, normIn string
	global, block string // configuration text: global scope, lines for the endpoint block
	decoyMap      string
	decoyNorm     string
}

var scopeStateDir struct {
	once sync.Once
	dir  string
	err  error
}

func stateDir() (string, error) {
	scopeStateDir.once.Do(func() {
		scopeStateDir.dir, scopeStateDir.err = os.MkdirTemp("", "c14state")
	})
	return scopeStateDir.dir, scopeStateDir.err
}

var decoyMaps = []string{
	"static {\n    entry \"decoy.login\" \"decoy.account\"\n}",
	"regexp \"(.+)\" \"$1.decoy\"",
	"static {\n}",
}

func planScope(seed uint64, idx int, e *env, id string) scopePlan {
	p := prng.New(seed, uint64(idx), "c14-wire-scope")
	var sp scopePlan
	mapDir := ""
	if e.nmap.kind == mapExt {
		if e.nmap.cfgText != "" {
			mapDir = "auth_map " + e.nmap.cfgText
		}
	} else if e.nmap.tbl != nil {
		mapDir = "auth_map &c14map_" + id
	}
	var g, b strings.Builder
	placements := []string{"block", "block", "block", "global", "global", "global-overridden-by-block", "both"}
	sp.mapIn = "none"
	if mapDir != "" {
		sp.mapIn = prng.Pick(p, placements)
		switch sp.mapIn {
		case "block":
			b.WriteString(mapDir + "\n")
		case "global":
			g.WriteString(mapDir + "\n")
		case "both":
			g.WriteString(mapDir + "\n")
			b.WriteString(mapDir + "\n")
		case "global-overridden-by-block":
			sp.decoyMap = prng.Pick(p, decoyMaps)
			if p.Chance(1, 4) {
				sp.decoyMap = "identity"
			}
			g.WriteString("auth_map " + sp.decoyMap + "\n")
			b.WriteString(mapDir + "\n")
		}
	}
	normDir := "auth_map_normalize " + e.norm + "\n"
	sp.normIn = prng.Pick(p, placements)
	if e.norm == "auto" && p.Chance(1, 4) {
		sp.normIn = "default"
	}
	switch sp.normIn {
	case "block":
		b.WriteString(normDir)
	case "global":
		g.WriteString(normDir)
	case "both":
		g.WriteString(normDir)
		b.WriteString(normDir)
	case "global-overridden-by-block":
		sp.decoyNorm = prng.Pick(p, []string{"noop", "noop", "auto", "precis", "casefold", "precis_email", "precis_casefold"})
		for sp.decoyNorm == e.norm {
			sp.decoyNorm = prng.Pick(p, []string{"noop", "auto", "precis", "casefold"})
		}
		g.WriteString("auth_map_normalize " + sp.decoyNorm + "\n")
		b.WriteString(normDir)
	}
	sp.global, sp.block = g.String(), b.String()
	return sp
}

// readGlobalScope runs maddy's ReadGlobals over the global directives of the
// case (plus the directories every configuration has).
func readGlobalScope(text string) (map[string]interface{}, error) {
	dir, err := stateDir()
	if err != nil {
		return nil, err
	}
	nodes, err := mx.ParseConfig(fmt.Sprintf("state_dir %s\nruntime_dir %s\n%s", cq(dir), cq(dir), text))
	if err != nil {
		return nil, fmt.Errorf("parse: %w", err)
	}
	globals, unknown, err := maddy.ReadGlobals(nodes)
	if err != nil {
		return nil, err
	}
	if len(unknown) != 0 {
		return nil, fmt.Errorf("global scope: directive %q is not a global directive", unknown[0].Name)
	}
	return globals, nil
}

// tag is appended to wire signatures when a directive did not stand in the
// endpoint block alone: the cause class then includes the scope (of the map
// when that one is placed unusually, else of the function - one tag, so that
// one defect has a small set of signatures).
func (sp scopePlan) tag() string {
	switch {
	case sp.mapIn != "block" && sp.mapIn != "none":
		return "/auth_map-in=" + sp.mapIn
	case sp.normIn != "block":
		return "/auth_map_normalize-in=" + sp.normIn
	}
	return ""
}
