//go:build verif

package c14

import (
	"bufio"
	"encoding/base64"
	"fmt"
	"net"
	"os"
	"strconv"
	"strings"
	"testing"
	"time"

	"github.com/foxcpp/maddy/internal/auth/pass_table"
	"github.com/foxcpp/maddy/internal/endpoint/smtp"
	"github.com/foxcpp/maddy/internal/zzverif/mx"
	"verifkit/prng"
	"verifkit/rep"
)

// ---------------- raw SMTP client ----------------

type wire struct {
	conn net.Conn
	r    *bufio.Reader
	log  []string
	unix bool
}

// ioWatchdog only bounds a stuck socket; its expiry is inconclusive, never a verdict.
const ioWatchdog = 60 * time.Second

// dialWire connects to "tcpaddr|unixpath": TCP first, the unix socket when no
// TCP connection can be made.
func dialWire(addr string) (*wire, error) {
	tcp, unix, _ := strings.Cut(addr, "|")
	var c net.Conn
	var err error
	if tcp != "" {
		c, err = net.DialTimeout("tcp", tcp, ioWatchdog)
	}
	if c == nil {
		c, err = net.DialTimeout("unix", unix, ioWatchdog)
	}
	if err != nil {
		return nil, err
	}
	return &wire{conn: c, r: bufio.NewReader(c), unix: c.RemoteAddr().Network() == "unix"}, nil
}

func (w *wire) read() (int, string, error) {
	w.conn.SetReadDeadline(time.Now().Add(ioWatchdog))
	var text []string
	for {
		line, err := w.r.ReadString('\n')
		if err != nil {
			return 0, "", err
		}
		line = strings.TrimRight(line, "\r\n")
		w.log = append(w.log, "S: "+line)
		if len(line) < 3 {
			return 0, "", fmt.Errorf("short reply line %q", line)
		}
		code, err := strconv.Atoi(line[:3])
		if err != nil {
			return 0, "", fmt.Errorf("bad reply line %q", line)
		}
		if len(line) > 3 {
			text = append(text, line[4:])
		}
		if len(line) == 3 || line[3] == ' ' {
			return code, strings.Join(text, "\n"), nil
		}
	}
}

func (w *wire) cmd(line string) (int, string, error) {
	w.log = append(w.log, "C: "+line)
	w.conn.SetWriteDeadline(time.Now().Add(ioWatchdog))
	if _, err := w.conn.Write([]byte(line + "\r\n")); err != nil {
		return 0, "", err
	}
	return w.read()
}

func b64(s string) string {
	if s == "" {
		return "="
	}
	return base64.StdEncoding.EncodeToString([]byte(s))
}

// ---------------- endpoint from configuration text ----------------

func freePort() (int, error) {
	l, err := net.Listen("tcp", "127.0.0.1:0")
	if err != nil {
		return 0, err
	}
	defer l.Close()
	return l.Addr().(*net.TCPAddr).Port, nil
}

func startSubmission(cfgText string, globals map[string]interface{}) (*smtp.Endpoint, string, error) {
	// The endpoint listens on a loopback TCP port and on a unix socket.
	// Ephemeral ports are a resource shared with every other check running on
	// this machine: when none can be had (listening or dialing) the unix
	// socket - same endpoint code - is used instead of giving up.
	dir, err := os.MkdirTemp("", "sock")
	if err != nil {
		return nil, "", err
	}
	path := dir + "/s"
	try := func(urls ...string) (*smtp.Endpoint, error) {
		mod, err := smtp.New("submission", urls)
		if err != nil {
			return nil, err
		}
		if err := mx.InitModule(mod, cfgText, globals); err != nil {
			return nil, err
		}
		return mod.(*smtp.Endpoint), nil
	}
	for attempt := 0; attempt < 3 && os.Getenv("VERIF_NO_TCP") == ""; attempt++ { // VERIF_NO_TCP: exercise the fallback
		port, err := freePort()
		if err != nil {
			break
		}
		os.Remove(path)
		addr := fmt.Sprintf("127.0.0.1:%d", port)
		endp, err := try("tcp://"+addr, "unix://"+path)
		if err == nil {
			return endp, addr + "|" + path, nil
		}
		if !strings.Contains(err.Error(), "address already in use") {
			return nil, "", err
		}
	}
	os.Remove(path)
	endp, err := try("unix://" + path)
	if err != nil {
		return nil, "", err
	}
	return endp, "|" + path, nil
}

// closeEndpoint shuts the endpoint down. go-smtp's Server.Close only closes
// listeners whose Serve loop has already registered itself, otherwise
// Endpoint.Close waits forever (known mechanic, see HARNESS_GUIDE): a greeting
// read from each listener proves its loop is accepting. The final watchdog only
// protects the harness (a leaked endpoint is not a verdict).
func closeEndpoint(endp *smtp.Endpoint, addr string) bool {
	tcp, unix, _ := strings.Cut(addr, "|")
	for _, a := range [][2]string{{"tcp", tcp}, {"unix", unix}} {
		if a[1] == "" {
			continue
		}
		if c, err := net.DialTimeout(a[0], a[1], 10*time.Second); err == nil {
			c.SetReadDeadline(time.Now().Add(30 * time.Second))
			bufio.NewReader(c).ReadString('\n')
			c.Close()
		}
	}
	done := make(chan struct{})
	go func() { endp.Close(); close(done) }()
	select {
	case <-done:
		return true
	case <-time.After(60 * time.Second):
		return false
	}
}

// ---------------- group B ----------------

func runWire(t *testing.T, r *rep.Reporter, c *rep.Case, idx int) {
	p := prng.New(r.Seed(), uint64(idx), "c14-wire")
	kind := mapKind(idx % int(nMapKinds))
	id := fmt.Sprintf("w%d_%d", r.Seed(), idx)
	e, err := newEnv(p, id, kind)
	if err != nil {
		t.Fatalf("harness: %v", err)
	}
	playWire(t, r, c, idx, p, e, id, "B")
}

// runWireX: group D - the wire scenarios of group B with the environment of
// the third widening; the user-name map stands inline in the endpoint's
// configuration text (`auth_map regexp "..." "..." { full_match no }`).
func runWireX(t *testing.T, r *rep.Reporter, c *rep.Case, idx int) {
	p := prng.New(r.Seed(), uint64(idx), "c14-wire-x")
	id := fmt.Sprintf("xw%d_%d", r.Seed(), idx)
	e, err := newEnvX(p, id, idx-groupD)
	if err != nil {
		t.Fatalf("harness: %v", err)
	}
	defer e.close()
	selfCheckNames(t, e.names)
	playWire(t, r, c, idx, p, e, id, "D")
}

func playWire(t *testing.T, r *rep.Reporter, c *rep.Case, idx int, p *prng.R, e *env, id, grp string) {
	lg := mx.NewLog()
	tgt := mx.NewTarget("c14tgt_"+id, lg)
	mx.RegisterInstance(tgt)

	var hist []opRec
	// Accounts: a few creations (cheap hashes), sometimes a deletion, rarely a
	// password change (default-cost bcrypt).
	nacc := p.Range(2, 4)
	for j := 0; j < nacc; j++ {
		canon := prng.Pick(p, e.names)
		if e.x != nil {
			canon = e.pickAccountName(p)
		}
		name, vk := e.spellMgmt(p, canon, prng.Pick(p, variantKinds))
		sc := prng.Pick(p, schemes)
		pw := genPassword(p, sc.algo == pass_table.HashBcrypt)
		err := e.pt.CreateUserHash(name, pw, sc.algo, sc.opts)
		rec := opRec{Op: "create", Name: name, Canon: canon, Variant: vk, Pw: showPw(pw), PwLen: len(pw), Scheme: sc.name}
		if err == nil {
			e.model.set(canon, pw, sc.name)
		} else {
			rec.Err = err.Error()
		}
		hist = append(hist, rec)
	}
	if e.x != nil {
		// third widening: make sure one member of a pattern / near-merge pair
		// exists (often only one of the two)
		var withPartner []string
		for _, n := range e.names {
			if len(e.x.uni.partner[n]) > 0 {
				withPartner = append(withPartner, n)
			}
		}
		for j := 0; j < 2 && len(withPartner) > 0; j++ {
			canon := prng.Pick(p, withPartner)
			if p.Bool() {
				canon = e.pickAccountName(p)
			}
			if j == 1 && p.Bool() {
				break
			}
			name, vk := e.spellMgmt(p, canon, prng.Pick(p, variantKinds))
			sc := prng.Pick(p, schemes)
			pw := genPassword(p, sc.algo == pass_table.HashBcrypt)
			err := e.pt.CreateUserHash(name, pw, sc.algo, sc.opts)
			rec := opRec{Op: "create", Name: name, Canon: canon, Variant: vk, Pw: showPw(pw), PwLen: len(pw), Scheme: sc.name}
			if err == nil {
				e.model.set(canon, pw, sc.name)
			} else {
				rec.Err = err.Error()
			}
			hist = append(hist, rec)
		}
	}
	if ex := e.model.existing(); len(ex) > 1 && p.Chance(1, 2) {
		canon := prng.Pick(p, ex)
		// a successful authentication, then delete, then (mostly) re-create
		// with another password: the old one must be refused on the wire
		if a := e.model.accts[canon]; p.Chance(2, 3) {
			o := runPlain(e.sasl, "", e.nmap.invert(p, canon), a.pw)
			hist = append(hist, opRec{Op: "auth-before-change (direct)", Canon: canon, Pw: showPw(a.pw), PwLen: len(a.pw), Plain: &o})
		}
		name, vk := e.spellMgmt(p, canon, prng.Pick(p, variantKinds))
		if err := e.pt.DeleteUser(name); err == nil {
			e.model.del(canon)
		}
		hist = append(hist, opRec{Op: "delete", Name: name, Canon: canon, Variant: vk})
		if p.Chance(2, 3) {
			name, vk := e.spellMgmt(p, canon, prng.Pick(p, variantKinds))
			sc := prng.Pick(p, schemes)
			pw := genPassword(p, sc.algo == pass_table.HashBcrypt)
			err := e.pt.CreateUserHash(name, pw, sc.algo, sc.opts)
			rec := opRec{Op: "create", Name: name, Canon: canon, Variant: vk, Pw: showPw(pw), PwLen: len(pw), Scheme: sc.name}
			if err == nil {
				e.model.set(canon, pw, sc.name)
			} else {
				rec.Err = err.Error()
			}
			hist = append(hist, rec)
		}
	}
	if ex := e.model.existing(); len(ex) > 0 && p.Chance(1, 6) {
		canon := prng.Pick(p, ex)
		name, vk := e.spellMgmt(p, canon, prng.Pick(p, variantKinds))
		pw := genPassword(p, true)
		err := e.pt.SetUserPassword(name, pw)
		rec := opRec{Op: "set-password", Name: name, Canon: canon, Variant: vk, Pw: showPw(pw), PwLen: len(pw), Scheme: "bcrypt-default"}
		if err == nil {
			e.model.set(canon, pw, "bcrypt-default")
		} else {
			rec.Err = err.Error()
		}
		hist = append(hist, rec)
	}

	// fifth widening: auth_map / auth_map_normalize stand in the endpoint
	// block, in the global scope, or in both (scope_test.go)
	sp := planScope(r.Seed(), idx, e, id)
	var cfg strings.Builder
	fmt.Fprintf(&cfg, "hostname mx.c14.test\ntls off\nauth &c14pt_%s\nsasl_login yes\n", id)
	cfg.WriteString(sp.block)
	fmt.Fprintf(&cfg, "deliver_to &c14tgt_%s\n", id)
	globals, err := readGlobalScope(sp.global)
	if err != nil {
		t.Fatalf("harness: global scope: %v\n%s", err, sp.global)
	}
	endp, addr, err := startSubmission(cfg.String(), globals)
	if err != nil {
		t.Fatalf("harness: endpoint init: %v\nglobal scope:\n%s\nendpoint block:\n%s", err, sp.global, cfg.String())
	}
	r.Count("wire_scenarios_auth_map_in="+sp.mapIn, 1)
	r.Count("wire_scenarios_auth_map_normalize_in="+sp.normIn, 1)
	defer func() {
		if !closeEndpoint(endp, addr) {
			r.Count("endpoint_close_abandoned_by_watchdog", 1)
		}
	}()

	var transcripts [][]string
	wit := func() any {
		w := e.witness(hist)
		delete(w, "history")
		w["config"], w["setup"], w["transcripts"] = cfg.String(), hist, transcripts
		w["global_scope_config"] = sp.global
		w["auth_map_in"], w["auth_map_normalize_in"] = sp.mapIn, sp.normIn
		return w
	}
	nontrivial := false
	shape := []string{}
	var nMailRefusedPre, nMailAcceptedPost, nMailRefusedPost, nAuthOK, nAuthRefused, nProbe int64

	nconn := p.Range(1, 3)
	for cn := 0; cn < nconn; cn++ {
		w, err := dialWire(addr)
		if err != nil {
			c.Inconclusive("dial: " + err.Error())
			return
		}
		if w.unix {
			r.Count("wire_connections_over_unix_socket_fallback", 1)
		}
		fail := func(err error) {
			transcripts = append(transcripts, w.log)
			w.conn.Close()
			c.Inconclusive("wire i/o: " + err.Error())
		}
		if _, _, err := w.read(); err != nil {
			fail(err)
			return
		}
		if code, text, err := w.cmd("EHLO client.c14.test"); err != nil {
			fail(err)
			return
		} else if code != 250 || !strings.Contains(text, "AUTH") || !strings.Contains(text, "LOGIN") || !strings.Contains(text, "PLAIN") {
			transcripts = append(transcripts, w.log)
			t.Fatalf("harness: EHLO reply does not offer AUTH PLAIN LOGIN: %d %q", code, text)
		}
		authed := false
		prior := "no-auth-attempt"
		// probe checks that nothing of a mail transaction is accepted while unauthenticated.
		probe := func() error {
			cmds := []string{"MAIL FROM:<sender@c14.test>"}
			switch p.Intn(4) {
			case 0:
				cmds = append(cmds, "RCPT TO:<rcpt@c14.test>")
			case 1:
				cmds = []string{"MAIL FROM:<>", "RCPT TO:<rcpt@c14.test>", "DATA"}
			case 2:
				cmds = []string{"MAIL FROM:<sender@c14.test> SIZE=100 BODY=8BITMIME"}
			}
			for _, cm := range cmds {
				code, _, err := w.cmd(cm)
				if err != nil {
					return err
				}
				nProbe++
				verb := cm[:4]
				if code >= 200 && code < 400 {
					if !authed {
						c.Violation(fmt.Sprintf("submission/accepted-before-auth/cmd=%s/%s", verb, prior),
							fmt.Sprintf("%q answered %d on a submission endpoint without a successful AUTH (%s)", cm, code, prior), wit())
					} else if verb == "MAIL" {
						nMailAcceptedPost++
					}
					if code == 354 { // we are inside DATA: finish it
						if _, _, err := w.cmd("Subject: x\r\n\r\nx\r\n."); err != nil {
							return err
						}
					}
				} else if verb == "MAIL" {
					if authed {
						nMailRefusedPost++
					} else {
						nMailRefusedPre++
						nontrivial = true
					}
				}
			}
			if _, _, err := w.cmd("RSET"); err != nil {
				return err
			}
			return nil
		}

		nsteps := p.Range(2, 6)
		for s := 0; s < nsteps && !authed; s++ {
			if p.Chance(2, 3) {
				if err := probe(); err != nil {
					fail(err)
					return
				}
			}
			// pick credentials
			var canonWanted string
			if ex := e.model.existing(); len(ex) > 0 && p.Chance(3, 4) {
				canonWanted = prng.Pick(p, ex)
			} else {
				canonWanted = prng.Pick(p, e.names)
			}
			partnerPw, attack := "", false
			if e.x != nil && p.Chance(1, 3) {
				// the name of one member of a pattern / near-merge pair with the
				// current password of the other
				var cands [][2]string
				for _, n := range e.names {
					for _, y := range e.x.uni.partner[n] {
						if ya := e.model.accts[y]; ya != nil && ya.exists {
							cands = append(cands, [2]string{n, y})
						}
					}
				}
				if len(cands) > 0 {
					cd := prng.Pick(p, cands)
					canonWanted, partnerPw, attack = cd[0], e.model.accts[cd[1]].pw, true
				}
			}
			canonLogin := e.nmap.invert(p, canonWanted)
			if p.Chance(1, 5) {
				canonLogin = canonWanted // the provider's account name, bypassing the map
			}
			kinds := variantKinds
			if !(e.norm == "auto" || e.norm == "precis_casefold") && p.Bool() {
				kinds = []string{"canon"}
			}
			name, vk := e.spellLogin(p, canonLogin, prng.Pick(p, kinds))
			canonAcct, mapped := e.resolve(name, canonLogin)
			var a *acct
			if mapped {
				a = e.model.accts[canonAcct]
			}
			pw, _ := choosePassword(p, a, e.model, canonAcct)
			if by := e.model.accts[canonLogin]; by != nil && by.exists && (!mapped || canonAcct != canonLogin) && p.Chance(3, 5) {
				pw = by.pw // the password of the account that bears the supplied name
				r.Count("wire_attempts_with_password_of_account_named_like_unmapped_or_remapped_login", 1)
			}
			if attack {
				pw = partnerPw
				r.Count(e.x.cp+"wire_attempts_with_password_of_partner_account", 1)
			}
			if s == nsteps-1 && a != nil && a.exists && p.Chance(2, 3) {
				pw = a.pw // end most connections with a good login
			}
			expect := mapped && a != nil && a.exists && a.pw == pw
			mode := p.Weighted([]int{4, 4, 2, 2, 1})
			var code int
			var mech string
			switch mode {
			case 0: // AUTH PLAIN with initial response
				mech = "PLAIN"
				code, _, err = w.cmd("AUTH PLAIN " + b64("\x00"+name+"\x00"+pw))
			case 1: // AUTH LOGIN
				mech = "LOGIN"
				if p.Bool() {
					code, _, err = w.cmd("AUTH LOGIN")
					if err == nil && code == 334 {
						code, _, err = w.cmd(b64(name))
					}
				} else {
					code, _, err = w.cmd("AUTH LOGIN " + b64(name))
				}
				if err == nil && code == 334 {
					code, _, err = w.cmd(b64(pw))
				}
			case 2: // AUTH PLAIN, response after the empty challenge
				mech = "PLAIN"
				code, _, err = w.cmd("AUTH PLAIN")
				if err == nil && code == 334 {
					code, _, err = w.cmd(b64("\x00" + name + "\x00" + pw))
				}
			case 3: // foreign authorization identity, otherwise valid or not
				mech = "PLAIN-foreign-authzid"
				other, co := e.foreignAuthzid(p, canonLogin, canonAcct, mapped)
				zid, _ := e.spellLogin(p, other, prng.Pick(p, variantKinds))
				if co && a != nil && a.exists && p.Chance(3, 4) {
					pw = a.pw // a co-owner of a shared account with valid credentials
					expect = true
					r.Count("wire_foreign_authzid_co_owner_valid_credentials", 1)
				}
				code, _, err = w.cmd("AUTH PLAIN " + b64(zid+"\x00"+name+"\x00"+pw))
				if expect {
					nontrivial = true
				}
				expect = false
			case 4: // cancelled exchange
				mech = "LOGIN-cancelled"
				code, _, err = w.cmd("AUTH LOGIN")
				if err == nil && code == 334 {
					code, _, err = w.cmd("*")
				}
				expect = false
			}
			if err != nil {
				fail(err)
				return
			}
			ex2 := expect
			hist = append(hist, opRec{Op: "wire-auth " + mech, Name: name, Canon: canonLogin, Variant: vk, Pw: showPw(pw), PwLen: len(pw), Expect: &ex2,
				Note: fmt.Sprintf("reply %d; reference: login class %q -> account %q (mapped=%v)", code, canonLogin, canonAcct, mapped)})
			ok := code == 235
			switch {
			case ok && !expect:
				cause := mech
				if mode <= 2 {
					switch {
					case !mapped:
						cause = "name-has-no-mapping"
						if _, classMapped := e.nmap.ref(canonLogin); classMapped {
							cause = "name-spelling-not-folded-by=" + e.norm
							if e.nmap.kind == mapExt {
								cause = "name-has-no-mapping/spelling-or-option-of-map=" + e.nmap.name()
							}
						}
					case a == nil || (!a.exists && !a.deleted):
						cause = "account-never-existed"
					case !a.exists:
						cause = "account-deleted"
					default:
						cause = relation(pw, a.pw, a.stale, e.model.otherPasswords(canonAcct))
					}
					c.Violation(fmt.Sprintf("wire-auth/accepted-wrong-password/mech=%s/%s%s", mech, cause, sp.tag()),
						fmt.Sprintf("AUTH %s answered 235 for user %q password %q although the reference says no", mech, name, showPw(pw)), wit())
				} else {
					c.Violation("wire-auth/accepted/"+cause, fmt.Sprintf("AUTH exchange of kind %s answered 235", mech), wit())
				}
			case !ok && expect:
				c.Violation(fmt.Sprintf("wire-auth/refused-current-password/mech=%s/map=%s%s", mech, e.nmap.name(), sp.tag()),
					fmt.Sprintf("AUTH %s answered %d for the current password of account %q", mech, code, canonAcct), wit())
			}
			if ok == expect && mode <= 2 {
				// what the run observed per configuration scope (fifth widening)
				viaMap := mapped && canonAcct != canonLogin
				switch {
				case ok && viaMap:
					r.Count("wire_auth_235_via_mapped_name_with_auth_map_in="+sp.mapIn, 1)
				case !ok && !mapped:
					r.Count("wire_auth_refused_name_without_mapping_with_auth_map_in="+sp.mapIn, 1)
				}
				if ok && vk != "canon" {
					r.Count("wire_auth_235_via_noncanonical_spelling_with_auth_map_normalize_in="+sp.normIn, 1)
				}
				if e.x != nil && e.x.idn && strings.HasPrefix(vk, "idn-") {
					if ok {
						r.Count("idn_wire_auth_235_via_"+idnClass(vk)+"_spelling_of_domain", 1)
					} else if a != nil && a.exists {
						r.Count("idn_wire_refused_wrong_password_via_"+idnClass(vk)+"_spelling_of_domain", 1)
					}
				}
			}
			if ok {
				authed = true
				nAuthOK++
				if e.x != nil && expect {
					r.Count(e.x.cp+"wire_auth_235_on_store="+e.x.backend, 1)
					r.Count(e.x.cp+"wire_auth_235_via_map="+e.nmap.name(), 1)
				}
			} else {
				nAuthRefused++
				prior = "after-refused-" + mech
			}
			shape = append(shape, fmt.Sprintf("%s/%v", mech, ok))
		}
		if err := probe(); err != nil {
			fail(err)
			return
		}
		w.cmd("QUIT")
		transcripts = append(transcripts, w.log)
		w.conn.Close()
	}
	r.Count("wire_connections", int64(nconn))
	r.Count("wire_auth_235", nAuthOK)
	r.Count("wire_auth_refused", nAuthRefused)
	r.Count("wire_transaction_commands_probed", nProbe)
	r.Count("wire_mail_refused_unauthenticated", nMailRefusedPre)
	r.Count("wire_mail_accepted_after_auth", nMailAcceptedPost)
	r.Count("wire_mail_refused_after_auth", nMailRefusedPost)
	if idx == groupB {
		r.Sample(map[string]any{"case": c.ID, "config": cfg.String(), "transcripts": transcripts})
	}
	c.Done(grp+"/"+e.nmap.name()+"/"+strings.Join(shape, ","), nontrivial)
}
