//go:build verif

package c14

import (
	"fmt"
	"io"
	"os"
	"path/filepath"
	"sort"
	"strings"

	"github.com/foxcpp/maddy/framework/config"
	modconfig "github.com/foxcpp/maddy/framework/config/module"
	"github.com/foxcpp/maddy/framework/log"
	"github.com/foxcpp/maddy/framework/module"
	"github.com/foxcpp/maddy/internal/auth"
	"github.com/foxcpp/maddy/internal/auth/pass_table"
	"github.com/foxcpp/maddy/internal/authz"
	"github.com/foxcpp/maddy/internal/table"
	"github.com/foxcpp/maddy/internal/zzverif/mx"
	"verifkit/prng"
)

// Third widening, environment: the same histories and wire scenarios as groups
// A / B, but
//   - the credentials live in a REAL table back end: table.sql_table (sqlite3
//     on a file in the case's temporary directory, the documented store behind
//     `maddy creds`), a read-only table.file written by the harness (the
//     documented `auth pass_table file ...`), or the in-memory table;
//   - the user names come from a universe of names special to SQL LIKE / globs
//     / regular expressions / SQL quoting / configuration and file syntax, or
//     of near-merge pairs (xnames_test.go);
//   - the user-name map is built from CONFIGURATION TEXT (`auth_map ...`,
//     parsed by the real parser and instantiated by the real table directive)
//     and covers the documented options of table.regexp (full_match,
//     case_insensitive, expand_placeholders, several replacements, named
//     groups, $$), table.static with several values / repeated keys / special
//     keys, table.file, table.chain (step / optional_step, nested inline
//     tables), table.email_localpart and table.email_localpart_optional.
//
// The reference of a map is a plain function `apply` on the LITERAL normal form
// of the login name, written with string operations from the documented
// semantics of the configured options (never with package regexp or maddy
// code); the credentials store then folds the result (storeKey).

type xenv struct {
	cp      string // prefix of the per-class counters: "x_" (groups C/D), "idn_" (groups E/F)
	idn     bool   // groups E/F: IDN e-mail names (idn_test.go)
	backend string // "sql", "mem", "file"
	uni     *universe
	dir     string
	closers []func()
	logins  []string // literal login spellings worth trying (map keys written in a non-canonical spelling)
	optNote string
	initial []string // accounts that exist before the first operation (file store)
	image   []string // names of the universe some login name of the universe is mapped to
	fileTxt string
}

var xBackends = []string{"sql", "sql", "sql", "mem", "file"}

var xMapLabels = []string{
	"none",
	"identity",
	"regexp-partial-localpart",
	"regexp-partial-domain",
	"regexp-partial-suffix",
	"regexp-case-sensitive-suffix",
	"regexp-case-insensitive-suffix",
	"regexp-literal-replacement",
	"regexp-dollar-escape",
	"regexp-named-groups",
	"regexp-two-replacements",
	"static-special",
	"file",
	"chain-strip-then-static",
	"chain-optional-alias-then-localpart",
	"chain-two-statics",
	"chain-optional-strip-then-file",
	"email_localpart",
	"email_localpart_optional",
}

// cq quotes a configuration argument for maddy's lexer: inside double quotes
// only `\"` is an escape, a backslash before any other character stays.
func cq(s string) string {
	if strings.HasSuffix(s, `\`) || strings.Contains(s, `\"`) || strings.ContainsAny(s, "\n\r") {
		panic("harness: string not representable in configuration text: " + s)
	}
	return `"` + strings.ReplaceAll(s, `"`, `\"`) + `"`
}

// mapHolder instantiates `auth_map <table config>` exactly like the endpoints do.
type mapHolder struct{ tbl module.Table }

func (h *mapHolder) Name() string         { return "verif_map_holder" }
func (h *mapHolder) InstanceName() string { return "verif_map_holder" }
func (h *mapHolder) Init(cfg *config.Map) error {
	modconfig.Table(cfg, "auth_map", false, true, nil, &h.tbl)
	_, err := cfg.Process()
	return err
}

func tableFromConfig(cfgText string) (module.Table, error) {
	h := &mapHolder{}
	if err := mx.InitModule(h, "auth_map "+cfgText+"\n", nil); err != nil {
		return nil, err
	}
	if h.tbl == nil {
		return nil, fmt.Errorf("auth_map directive produced no table")
	}
	return h.tbl, nil
}

// ---- entries of static / file tables ----

type entry struct {
	key  string
	vals []string
}

// genEntries writes a login -> account table over the universe: some logins
// missing, some mapped to themselves, several logins sharing one account,
// chains (a value that is a key itself), entries with a second value, keys
// given twice, and now and then a key written in upper case (reachable only
// with exactly that spelling under a case-preserving auth_map_normalize).
// valueSpellings=false keeps values canonical (they feed another table);
// multi=false gives every key one value (table.chain hands ALL values of a
// step to the next one and the documentation does not say what a partly
// unknown set means - not C14's business).
func genEntries(p *prng.R, x *xenv, logins, accts []string, valueSpellings, multi bool) []entry {
	var out []entry
	perm := p.Perm(len(logins))
	shared := prng.Pick(p, accts)
	for i, idx := range perm {
		login := logins[idx]
		if p.Chance(1, 6) {
			continue
		}
		acct := accts[perm[(i+1)%len(perm)]%len(accts)]
		switch p.Intn(4) {
		case 0:
			if contains(accts, login) {
				acct = login
			}
		case 1:
			acct = shared
		}
		val := acct
		if valueSpellings && acct != shared && !noCaseRound(acct) && p.Chance(1, 3) {
			val, _ = spell(p, acct, prng.Pick(p, []string{"upper", "nfd", "wide"}))
		}
		vals := []string{val}
		if multi && p.Chance(1, 4) {
			vals = append(vals, prng.Pick(p, accts)) // a second value: Lookup takes the first
		}
		key := login
		if p.Chance(1, 8) && !noCaseRound(login) {
			if k, kind := spell(p, login, "upper"); kind != "canon" {
				key = k
				x.logins = append(x.logins, k)
			}
		}
		if p.Chance(1, 6) {
			out = append(out, entry{key, []string{prng.Pick(p, accts)}}) // the same key once more, earlier
		}
		out = append(out, entry{key, vals})
	}
	return out
}

func contains(xs []string, s string) bool {
	for _, x := range xs {
		if x == s {
			return true
		}
	}
	return false
}

// staticText renders entries as a table.static block body; the reference is
// "if the same key is used multiple times, the last one takes effect" and
// Lookup = first value.
func staticText(es []entry, indent string) (string, map[string]string) {
	ref := map[string]string{}
	var b strings.Builder
	for _, e := range es {
		b.WriteString(indent + "entry " + cq(e.key))
		for _, v := range e.vals {
			b.WriteString(" " + cq(v))
		}
		b.WriteString("\n")
		ref[e.key] = e.vals[0]
	}
	return b.String(), ref
}

func fileRepresentable(key string, vals []string) bool {
	if strings.ContainsAny(key, ":") || strings.HasPrefix(key, "#") || strings.TrimSpace(key) != key || key == "" {
		return false
	}
	for _, v := range vals {
		if strings.ContainsAny(v, ",") || strings.TrimSpace(v) != v || v == "" {
			return false
		}
	}
	return true
}

// fileText renders entries in table.file syntax (docs/reference/table/file.md):
// comments, blank lines, surrounding whitespace, `key: v1, v2`; a key on several
// lines accumulates values, so Lookup = first value of the FIRST line.
func fileText(p *prng.R, es []entry) (string, map[string]string) {
	ref := map[string]string{}
	var b strings.Builder
	b.WriteString("# generated by the C14 harness\n\n")
	for _, e := range es {
		if !fileRepresentable(e.key, e.vals) {
			continue
		}
		switch p.Intn(5) {
		case 0:
			b.WriteString("# " + e.key + ": commented-out\n")
		case 1:
			b.WriteString("\n")
		}
		pre, mid, post := "", " ", ""
		switch p.Intn(4) {
		case 0:
			pre, post = "  ", " \t"
		case 1:
			mid = ""
		case 2:
			mid = "\t  "
		}
		b.WriteString(pre + e.key + ":" + mid + strings.Join(e.vals, prng.Pick(p, []string{", ", ",", " , "})) + post + "\n")
		if _, dup := ref[e.key]; !dup {
			ref[e.key] = e.vals[0]
		}
	}
	return b.String(), ref
}

// ---- reference helpers on literal strings ----

func hasSuffixFoldASCII(s, suf string) bool {
	return len(s) >= len(suf) && strings.EqualFold(s[len(s)-len(suf):], suf) && isASCII(s[len(s)-len(suf):])
}

func hasPrefixFoldASCII(s, pre string) bool {
	return len(s) >= len(pre) && strings.EqualFold(s[:len(pre)], pre) && isASCII(s[:len(pre)])
}

func isASCII(s string) bool {
	for i := 0; i < len(s); i++ {
		if s[i] >= 0x80 {
			return false
		}
	}
	return true
}

// stripCorp: full, case-insensitive match of `(.+)@corp\.example`.
func stripCorp(nf string) (string, bool) {
	suf := "@" + corpDomain
	if len(nf) > len(suf) && hasSuffixFoldASCII(nf, suf) {
		return nf[:len(nf)-len(suf)], true
	}
	return "", false
}

// localpart: `(.+)@(.+)` matched against the whole string, first group.
func localpart(nf string) (string, bool) {
	i := strings.LastIndexByte(nf, '@')
	if i > 0 && i < len(nf)-1 {
		return nf[:i], true
	}
	return "", false
}

// ---- the maps ----

func (e *env) buildXMap(p *prng.R, label string) error {
	x := e.x
	m := &nameMap{kind: mapExt, label: label}
	e.nmap = m
	names := e.names
	ident := func(nf string) (string, bool) { return nf, true }
	regexpText := func(pat string, repls []string, opts ...string) string {
		var b strings.Builder
		b.WriteString("regexp " + cq(pat))
		for _, r := range repls {
			b.WriteString(" " + cq(r))
		}
		if len(opts) > 0 {
			b.WriteString(" {\n")
			for _, o := range opts {
				b.WriteString("    " + o + "\n")
			}
			b.WriteString("}")
		}
		return b.String()
	}
	// explicit spelling of a default, sometimes: must not change anything
	dflt := func(opt string) []string {
		if p.Chance(1, 3) {
			return []string{opt + " yes"}
		}
		return nil
	}
	switch label {
	case "none":
		m.apply = ident
		return nil
	case "identity":
		m.apply = ident
		m.cfgText = "identity"
	case "regexp-partial-localpart":
		// "the login name is whatever stands before the last at-sign"
		m.cfgText = regexpText(`^(.+)@`, []string{prng.Pick(p, []string{"$1", "${1}"})}, "full_match no")
		m.apply = func(nf string) (string, bool) {
			if i := strings.LastIndexByte(nf, '@'); i > 0 {
				return nf[:i], true
			}
			return "", false
		}
	case "regexp-partial-domain":
		// the match ends inside the key ("...@corp" of "...@corp.example")
		m.cfgText = regexpText(`^([^@]+)@corp`, []string{"$1"}, append([]string{"full_match no"}, dflt("case_insensitive")...)...)
		m.apply = func(nf string) (string, bool) {
			i := strings.IndexByte(nf, '@')
			if i > 0 && hasPrefixFoldASCII(nf[i:], "@corp") {
				return nf[:i], true
			}
			return "", false
		}
	case "regexp-partial-suffix":
		// unanchored: leftmost match, greedy group = everything before the LAST
		// ".m"; the match ends inside the key (".m" of ".mx")
		m.cfgText = regexpText(`(.+)\.m`, []string{"$1"}, "full_match no")
		m.apply = func(nf string) (string, bool) {
			best := -1
			for i := 1; i+2 <= len(nf); i++ {
				if hasPrefixFoldASCII(nf[i:], ".m") {
					best = i
				}
			}
			if best > 0 {
				return nf[:best], true
			}
			return "", false
		}
	case "regexp-case-sensitive-suffix":
		m.cfgText = regexpText(`(.+)\.mx`, []string{"$1"}, append([]string{"case_insensitive no"}, dflt("full_match")...)...)
		m.apply = func(nf string) (string, bool) {
			if len(nf) > 3 && strings.HasSuffix(nf, ".mx") {
				return nf[:len(nf)-3], true
			}
			return "", false
		}
	case "regexp-case-insensitive-suffix":
		m.cfgText = regexpText(`(.+)\.mx`, []string{"$1"}, dflt("case_insensitive")...)
		m.apply = func(nf string) (string, bool) {
			if len(nf) > 3 && hasSuffixFoldASCII(nf, ".mx") {
				return nf[:len(nf)-3], true
			}
			return "", false
		}
	case "regexp-literal-replacement":
		// expand_placeholders no: the replacement is returned as it is written
		lit := prng.Pick(p, []string{"pay$1", "${1}", "shared$0"})
		e.addName(lit)
		m.cfgText = regexpText(`(.+)@corp\.example`, []string{lit}, "expand_placeholders no")
		m.altCfgText = regexpText(`(.+)@corp\.example`, []string{lit}, "expand_replaceholders no")
		m.apply = func(nf string) (string, bool) {
			if _, ok := stripCorp(nf); ok {
				return lit, true
			}
			return "", false
		}
	case "regexp-dollar-escape":
		// "To insert a literal $ in the output, use $$ in the template."
		m.cfgText = regexpText(`(.+)@corp\.example`, []string{"$$${1}"})
		m.apply = func(nf string) (string, bool) {
			if l, ok := stripCorp(nf); ok {
				return "$" + l, true
			}
			return "", false
		}
	case "regexp-named-groups":
		m.cfgText = regexpText(`(?P<user>[^@]+)@(?P<dom>.+)`, []string{"${user}.mx"})
		m.apply = func(nf string) (string, bool) {
			i := strings.IndexByte(nf, '@')
			if i > 0 && i < len(nf)-1 {
				return nf[:i] + ".mx", true
			}
			return "", false
		}
	case "regexp-two-replacements":
		other := prng.Pick(p, names)
		m.cfgText = regexpText(`(.+)@corp\.example`, []string{"$1", other})
		m.apply = stripCorp
	case "static-special":
		es := genEntries(p, x, names, names, true, true)
		txt, ref := staticText(es, "    ")
		m.cfgText = "static {\n" + txt + "}"
		m.apply = func(nf string) (string, bool) { v, ok := ref[nf]; return v, ok }
	case "file":
		es := genEntries(p, x, names, names, true, true)
		txt, ref := fileText(p, es)
		path := filepath.Join(x.dir, "auth_map")
		if err := os.WriteFile(path, []byte(txt), 0o600); err != nil {
			return err
		}
		x.fileTxt = txt
		m.cfgText = "file " + cq(path)
		if p.Bool() {
			m.cfgText = "file {\n    file " + cq(path) + "\n}"
		}
		m.apply = func(nf string) (string, bool) { v, ok := ref[nf]; return v, ok }
	case "chain-strip-then-static":
		es := genEntries(p, x, plainNames(names), names, true, true)
		txt, ref := staticText(es, "        ")
		m.cfgText = "chain {\n    step regexp " + cq(`(.+)@corp\.example`) + " " + cq("$1") + "\n    step static {\n" + txt + "    }\n}"
		m.apply = func(nf string) (string, bool) {
			l, ok := stripCorp(nf)
			if !ok {
				return "", false
			}
			v, ok := ref[l]
			return v, ok
		}
	case "chain-optional-alias-then-localpart":
		// docs/reference/table/chain.md: aliases first (optional), then the local part
		var corp []string
		for _, n := range names {
			if strings.HasSuffix(n, "@"+corpDomain) {
				corp = append(corp, n)
			}
		}
		es := genEntries(p, x, names, corp, false, false)
		txt, ref := staticText(es, "        ")
		m.cfgText = "chain {\n    optional_step static {\n" + txt + "    }\n    step regexp " + cq(`(.+)@(.+)`) + " " + cq("$1") + "\n}"
		m.apply = func(nf string) (string, bool) {
			if v, ok := ref[nf]; ok {
				nf = v
			}
			return localpart(nf)
		}
	case "chain-two-statics":
		es1 := genEntries(p, x, names, names, false, false)
		es2 := genEntries(p, x, names, names, true, true)
		t1, r1 := staticText(es1, "        ")
		t2, r2 := staticText(es2, "        ")
		m.cfgText = "chain {\n    step static {\n" + t1 + "    }\n    step static {\n" + t2 + "    }\n}"
		m.apply = func(nf string) (string, bool) {
			v, ok := r1[nf]
			if !ok {
				return "", false
			}
			v, ok = r2[v]
			return v, ok
		}
	case "chain-optional-strip-then-file":
		es := genEntries(p, x, plainNames(names), names, true, true)
		txt, ref := fileText(p, es)
		path := filepath.Join(x.dir, "auth_map")
		if err := os.WriteFile(path, []byte(txt), 0o600); err != nil {
			return err
		}
		x.fileTxt = txt
		m.cfgText = "chain {\n    optional_step regexp " + cq(`(.+)@corp\.example`) + " " + cq("$1") + "\n    step file " + cq(path) + "\n}"
		m.apply = func(nf string) (string, bool) {
			if l, ok := stripCorp(nf); ok {
				nf = l
			}
			v, ok := ref[nf]
			return v, ok
		}
	case "regexp-idn-domain":
		// groups E/F: the pattern is written with the U-label form of the domain,
		// i.e. it matches what the documented normaliser produces
		d := x.uni.idnDomain
		m.cfgText = regexpText(`(.+)@`+strings.ReplaceAll(d, ".", `\.`), []string{"$1"}, "case_insensitive no")
		m.apply = func(nf string) (string, bool) {
			suf := "@" + d
			if len(nf) > len(suf) && strings.HasSuffix(nf, suf) {
				return nf[:len(nf)-len(suf)], true
			}
			return "", false
		}
	case "email_localpart":
		m.cfgText = "email_localpart"
		m.apply = localpart
	case "email_localpart_optional":
		m.cfgText = "email_localpart_optional"
		m.apply = func(nf string) (string, bool) {
			if l, ok := localpart(nf); ok {
				return l, true
			}
			return nf, true
		}
	default:
		return fmt.Errorf("unknown map label %q", label)
	}
	tbl, err := tableFromConfig(m.cfgText)
	if err != nil && m.altCfgText != "" {
		// docs/reference/table/regexp.md names the option expand_placeholders;
		// the configuration reader may know it under another spelling. Which
		// spelling is accepted is not C14's business; the semantics are.
		x.optNote = "documented option name refused (" + err.Error() + "); alternative spelling used"
		m.cfgText = m.altCfgText
		tbl, err = tableFromConfig(m.cfgText)
	}
	if err != nil {
		return fmt.Errorf("auth_map %s: %w", m.cfgText, err)
	}
	m.tbl = tbl
	if cl, ok := tbl.(io.Closer); ok {
		x.closers = append(x.closers, func() { cl.Close() })
	}
	m.config = []string{"auth_map " + m.cfgText}
	// names the map produces from names of the universe join the universe:
	// accounts may be created under them
	for _, n := range append([]string(nil), e.names...) {
		if v, ok := m.apply(n); ok {
			if k, ok := storeKey(v); ok && k == v {
				e.addName(v)
			}
		}
	}
	return nil
}

func plainNames(names []string) []string {
	var out []string
	for _, n := range names {
		if !strings.Contains(n, "@") {
			out = append(out, n)
		}
	}
	return out
}

func (e *env) addName(n string) {
	if len(e.names) < 28 && !contains(e.names, n) {
		e.names = append(e.names, n)
	}
}

// xlogins: login names (canonical spelling) of the universe that the map
// sends to the account.
func (e *env) xlogins(canonAcct string) []string {
	var out []string
	for _, n := range e.names {
		if v, ok := e.nmap.apply(n); ok {
			if k, ok := storeKey(v); ok && k == canonAcct {
				out = append(out, n)
			}
		}
	}
	return out
}

// pickAccountName: a name to create an account under - mostly one the map can
// reach from a login name, half of those a member of a pattern / near-merge pair.
func (e *env) pickAccountName(p *prng.R) string {
	if len(e.x.image) > 0 && p.Chance(3, 4) {
		if p.Bool() {
			var ps []string
			for _, n := range e.x.image {
				if len(e.x.uni.partner[n]) > 0 {
					ps = append(ps, n)
				}
			}
			if len(ps) > 0 {
				return prng.Pick(p, ps)
			}
		}
		return prng.Pick(p, e.x.image)
	}
	return prng.Pick(p, e.names)
}

// every auth_map_normalize setting; the case-preserving ones matter for the
// case-sensitive map options
var xNormalizers = []string{"auto", "auto", "precis_casefold", "precis_casefold_email", "precis_email", "precis", "casefold", "noop"}

// ---- stores ----

func (e *env) openStore(p *prng.R, id string) error {
	x := e.x
	name := "c14tbl_" + id
	switch x.backend {
	case "mem":
		e.mem = mx.NewTable(name)
		mx.RegisterInstance(e.mem)
	case "sql":
		mod, err := table.NewSQLTable("table.sql_table", name, nil, nil)
		if err != nil {
			return err
		}
		path := filepath.Join(x.dir, "creds.db")
		cfg := "driver sqlite3\ndsn " + cq(path) + "\ntable_name " + prng.Pick(p, []string{"passwords", "creds", "t"}) + "\n"
		if p.Chance(1, 3) {
			cfg += "key_column " + prng.Pick(p, []string{"username", "k"}) + "\nvalue_column " + prng.Pick(p, []string{"hash", "v"}) + "\n"
		}
		if err := mx.InitModule(mod, cfg, nil); err != nil {
			return fmt.Errorf("sql_table init (cgo sqlite3 required): %w", err)
		}
		st := mod.(*table.SQLTable)
		x.closers = append(x.closers, func() { st.Close() })
		mx.RegisterInstance(st)
	case "file":
		// accounts exist from the start: the harness writes the file the way an
		// administrator would (maddy hash), then the table is read-only
		path := filepath.Join(x.dir, "passwd")
		var es []entry
		n := p.Range(3, 6)
		for j := 0; j < n; j++ {
			canon := e.pickAccountName(p)
			if a := e.model.accts[canon]; (a != nil && a.exists) || !precisOK(canon) {
				continue
			}
			sc := prng.Pick(p, schemes)
			pw := genPassword(p, sc.algo == pass_table.HashBcrypt)
			h, err := pass_table.HashCompute[sc.algo](sc.opts, pw)
			if err != nil {
				continue // e.g. bcrypt refuses more than 72 bytes
			}
			val := sc.algo + ":" + h
			if !fileRepresentable(canon, []string{val}) {
				continue
			}
			es = append(es, entry{canon, []string{val}})
			e.model.set(canon, pw, sc.name)
			x.initial = append(x.initial, canon)
		}
		txt, _ := fileText(p, es)
		if err := os.WriteFile(path, []byte(txt), 0o600); err != nil {
			return err
		}
		mod, err := table.NewFile("table.file", name, nil, []string{path})
		if err != nil {
			return err
		}
		if err := mx.InitModule(mod, "", nil); err != nil {
			return fmt.Errorf("table.file init: %w", err)
		}
		ft := mod.(*table.File)
		x.closers = append(x.closers, func() { ft.Close() })
		mx.RegisterInstance(ft)
	default:
		return fmt.Errorf("unknown backend %q", x.backend)
	}
	return nil
}

func (e *env) close() {
	if e.x == nil {
		return
	}
	for i := len(e.x.closers) - 1; i >= 0; i-- {
		e.x.closers[i]()
	}
	if e.x.dir != "" {
		os.RemoveAll(e.x.dir)
	}
}

// newEnvX builds the environment of a widened case. backend and map kind
// follow from the index so that every combination occurs in every run.
func newEnvX(p *prng.R, id string, idx int) (*env, error) {
	backend := xBackends[idx%len(xBackends)]
	label := xMapLabels[(idx/len(xBackends))%len(xMapLabels)]
	var avoid func(string) bool
	if strings.HasPrefix(label, "email_localpart") {
		// the documentation says the local part is "unescaped"; what that means
		// for a stray quote or backslash is not C14's business
		avoid = func(a string) bool { return strings.ContainsAny(a, "\"\\") }
	}
	return newEnvWith(p, id, "x_", backend, label, func() *universe { return drawUniverse(p, avoid) }, xNormalizers)
}

// newEnvWith: the common constructor of the widened environments (groups C/D:
// special names; groups E/F: IDN e-mail names, idn_test.go). cp is the prefix
// of the per-class counters so that a later group never feeds the min_observed
// counters of an earlier one. The order of the PRNG draws is fixed.
func newEnvWith(p *prng.R, id, cp, backend, label string, draw func() *universe, norms []string) (*env, error) {
	e := &env{id: id, model: &model{accts: map[string]*acct{}}, x: &xenv{cp: cp}}
	x := e.x
	x.backend = backend
	x.uni = draw()
	e.names = append(e.names, x.uni.names...)
	dir, err := os.MkdirTemp("", "c14x")
	if err != nil {
		return nil, err
	}
	x.dir = dir
	if err := e.buildXMap(p, label); err != nil {
		e.close()
		return nil, err
	}
	sort.Strings(x.logins)
	e.nmap.inv = e.xlogins
	for _, n := range e.names {
		if len(e.xlogins(n)) > 0 {
			x.image = append(x.image, n)
		}
	}
	if err := e.openStore(p, id); err != nil {
		e.close()
		return nil, err
	}
	mod, err := pass_table.New("auth.pass_table", "c14pt_"+id, nil, nil)
	if err != nil {
		e.close()
		return nil, err
	}
	if err := mx.InitModule(mod, "table &c14tbl_"+id, nil); err != nil {
		e.close()
		return nil, fmt.Errorf("pass_table init: %w", err)
	}
	e.pt = mod.(*pass_table.Auth)
	mx.RegisterInstance(e.pt)
	e.norm = prng.Pick(p, norms)
	e.sasl = &auth.SASLAuth{
		Log:           log.Logger{Name: "c14/sasl", Out: log.NopOutput{}},
		EnableLogin:   true,
		AuthMap:       e.nmap.tbl,
		AuthNormalize: authz.NormalizeFuncs[e.norm],
		Plain:         []module.PlainAuth{e.pt},
	}
	return e, nil
}
