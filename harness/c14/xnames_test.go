//go:build verif

package c14

import (
	"strings"

	"golang.org/x/text/secure/bidirule"
	"verifkit/prng"
)

// Third widening, names: user names that are SPECIAL to some matching syntax
// (SQL LIKE, globs, regular expressions, SQL quoting, maddy's configuration
// and table.file syntax) - always together with a second, different account
// that the special name would match as a pattern - and pairs of different
// account names that an over-eager normalisation would merge although RFC
// 8265 UsernameCaseMapped (toLower, width mapping, NFC - no case FOLDING, no
// NFKC, no accent stripping, no sub-addressing) keeps them distinct.
//
// All of these are canonical (fixed points of UsernameCaseMapped); that, their
// pairwise distinctness and every generated spelling are validated against
// golang.org/x/text/secure/precis at start-up (selfCheckSpecial).

// pair = two different accounts; A is the "pattern" / the name an over-eager
// comparison would send to B.
type pair struct{ A, B string }

type family struct {
	label string
	pairs []pair
}

var families = []family{
	{"sql-like", []pair{
		{"a_c", "abc"}, {"a%", "abc"}, {"john_doe", "johnxdoe"}, {"%", "bob7"}, {"_____", "alice"},
		{"ωm_ga", "ωmega"}, {"é%e", "émile"}, {"%e", "alice"}, {"a_c", "a%c"},
	}},
	{"glob", []pair{
		{"a*c", "abc"}, {"a?c", "abc"}, {"*", "bob7"}, {"[a-c]lice", "alice"}, {"ali[!x]e", "alice"}, {"*@*", "bob7"},
	}},
	{"regexp", []pair{
		{"a.c", "abc"}, {".*", "bob7"}, {"a+c", "aac"}, {"(abc)", "abc"}, {"^abc", "abc"}, {"abc$", "abc"},
		{`a\dc`, "a7c"}, {"[[:alpha:]]+", "alice"}, {"bob|alice", "alice"}, {".+", "иван"}, {"a.c", "a_c"},
	}},
	{"sql-quoting", []pair{
		{"o'neil", "oneil"}, {"'or'1'='1", "bob7"}, {"x'--", "x"}, {`a"c`, "ac"}, {"a;c", "a"}, {"o''neil", "o'neil"},
	}},
	{"config-and-file-syntax", []pair{
		{"a:c", "a"}, {"#abc", "abc"}, {"a,c", "a"}, {"a$1", "a"}, {"$alice", "alice"}, {"a#c", "a"},
		{`a\c`, "ac"}, {"{abc}", "abc"}, {"a c", "ac"}, {"a=c", "a"},
	}},
	// different accounts that case FOLDING, NFKC-like mappings, accent
	// stripping, sub-addressing or separator folding would merge
	{"near-merge", []pair{
		{"straße", "strasse"}, {"maße", "masse"}, {"οδος", "οδοσ"}, {"ırmak", "irmak"},
		{"alice+x", "alice"}, {"al.ice", "alice"}, {"a-c", "a_c"}, {"zoë", "zoe"}, {"émile", "emile"},
		{"u@faß.example", "u@fass.example"}, {"weiß", "weiss"},
	}},
}

// noCaseRound: letters whose Go upper/lower round trip changes them; names
// containing one are never spelled with a case variant.
func noCaseRound(s string) bool { return strings.ContainsAny(s, "ςıſ") }

func downgradeCaseKind(kind string) string {
	switch kind {
	case "upper", "mixed":
		return "canon"
	case "nfd-upper":
		return "nfd"
	case "wide-upper":
		return "wide"
	}
	return kind
}

// precisOK: can the string be a user name at all under the PRECIS
// IdentifierClass (RFC 8264) as implemented by golang.org/x/text (library)?
// On the harness alphabet the only excluded character is the space; and the
// library applies the Bidi Rule (RFC 5893: first character of class L, last
// one L or EN) to every string that is not pure ASCII - also to left-to-right
// ones - so "a%" is a user name while its fullwidth spelling "ａ%" is refused.
// That is library behaviour, not maddy's: spellings it refuses are never
// generated (spell falls back to the canonical one) and canonical names it
// refuses are treated as "no user name" (validated at start-up).
func precisOK(s string) bool {
	if s == "" || strings.ContainsRune(s, ' ') {
		return false
	}
	if isASCII(s) {
		return true
	}
	return bidirule.ValidString(foldAll(s))
}

// spellingOK: the whole string and, for e-mail-like names, the local part on
// its own (the *_email normalisers fold it separately) are acceptable.
func spellingOK(s string) bool {
	if !precisOK(s) {
		return false
	}
	if i := strings.LastIndexByte(s, '@'); i >= 0 {
		return precisOK(s[:i])
	}
	return true
}

// storeKey is the key the credentials store looks for when it is handed the
// literal name s (UsernameCaseMapped); ok=false when s is no user name.
func storeKey(s string) (string, bool) {
	if !precisOK(s) {
		return "", false
	}
	return foldAll(s), true
}

// universe of one widened case: a pair (both accounts in every derived form),
// a third atom, and - for pairs that are e-mail-like themselves - the bare
// names. partner[x] lists the names related to x (same form, other member of
// the pair), in both directions.
type universe struct {
	family  string
	names   []string
	partner map[string][]string
	pattern map[string]bool // names that are the "A" side of a pair

	idnDomain string // groups E/F: the internationalised domain of the pair (canonical U-label form)
}

func formsOf(atom string) []string {
	if strings.Contains(atom, "@") { // e-mail-like already: no derived forms
		return []string{atom}
	}
	out := make([]string, 0, int(nForms))
	for f := form(0); f < nForms; f++ {
		out = append(out, canonName(atom, f))
	}
	return out
}

// foldPairs: the pairs that differ exactly by what Unicode case FOLDING does
// beyond lower-casing (sharp s -> "ss", final sigma -> sigma). One of them is
// part of EVERY widened universe (bare name and @corp.example form, or the
// e-mail-like pair whose DOMAINS differ that way).
var foldPairs = []pair{
	{"straße", "strasse"}, {"maße", "masse"}, {"weiß", "weiss"}, {"οδος", "οδοσ"}, {"u@faß.example", "u@fass.example"},
}

func drawUniverse(p *prng.R, avoid func(atom string) bool) *universe {
	u := &universe{partner: map[string][]string{}, pattern: map[string]bool{}}
	var fam family
	var pr pair
	for tries := 0; ; tries++ {
		fam = families[p.Weighted([]int{5, 2, 3, 2, 3, 4})]
		pr = prng.Pick(p, fam.pairs)
		if avoid == nil || tries > 50 || !(avoid(pr.A) || avoid(pr.B)) {
			break
		}
	}
	u.family = fam.label
	seen := map[string]bool{}
	add := func(n string) {
		if !seen[n] {
			seen[n] = true
			u.names = append(u.names, n)
		}
	}
	addPair := func(fa, fb []string) {
		for i := 0; i < len(fa) || i < len(fb); i++ {
			if i < len(fa) {
				add(fa[i])
				u.pattern[fa[i]] = true
			}
			if i < len(fb) {
				add(fb[i])
			}
			if i < len(fa) && i < len(fb) {
				u.partner[fa[i]] = append(u.partner[fa[i]], fb[i])
				u.partner[fb[i]] = append(u.partner[fb[i]], fa[i])
			}
		}
	}
	addPair(formsOf(pr.A), formsOf(pr.B))
	// a third, unrelated atom (classic alphabet) in all forms
	for {
		third := prng.Pick(p, atoms)
		if third != pr.A && third != pr.B {
			for _, n := range formsOf(third) {
				add(n)
			}
			break
		}
	}
	// the case-folding pair
	for {
		fp := prng.Pick(p, foldPairs)
		if fp.A == pr.A || fp.A == pr.B {
			continue
		}
		fa, fb := formsOf(fp.A), formsOf(fp.B)
		if len(fa) > 2 {
			fa, fb = fa[:2], fb[:2] // bare and @corp.example
		}
		addPair(fa, fb)
		break
	}
	return u
}
