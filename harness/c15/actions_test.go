//go:build verif

package c15

import (
	"fmt"
	"strings"

	"github.com/foxcpp/maddy/framework/module"
	"verifkit/prng"
)

// Groups D (indices 3_000_000.., direct calls) and E (4_000_000.., endpoints):
// the workloads of groups A/C and B with the ACTION directives of
// check.authorize_sender written out in every documented shape
// (docs/reference/checks/actions.md, authorize_sender.md, and the reply
// arguments `reject <code> [<enhanced code> [<text>]]` every check action
// takes - command.md documents the same syntax):
//
//	absent (default = reject) | reject | reject C | reject C E | reject C E "text"
//	| quarantine | quarantine C [E ["text"]] | ignore
//
// for unauth_action, no_match_action and err_action (the three the module
// registers; the documented malformed_action is not registered - writing it
// is a configuration error - so it is not generated).
//
// What is judged. For a failing case (unauthenticated client, MAIL FROM the
// user is not entitled to, foreign header author) the set G of directives
// whose action can apply to it is known from the module's documentation:
// unauth_action for an unauthenticated MAIL FROM; no_match_action and
// err_action (normalisation / lookup errors) for an authenticated one and for
// the header; all three for an unauthenticated header.
//   - every action in G is a reject action (default or explicit, with or
//     without a custom reply): the statement applies as it stands - the message
//     must be refused (CheckResult.Reject / a non-2xx reply and no commit at the
//     target). A quarantine flag alone is "accepted".
//   - G contains `ignore`: the administrator switched the refusal off; not judged.
//   - otherwise (quarantine, or quarantine and reject mixed): acceptance is not
//     judged, but the quarantine action must flag: the result carries Reject or
//     Quarantine / an accepted message reaches the target with
//     MsgMetadata.Quarantine set.
const (
	groupD = 3_000_000
	groupE = 4_000_000
)

var actionDirectives = []string{"unauth_action", "no_match_action", "err_action"}

var actionShapes = []string{"absent", "reject", "reject_code", "reject_code_enh", "reject_code_enh_text", "quarantine", "quarantine_args", "ignore"}

// independent draw: reject shapes 10/13
var actionShapeWeights = []int{2, 1, 2, 2, 3, 1, 1, 1}

type actionSpec struct {
	Directive string `json:"directive"`
	Shape     string `json:"shape"`
	Kind      string `json:"kind"` // reject quarantine ignore
	Line      string `json:"line"` // "" when absent
	Code      int    `json:"code,omitempty"`
}

var (
	codes5 = []int{550, 551, 552, 553, 554, 530, 534, 535, 571}
	codes4 = []int{450, 451, 452, 454, 455}
	ench5  = []string{"5.7.1", "5.7.0", "5.1.7", "5.7.8", "5.1.0", "5.7.27"}
	ench4  = []string{"4.7.0", "4.7.1", "4.3.0", "4.1.8"}
	texts  = []string{"This sender address is not yours", "Log in first", "nope", "Policy violation", "Sender address rejected: not owned by user", "Absender nicht erlaubt (Richtlinie 7)", "Adresse expéditeur refusée"}
)

func replyArgs(p *prng.R, n int) (string, int) {
	perm := !p.Chance(1, 4)
	code := prng.Pick(p, codes4)
	if perm {
		code = prng.Pick(p, codes5)
	}
	cs := fmt.Sprint(code)
	if p.Chance(1, 6) {
		cs = quote(cs)
	}
	if n == 1 {
		return cs, code
	}
	// the enhanced code mostly has the class of the basic code; the parser
	// admits any 4.x.x / 5.x.x
	if p.Chance(1, 6) {
		perm = !perm
	}
	e := prng.Pick(p, ench4)
	if perm {
		e = prng.Pick(p, ench5)
	}
	if n == 2 {
		return cs + " " + e, code
	}
	return cs + " " + e + " " + quote(prng.Pick(p, texts)), code
}

func makeAction(p *prng.R, directive, shape string) actionSpec {
	a := actionSpec{Directive: directive, Shape: shape, Kind: "reject"}
	switch shape {
	case "absent":
	case "reject":
		a.Line = directive + " reject"
	case "reject_code", "reject_code_enh", "reject_code_enh_text":
		args, code := replyArgs(p, map[string]int{"reject_code": 1, "reject_code_enh": 2, "reject_code_enh_text": 3}[shape])
		a.Line, a.Code = directive+" reject "+args, code
	case "quarantine":
		a.Kind, a.Line = "quarantine", directive+" quarantine"
	case "quarantine_args":
		args, code := replyArgs(p, p.Range(1, 3))
		a.Kind, a.Line, a.Code = "quarantine", directive+" quarantine "+args, code
	case "ignore":
		a.Kind, a.Line = "ignore", directive+" ignore"
	default:
		panic("harness: action shape " + shape)
	}
	return a
}

// genActions draws the three action directives for case number n of its group
// from p (a stream of its own). Stratified: directive n%3 gets shape (n/3)%8,
// so every (directive, shape) pair occurs every 24 cases; the other directives
// are drawn - one third of the cases with one action kind for all of them
// (so that "every governing action is quarantine" is frequent enough to be
// observed), two thirds independently.
func (c *cfgCase) genActions(p *prng.R, n int) {
	c.acts = map[string]actionSpec{}
	c.baseText = c.text
	forced := actionDirectives[n%3]
	forcedShape := actionShapes[(n/3)%len(actionShapes)]
	c.forcedDirective = forced
	fa := makeAction(p, forced, forcedShape)
	c.acts[forced] = fa
	same := p.Chance(1, 3)
	for _, d := range actionDirectives {
		if d == forced {
			continue
		}
		shape := actionShapes[p.Weighted(actionShapeWeights)]
		if same {
			switch fa.Kind {
			case "reject":
				shape = actionShapes[p.Weighted([]int{2, 1, 2, 2, 3, 0, 0, 0})]
			case "quarantine":
				shape = actionShapes[p.Weighted([]int{0, 0, 0, 0, 0, 1, 1, 0})]
			default:
				shape = "ignore"
			}
		}
		c.acts[d] = makeAction(p, d, shape)
	}
	var lines []string
	for _, d := range actionDirectives {
		if l := c.acts[d].Line; l != "" {
			lines = append(lines, l)
		}
	}
	// directive order in the block is free
	for i := len(lines) - 1; i > 0; i-- {
		j := p.Intn(i + 1)
		lines[i], lines[j] = lines[j], lines[i]
	}
	if p.Bool() {
		c.text = strings.Join(lines, "\n") + "\n" + c.text
	} else {
		c.text = c.text + strings.Join(lines, "\n") + "\n"
	}
}

func (c *cfgCase) actKind(directive string) string {
	if a, ok := c.acts[directive]; ok {
		return a.Kind
	}
	return "reject"
}

func (c *cfgCase) actShape(directive string) string {
	if a, ok := c.acts[directive]; ok {
		return a.Shape
	}
	return "absent"
}

// govern classifies the set of directives that can apply to a failing case:
// "reject" (all of them reject actions), "ignore" (some ignore: not judged),
// "quarantine" (all quarantine) or "reject-or-quarantine".
func (c *cfgCase) govern(dirs ...string) string {
	nr, nq := 0, 0
	for _, d := range dirs {
		switch c.actKind(d) {
		case "ignore":
			return "ignore"
		case "quarantine":
			nq++
		default:
			nr++
		}
	}
	switch {
	case nq == 0:
		return "reject"
	case nr == 0:
		return "quarantine"
	}
	return "reject-or-quarantine"
}

// customised says whether any of the directives is written out at all.
func (c *cfgCase) customised(dirs ...string) bool {
	for _, d := range dirs {
		if c.actShape(d) != "absent" {
			return true
		}
	}
	return false
}

// shapeSet names how the directives are written (cause class for signatures:
// no directive names, codes, texts or shape combinations - the witness has
// them): some action carries reply arguments, else some is a bare word, else
// all are absent.
func (c *cfgCase) shapeSet(dirs ...string) string {
	bare := false
	for _, d := range dirs {
		switch c.actShape(d) {
		case "reject_code", "reject_code_enh", "reject_code_enh_text", "quarantine_args":
			return "some-with-reply-arguments"
		case "reject", "quarantine", "ignore":
			bare = true
		}
	}
	if bare {
		return "bare-words"
	}
	return "all-absent"
}

const (
	actNotJudged = iota
	actHeld
	actViolated
)

// judgeDirect evaluates the result of a direct call for a FAILING case whose
// governing directives are dirs.
func (c *cfgCase) judgeDirect(res module.CheckResult, dirs ...string) (verdict int, g string) {
	g = c.govern(dirs...)
	switch g {
	case "ignore":
		return actNotJudged, g
	case "reject":
		if !res.Reject {
			return actViolated, g
		}
	default:
		if !res.Reject && !res.Quarantine {
			return actViolated, g
		}
	}
	return actHeld, g
}

var (
	dirsUnauthMail   = []string{"unauth_action"}
	dirsUnauthHeader = []string{"unauth_action", "no_match_action", "err_action"}
	dirsNoMatch      = []string{"no_match_action", "err_action"}
)

// countShapes adds one to "<prefix><directive>_<shape>" for every directive
// whose action kind the counter is about: refused_ = reject actions,
// flagged_ / quarantined_at_target_ = quarantine actions, not_judged_ = ignore.
func (c *cfgCase) countShapes(count func(string, int64), prefix string, dirs ...string) {
	if c.acts == nil {
		return
	}
	want := "reject"
	switch {
	case strings.HasSuffix(prefix, "flagged_"), strings.HasSuffix(prefix, "quarantined_at_target_"):
		want = "quarantine"
	case strings.HasSuffix(prefix, "not_judged_"):
		want = "ignore"
	}
	seen := map[string]bool{}
	for _, d := range dirs {
		if c.actKind(d) == want {
			count(prefix+d+"_"+c.actShape(d), 1)
			if sh := c.actShape(d); !seen[sh] {
				seen[sh] = true
				count(prefix+"shape_"+sh, 1) // once per case, whatever the directive
			}
		}
	}
}

func (c *cfgCase) actsWitness() any {
	if c.acts == nil {
		return nil
	}
	var out []actionSpec
	for _, d := range actionDirectives {
		out = append(out, c.acts[d])
	}
	return out
}

// actSigDirect names a violation of a failing case. For reject actions the
// established signature is kept unless the action directives are the cause
// (the twin configuration without them refuses the same call).
func actSigDirect(c *cfgCase, base, quarBase, g string, dirs []string, dueToActions bool) string {
	if g != "reject" {
		return "quarantine-action/not-flagged/" + quarBase + "/actions-written=" + c.shapeSet(dirs...)
	}
	if c.acts != nil && dueToActions {
		return base + "/refused-under-default-actions/actions-written=" + c.shapeSet(dirs...)
	}
	return base
}
