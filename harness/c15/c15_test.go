//go:build verif

// Package c15 monitors property C15: on an endpoint that uses sender
// authorization a message is accepted only if MAIL FROM and the header author
// (every From address, or the Sender address when From is not the user's) are
// addresses the authenticated user is entitled to; unauthenticated clients are
// refused.
//
// Group A (indices 0..): the real check.authorize_sender, configured through
// Init from generated configuration text, called directly (CheckSender /
// CheckBody) with generated identities, envelope senders and headers parsed by
// the same header parser the endpoints use.
// Group B (indices 1_000_000..): the same configurations inside submission /
// smtp endpoints built from configuration text, driven over TCP.
package c15

import (
	"os"
	"bufio"
	"context"
	"fmt"
	"net"
	"regexp"
	"sort"
	"strings"
	"testing"

	"github.com/emersion/go-message/textproto"
	"github.com/foxcpp/maddy/framework/buffer"
	"github.com/foxcpp/maddy/framework/log"
	"github.com/foxcpp/maddy/framework/module"
	"github.com/foxcpp/maddy/internal/check/authorize_sender"
	"github.com/foxcpp/maddy/internal/zzverif/mx"
	"golang.org/x/net/idna"
	"golang.org/x/text/secure/precis"
	"golang.org/x/text/unicode/norm"
	"golang.org/x/text/width"
	"verifkit/prng"
	"verifkit/rep"
)

const groupB = 1_000_000

func TestVerif(t *testing.T) {
	log.DefaultLogger.Out = log.NopOutput{}
	r := rep.Open("C15")
	defer r.Close()
	selfCheckClasses(t)

	// C15_GROUPS (development aid only): run a subset of the groups, e.g. "DE"
	grp := func(g string, n int) int {
		if only := os.Getenv("C15_GROUPS"); only != "" && !strings.Contains(only, g) {
			return 0
		}
		return n
	}
	nA := grp("A", r.N(1000, 6000))
	for i := 0; i < nA; i++ {
		r.Run(i, fmt.Sprintf("direct-%d", i), func(c *rep.Case) { runDirect(t, r, c, i, "") })
	}
	nB := grp("B", r.N(256, 2000))
	for i := 0; i < nB; i++ {
		r.Run(groupB+i, fmt.Sprintf("e2e-%d", i), func(c *rep.Case) { runE2E(t, r, c, groupB+i) })
	}
	nC := grp("C", r.N(400, 3000))
	for i := 0; i < nC; i++ {
		r.Run(groupC+i, fmt.Sprintf("tablekinds-%d", i), func(c *rep.Case) { runDirect(t, r, c, groupC+i, "tk_") })
	}
	nD := grp("D", r.N(192, 960))
	for i := 0; i < nD; i++ {
		r.Run(groupD+i, fmt.Sprintf("actions-%d", i), func(c *rep.Case) { runDirect(t, r, c, groupD+i, "act_") })
	}
	nE := grp("E", r.N(72, 384))
	for i := 0; i < nE; i++ {
		r.Run(groupE+i, fmt.Sprintf("actions-e2e-%d", i), func(c *rep.Case) { runE2E(t, r, c, groupE+i) })
	}
	nF := grp("F", r.N(320, 2400))
	for i := 0; i < nF; i++ {
		r.Run(groupF+i, fmt.Sprintf("single-valued-%d", i), func(c *rep.Case) { runSingle(t, r, c, groupF+i) })
	}
	nG := grp("G", r.N(240, 1600))
	for i := 0; i < nG; i++ {
		r.Run(groupG+i, fmt.Sprintf("chain-fault-%d", i), func(c *rep.Case) { runChainFault(t, r, c, groupG+i) })
	}
}

// selfCheckClasses validates the harness' class construction against x/text
// and x/net (not maddy code). A failure is a harness error, never a verdict.
func selfCheckClasses(t *testing.T) {
	p := prng.New(1, 1, "c15-selfcheck")
	seen := map[string]bool{}
	for _, l := range locals {
		if seen[l] {
			t.Fatalf("harness: duplicate local %q", l)
		}
		seen[l] = true
		for _, k := range localKinds {
			for i := 0; i < 4; i++ {
				s, _ := spellLocal(p, l, k)
				key, err := precis.UsernameCaseMapped.CompareKey(s)
				if err != nil || key != l {
					t.Fatalf("harness: local spelling %q (%s) of %q folds to %q, %v", s, k, l, key, err)
				}
			}
		}
	}
	for _, d := range domains {
		for _, k := range domainKinds {
			for i := 0; i < 4; i++ {
				s, _ := spellDomain(p, d.canon, k)
				u, err := idna.ToUnicode(strings.ToLower(norm.NFC.String(s)))
				u = norm.NFC.String(strings.ToLower(u))
				if err != nil || u != d.canon {
					t.Fatalf("harness: domain spelling %q (%s) of %q folds to %q, %v", s, k, d.canon, u, err)
				}
			}
		}
	}
}

// ---------------- configuration + reference ----------------

type cfgCase struct {
	text string // body of the authorize_sender block

	uKind   string              // identity static regexp-own-address regexp-domain
	uStatic map[string][]string // canonical user -> canonical values (address, domain or "*")
	uRe     *regexp.Regexp
	uRepl   string

	pKind   string              // identity static regexp-tag
	pStatic map[string][]string // canonical address -> canonical addresses
	pRe     *regexp.Regexp
	pRepl   string

	authNorm, fromNorm string
	e2e                bool // bias towards messages that can get through an endpoint

	users []name // identities in play (table keys and others)
	addrs []name // address classes in play

	// group C (tablekinds_test.go): reference tables of the other documented
	// table kinds; nil = the kinds above.
	tk         bool
	uRef, pRef tref
	decoys     []name // addresses usable inside display names / comments
	hot        []name // foreign addresses that share the local part of the current identity

	// groups D / E (actions_test.go): the action directives as written; nil =
	// all absent (default reject). baseText is the block without them.
	acts            map[string]actionSpec
	baseText        string
	forcedDirective string
}

// quote wraps a configuration argument in quotes; the generated names contain
// neither quotes nor backslashes (the lexer only knows the \" escape).
func quote(s string) string {
	if strings.ContainsAny(s, "\"\\") {
		panic("harness: unquotable argument " + s)
	}
	return `"` + s + `"`
}

var allNormalizers = []string{"auto", "auto", "auto", "auto", "precis_casefold_email", "precis_casefold", "precis_email", "precis", "casefold", "noop"}

// refExpand mirrors what the documentation says table.regexp does (full,
// case-insensitive match; $N expansion) on a canonical string, with the
// standard library.
func refExpand(re *regexp.Regexp, repl, key string) (string, bool) {
	m := re.FindStringSubmatchIndex(key)
	if m == nil {
		return "", false
	}
	return string(re.ExpandString(nil, repl, key, m)), true
}

func (c *cfgCase) userValues(userCanon string) []string {
	if c.uRef != nil {
		return c.uRef(userCanon)
	}
	switch c.uKind {
	case "identity":
		return []string{userCanon}
	case "static":
		return c.uStatic[userCanon]
	default:
		if v, ok := refExpand(c.uRe, c.uRepl, userCanon); ok {
			return []string{v}
		}
	}
	return nil
}

func (c *cfgCase) prepare(addrCanon string) []string {
	if c.pRef != nil {
		if v := c.pRef(addrCanon); len(v) > 0 {
			return v
		}
		return []string{addrCanon}
	}
	switch c.pKind {
	case "static":
		if v := c.pStatic[addrCanon]; len(v) > 0 {
			return v
		}
	case "regexp-tag":
		if v, ok := refExpand(c.pRe, c.pRepl, addrCanon); ok {
			return []string{v}
		}
	}
	return []string{addrCanon}
}

// entitled is the reference entitlement function on canonical class names,
// following docs/reference/checks/authorize_sender.md: the address (after
// prepare_email) must equal a user_to_email value, or lie in a domain that is
// a value, or a value is "*".
func (c *cfgCase) entitled(userCanon, addrCanon string) bool {
	vals := c.userValues(userCanon)
	for _, p := range c.prepare(addrCanon) {
		dom := ""
		if i := strings.LastIndexByte(p, '@'); i >= 0 {
			dom = p[i+1:]
		}
		for _, v := range vals {
			if v == "*" || v == p || (dom != "" && v == dom) {
				return true
			}
		}
	}
	return false
}

// ---- documented normalisation functions (reference) ----
//
// docs/reference/checks/authorize_sender.md (auth_normalize / from_normalize):
//   auto                   precis_casefold_email for valid emails, precis_casefold otherwise
//   precis_casefold_email  PRECIS UsernameCaseMapped profile + U-labels form for domain
//   precis_casefold        PRECIS UsernameCaseMapped profile for the entire string
//   precis_email           PRECIS UsernameCasePreserved profile + U-labels form for domain
//   precis                 PRECIS UsernameCasePreserved profile for the entire string
//   casefold               Convert to lower case
//   noop                   Nothing
// "PRECIS profiles ... CaseMapped profiles also convert strings to lower case."
// RFC 8265: both profiles map fullwidth/halfwidth characters to their
// decomposition mapping and apply NFC; only the CaseMapped one lower-cases.
// A U-label is lower case and NFC by definition (RFC 5890). The reference
// re-implements exactly these documented foldings with x/text (width, norm),
// strings.ToLower and the harness' own A-label table - never with maddy code.
// Under a case-PRESERVING setting two spellings that differ in case are
// different identities: accepting one for the other is "accepted although not
// entitled".

func foldWidthNFC(s string) string { return norm.NFC.String(width.Fold.String(s)) }

func foldAll(s string) string { return norm.NFC.String(strings.ToLower(foldWidthNFC(s))) }

func uLabel(dom string) string {
	l := strings.ToLower(dom)
	for _, d := range domains {
		if d.alabel != "" && d.alabel == l {
			return d.canon
		}
	}
	return norm.NFC.String(strings.ToLower(norm.NFC.String(dom)))
}

// docNormalize returns the documented normal form; ok=false when the setting
// is documented for e-mail addresses only and s is none (maddy then refuses).
func docNormalize(fn, s string) (string, bool) {
	i := strings.LastIndexByte(s, '@')
	email := i > 0 && i < len(s)-1
	if fn == "auto" {
		if email {
			fn = "precis_casefold_email"
		} else {
			fn = "precis_casefold"
		}
	}
	switch fn {
	case "precis_casefold_email":
		if !email {
			return "", false
		}
		return foldAll(s[:i]) + "@" + uLabel(s[i+1:]), true
	case "precis_casefold":
		return foldAll(s), true
	case "precis_email":
		if !email {
			return "", false
		}
		return foldWidthNFC(s[:i]) + "@" + uLabel(s[i+1:]), true
	case "precis":
		return foldWidthNFC(s), true
	case "casefold":
		return strings.ToLower(s), true
	case "noop":
		return s, true
	}
	return "", false
}

// entitledExact is the reference for one spelled identity and one spelled
// address under the configured normalisers: the documented normal forms go
// through the documented table semantics. entitled() (on canonical names) is
// the same function for spellings every setting leaves alone.
func (c *cfgCase) entitledExact(userSpelled, addrSpelled string) bool {
	u, ok := docNormalize(c.authNorm, userSpelled)
	if !ok {
		return false
	}
	f, ok := docNormalize(c.fromNorm, addrSpelled)
	if !ok {
		return false
	}
	return c.entitled(u, f)
}

// cleanedDomain is what the SMTP endpoints do to MAIL FROM before any check
// sees it (session.go: domain converted to its U-label form).
func cleanedDomain(addr string) string {
	i := strings.LastIndexByte(addr, '@')
	if i <= 0 || i == len(addr)-1 {
		return addr
	}
	return addr[:i] + "@" + uLabel(addr[i+1:])
}

// spellingCause names why an address of an entitled CLASS is not entitled as
// spelled (cause class for signatures).
func (c *cfgCase) spellingCause(userSpelled, userCanon, addrSpelled, addrKinds string) string {
	if f, ok := docNormalize(c.fromNorm, addrSpelled); ok {
		if u, ok2 := docNormalize(c.authNorm, userCanon); ok2 && c.entitled(u, f) {
			return "identity-spelling-not-folded-by-auth_normalize=" + c.authNorm
		}
	}
	dims := map[string]bool{}
	for _, k := range strings.FieldsFunc(addrKinds, func(r rune) bool { return r == '+' || r == '-' }) {
		switch k {
		case "upper", "mixed":
			dims["case"] = true
		case "nfd":
			dims["nfd"] = true
		case "wide":
			dims["width"] = true
		case "alabel":
			dims["idn"] = true
		}
	}
	var ds []string
	for d := range dims {
		ds = append(ds, d)
	}
	sort.Strings(ds)
	return "address-spelling-not-folded-by-from_normalize=" + c.fromNorm + "/" + strings.Join(ds, "+")
}

func genConfig(p *prng.R) *cfgCase {
	c := &cfgCase{}
	// universe of this case: 4 locals x 3 domains
	lp := p.Perm(len(locals))
	dp := p.Perm(len(domains))
	var ls, ds []string
	for _, i := range lp[:4] {
		ls = append(ls, locals[i])
	}
	ds = append(ds, "example.org") // always present: the regexp tables talk about it
	for _, i := range dp {
		if domains[i].canon != "example.org" && len(ds) < 3 {
			ds = append(ds, domains[i].canon)
		}
	}
	for _, l := range ls {
		for _, d := range ds {
			c.addrs = append(c.addrs, name{l, d})
		}
	}
	// identities: plain names, e-mail names, and rarely a name that is a
	// domain or "*" (documented: a user_to_email value may be a domain or "*",
	// and with the identity table the value is the user name itself).
	for _, l := range ls[:3] {
		c.users = append(c.users, name{l, ""})
		c.users = append(c.users, name{l, prng.Pick(p, ds)})
	}
	if p.Chance(1, 4) {
		c.users = append(c.users, name{prng.Pick(p, ds), ""})
	}
	if p.Chance(1, 8) {
		c.users = append(c.users, name{"*", ""})
	}

	var b strings.Builder
	switch p.Weighted([]int{4, 5, 2, 2}) {
	case 0:
		c.uKind = "identity"
		if p.Bool() {
			b.WriteString("user_to_email identity\n")
		}
	case 1:
		c.uKind = "static"
		c.uStatic = map[string][]string{}
		b.WriteString("user_to_email static {\n")
		for _, u := range c.users {
			if p.Chance(1, 8) {
				continue
			}
			var vals []string
			n := p.Range(1, 3)
			for j := 0; j < n; j++ {
				switch p.Weighted([]int{6, 2, 1}) {
				case 0:
					if u.domain != "" && p.Bool() {
						vals = append(vals, u.canon())
					} else {
						vals = append(vals, prng.Pick(p, c.addrs).canon())
					}
				case 1:
					vals = append(vals, prng.Pick(p, ds))
				case 2:
					if p.Chance(1, 3) {
						vals = append(vals, "*")
					} else {
						vals = append(vals, prng.Pick(p, ds))
					}
				}
			}
			c.uStatic[u.canon()] = vals
			fmt.Fprintf(&b, "    entry %s", quote(u.canon()))
			for _, v := range vals {
				fmt.Fprintf(&b, " %s", quote(v))
			}
			b.WriteString("\n")
		}
		b.WriteString("}\n")
	case 2:
		c.uKind = "regexp-own-address"
		c.uRe = regexp.MustCompile(`(?i)^(.+)$`)
		c.uRepl = "${1}@example.org"
		b.WriteString("user_to_email regexp \"(.+)\" \"${1}@example.org\"\n")
	case 3:
		c.uKind = "regexp-domain"
		c.uRe = regexp.MustCompile(`(?i)^.+@example\.org$`)
		c.uRepl = "example.org"
		b.WriteString("user_to_email regexp \".+@example\\.org\" \"example.org\"\n")
	}
	switch p.Weighted([]int{5, 3, 2}) {
	case 0:
		c.pKind = "identity"
		if p.Bool() {
			b.WriteString("prepare_email identity\n")
		}
	case 1:
		c.pKind = "static"
		c.pStatic = map[string][]string{}
		b.WriteString("prepare_email static {\n")
		n := p.Range(1, 4)
		for j := 0; j < n; j++ {
			alias := prng.Pick(p, c.addrs).canon()
			if _, dup := c.pStatic[alias]; dup {
				continue
			}
			tgts := []string{prng.Pick(p, c.addrs).canon()}
			if p.Chance(1, 5) {
				tgts = append(tgts, prng.Pick(p, c.addrs).canon())
			}
			c.pStatic[alias] = tgts
			fmt.Fprintf(&b, "    entry %s", quote(alias))
			for _, v := range tgts {
				fmt.Fprintf(&b, " %s", quote(v))
			}
			b.WriteString("\n")
		}
		b.WriteString("}\n")
	case 2:
		c.pKind = "regexp-tag"
		c.pRe = regexp.MustCompile(`(?i)^(.+)\+(.+)@(.+)$`)
		c.pRepl = "${1}@${3}"
		b.WriteString("prepare_email regexp \"(.+)\\+(.+)@(.+)\" \"${1}@${3}\"\n")
	}
	c.authNorm = prng.Pick(p, allNormalizers)
	c.fromNorm = prng.Pick(p, allNormalizers)
	if c.authNorm != "auto" || p.Bool() {
		fmt.Fprintf(&b, "auth_normalize %s\n", c.authNorm)
	}
	if c.fromNorm != "auto" || p.Bool() {
		fmt.Fprintf(&b, "from_normalize %s\n", c.fromNorm)
	}
	if p.Bool() {
		b.WriteString("check_header yes\n")
	}
	c.text = b.String()
	return c
}

// pickUser prefers identities that are entitled to something (otherwise every
// message is trivially refused).
func (c *cfgCase) pickUser(p *prng.R, pool []name) name {
	if p.Chance(4, 5) {
		var some []name
		for _, u := range pool {
			if e, _ := c.partition(u.canon()); len(e) > 0 {
				some = append(some, u)
			}
		}
		if len(some) > 0 {
			return prng.Pick(p, some)
		}
	}
	return prng.Pick(p, pool)
}

// partition splits the address universe into entitled / foreign for a user.
func (c *cfgCase) partition(userCanon string) (ent, foreign []name) {
	for _, a := range c.addrs {
		if c.entitled(userCanon, a.canon()) {
			ent = append(ent, a)
		} else {
			foreign = append(foreign, a)
		}
	}
	return
}

// relation names how an address the user is NOT entitled to relates to what
// the user is entitled to (cause class for signatures).
func (c *cfgCase) relation(userCanon string, a name) string {
	vals := c.userValues(userCanon)
	via := ""
	if pr := c.prepare(a.canon()); len(pr) != 1 || pr[0] != a.canon() {
		via = "/address-has-prepare-mapping"
	}
	if c.tk {
		// group C: the identity is itself address-shaped and the address has
		// its local part (or is the address inside its quoted local part)
		if l, _, ok := refSplit(userCanon); ok {
			if l == a.local {
				return "local-part-of-address-shaped-identity-in-other-domain" + via
			}
			if refUnquote(l) == a.canon() {
				return "address-inside-quoted-local-part-of-identity" + via
			}
		}
	}
	for _, v := range vals {
		if !strings.Contains(v, "@") && v != "*" {
			if strings.HasSuffix(a.domain, "."+v) {
				return "subdomain-of-entitled-domain" + via
			}
			if strings.HasPrefix(a.domain, v+".") {
				return "entitled-domain-is-prefix-of-domain" + via
			}
		}
	}
	for _, v := range vals {
		if i := strings.LastIndexByte(v, '@'); i >= 0 {
			if v[:i] == a.local {
				return "entitled-local-part-in-other-domain" + via
			}
		}
	}
	for _, v := range vals {
		if i := strings.LastIndexByte(v, '@'); i >= 0 {
			if v[i+1:] == a.domain {
				return "other-mailbox-in-domain-of-entitled-address" + via
			}
		}
	}
	if len(vals) == 0 {
		return "user-has-no-entitlement" + via
	}
	return "unrelated-address" + via
}

// ---------------- messages ----------------

type mailbox struct {
	Addr     name   `json:"-"`
	Class    string `json:"class"`
	Spelling string `json:"spelling"`
	Kinds    string `json:"kinds"`
	Deco     string `json:"decoration"`
	Entitled bool   `json:"entitled"`
	Relation string `json:"relation_if_foreign,omitempty"`
}

type field struct {
	Key   string    `json:"key"` // as written
	Boxes []mailbox `json:"mailboxes,omitempty"`
	Raw   string    `json:"raw"` // full field text incl. folding, without final CRLF
	Note  string    `json:"note,omitempty"`
}

type message struct {
	AuthUser   string  `json:"auth_user"`
	UserClass  string  `json:"user_class"`
	MailFrom   string  `json:"mail_from"`
	MFClass    string  `json:"mail_from_class"`
	MFKinds    string  `json:"mail_from_kinds"`
	MFEntitled bool    `json:"mail_from_entitled"`
	MFJudged   bool    `json:"mail_from_judged"`
	MFRelation string  `json:"mail_from_relation_if_foreign,omitempty"`
	mfAddr     name
	Fields     []field `json:"fields"`
	From       []field `json:"-"`
	Sender     []field `json:"-"`
}

func (m *message) raw() string {
	var b strings.Builder
	for _, f := range m.Fields {
		b.WriteString(f.Raw)
		b.WriteString("\r\n")
	}
	b.WriteString("\r\n")
	return b.String()
}

var fromKeys = []string{"From", "From", "From", "From", "FROM", "from", "fRoM", "From ", "From\t"}
var senderKeys = []string{"Sender", "Sender", "SENDER", "sender"}

func encodedWord(p *prng.R, s string) string {
	if p.Bool() {
		var b strings.Builder
		b.WriteString("=?utf-8?q?")
		for i := 0; i < len(s); i++ {
			ch := s[i]
			switch {
			case ch == ' ':
				b.WriteByte('_')
			case ch >= 'a' && ch <= 'z' || ch >= 'A' && ch <= 'Z' || ch >= '0' && ch <= '9':
				b.WriteByte(ch)
			default:
				fmt.Fprintf(&b, "=%02X", ch)
			}
		}
		b.WriteString("?=")
		return b.String()
	}
	return "=?UTF-8?B?" + b64enc(s) + "?="
}

// renderMailbox writes one mailbox whose address (by RFC 5322) is spelling,
// decorated with text that mentions decoy (an address of another class).
func renderMailbox(p *prng.R, spelling, decoy string) (string, string) {
	local, domain := spelling, ""
	if i := strings.LastIndexByte(spelling, '@'); i >= 0 {
		local, domain = spelling[:i], spelling[i:]
	}
	switch p.Weighted([]int{3, 3, 3, 3, 3, 2, 2, 1}) {
	case 0:
		return spelling, "bare"
	case 1:
		return "<" + spelling + ">", "angle"
	case 2:
		return "Some One <" + spelling + ">", "display-name"
	case 3: // display-name trick
		if p.Bool() {
			return `"` + decoy + `" <` + spelling + ">", "quoted-name-is-foreign-address"
		}
		return `"<` + decoy + `>" <` + spelling + ">", "quoted-name-is-foreign-angle-addr"
	case 4:
		return encodedWord(p, prng.Pick(p, []string{decoy, "X <" + decoy + ">", "Ünï cödé"})) + " <" + spelling + ">", "encoded-word-name"
	case 5:
		if p.Bool() {
			return spelling + " (" + decoy + ")", "trailing-comment-foreign"
		}
		return "(" + decoy + ") <" + spelling + ">", "leading-comment-foreign"
	case 6:
		if strings.HasPrefix(local, `"`) { // already a quoted string (group C)
			return spelling, "bare"
		}
		return `"` + local + `"` + domain, "quoted-local-part"
	default:
		return "Some One <" + spelling + "> (really <" + decoy + ">)", "name-and-comment"
	}
}

func fold(p *prng.R, s string) string {
	// fold at some spaces that are outside quoted strings and comments
	var b strings.Builder
	inq, depth := false, 0
	for i := 0; i < len(s); i++ {
		ch := s[i]
		switch {
		case ch == '"' && depth == 0:
			inq = !inq
		case ch == '(' && !inq:
			depth++
		case ch == ')' && !inq && depth > 0:
			depth--
		}
		if ch == ' ' && !inq && depth == 0 && p.Chance(1, 4) {
			b.WriteString("\r\n" + prng.Pick(p, []string{" ", "\t", "  "}))
			continue
		}
		b.WriteByte(ch)
	}
	return b.String()
}

func (c *cfgCase) pickAddr(p *prng.R, ent, foreign []name, wantEntitled bool) (name, bool) {
	if wantEntitled && len(ent) > 0 {
		return prng.Pick(p, ent), true
	}
	if !wantEntitled && len(c.hot) > 0 && p.Bool() { // group C only
		return prng.Pick(p, c.hot), false
	}
	if !wantEntitled && len(foreign) > 0 {
		return prng.Pick(p, foreign), false
	}
	if len(ent) > 0 {
		return prng.Pick(p, ent), true
	}
	return prng.Pick(p, foreign), false
}

func (c *cfgCase) addrField(p *prng.R, userSpelled, userCanon, key string, n int, group bool, ent, foreign []name, entProb int, decoyPool []name) field {
	f := field{Key: key}
	var parts []string
	for j := 0; j < n; j++ {
		a, _ := c.pickAddr(p, ent, foreign, p.Chance(entProb, 10))
		sp, kinds := a.spell(p)
		isEnt := c.entitledExact(userSpelled, sp)
		decoy := prng.Pick(p, decoyPool)
		dsp, _ := decoy.spell(p)
		txt, deco := renderMailbox(p, sp, dsp)
		parts = append(parts, txt)
		mb := mailbox{Addr: a, Class: a.canon(), Spelling: sp, Kinds: kinds, Deco: deco, Entitled: isEnt}
		if !isEnt {
			mb.Relation = c.relation(userCanon, a)
			if c.entitled(userCanon, a.canon()) {
				mb.Relation = c.spellingCause(userSpelled, userCanon, sp, kinds)
			}
		}
		f.Boxes = append(f.Boxes, mb)
	}
	val := strings.Join(parts, ", ")
	if group {
		val = "Team: " + val + ";"
		f.Note = "group"
	}
	if p.Chance(1, 3) {
		val = fold(p, val)
	}
	sep := ": "
	if p.Chance(1, 8) {
		sep = ":"
	} else if p.Chance(1, 8) {
		sep = ":\r\n "
	}
	f.Raw = key + sep + val
	return f
}

var malformedValues = []string{"", "<>", "garbage without address", "@example.org", "alice@", "=?utf-8?q?alice=40example.org?=", "undisclosed-recipients:;", "<alice@example.org", "a@b@c"}

// genMessage builds one message for identity `user` authenticated under the
// spelling authUser ("" = not authenticated).
func (c *cfgCase) genMessage(p *prng.R, user name, authUser string, mfEntProb int) *message {
	m := &message{UserClass: user.canon(), AuthUser: authUser}
	ent, foreign := c.partition(user.canon())
	all := c.addrs
	if c.tk {
		all = c.decoys
		c.hot = sameLocal(foreign, user)
	}

	// envelope sender
	switch p.Weighted([]int{20, 1, 1}) {
	case 0:
		a, _ := c.pickAddr(p, ent, foreign, p.Chance(mfEntProb, 20))
		m.MailFrom, m.MFKinds = a.spell(p)
		m.MFClass, m.MFEntitled, m.MFJudged = a.canon(), c.entitledExact(authUser, m.MailFrom), true
		if c.e2e && !m.MFEntitled {
			// the endpoint rewrites the domain to its U-label form first
			m.MFEntitled = c.entitledExact(authUser, cleanedDomain(m.MailFrom))
		}
		m.mfAddr = a
		if !m.MFEntitled {
			m.MFRelation = c.relation(user.canon(), a)
			if c.entitled(user.canon(), a.canon()) {
				m.MFRelation = c.spellingCause(authUser, user.canon(), m.MailFrom, m.MFKinds)
			}
		}
	case 1:
		// The null reverse-path is not an address; it is judged only for users
		// that have no "*" entitlement.
		m.MailFrom, m.MFClass, m.MFKinds, m.MFRelation = "", "<>", "null", "null-reverse-path"
		m.MFJudged = true
		for _, v := range c.userValues(user.canon()) {
			if v == "*" {
				m.MFJudged = false
			}
		}
	case 2:
		m.MailFrom, m.MFClass, m.MFKinds = prng.Pick(p, []string{"no-at-sign", "@", "a@", "@b"}), "malformed", "malformed"
		m.MFJudged = false
	}

	// author fields
	nFrom := []int{0, 1, 1, 1, 1, 1, 1, 1, 2, 2, 2, 3}[p.Intn(12)]
	if c.e2e && nFrom != 1 && p.Bool() {
		nFrom = 1
	}
	nSender := []int{0, 0, 0, 0, 0, 1, 1, 1, 1, 2}[p.Intn(10)]
	var fields []field
	for j := 0; j < nFrom; j++ {
		key := prng.Pick(p, fromKeys)
		if p.Chance(1, 12) {
			v := prng.Pick(p, malformedValues)
			f := field{Key: key, Raw: key + ": " + v, Note: "malformed-or-empty"}
			fields = append(fields, f)
			m.From = append(m.From, f)
			continue
		}
		n := 1
		if p.Chance(1, 5) {
			n = 2
		}
		// the first From field is mostly the user's own address; later ones mostly foreign
		entProb := 8
		if j > 0 {
			entProb = 3
		}
		f := c.addrField(p, m.AuthUser, user.canon(), key, n, p.Chance(1, 10), ent, foreign, entProb, all)
		fields = append(fields, f)
		m.From = append(m.From, f)
	}
	for j := 0; j < nSender; j++ {
		key := prng.Pick(p, senderKeys)
		f := c.addrField(p, m.AuthUser, user.canon(), key, 1, false, ent, foreign, 5, all)
		m.Sender = append(m.Sender, f)
		// position relative to From is random
		pos := p.Intn(len(fields) + 1)
		fields = append(fields[:pos], append([]field{f}, fields[pos:]...)...)
	}
	// other fields that must not matter
	other := []string{"Subject: hello", "To: <rcpt@dest.test>", "Date: Thu, 01 Oct 2026 10:00:00 +0000", "Message-ID: <m1@client.test>",
		"X-From: " + prng.Pick(p, all).canon(), "Resent-From: " + prng.Pick(p, all).canon(), "Reply-To: " + prng.Pick(p, all).canon(), "From-X: " + prng.Pick(p, all).canon()}
	for _, o := range other {
		if p.Chance(1, 2) {
			pos := p.Intn(len(fields) + 1)
			fields = append(fields[:pos], append([]field{{Key: o[:strings.IndexByte(o, ':')], Raw: o}}, fields[pos:]...)...)
		}
	}
	m.Fields = fields
	return m
}

// headerVerdict evaluates the statement's header clause on the message as
// constructed: judged is false when the statement does not decide the case
// (no known From address at all).
type headerFacts struct {
	KnownFrom      int    `json:"known_from_addresses"`
	ForeignFrom    int    `json:"foreign_from_addresses"`
	SenderEntitled bool   `json:"some_sender_entitled"`
	Allowed        bool   `json:"allowed_by_statement"`
	Judged         bool   `json:"judged"`
	Cause          string `json:"cause_if_accepted"`
}

func (m *message) headerFacts() headerFacts {
	var h headerFacts
	firstForeignField, firstForeignPos := -1, -1
	var firstForeign mailbox
	for fi, f := range m.From {
		for bi, b := range f.Boxes {
			h.KnownFrom++
			if !b.Entitled {
				h.ForeignFrom++
				if firstForeignField < 0 {
					firstForeignField, firstForeignPos, firstForeign = fi, bi, b
				}
			}
		}
	}
	for _, f := range m.Sender {
		for _, b := range f.Boxes {
			if b.Entitled {
				h.SenderEntitled = true
			}
		}
	}
	h.Judged = h.KnownFrom > 0
	h.Allowed = h.ForeignFrom == 0 || h.SenderEntitled
	if !h.Allowed {
		switch {
		case firstForeignField > 0:
			h.Cause = "foreign-address-in-later-from-field"
		case firstForeignPos > 0:
			h.Cause = "foreign-address-later-in-first-from-field"
		default:
			h.Cause = "foreign-first-from-address/" + firstForeign.Deco + "/" + firstForeign.Relation
			if m.From[0].Note == "group" {
				h.Cause = "foreign-first-from-address/group"
			}
		}
	}
	return h
}

// ---------------- group A: direct calls ----------------

func passed(res module.CheckResult) bool { return !res.Reject && !res.Quarantine }

func reasonStr(res module.CheckResult) string {
	if res.Reason == nil {
		return ""
	}
	return res.Reason.Error()
}

var remote = &net.TCPAddr{IP: net.IPv4(127, 0, 0, 1), Port: 40000}

type tallies struct {
	sender, senderPass, senderPassEntitled, senderRejectForeign, senderRejectEntitled int64
	body, bodyPass, bodyRejectForeign, bodyRejectAllowed, bodyPassViaSender, bodyUnjudged int64
	unauth, unauthRefused, multiFrom, multiFromForeignLater                              int64
}

func (k *tallies) flush(r *rep.Reporter, pfx string) {
	r.Count(pfx+"checksender_calls", k.sender)
	r.Count(pfx+"checksender_pass_entitled", k.senderPassEntitled)
	r.Count(pfx+"checksender_reject_foreign", k.senderRejectForeign)
	r.Count(pfx+"checksender_reject_entitled_not_judged", k.senderRejectEntitled)
	r.Count(pfx+"checkbody_calls", k.body)
	r.Count(pfx+"checkbody_pass_allowed", k.bodyPass)
	r.Count(pfx+"checkbody_pass_via_entitled_sender", k.bodyPassViaSender)
	r.Count(pfx+"checkbody_reject_foreign_author", k.bodyRejectForeign)
	r.Count(pfx+"checkbody_reject_allowed_not_judged", k.bodyRejectAllowed)
	r.Count(pfx+"checkbody_no_known_from_not_judged", k.bodyUnjudged)
	r.Count(pfx+"unauthenticated_messages", k.unauth)
	r.Count(pfx+"unauthenticated_refused", k.unauthRefused)
	r.Count(pfx+"messages_with_several_from_fields", k.multiFrom)
	r.Count(pfx+"messages_with_foreign_later_from_field", k.multiFromForeignLater)
}

// runDirect runs one configuration of group A (pfx "") or group C (pfx "tk_").
func runDirect(t *testing.T, r *rep.Reporter, c *rep.Case, idx int, pfx string) {
	var p *prng.R
	var cfg *cfgCase
	withActions := pfx == "act_"
	if pfx == "" || (withActions && (idx/3)%3 != 2) {
		p = prng.New(r.Seed(), uint64(idx), "c15")
		cfg = genConfig(p)
	} else {
		p = prng.New(r.Seed(), uint64(idx), "c15-tablekinds")
		dir, nfile := "", 0
		cfg = genConfigTK(p, func(body string) string {
			if dir == "" {
				dir = t.TempDir()
			}
			nfile++
			path := fmt.Sprintf("%s/table%d", dir, nfile)
			if err := os.WriteFile(path, []byte(body), 0o600); err != nil {
				t.Fatalf("harness: %v", err)
			}
			return path
		})
	}
	if withActions {
		// group D: every (table kind, normaliser) family of groups A and C with
		// the action directives written out; drawn from a stream of their own
		cfg.genActions(prng.New(r.Seed(), uint64(idx), "c15-actions"), idx-groupD)
	}
	newCheck := func(text, tag string) module.Check {
		mod, err := authorize_sender.New("check.authorize_sender", fmt.Sprintf("c15chk%s_%d_%d", tag, r.Seed(), idx), nil, nil)
		if err != nil {
			t.Fatalf("harness: %v", err)
		}
		if err := mx.InitModule(mod, text, nil); err != nil {
			t.Fatalf("harness: authorize_sender init: %v\n%s", err, text)
		}
		return mod.(module.Check)
	}
	chk := newCheck(cfg.text, "")
	// attribution only (never a verdict): the same configuration with the
	// action directives left out, built when a violation is about to be reported
	var twin module.Check
	underDefaults := func(meta *module.MsgMetadata, call func(st module.CheckState) module.CheckResult) bool {
		if cfg.acts == nil {
			return false
		}
		if twin == nil {
			twin = newCheck(cfg.baseText, "twin")
		}
		st, err := twin.CheckStateForMsg(context.Background(), meta)
		if err != nil {
			return false
		}
		defer st.Close()
		return call(st).Reject
	}
	var k tallies
	defer k.flush(r, pfx)
	shapes := map[string]bool{}
	nontrivial := false
	ctx := context.Background()

	const perCase = 40
	for mi := 0; mi < perCase; mi++ {
		user := cfg.pickUser(p, cfg.users)
		authenticated := !p.Chance(1, 10)
		authUser := ""
		if authenticated {
			kinds := localKinds
			_ = kinds
			authUser, _ = user.spell(p)
			if p.Chance(1, 3) {
				authUser = user.canon() // keep the canonical identity frequent under case-preserving settings
			}
		}
		m := cfg.genMessage(p, user, authUser, 14)
		raw := m.raw()
		hdr, err := textproto.ReadHeader(bufio.NewReader(strings.NewReader(raw)))
		if err != nil {
			t.Fatalf("harness: generated header does not parse: %v\n%q", err, raw)
		}
		meta := &module.MsgMetadata{
			ID:   fmt.Sprintf("c15-%d-%d", idx, mi),
			Conn: &module.ConnState{Proto: "ESMTPA", Hostname: "client.test", RemoteAddr: remote, AuthUser: m.AuthUser},
		}
		st, err := chk.CheckStateForMsg(ctx, meta)
		if err != nil {
			t.Fatalf("harness: CheckStateForMsg: %v", err)
		}
		rs := st.CheckSender(ctx, m.MailFrom)
		rb := st.CheckBody(ctx, hdr, buffer.MemoryBuffer{Slice: []byte("body\r\n")})
		st.Close()
		hf := m.headerFacts()
		wit := func() any {
			return map[string]any{"config": cfg.text, "message": m, "header_text": raw, "header_facts": hf,
				"user_values": cfg.userValues(user.canon()),
				"check_sender": map[string]any{"reject": rs.Reject, "quarantine": rs.Quarantine, "reason": reasonStr(rs)},
				"check_body":   map[string]any{"reject": rb.Reject, "quarantine": rb.Quarantine, "reason": reasonStr(rb)},
				"actions":      cfg.actsWitness()}
		}
		k.sender++
		k.body++
		if len(m.From) > 1 {
			k.multiFrom++
			for _, f := range m.From[1:] {
				for _, b := range f.Boxes {
					if !b.Entitled {
						k.multiFromForeignLater++
						goto counted
					}
				}
			}
		counted:
		}
		if !authenticated {
			k.unauth++
			vs, gs := cfg.judgeDirect(rs, dirsUnauthMail...)
			vb, gb := cfg.judgeDirect(rb, dirsUnauthHeader...)
			if vs == actViolated {
				c.Violation(actSigDirect(cfg, "unauthenticated/accepted/stage=mail-from", "unauthenticated/stage=mail-from", gs, dirsUnauthMail,
					underDefaults(meta, func(st module.CheckState) module.CheckResult { return st.CheckSender(ctx, m.MailFrom) })),
					"CheckSender passed although the connection is not authenticated (unauth_action: "+cfg.actShape("unauth_action")+")", wit())
			}
			if vb == actViolated {
				c.Violation(actSigDirect(cfg, "unauthenticated/accepted/stage=header", "unauthenticated/stage=header", gb, dirsUnauthHeader,
					underDefaults(meta, func(st module.CheckState) module.CheckResult {
						return st.CheckBody(ctx, hdr, buffer.MemoryBuffer{Slice: []byte("body\r\n")})
					})),
					"CheckBody passed although the connection is not authenticated", wit())
			}
			if vs == actHeld && (vb == actHeld || vb == actNotJudged) {
				k.unauthRefused++
				nontrivial = true
				if gs == "reject" {
					cfg.countShapes(r.Count, pfx+"refused_", dirsUnauthMail...)
				} else {
					cfg.countShapes(r.Count, pfx+"flagged_", dirsUnauthMail...)
				}
			}
			if vs == actNotJudged {
				cfg.countShapes(r.Count, pfx+"not_judged_", dirsUnauthMail...)
			}
			if cfg.acts == nil {
				shapes["unauth"] = true
			} else {
				shapes["unauth/"+gs+"/"+gb] = true
			}
			continue
		}
		gN := cfg.govern(dirsNoMatch...)
		// envelope clause
		mfFailing := m.MFJudged && !m.MFEntitled
		vmf := actNotJudged
		if mfFailing {
			vmf, _ = cfg.judgeDirect(rs, dirsNoMatch...)
		}
		switch {
		case mfFailing && vmf == actNotJudged:
			// no_match_action / err_action ignore: the administrator's choice
			cfg.countShapes(r.Count, pfx+"not_judged_", dirsNoMatch...)
		case mfFailing && vmf == actViolated && (gN != "reject" || underDefaults(meta, func(st module.CheckState) module.CheckResult { return st.CheckSender(ctx, m.MailFrom) })):
			// the configured action is what lets it through (or fails to flag it)
			c.Violation(actSigDirect(cfg, "mail-from/accepted-not-entitled", "mail-from/not-entitled", gN, dirsNoMatch, true),
				fmt.Sprintf("CheckSender passed MAIL FROM %q (class %s) for user %q (class %s) who is not entitled to it; the same configuration without the action directives refuses it", m.MailFrom, m.MFClass, m.AuthUser, m.UserClass), wit())
		case mfFailing && gN != "reject":
			// flagged (quarantine or reject) as configured
			k.senderRejectForeign++
			nontrivial = true
			cfg.countShapes(r.Count, pfx+"flagged_", dirsNoMatch...)
		case !rs.Reject:
			k.senderPass++
			if m.MFJudged && !m.MFEntitled {
				cause := m.MFRelation
				if m.mfAddr.local != "" && m.MailFrom != m.mfAddr.canon() && !strings.Contains(cause, "-spelling-not-folded-by-") {
					// attribution: is the canonical spelling refused?
					st2, _ := chk.CheckStateForMsg(ctx, meta)
					if st2.CheckSender(ctx, m.mfAddr.canon()).Reject {
						cause += "/only-with-spelling=" + m.MFKinds
					}
					st2.Close()
				}
				c.Violation("mail-from/accepted-not-entitled/"+cause,
					fmt.Sprintf("CheckSender passed MAIL FROM %q (class %s) for user %q (class %s) who is not entitled to it", m.MailFrom, m.MFClass, m.AuthUser, m.UserClass), wit())
			} else if m.MFEntitled {
				k.senderPassEntitled++
				nontrivial = true
				if cfg.tk {
					r.Count(pfx+"checksender_pass_entitled_identity_"+identityShape(user), 1)
				}
			}
		case m.MFEntitled:
			k.senderRejectEntitled++
			if cfg.authNorm == "auto" && cfg.fromNorm == "auto" {
				r.Count(pfx+"checksender_reject_entitled_under_default_normalizers", 1)
				if os.Getenv("C15_DEBUG") != "" {
					fmt.Printf("DEBUG reject-entitled user=%q mf=%q reason=%s cfg=%q\n", m.AuthUser, m.MailFrom, reasonStr(rs), cfg.text)
				}
			}
		case m.MFJudged:
			k.senderRejectForeign++
			nontrivial = true
			cfg.countShapes(r.Count, pfx+"refused_", dirsNoMatch...)
			if strings.Contains(m.MFRelation, "-spelling-not-folded-by-") {
				r.Count(pfx+"checksender_reject_spelling_variant_the_normalizer_does_not_fold", 1)
			}
			if cfg.tk {
				r.Count(pfx+"checksender_reject_foreign_identity_"+identityShape(user), 1)
				if strings.HasPrefix(m.MFRelation, "local-part-of-address-shaped-identity") || strings.HasPrefix(m.MFRelation, "address-inside-quoted-local-part") {
					r.Count(pfx+"checksender_reject_address_sharing_local_part_with_address_shaped_identity", 1)
				}
			}
		}
		// header clause
		hdrFailing := hf.Judged && !hf.Allowed
		vh := actNotJudged
		if hdrFailing {
			vh, _ = cfg.judgeDirect(rb, dirsNoMatch...)
		}
		callBody := func(st module.CheckState) module.CheckResult {
			return st.CheckBody(ctx, hdr, buffer.MemoryBuffer{Slice: []byte("body\r\n")})
		}
		switch {
		case !hf.Judged:
			k.bodyUnjudged++
		case hdrFailing && vh == actNotJudged:
			cfg.countShapes(r.Count, pfx+"not_judged_", dirsNoMatch...)
		case hdrFailing && vh == actViolated && (gN != "reject" || underDefaults(meta, callBody)):
			c.Violation(actSigDirect(cfg, "header/accepted-foreign-author", "header/foreign-author", gN, dirsNoMatch, true),
				fmt.Sprintf("CheckBody passed a message whose From carries %d address(es) user %q is not entitled to and no entitled Sender (%s); the same configuration without the action directives refuses it", hf.ForeignFrom, m.AuthUser, hf.Cause), wit())
		case hdrFailing && vh == actViolated:
			c.Violation("header/accepted-foreign-author/"+hf.Cause,
				fmt.Sprintf("CheckBody passed a message whose From carries %d address(es) user %q is not entitled to and no entitled Sender (%s)", hf.ForeignFrom, m.AuthUser, hf.Cause), wit())
		case hdrFailing:
			k.bodyRejectForeign++
			nontrivial = true
			if gN == "reject" {
				cfg.countShapes(r.Count, pfx+"refused_", dirsNoMatch...)
			} else {
				cfg.countShapes(r.Count, pfx+"flagged_", dirsNoMatch...)
			}
			if cfg.tk && (strings.Contains(hf.Cause, "/local-part-of-address-shaped-identity") || strings.Contains(hf.Cause, "/address-inside-quoted-local-part")) {
				r.Count(pfx+"checkbody_reject_author_sharing_local_part_with_address_shaped_identity", 1)
			}
		case !rb.Reject:
			k.bodyPass++
			nontrivial = true
			if hf.ForeignFrom > 0 {
				k.bodyPassViaSender++
			}
		default:
			k.bodyRejectAllowed++
		}
		sh := fmt.Sprintf("from=%d/sender=%d/foreign=%v/sender-ent=%v/pass=%v,%v/mf=%s", len(m.From), len(m.Sender), hf.ForeignFrom > 0, hf.SenderEntitled, passed(rs), passed(rb), m.MFKinds)
		shapes[sh] = true
		r.Distinct("header_layouts", fmt.Sprintf("from-fields=%d sender-fields=%d foreign-from=%v sender-entitled=%v", len(m.From), len(m.Sender), hf.ForeignFrom > 0, hf.SenderEntitled))
		for _, f := range m.From {
			for _, b := range f.Boxes {
				r.Distinct("from_decorations", b.Deco)
				r.Distinct("address_spellings", b.Kinds)
			}
		}
		if (idx == 0 || idx == groupC || idx == groupD+14) && mi < 3 {
			r.Sample(map[string]any{"config": cfg.text, "message": m, "header_text": raw, "sender_pass": passed(rs), "body_pass": passed(rb)})
		}
	}
	r.Distinct("table_kinds", "user_to_email="+cfg.uKind+" prepare_email="+cfg.pKind)
	if cfg.tk {
		r.Count(pfx+"configs_user_to_email_"+counterName(cfg.uKind), 1)
		r.Count(pfx+"configs_prepare_email_"+counterName(cfg.pKind), 1)
	}
	r.Distinct("normalizers", "auth="+cfg.authNorm+" from="+cfg.fromNorm)
	var ss []string
	for s := range shapes {
		ss = append(ss, s)
	}
	sort.Strings(ss)
	grp := "A/"
	if cfg.tk {
		grp = "C/"
	}
	if withActions {
		grp = "D/" + grp + cfg.actShape("unauth_action") + "," + cfg.actShape("no_match_action") + "," + cfg.actShape("err_action") + "/"
		for _, d := range actionDirectives {
			r.Count(pfx+"configs_"+d+"_"+cfg.actShape(d), 1)
		}
		r.Distinct("action_shape_triples", cfg.actShape("unauth_action")+","+cfg.actShape("no_match_action")+","+cfg.actShape("err_action"))
	}
	c.Done(grp+cfg.uKind+"/"+cfg.pKind+"/"+cfg.authNorm+"/"+cfg.fromNorm+"/"+strings.Join(ss, ";"), nontrivial)
}
