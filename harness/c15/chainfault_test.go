//go:build verif

package c15

import (
	"bufio"
	"context"
	"errors"
	"fmt"
	"sort"
	"strings"
	"testing"

	"github.com/emersion/go-message/textproto"
	"github.com/foxcpp/maddy/framework/buffer"
	"github.com/foxcpp/maddy/framework/config"
	"github.com/foxcpp/maddy/framework/module"
	"github.com/foxcpp/maddy/internal/check/authorize_sender"
	"github.com/foxcpp/maddy/internal/zzverif/mx"
	"verifkit/prng"
	"verifkit/rep"
)

// Group G (indices 6_000_000..): mapping tables that FAIL AT RUN TIME (round
// 8b, seeded change C15-w9-1).
//
// user_to_email and prepare_email are given either directly as a harness table
// (&instance) or as a real table.chain written out in the configuration text
// with 1-3 `step` / `optional_step` lines over harness tables. Every harness
// table is single-valued (implements module.Table only, like imapsql / ldap /
// pass_table) or multi-valued (Lookup + LookupMulti). For each message one of
// the tables (or none: control) is armed with a fault plan: its lookups return
// an error - without a value, with the value and found=true, with the value and
// found=false (multi: nil / empty / the values beside the error) - on EVERY
// lookup or only on the k-th lookup of the message.
//
// Oracle (the statement, nothing more): an acceptance is a violation iff the
// HEALTHY mapping (reference over the tables' contents, documented chain
// semantics) does not entitle the user to the address. While a lookup failed an
// acceptance the healthy mapping also grants is not judged; every refusal is
// fine. The unchanged tree answers every lookup error with err_action (default
// reject), so a failing mapping never widens what is accepted.
const groupG = 6_000_000

var errInjected = errors.New("c15: injected lookup failure (directory backend unreachable)")

type faultPlan struct {
	kind   string // err-without-value | err-with-value | err-with-value-found-false
	when   int    // 0 = every lookup, k = only the k-th lookup since armed
	n      int
	failed int
}

type ftCore struct {
	inst string
	m    map[string][]string
	plan *faultPlan
}

func (t *ftCore) Name() string           { return "c15_failing_table" }
func (t *ftCore) InstanceName() string   { return t.inst }
func (t *ftCore) Init(*config.Map) error { return nil }
func (t *ftCore) hit() string {
	if t.plan == nil {
		return ""
	}
	t.plan.n++
	if t.plan.when == 0 || t.plan.n == t.plan.when {
		t.plan.failed++
		return t.plan.kind
	}
	return ""
}
func (t *ftCore) Lookup(_ context.Context, k string) (string, bool, error) {
	v, ok := "", false
	if vs := t.m[k]; len(vs) > 0 {
		v, ok = vs[0], true
	}
	switch t.hit() {
	case "":
		return v, ok, nil
	case "err-with-value":
		return v, ok, errInjected
	case "err-with-value-found-false":
		return v, false, errInjected
	}
	return "", false, errInjected
}

// ftSingle implements module.Table only; ftMulti also module.MultiTable.
type ftSingle struct{ ftCore }
type ftMulti struct{ ftCore }

func (t *ftMulti) LookupMulti(_ context.Context, k string) ([]string, error) {
	vs := append([]string(nil), t.m[k]...)
	switch t.hit() {
	case "":
		return vs, nil
	case "err-with-value":
		return vs, errInjected
	case "err-with-value-found-false":
		return []string{}, errInjected
	}
	return nil, errInjected
}

var faultKinds = []string{"err-without-value", "err-with-value", "err-with-value-found-false"}

type cfTab struct {
	core   *ftCore
	where  string // prepare_email | user_to_email
	valued string // single | multi
	role   string // direct | step | optional_step
}

type cfCfg struct {
	*cfgCase
	tabs []cfTab
	hot  []name // keys of the prepare_email tables (addresses that get rewritten)
}

// entitledRaw: would the address be entitled if prepare_email left it alone?
func (c *cfCfg) entitledRaw(userSpelled, addrSpelled string) bool {
	save := c.pRef
	c.pRef = nil
	defer func() { c.pRef = save }()
	return c.entitledExact(userSpelled, addrSpelled)
}

func genConfigCF(p *prng.R, tag string) *cfCfg {
	c := &cfCfg{cfgCase: &cfgCase{tk: true}}
	var ls, ds []string
	for _, i := range p.Perm(len(locals))[:4] {
		ls = append(ls, locals[i])
	}
	ds = append(ds, "example.org")
	for _, i := range p.Perm(len(domains)) {
		if domains[i].canon != "example.org" && len(ds) < 3 {
			ds = append(ds, domains[i].canon)
		}
	}
	for _, l := range ls {
		for _, d := range ds {
			c.addrs = append(c.addrs, name{l, d})
		}
	}
	c.decoys = c.addrs
	for _, l := range ls[:3] {
		c.users = append(c.users, name{l, ""})
	}
	c.users = append(c.users, name{ls[1], ds[1]})

	ntab := 0
	mk := func(where, role string, single bool, m map[string][]string) string {
		ntab++
		inst := fmt.Sprintf("c15ft_%s_%d", tag, ntab)
		var core *ftCore
		valued := "multi"
		if single {
			valued = "single"
			t := &ftSingle{ftCore{inst: inst, m: m}}
			if _, multi := module.Table(t).(module.MultiTable); multi {
				panic("harness: ftSingle must not implement MultiTable")
			}
			core = &t.ftCore
			mx.RegisterInstance(t)
		} else {
			t := &ftMulti{ftCore{inst: inst, m: m}}
			core = &t.ftCore
			mx.RegisterInstance(t)
		}
		c.tabs = append(c.tabs, cfTab{core: core, where: where, valued: valued, role: role})
		return "&" + core.inst
	}
	role := func() string {
		if p.Chance(2, 3) {
			return "optional_step"
		}
		return "step"
	}
	var b strings.Builder

	// ---- user_to_email: grants (last step) behind 0-2 login-rename steps ----
	grantsSingle := p.Bool()
	grants := map[string][]string{}
	for _, u := range c.users {
		if p.Chance(1, 6) {
			continue
		}
		n := p.Range(1, 3)
		if grantsSingle {
			n = 1
		}
		for j := 0; j < n; j++ {
			switch p.Weighted([]int{3, 5, 1}) {
			case 0:
				grants[u.canon()] = append(grants[u.canon()], prng.Pick(p, c.addrs).canon())
			case 1:
				grants[u.canon()] = append(grants[u.canon()], prng.Pick(p, ds))
			default:
				if p.Chance(1, 4) {
					grants[u.canon()] = append(grants[u.canon()], "*")
				} else {
					grants[u.canon()] = append(grants[u.canon()], prng.Pick(p, ds))
				}
			}
		}
	}
	if p.Chance(2, 5) {
		c.uKind = "direct-" + map[bool]string{true: "single", false: "multi"}[grantsSingle]
		c.uRef = refMap(grants)
		fmt.Fprintf(&b, "user_to_email %s\n", mk("user_to_email", "direct", grantsSingle, grants))
	} else {
		var steps []refStep
		var lines []string
		nRen := p.Weighted([]int{2, 3, 1})
		for j := 0; j < nRen; j++ {
			ren := map[string][]string{}
			for _, u := range c.users {
				if p.Chance(1, 2) {
					ren[u.canon()] = []string{prng.Pick(p, c.users).canon()}
				}
			}
			ro := role()
			lines = append(lines, ro+" "+mk("user_to_email", ro, p.Bool(), ren))
			steps = append(steps, refStep{refMap(ren), ro == "optional_step"})
		}
		ro := role()
		lines = append(lines, ro+" "+mk("user_to_email", ro, grantsSingle, grants))
		steps = append(steps, refStep{refMap(grants), ro == "optional_step"})
		c.uKind = fmt.Sprintf("chain-%d-steps", len(steps))
		c.uRef = refChain(steps...)
		fmt.Fprintf(&b, "user_to_email chain {\n    %s\n}\n", strings.Join(lines, "\n    "))
	}

	// ---- prepare_email: 1-3 alias tables; only the last may hold two values ----
	alias := func(last, single bool) map[string][]string {
		m := map[string][]string{}
		for j, n := 0, p.Range(2, 5); j < n; j++ {
			k := prng.Pick(p, c.addrs)
			v := []string{prng.Pick(p, c.addrs).canon()}
			if last && !single && p.Chance(1, 4) {
				v = append(v, prng.Pick(p, c.addrs).canon())
			}
			m[k.canon()] = v
			c.hot = append(c.hot, k)
		}
		return m
	}
	switch p.Weighted([]int{1, 2, 7}) {
	case 0:
		c.pKind = "identity"
	case 1:
		single := p.Bool()
		c.pKind = "direct-" + map[bool]string{true: "single", false: "multi"}[single]
		m := alias(true, single)
		c.pRef = refMap(m)
		fmt.Fprintf(&b, "prepare_email %s\n", mk("prepare_email", "direct", single, m))
	default:
		var steps []refStep
		var lines []string
		n := p.Range(1, 3)
		for j := 0; j < n; j++ {
			single := p.Chance(3, 5)
			m := alias(j == n-1, single)
			ro := role()
			lines = append(lines, ro+" "+mk("prepare_email", ro, single, m))
			steps = append(steps, refStep{refMap(m), ro == "optional_step"})
		}
		c.pKind = fmt.Sprintf("chain-%d-steps", n)
		c.pRef = refChain(steps...)
		fmt.Fprintf(&b, "prepare_email chain {\n    %s\n}\n", strings.Join(lines, "\n    "))
	}
	c.authNorm = prng.Pick(p, allNormalizers)
	c.fromNorm = prng.Pick(p, allNormalizers)
	if c.authNorm != "auto" || p.Bool() {
		fmt.Fprintf(&b, "auth_normalize %s\n", c.authNorm)
	}
	if c.fromNorm != "auto" || p.Bool() {
		fmt.Fprintf(&b, "from_normalize %s\n", c.fromNorm)
	}
	c.text = b.String()
	return c
}

type cfAddr struct {
	Text        string `json:"text"`
	Class       string `json:"class"`
	Entitled    bool   `json:"entitled_under_healthy_mapping"`
	RawEntitled bool   `json:"entitled_if_prepare_email_left_it_alone"`
}

func (c *cfCfg) genAddr(p *prng.R, authUser string, ent, foreign []name, wantEnt bool) cfAddr {
	var a cfAddr
	var n name
	if len(c.hot) > 0 && p.Chance(1, 2) {
		n, a.Class = prng.Pick(p, c.hot), "address-rewritten-by-prepare_email"
	} else {
		var isEnt bool
		n, isEnt = c.pickAddr(p, ent, foreign, wantEnt)
		a.Class = "foreign-class"
		if isEnt {
			a.Class = "entitled-class"
		}
	}
	a.Text = n.canon()
	if p.Chance(1, 3) {
		a.Text, _ = n.spell(p)
	}
	a.Entitled = c.entitledExact(authUser, a.Text)
	a.RawEntitled = c.entitledRaw(authUser, a.Text)
	return a
}

func runChainFault(t *testing.T, r *rep.Reporter, c *rep.Case, idx int) {
	p := prng.New(r.Seed(), uint64(idx), "c15-chainfault")
	cfg := genConfigCF(p, fmt.Sprintf("%d_%d", r.Seed(), idx))
	mod, err := authorize_sender.New("check.authorize_sender", fmt.Sprintf("c15chkcf_%d_%d", r.Seed(), idx), nil, nil)
	if err != nil {
		t.Fatalf("harness: %v", err)
	}
	if err := mx.InitModule(mod, cfg.text, nil); err != nil {
		t.Fatalf("harness: authorize_sender init: %v\n%s", err, cfg.text)
	}
	chk := mod.(module.Check)
	ctx := context.Background()
	r.Count("cf_configs_user_to_email_"+counterName(cfg.uKind), 1)
	r.Count("cf_configs_prepare_email_"+counterName(cfg.pKind), 1)
	shapes := map[string]bool{}
	nontrivial := false
	for mi := 0; mi < 40; mi++ {
		user := prng.Pick(p, cfg.users)
		authUser := user.canon()
		if p.Chance(1, 3) {
			authUser, _ = user.spell(p)
		}
		ent, foreign := cfg.partition(user.canon())
		mf := cfg.genAddr(p, authUser, ent, foreign, p.Bool())
		from := cfg.genAddr(p, authUser, ent, foreign, p.Chance(2, 3))
		var sender *cfAddr
		if p.Chance(1, 5) {
			s := cfg.genAddr(p, authUser, ent, foreign, p.Bool())
			sender = &s
		}
		raw := "From: <" + from.Text + ">\r\n"
		if sender != nil {
			raw += "Sender: <" + sender.Text + ">\r\n"
		}
		raw += "Subject: hello\r\n\r\n"
		hdr, err := textproto.ReadHeader(bufio.NewReader(strings.NewReader(raw)))
		if err != nil {
			t.Fatalf("harness: generated header does not parse: %v\n%q", err, raw)
		}
		// fault plan of this message (separate stream: the messages do not depend on it)
		fp := prng.New(r.Seed(), uint64(idx)*64+uint64(mi), "c15-chainfault-plan")
		var armed *cfTab
		var plan *faultPlan
		if !fp.Chance(1, 5) {
			armed = &cfg.tabs[fp.Intn(len(cfg.tabs))]
			plan = &faultPlan{kind: prng.Pick(fp, faultKinds)}
			if fp.Chance(1, 3) {
				plan.when = fp.Range(1, 3)
			}
			armed.core.plan = plan
		}
		meta := &module.MsgMetadata{
			ID:   fmt.Sprintf("c15cf-%d-%d", idx, mi),
			Conn: &module.ConnState{Proto: "ESMTPA", Hostname: "client.test", RemoteAddr: remote, AuthUser: authUser},
		}
		st, err := chk.CheckStateForMsg(ctx, meta)
		if err != nil {
			t.Fatalf("harness: CheckStateForMsg: %v", err)
		}
		rs := st.CheckSender(ctx, mf.Text)
		failedSender := plan != nil && plan.failed > 0
		rb := st.CheckBody(ctx, hdr, buffer.MemoryBuffer{Slice: []byte("body\r\n")})
		st.Close()
		failedBody := plan != nil && plan.failed > 0
		class, planDesc := "healthy", "none"
		if armed != nil {
			armed.core.plan = nil
			class = armed.where + "/" + armed.valued + "/" + armed.role + "/" + plan.kind
			planDesc = fmt.Sprintf("%s of %s (%s-valued, %s): %s, when=%d (0 = every lookup), lookups=%d, failed=%d",
				armed.core.inst, armed.where, armed.valued, armed.role, plan.kind, plan.when, plan.n, plan.failed)
		}
		wit := func() any {
			return map[string]any{"config": cfg.text, "auth_user": authUser, "user_class": user.canon(),
				"healthy_user_values": cfg.userValues(user.canon()), "fault": planDesc,
				"mail_from": mf, "from": from, "sender": sender, "header_text": raw,
				"check_sender": map[string]any{"reject": rs.Reject, "reason": reasonStr(rs)},
				"check_body":   map[string]any{"reject": rb.Reject, "reason": reasonStr(rb)}}
		}
		cn := func(s string) string { return strings.NewReplacer("/", "_", "-", "_").Replace(s) }
		r.Count("cf_checksender_calls", 1)
		// envelope clause
		switch {
		case passed(rs) && !mf.Entitled:
			c.Violation("mail-from/accepted-not-entitled-under-healthy-mapping/"+mf.Class+"/lookup-failure="+class,
				fmt.Sprintf("CheckSender passed MAIL FROM %q for user %q who is not entitled to it under the configured mapping (fault: %s)", mf.Text, authUser, planDesc), wit())
		case !failedSender && passed(rs):
			nontrivial = true
			r.Count("cf_healthy_checksender_pass_entitled", 1)
		case !failedSender && !mf.Entitled:
			nontrivial = true
			r.Count("cf_healthy_checksender_reject_not_entitled", 1)
			if mf.RawEntitled {
				r.Count("cf_healthy_checksender_reject_address_carved_out_by_prepare_email", 1)
			}
		case !failedSender:
			r.Count("cf_healthy_checksender_reject_entitled_not_judged", 1)
		case passed(rs):
			r.Count("cf_fault_checksender_accepted_healthy_mapping_grants_it_not_judged", 1)
		default:
			nontrivial = true
			r.Count("cf_fault_checksender_refused", 1)
			r.Count("cf_fault_checksender_refused_"+cn(armed.where+"/"+armed.valued+"/"+armed.role), 1)
			r.Count("cf_fault_checksender_refused_kind_"+cn(plan.kind)+"_"+armed.valued, 1)
			if plan.when > 0 {
				r.Count("cf_fault_checksender_refused_kth_lookup_only", 1)
			}
			if !mf.Entitled {
				r.Count("cf_fault_checksender_refused_healthy_mapping_refuses_too_"+cn(armed.where+"/"+armed.valued+"/"+armed.role), 1)
				if mf.RawEntitled && armed.where == "prepare_email" {
					r.Count("cf_fault_checksender_refused_address_carved_out_by_prepare_email_"+cn(armed.valued+"/"+armed.role), 1)
				}
			}
		}
		// header clause: the From author entitled, or the Sender entitled
		allowed := from.Entitled || (sender != nil && sender.Entitled)
		switch {
		case passed(rb) && !allowed:
			c.Violation("header/accepted-foreign-author-under-healthy-mapping/"+from.Class+"/lookup-failure="+class,
				fmt.Sprintf("CheckBody passed From %q (Sender %v) for user %q who is entitled to neither under the configured mapping (fault: %s)", from.Text, sender, authUser, planDesc), wit())
		case !failedBody && passed(rb):
			nontrivial = true
			r.Count("cf_healthy_checkbody_pass_allowed", 1)
		case !failedBody && !allowed:
			nontrivial = true
			r.Count("cf_healthy_checkbody_reject_foreign_author", 1)
		case !failedBody:
			r.Count("cf_healthy_checkbody_reject_allowed_not_judged", 1)
		case passed(rb):
			r.Count("cf_fault_checkbody_accepted_healthy_mapping_grants_it_not_judged", 1)
		default:
			nontrivial = true
			r.Count("cf_fault_checkbody_refused", 1)
			if !allowed {
				r.Count("cf_fault_checkbody_refused_healthy_mapping_refuses_too_"+cn(armed.where+"/"+armed.valued+"/"+armed.role), 1)
			}
		}
		shapes[fmt.Sprintf("%s/mf=%v,%v/from=%v,%v", class, mf.Entitled, passed(rs), allowed, passed(rb))] = true
		r.Distinct("cf_fault_classes", class)
		if idx == groupG && mi < 3 {
			r.Sample(map[string]any{"config": cfg.text, "auth_user": authUser, "mail_from": mf, "fault": planDesc, "sender_pass": passed(rs), "body_pass": passed(rb)})
		}
	}
	r.Distinct("table_kinds", "user_to_email="+cfg.uKind+" prepare_email="+cfg.pKind)
	var ss []string
	for s := range shapes {
		ss = append(ss, s)
	}
	sort.Strings(ss)
	c.Done("G/"+cfg.uKind+"/"+cfg.pKind+"/"+strings.Join(ss, ";"), nontrivial)
}
