//go:build verif

package c15

import (
	"strings"
	"unicode"

	"golang.org/x/text/unicode/norm"
	"verifkit/prng"
)

// Classes known by construction. A class is identified by its canonical
// spelling; the reference entitlement function only ever sees canonical
// strings and never calls a maddy normaliser.
//
// local parts / plain user names: canonical = lower case, NFC, narrow width.
// Spellings: case, NFD, fullwidth (what RFC 8265 UsernameCaseMapped undoes).
// Pairwise distinct under PRECIS: no accent stripping, no sub-addressing, no
// dot folding.
var locals = []string{"alice", "bob", "émile", "emile", "ωmega", "alice+news", "a.lice", "mallory"}

// domains: canonical = lower-case NFC U-label form. The A-label form comes
// from a fixed table (RFC 3492 examples checked by the start-up self check
// against x/net/idna, which is not maddy code).
type domainClass struct {
	canon  string
	alabel string // "" for ASCII domains
}

var domains = []domainClass{
	{"example.org", ""},
	{"bücher.example", "xn--bcher-kva.example"},
	{"evil.test", ""},
	{"sub.example.org", ""},              // a sub-domain is not the domain
	{"example.org.evil.test", ""},        // suffix trick
	{"münchen.example", "xn--mnchen-3ya.example"},
	// two DIFFERENT domains under IDNA2008 that an over-eager case folding (sharp s -> ss) merges
	{"fass.example", ""},
	{"faß.example", "xn--fa-hia.example"},
}

func domainByCanon(c string) domainClass {
	for _, d := range domains {
		if d.canon == c {
			return d
		}
	}
	return domainClass{canon: c}
}

var localKinds = []string{"canon", "canon", "upper", "mixed", "nfd", "nfd-upper", "wide", "wide-upper"}
var domainKinds = []string{"canon", "canon", "upper", "mixed", "nfd", "alabel", "alabel-upper"}

func widen(s string) string {
	var b strings.Builder
	for _, r := range s {
		switch {
		case r >= '0' && r <= '9', r >= 'a' && r <= 'z', r >= 'A' && r <= 'Z':
			b.WriteRune(r + 0xFEE0)
		default:
			b.WriteRune(r)
		}
	}
	return b.String()
}

func mixCase(p *prng.R, s string) string {
	var b strings.Builder
	for _, r := range s {
		if p.Bool() {
			b.WriteRune(unicode.ToUpper(r))
		} else {
			b.WriteRune(r)
		}
	}
	return b.String()
}

func spellLocal(p *prng.R, canon, kind string) (string, string) {
	out := canon
	switch kind {
	case "upper":
		out = strings.ToUpper(canon)
	case "mixed":
		out = mixCase(p, canon)
	case "nfd":
		out = norm.NFD.String(canon)
	case "nfd-upper":
		out = strings.ToUpper(norm.NFD.String(canon))
	case "wide":
		out = widen(canon)
	case "wide-upper":
		out = widen(strings.ToUpper(canon))
	}
	if out == canon {
		return out, "canon"
	}
	return out, kind
}

func spellDomain(p *prng.R, canon, kind string) (string, string) {
	d := domainByCanon(canon)
	out := canon
	switch kind {
	case "upper":
		out = strings.ToUpper(canon)
	case "mixed":
		out = mixCase(p, canon)
	case "nfd":
		out = norm.NFD.String(canon)
	case "alabel":
		if d.alabel != "" {
			out = d.alabel
		}
	case "alabel-upper":
		if d.alabel != "" {
			out = strings.ToUpper(d.alabel)
		} else {
			out = strings.ToUpper(canon)
			kind = "upper"
		}
	}
	if out == canon {
		return out, "canon"
	}
	return out, kind
}

// name is a user name or an address class: local part plus optional domain.
type name struct {
	local  string // canonical
	domain string // canonical, "" for plain user names
}

func (n name) canon() string {
	if n.domain == "" {
		return n.local
	}
	return n.local + "@" + n.domain
}

// spell returns a spelling of the class and the kinds applied ("local/domain").
func (n name) spell(p *prng.R) (string, string) {
	l, lk := spellLocal(p, n.local, prng.Pick(p, localKinds))
	if n.domain == "" {
		return l, lk
	}
	d, dk := spellDomain(p, n.domain, prng.Pick(p, domainKinds))
	return l + "@" + d, lk + "+" + dk
}

func isASCII(s string) bool {
	for i := 0; i < len(s); i++ {
		if s[i] >= 0x80 {
			return false
		}
	}
	return true
}
