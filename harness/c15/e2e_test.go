//go:build verif

package c15

import (
	"bufio"
	"os"
	"encoding/base64"
	"fmt"
	"net"
	"strconv"
	"strings"
	"testing"
	"time"

	"github.com/foxcpp/maddy/internal/auth/pass_table"
	"github.com/foxcpp/maddy/internal/endpoint/smtp"
	"github.com/foxcpp/maddy/internal/zzverif/mx"
	"verifkit/prng"
	"verifkit/rep"
)

func b64enc(s string) string { return base64.StdEncoding.EncodeToString([]byte(s)) }

// ---------------- raw SMTP client ----------------

type wire struct {
	conn net.Conn
	r    *bufio.Reader
	log  []string
	unix bool
}

// ioWatchdog only bounds a stuck socket; its expiry is inconclusive, never a verdict.
const ioWatchdog = 60 * time.Second

// dialWire connects to "tcpaddr|unixpath": TCP first, the unix socket when no
// TCP connection can be made.
func dialWire(addr string) (*wire, error) {
	tcp, unix, _ := strings.Cut(addr, "|")
	var c net.Conn
	var err error
	if tcp != "" {
		c, err = net.DialTimeout("tcp", tcp, ioWatchdog)
	}
	if c == nil {
		c, err = net.DialTimeout("unix", unix, ioWatchdog)
	}
	if err != nil {
		return nil, err
	}
	return &wire{conn: c, r: bufio.NewReader(c), unix: c.RemoteAddr().Network() == "unix"}, nil
}

func (w *wire) read() (int, string, error) {
	w.conn.SetReadDeadline(time.Now().Add(ioWatchdog))
	var text []string
	for {
		line, err := w.r.ReadString('\n')
		if err != nil {
			return 0, "", err
		}
		line = strings.TrimRight(line, "\r\n")
		w.log = append(w.log, "S: "+line)
		if len(line) < 3 {
			return 0, "", fmt.Errorf("short reply line %q", line)
		}
		code, err := strconv.Atoi(line[:3])
		if err != nil {
			return 0, "", fmt.Errorf("bad reply line %q", line)
		}
		if len(line) > 3 {
			text = append(text, line[4:])
		}
		if len(line) == 3 || line[3] == ' ' {
			return code, strings.Join(text, "\n"), nil
		}
	}
}

func (w *wire) send(raw string, logAs string) error {
	w.log = append(w.log, "C: "+logAs)
	w.conn.SetWriteDeadline(time.Now().Add(ioWatchdog))
	_, err := w.conn.Write([]byte(raw))
	return err
}

func (w *wire) cmd(line string) (int, string, error) {
	if err := w.send(line+"\r\n", line); err != nil {
		return 0, "", err
	}
	return w.read()
}

func freePort() (int, error) {
	l, err := net.Listen("tcp", "127.0.0.1:0")
	if err != nil {
		return 0, err
	}
	defer l.Close()
	return l.Addr().(*net.TCPAddr).Port, nil
}

func startEndpoint(kind, cfgText string) (*smtp.Endpoint, string, error) {
	// The endpoint listens on a loopback TCP port and on a unix socket.
	// Ephemeral ports are a resource shared with every other check running on
	// this machine: when none can be had (listening or dialing) the unix
	// socket - same endpoint code - is used instead of giving up.
	dir, err := os.MkdirTemp("", "sock")
	if err != nil {
		return nil, "", err
	}
	path := dir + "/s"
	try := func(urls ...string) (*smtp.Endpoint, error) {
		mod, err := smtp.New(kind, urls)
		if err != nil {
			return nil, err
		}
		if err := mx.InitModule(mod, cfgText, map[string]interface{}{}); err != nil {
			return nil, err
		}
		return mod.(*smtp.Endpoint), nil
	}
	for attempt := 0; attempt < 3 && os.Getenv("VERIF_NO_TCP") == ""; attempt++ { // VERIF_NO_TCP: exercise the fallback
		port, err := freePort()
		if err != nil {
			break
		}
		os.Remove(path)
		addr := fmt.Sprintf("127.0.0.1:%d", port)
		endp, err := try("tcp://"+addr, "unix://"+path)
		if err == nil {
			return endp, addr + "|" + path, nil
		}
		if !strings.Contains(err.Error(), "address already in use") {
			return nil, "", err
		}
	}
	os.Remove(path)
	endp, err := try("unix://" + path)
	if err != nil {
		return nil, "", err
	}
	return endp, "|" + path, nil
}

// closeEndpoint shuts the endpoint down. go-smtp's Server.Close only closes
// listeners whose Serve loop has already registered itself, otherwise
// Endpoint.Close waits forever (known mechanic, see HARNESS_GUIDE): a greeting
// read from each listener proves its loop is accepting. The final watchdog only
// protects the harness (a leaked endpoint is not a verdict).
func closeEndpoint(endp *smtp.Endpoint, addr string) bool {
	tcp, unix, _ := strings.Cut(addr, "|")
	for _, a := range [][2]string{{"tcp", tcp}, {"unix", unix}} {
		if a[1] == "" {
			continue
		}
		if c, err := net.DialTimeout(a[0], a[1], 10*time.Second); err == nil {
			c.SetReadDeadline(time.Now().Add(30 * time.Second))
			bufio.NewReader(c).ReadString('\n')
			c.Close()
		}
	}
	done := make(chan struct{})
	go func() { endp.Close(); close(done) }()
	select {
	case <-done:
		return true
	case <-time.After(60 * time.Second):
		return false
	}
}

// ---------------- group B ----------------

func runE2E(t *testing.T, r *rep.Reporter, c *rep.Case, idx int) {
	p := prng.New(r.Seed(), uint64(idx), "c15-e2e")
	cfg := genConfig(p)
	cfg.e2e = true
	id := fmt.Sprintf("%d_%d", r.Seed(), idx)
	withActions := idx >= groupE
	pfx := "e2e_"
	if withActions {
		// group E: the action directives written out (stream of their own)
		cfg.genActions(prng.New(r.Seed(), uint64(idx), "c15-actions"), idx-groupE)
		pfx = "act_e2e_"
	}

	mem := mx.NewTable("c15tbl_" + id)
	mx.RegisterInstance(mem)
	ptm, err := pass_table.New("auth.pass_table", "c15pt_"+id, nil, nil)
	if err != nil {
		t.Fatalf("harness: %v", err)
	}
	if err := mx.InitModule(ptm, "table &c15tbl_"+id, nil); err != nil {
		t.Fatalf("harness: pass_table init: %v", err)
	}
	pt := ptm.(*pass_table.Auth)
	mx.RegisterInstance(pt)
	passwords := map[string]string{}
	var users []name
	for i, u := range cfg.users {
		pw := fmt.Sprintf("pw-%d", i)
		if err := pt.CreateUserHash(u.canon(), pw, pass_table.HashBcrypt, pass_table.HashOpts{BcryptCost: 4}); err != nil {
			continue // e.g. a name the credentials store does not admit
		}
		passwords[u.canon()] = pw
		users = append(users, u)
	}
	lg := mx.NewLog()
	tgt := mx.NewTarget("c15tgt_"+id, lg)
	mx.RegisterInstance(tgt)

	kind := "submission"
	if p.Chance(1, 4) {
		kind = "smtp" // authentication offered but not required by the endpoint
	}
	if withActions && (cfg.forcedDirective == "unauth_action" || p.Bool()) {
		kind = "smtp" // unauth_action is reachable only where the endpoint itself admits unauthenticated clients
	}
	var b strings.Builder
	fmt.Fprintf(&b, "hostname mx.c15.test\ntls off\nauth &c15pt_%s\n", id)
	if p.Bool() {
		b.WriteString("defer_sender_reject no\n")
	}
	b.WriteString("check {\n    authorize_sender {\n")
	for _, l := range strings.Split(strings.TrimRight(cfg.text, "\n"), "\n") {
		if l != "" {
			b.WriteString("        " + l + "\n")
		}
	}
	b.WriteString("    }\n}\n")
	fmt.Fprintf(&b, "deliver_to &c15tgt_%s\n", id)
	endp, addr, err := startEndpoint(kind, b.String())
	if err != nil {
		t.Fatalf("harness: endpoint init: %v\n%s", err, b.String())
	}
	defer func() {
		if !closeEndpoint(endp, addr) {
			r.Count("endpoint_close_abandoned_by_watchdog", 1)
		}
	}()

	var k tallies
	defer k.flush(r, pfx)
	var accepted, refused, authFailed int64
	nontrivial := false
	var shapes []string

	nconn := p.Range(2, 3)
	for cn := 0; cn < nconn; cn++ {
		user := cfg.pickUser(p, users)
		authenticate := kind == "submission" || !p.Chance(1, 3)
		if withActions && kind == "smtp" && cfg.forcedDirective == "unauth_action" && cn == 0 {
			authenticate = false
		}
		w, err := dialWire(addr)
		if err != nil {
			c.Inconclusive("dial: " + err.Error())
			return
		}
		if w.unix {
			r.Count("e2e_connections_over_unix_socket_fallback", 1)
		}
		fail := func(err error) {
			w.conn.Close()
			c.Inconclusive("wire i/o: " + err.Error())
		}
		if _, _, err := w.read(); err != nil {
			fail(err)
			return
		}
		if _, _, err := w.cmd("EHLO client.c15.test"); err != nil {
			fail(err)
			return
		}
		authUser := ""
		if authenticate {
			sp, _ := user.spell(p)
			if p.Chance(1, 3) {
				sp = user.canon()
			}
			code, _, err := w.cmd("AUTH PLAIN " + b64enc("\x00"+sp+"\x00"+passwords[user.canon()]))
			if err != nil {
				fail(err)
				return
			}
			if code != 235 {
				// Not C15's business (C14 judges authentication); without a
				// session there is nothing to observe here.
				authFailed++
				w.cmd("QUIT")
				w.conn.Close()
				continue
			}
			authUser = sp
		}
		nmsg := p.Range(2, 4)
		for mi := 0; mi < nmsg; mi++ {
			mfEntProb := 18
			if withActions {
				mfEntProb = 13 // more envelope senders the user is not entitled to
			}
			m := cfg.genMessage(p, user, authUser, mfEntProb)
			if m.MFKinds == "malformed" { // not expressible in SMTP syntax
				m.MailFrom, m.MFClass, m.MFKinds, m.MFJudged, m.MFRelation = "", "<>", "null", true, "null-reverse-path"
				for _, v := range cfg.userValues(user.canon()) {
					if v == "*" {
						m.MFJudged = false
					}
				}
			}
			hf := m.headerFacts()
			raw := m.raw()
			start := len(w.log)
			evBefore := lg.Len()
			mailCmd := "MAIL FROM:<" + m.MailFrom + ">"
			utf8 := !isASCII(m.MailFrom)
			if utf8 {
				mailCmd += " SMTPUTF8"
			}
			stage := "mail"
			code, _, err := w.cmd(mailCmd)
			if err == nil && code == 250 {
				stage = "rcpt"
				code, _, err = w.cmd("RCPT TO:<rcpt@dest.test>")
			}
			if err == nil && code == 250 {
				stage = "data"
				code, _, err = w.cmd("DATA")
			}
			if err == nil && code == 354 {
				stage = "eod"
				if err = w.send(raw+"body\r\n.\r\n", "<header+body>"); err == nil {
					code, _, err = w.read()
				}
			}
			if err != nil {
				fail(err)
				return
			}
			ok := stage == "eod" && code == 250
			wireOK := ok
			refusalCode := code
			// what the target saw of this message (sessions and messages of one
			// scenario are strictly sequential; Body and Commit happen before the
			// reply to the final dot is written)
			committed, sawBody, flagged := false, false, false
			for _, e := range lg.Events()[evBefore:] {
				switch {
				case e.Kind == "commit" && e.Err == "":
					committed = true
				case (e.Kind == "body" || e.Kind == "bodyna") && e.Meta != nil:
					sawBody, flagged = true, e.Meta.Quarantine
				}
			}
			if !ok && committed {
				ok = true // refused on the wire but handed to the target: accepted
				stage += "+committed-although-refused"
			}
			if !wireOK {
				if _, _, err := w.cmd("RSET"); err != nil {
					fail(err)
					return
				}
			}
			transcript := append([]string(nil), w.log[start:]...)
			wit := func() any {
				return map[string]any{"endpoint": kind, "config": b.String(), "message": m, "header_text": raw, "header_facts": hf,
					"user_values": cfg.userValues(user.canon()), "transcript": transcript, "target_events": lg.Strings(12),
					"actions": cfg.actsWitness(), "committed_at_target": committed, "quarantine_flag_at_target": flagged}
			}
			k.sender++
			k.body++
			if len(m.From) > 1 {
				k.multiFrom++
				for _, f := range m.From[1:] {
					for _, bx := range f.Boxes {
						if !bx.Entitled {
							k.multiFromForeignLater++
							break
						}
					}
				}
			}
			if ok {
				accepted++
			} else {
				refused++
			}
			// the failing case of this message (first that applies) and the
			// directives whose action can apply to it
			failing, base, what := "", "", ""
			var dirs []string
			switch {
			case !authenticate:
				failing, dirs = "unauthenticated", dirsUnauthMail
				base = "e2e/unauthenticated/accepted/endpoint=" + kind
				what = "a message from an unauthenticated client was accepted by an endpoint using authorize_sender"
			case m.MFJudged && !m.MFEntitled:
				failing, dirs = "mail-from-not-entitled", dirsNoMatch
				base = "e2e/mail-from/accepted-not-entitled/" + m.MFRelation
				what = fmt.Sprintf("message accepted with MAIL FROM %q (class %s) user %q (class %s) is not entitled to", m.MailFrom, m.MFClass, m.AuthUser, m.UserClass)
			case hf.Judged && !hf.Allowed:
				failing, dirs = "foreign-author", dirsNoMatch
				base = "e2e/header/accepted-foreign-author/" + hf.Cause
				what = fmt.Sprintf("message accepted although From carries %d address(es) user %q is not entitled to and no entitled Sender (%s)", hf.ForeignFrom, m.AuthUser, hf.Cause)
			}
			g := "reject"
			if failing != "" {
				g = cfg.govern(dirs...)
			}
			if failing == "unauthenticated" {
				k.unauth++
			}
			count := func(what string) {
				if withActions && failing != "" {
					cfg.countShapes(r.Count, pfx+what+"_", dirs...)
				}
			}
			switch {
			case failing != "" && g == "ignore":
				// the administrator switched the refusal off: acceptance not judged
				count("not_judged")
			case failing != "" && ok && g == "reject":
				if withActions && cfg.customised(dirs...) {
					// cause class: how the governing actions are written (the
					// unchanged groups A-C judge the entitlement relation itself)
					base = "e2e/" + failing + "/accepted-under-reject-action/actions-written=" + cfg.shapeSet(dirs...)
				}
				c.Violation(base, what, wit())
			case failing != "" && ok && !sawBody:
				c.Inconclusive("accepted message without a body event at the target")
			case failing != "" && ok && !flagged:
				c.Violation("e2e/quarantine-action/not-flagged-at-target/"+failing+"/actions-written="+cfg.shapeSet(dirs...),
					what+" and reached the target without the quarantine flag although every action that applies is quarantine or reject", wit())
			case failing != "" && ok:
				nontrivial = true
				count("quarantined_at_target")
				r.Count(pfx+"accepted_quarantined_at_target", 1)
			case failing != "":
				// refused
				nontrivial = true
				if g == "reject" {
					count("refused")
				}
				switch failing {
				case "unauthenticated":
					k.unauthRefused++
				case "mail-from-not-entitled":
					k.senderRejectForeign++
				default:
					k.bodyRejectForeign++
				}
				if withActions {
					custom := false
					for _, d := range actionDirectives {
						if a := cfg.acts[d]; a.Code != 0 && a.Code == refusalCode {
							custom = true
						}
					}
					if custom {
						r.Count(pfx+"refusals_with_a_configured_reply_code_not_judged", 1)
					} else {
						r.Count(pfx+"refusals_with_another_reply_code_not_judged", 1)
					}
				}
			case ok:
				k.bodyPass++
				k.senderPassEntitled++
				nontrivial = true
				if hf.ForeignFrom > 0 {
					k.bodyPassViaSender++
				}
			default:
				k.bodyRejectAllowed++
			}
			shapes = append(shapes, fmt.Sprintf("auth=%v/from=%d/sender=%d/foreign=%v/ok=%v@%s", authenticate, len(m.From), len(m.Sender), hf.ForeignFrom > 0, ok, stage))
			if (idx == groupB || idx == groupE+4) && cn == 0 && mi == 0 {
				r.Sample(map[string]any{"endpoint": kind, "config": b.String(), "transcript": transcript, "header_text": raw, "accepted": ok})
			}
		}
		w.cmd("QUIT")
		w.conn.Close()
	}
	r.Count(pfx+"messages_accepted", accepted)
	r.Count(pfx+"messages_refused", refused)
	r.Count(pfx+"auth_failed_sessions_skipped", authFailed)
	r.Count(pfx+"target_commits", int64(len(lg.Filter(func(e mx.Event) bool { return e.Kind == "commit" }))))
	r.Distinct("e2e_endpoint_kinds", kind)
	grp := "B/"
	if withActions {
		grp = "E/" + cfg.actShape("unauth_action") + "," + cfg.actShape("no_match_action") + "," + cfg.actShape("err_action") + "/"
		for _, d := range actionDirectives {
			r.Count(pfx+"configs_"+d+"_"+cfg.actShape(d), 1)
		}
	}
	c.Done(grp+kind+"/"+cfg.uKind+"/"+cfg.pKind+"/"+strings.Join(shapes, ";"), nontrivial)
}
