//go:build verif

package c15

import (
	"bufio"
	"context"
	"fmt"
	"sort"
	"strings"
	"testing"

	"github.com/emersion/go-message/textproto"
	"github.com/foxcpp/maddy/framework/buffer"
	"github.com/foxcpp/maddy/framework/config"
	"github.com/foxcpp/maddy/framework/module"
	"github.com/foxcpp/maddy/internal/check/authorize_sender"
	"github.com/foxcpp/maddy/internal/zzverif/mx"
	"verifkit/prng"
	"verifkit/rep"
)

// Group F (indices 5_000_000..): SINGLE-VALUED mapping tables and BOUNDARY
// address shapes, called directly (round 8, seeded change C15-w8-1).
//
// (a) user_to_email / prepare_email are tables that implement only Lookup (no
//     LookupMulti): a table module of the harness standing for any third-party
//     table (svTable, referenced from the configuration text as &instance),
//     table.email_localpart and table.email_localpart_optional - beside the
//     multi-valued table.static and table.identity as controls. The users have
//     NO entry, an entry that is the EMPTY STRING, or ordinary entries (an
//     address, a domain, "*", the string "postmaster").
// (b) MAIL FROM and the header author are drawn from the domain-less
//     "postmaster" (the only domain-less mailbox of RFC 5321) in several
//     spellings and from other boundary shapes (empty domain, empty local
//     part, lone at-sign, empty quoted local part, surrounding space) beside
//     ordinary entitled / foreign addresses, under EVERY from_normalize setting
//     (drawn uniformly) and every auth_normalize setting.
//
// Oracle (unchanged in spirit): accepted => the string as sent, brought to the
// documented normal form of from_normalize and through prepare_email, equals a
// value the table holds for the normalised identity, or lies in a domain that
// is a value (a domain-less string lies in NO domain), or a value is "*". A
// user without an entry is entitled to nothing.
const groupF = 5_000_000

// svTable is a table that implements module.Table only.
type svTable struct {
	inst string
	m    map[string]string
}

func (t *svTable) Name() string           { return "c15_single_valued_table" }
func (t *svTable) InstanceName() string   { return t.inst }
func (t *svTable) Init(*config.Map) error { return nil }
func (t *svTable) Lookup(_ context.Context, k string) (string, bool, error) {
	v, ok := t.m[k]
	return v, ok, nil
}

func refSingle(m map[string]string) tref {
	return func(k string) []string {
		if v, ok := m[k]; ok {
			return []string{v}
		}
		return nil
	}
}

var svNormalizers = []string{"auto", "precis_casefold_email", "precis_casefold", "precis_email", "precis", "casefold", "noop"}

type svCfg struct {
	*cfgCase
	single  bool            // user_to_email implements Lookup only
	noEntry map[string]bool // canonical identities without any mapping (by construction)
}

func genConfigSV(p *prng.R, register func(m map[string]string) string) *svCfg {
	c := &svCfg{cfgCase: &cfgCase{tk: true}, noEntry: map[string]bool{}}
	var ls, ds []string
	for _, i := range p.Perm(len(locals))[:4] {
		ls = append(ls, locals[i])
	}
	ds = append(ds, "example.org")
	for _, i := range p.Perm(len(domains)) {
		if domains[i].canon != "example.org" && len(ds) < 3 {
			ds = append(ds, domains[i].canon)
		}
	}
	for _, l := range ls {
		for _, d := range ds {
			c.addrs = append(c.addrs, name{l, d})
		}
	}
	c.decoys = c.addrs
	for _, l := range ls[:3] {
		c.users = append(c.users, name{l, ""}, name{l, prng.Pick(p, ds)})
	}
	kind := p.Weighted([]int{6, 2, 1, 3, 1})
	if kind != 1 && kind != 2 && p.Chance(1, 3) {
		// (email_localpart of the identity "postmaster" is contested: is a
		// domain-less name an address with a local part? - not generated)
		c.users = append(c.users, name{"postmaster", ""})
	}
	last := name{ls[3], ""} // never gets an entry in the written-out tables
	c.users = append(c.users, last)

	// one value for a user: ordinary (address, domain, "*", "postmaster") or ""
	value := func(u name) string {
		switch p.Weighted([]int{6, 2, 1, 1, 2}) {
		case 0:
			if u.domain != "" && p.Bool() {
				return u.canon()
			}
			return prng.Pick(p, c.addrs).canon()
		case 1:
			return prng.Pick(p, ds)
		case 2:
			if p.Chance(1, 3) {
				return "*"
			}
			return prng.Pick(p, ds)
		case 3:
			return "postmaster"
		}
		return ""
	}
	var b strings.Builder
	switch kind {
	case 0:
		c.uKind, c.single = "single-valued-table", true
		m := map[string]string{}
		for _, u := range c.users {
			if u != last && !p.Chance(1, 4) {
				m[u.canon()] = value(u)
			}
		}
		c.uRef = refSingle(m)
		fmt.Fprintf(&b, "user_to_email &%s\n", register(m))
	case 1:
		c.uKind, c.single, c.uRef = "email_localpart", true, refLocalpart(false)
		b.WriteString("user_to_email email_localpart\n")
	case 2:
		c.uKind, c.single, c.uRef = "email_localpart_optional", true, refLocalpart(true)
		b.WriteString("user_to_email email_localpart_optional\n")
	case 3:
		c.uKind = "static"
		m := map[string][]string{}
		b.WriteString("user_to_email static {\n")
		for _, u := range c.users {
			if u == last || p.Chance(1, 4) {
				continue
			}
			for j, n := 0, p.Range(1, 2); j < n; j++ {
				m[u.canon()] = append(m[u.canon()], value(u))
			}
			fmt.Fprintf(&b, "    entry %s %s\n", quote(u.canon()), argList(m[u.canon()]))
		}
		b.WriteString("}\n")
		c.uRef = refMap(m)
	case 4:
		c.uKind = "identity"
		c.uRef = func(k string) []string { return []string{k} }
		if p.Bool() {
			b.WriteString("user_to_email identity\n")
		}
	}
	for _, u := range c.users {
		if len(c.uRef(u.canon())) == 0 {
			c.noEntry[u.canon()] = true
		}
	}
	c.pKind = "identity"
	if p.Chance(1, 4) { // single-valued alias table; the domain-less postmaster may be an alias too
		c.pKind = "single-valued-table"
		m := map[string]string{}
		for j, n := 0, p.Range(1, 3); j < n; j++ {
			m[prng.Pick(p, c.addrs).canon()] = prng.Pick(p, c.addrs).canon()
		}
		if p.Bool() {
			m["postmaster"] = prng.Pick(p, c.addrs).canon()
		}
		c.pRef = refSingle(m)
		fmt.Fprintf(&b, "prepare_email &%s\n", register(m))
	}
	c.authNorm = prng.Pick(p, allNormalizers)
	c.fromNorm = prng.Pick(p, svNormalizers)
	if c.authNorm != "auto" || p.Bool() {
		fmt.Fprintf(&b, "auth_normalize %s\n", c.authNorm)
	}
	if c.fromNorm != "auto" || p.Bool() {
		fmt.Fprintf(&b, "from_normalize %s\n", c.fromNorm)
	}
	c.text = b.String()
	return c
}

// svAddr is one sender / author string of group F.
type svAddr struct {
	Text     string `json:"text"`
	Class    string `json:"class"` // cause class of the shape
	Entitled bool   `json:"entitled"`
	Judged   bool   `json:"judged"`
}

func isDomainlessPostmaster(s string) bool {
	return len(s) == len("postmaster") && strings.ToLower(s) == "postmaster"
}

// genAddr draws one string: boundary shape (kind 0), entitled (1) or foreign (2).
func (c *svCfg) genAddr(p *prng.R, kind int, authUser string, ent, foreign []name) svAddr {
	var a svAddr
	switch {
	case kind == 0 && p.Chance(3, 5):
		a.Class = "domainless-postmaster"
		a.Text = prng.Pick(p, []string{"postmaster", "postmaster", "Postmaster", "POSTMASTER", mixCase(p, "postmaster"), widen("postmaster"), widen("Postmaster")})
	case kind == 0:
		d, l := prng.Pick(p, c.addrs).domain, prng.Pick(p, c.addrs).local
		switch p.Intn(10) {
		case 0:
			a.Text, a.Class = "postmaster@", "empty-domain"
		case 1:
			a.Text, a.Class = l+"@", "empty-domain"
		case 2:
			a.Text, a.Class = "@"+d, "empty-local-part"
		case 3:
			a.Text, a.Class = `""@`+d, "empty-local-part"
		case 4:
			a.Text, a.Class = "@", "empty-local-part"
		case 5:
			a.Text, a.Class = prng.Pick(p, []string{" postmaster", "postmaster ", "postmaster.", "postmaſter", "postmaster@@"}), "near-postmaster"
		case 6:
			a.Text, a.Class = "Postmaster@"+strings.ToUpper(d), "postmaster-in-a-domain"
		case 7:
			a.Text, a.Class = prng.Pick(p, []string{l, d, "*", "*@" + d, l + "@*"}), "bare-word"
		case 8:
			a.Text, a.Class = "", "empty-string"
		default:
			a.Text, a.Class = "postmaster@"+d, "postmaster-in-a-domain"
		}
	default:
		n, isEnt := c.pickAddr(p, ent, foreign, kind == 1)
		a.Text, _ = n.spell(p)
		a.Class = "ordinary-address-of-foreign-class"
		if isEnt {
			a.Class = "ordinary-address-of-entitled-class"
		}
	}
	a.Entitled = c.entitledExact(authUser, a.Text)
	a.Judged = true
	u, _ := docNormalize(c.authNorm, authUser)
	for _, v := range c.userValues(u) {
		f, ok := docNormalize(c.fromNorm, a.Text)
		switch {
		case v == "*" && a.Text == "":
			a.Judged = false // the null reverse-path for a holder of "*" (not judged since round 1)
		case v == "" && !a.Entitled && ok && (isDomainlessPostmaster(f) || f == ""):
			// NOT JUDGED (suspected defect of the unchanged tree, reported): a user whose
			// entitlement VALUE is the empty string may send as the domain-less postmaster,
			// because AuthorizeEmailUse compares the value with the empty domain Split returns.
			// The documentation does not say what an empty value means.
			a.Judged = false
		}
	}
	return a
}

func runSingle(t *testing.T, r *rep.Reporter, c *rep.Case, idx int) {
	p := prng.New(r.Seed(), uint64(idx), "c15-single")
	ntab := 0
	cfg := genConfigSV(p, func(m map[string]string) string {
		ntab++
		tab := &svTable{inst: fmt.Sprintf("c15sv_%d_%d_%d", r.Seed(), idx, ntab), m: m}
		if _, multi := module.Table(tab).(module.MultiTable); multi {
			t.Fatalf("harness: svTable must not implement MultiTable")
		}
		mx.RegisterInstance(tab)
		return tab.inst
	})
	mod, err := authorize_sender.New("check.authorize_sender", fmt.Sprintf("c15chksv_%d_%d", r.Seed(), idx), nil, nil)
	if err != nil {
		t.Fatalf("harness: %v", err)
	}
	if err := mx.InitModule(mod, cfg.text, nil); err != nil {
		t.Fatalf("harness: authorize_sender init: %v\n%s", err, cfg.text)
	}
	chk := mod.(module.Check)
	ctx := context.Background()
	valued := "multi-valued-table"
	if cfg.single {
		valued = "single-valued-table"
	}
	r.Count("sv_configs_user_to_email_"+counterName(cfg.uKind), 1)
	r.Count("sv_configs_prepare_email_"+counterName(cfg.pKind), 1)
	shapes := map[string]bool{}
	nontrivial := false
	for mi := 0; mi < 40; mi++ {
		user := prng.Pick(p, cfg.users)
		authUser, _ := user.spell(p)
		if p.Chance(1, 2) {
			authUser = user.canon()
		}
		uNorm, _ := docNormalize(cfg.authNorm, authUser)
		vals := cfg.userValues(uNorm)
		entState := "user-has-other-entitlements"
		switch {
		case len(vals) == 0:
			entState = "user-has-no-entry"
		case len(vals) == 1 && vals[0] == "":
			entState = "user-has-only-an-empty-value"
		}
		ent, foreign := cfg.partition(user.canon())
		mf := cfg.genAddr(p, p.Weighted([]int{2, 1, 1}), authUser, ent, foreign)
		from := cfg.genAddr(p, p.Weighted([]int{1, 2, 1}), authUser, ent, foreign)
		var sender *svAddr
		if p.Chance(1, 4) {
			s := cfg.genAddr(p, p.Intn(3), authUser, ent, foreign)
			sender = &s
		}
		wrap := func(s string) string {
			switch p.Intn(3) {
			case 0:
				return "<" + s + ">"
			case 1:
				return "Some One <" + s + ">"
			}
			return s
		}
		raw := "From: " + wrap(from.Text) + "\r\n"
		if sender != nil {
			raw += "Sender: " + wrap(sender.Text) + "\r\n"
		}
		raw += "Subject: hello\r\n\r\n"
		hdr, err := textproto.ReadHeader(bufio.NewReader(strings.NewReader(raw)))
		if err != nil {
			t.Fatalf("harness: generated header does not parse: %v\n%q", err, raw)
		}
		meta := &module.MsgMetadata{
			ID:   fmt.Sprintf("c15sv-%d-%d", idx, mi),
			Conn: &module.ConnState{Proto: "ESMTPA", Hostname: "client.test", RemoteAddr: remote, AuthUser: authUser},
		}
		st, err := chk.CheckStateForMsg(ctx, meta)
		if err != nil {
			t.Fatalf("harness: CheckStateForMsg: %v", err)
		}
		rs := st.CheckSender(ctx, mf.Text)
		rb := st.CheckBody(ctx, hdr, buffer.MemoryBuffer{Slice: []byte("body\r\n")})
		st.Close()
		wit := func() any {
			return map[string]any{"config": cfg.text, "auth_user": authUser, "user_class": user.canon(), "user_values": vals,
				"mail_from": mf, "from": from, "sender": sender, "header_text": raw,
				"check_sender": map[string]any{"reject": rs.Reject, "reason": reasonStr(rs)},
				"check_body":   map[string]any{"reject": rb.Reject, "reason": reasonStr(rb)}}
		}
		r.Count("sv_checksender_calls", 1)
		// envelope clause
		switch {
		case !mf.Judged:
			if mf.Text != "" {
				r.Count("sv_not_judged_domainless_sender_for_user_with_empty_value", 1)
			}
		case !rs.Reject && !mf.Entitled:
			c.Violation("mail-from/accepted-not-entitled/"+mf.Class+"/"+entState+"/"+valued,
				fmt.Sprintf("CheckSender passed MAIL FROM %q for user %q (%s, user_to_email %s) who is not entitled to it", mf.Text, authUser, entState, cfg.uKind), wit())
		case !rs.Reject:
			nontrivial = true
			r.Count("sv_checksender_pass_entitled", 1)
			if mf.Class == "domainless-postmaster" {
				r.Count("sv_domainless_postmaster_accepted_for_entitled_user", 1)
			}
		case !mf.Entitled:
			nontrivial = true
			r.Count("sv_checksender_reject_not_entitled", 1)
			if mf.Class == "domainless-postmaster" {
				r.Count("sv_domainless_postmaster_refused_"+strings.ReplaceAll(entState, "-", "_")+"_"+strings.ReplaceAll(valued, "-", "_"), 1)
				if entState == "user-has-no-entry" && cfg.single {
					r.Count("sv_domainless_postmaster_refused_no_entry_single_valued_from_normalize_"+cfg.fromNorm, 1)
				}
			} else if strings.HasPrefix(mf.Class, "empty-") || mf.Class == "near-postmaster" || mf.Class == "bare-word" {
				r.Count("sv_boundary_shape_refused_"+strings.ReplaceAll(mf.Class, "-", "_"), 1)
			}
		default:
			r.Count("sv_checksender_reject_entitled_not_judged", 1)
		}
		// header clause: the From author entitled, or the Sender entitled
		allowed := from.Entitled || (sender != nil && sender.Entitled)
		hdrJudged := from.Judged && (sender == nil || sender.Judged)
		switch {
		case !hdrJudged:
			r.Count("sv_header_not_judged", 1)
		case !rb.Reject && !allowed:
			c.Violation("header/accepted-foreign-author/"+from.Class+"/"+entState+"/"+valued,
				fmt.Sprintf("CheckBody passed From %q (Sender %v) for user %q (%s) who is entitled to neither", from.Text, sender, authUser, entState), wit())
		case !rb.Reject:
			nontrivial = true
			r.Count("sv_checkbody_pass_allowed", 1)
		case !allowed:
			nontrivial = true
			r.Count("sv_checkbody_reject_foreign_author", 1)
			if !strings.HasPrefix(from.Class, "ordinary-") {
				r.Count("sv_checkbody_reject_boundary_shape_author", 1)
			}
		default:
			r.Count("sv_checkbody_reject_allowed_not_judged", 1)
		}
		shapes[fmt.Sprintf("%s/%s/mf=%s,%v/from=%s,%v", entState, valued, mf.Class, !rs.Reject, from.Class, !rb.Reject)] = true
		r.Distinct("sv_sender_shapes", mf.Class+" under from_normalize="+cfg.fromNorm)
		if idx == groupF && mi < 3 {
			r.Sample(map[string]any{"config": cfg.text, "auth_user": authUser, "mail_from": mf, "header_text": raw, "sender_pass": !rs.Reject, "body_pass": !rb.Reject})
		}
	}
	r.Distinct("table_kinds", "user_to_email="+cfg.uKind+" prepare_email="+cfg.pKind)
	r.Distinct("normalizers", "auth="+cfg.authNorm+" from="+cfg.fromNorm)
	var ss []string
	for s := range shapes {
		ss = append(ss, s)
	}
	sort.Strings(ss)
	c.Done("F/"+cfg.uKind+"/"+cfg.pKind+"/"+cfg.authNorm+"/"+cfg.fromNorm+"/"+strings.Join(ss, ";"), nontrivial)
}
