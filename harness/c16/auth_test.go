//go:build verif

package c16

// AUTH layer: failures of the SASL exchange reported by a real smtp / submission
// endpoint with authentication configured. The providers (and the auth_map table)
// are scripted; a raw client runs the exchange and reads the final reply.
//
// Judged on the reply to every failed exchange: (a) basic and enhanced code of one
// class, (d) ASCII only (SMTPUTF8 cannot be negotiated before MAIL); for failures
// whose nature is known and which maddy words itself (credentials refused by every
// provider / by auth_map / by the authzid rule = permanent; every provider failing
// temporarily = temporary): (b) the class of the reply agrees with that nature; for
// provider / table errors without SMTP annotation: (c) none of their text shows in
// the reply. Replies the go-smtp library words itself (malformed base64, cancelled
// exchange, a malformed PLAIN message refused by go-sasl, an unsupported mechanism)
// are judged for (a) and (d) only.

import (
	"context"
	"encoding/base64"
	"errors"
	"fmt"
	"os"
	"path/filepath"
	"strings"
	"sync"
	"testing"
	"time"

	"github.com/foxcpp/maddy/framework/config"
	"github.com/foxcpp/maddy/framework/exterrors"
	"github.com/foxcpp/maddy/framework/module"
	smtpendp "github.com/foxcpp/maddy/internal/endpoint/smtp"
	"github.com/foxcpp/maddy/internal/zzverif/mx"
	"verifkit"
	"verifkit/prng"
	"verifkit/rep"
)

const exchangesPerAuthCase = 24

// provOutcome: what one scripted provider answers in the current exchange.
type provOutcome struct {
	Kind  string `json:"kind"` // accept refused refused-text temporary temporary-net internal chain
	Chain *chain `json:"chain,omitempty"`
	// model: nature of the failure ("" = accepts, "perm", "temp", "contested")
	Nature    string   `json:"nature"`
	Annotated bool     `json:"annotated,omitempty"`
	Tokens    []string `json:"-"`
	err       error
}

type scriptAuth struct {
	name string
	rig  *authRig
	idx  int
}

func (a *scriptAuth) Name() string           { return "verif_auth" }
func (a *scriptAuth) InstanceName() string   { return a.name }
func (a *scriptAuth) Init(*config.Map) error { return nil }
func (a *scriptAuth) AuthPlain(user, password string) error {
	a.rig.mu.Lock()
	defer a.rig.mu.Unlock()
	a.rig.calls++
	if a.rig.cur == nil || a.idx >= len(a.rig.cur) {
		return module.ErrUnknownCredentials
	}
	return a.rig.cur[a.idx].err
}

// scriptTable is the auth_map of the endpoint: whatever key it is asked for, it
// answers what the current exchange scripts.
type scriptTable struct {
	name string
	rig  *authRig
}

func (s *scriptTable) Name() string           { return "verif_table" }
func (s *scriptTable) InstanceName() string   { return s.name }
func (s *scriptTable) Init(*config.Map) error { return nil }
func (s *scriptTable) Lookup(ctx context.Context, key string) (string, bool, error) {
	s.rig.mu.Lock()
	defer s.rig.mu.Unlock()
	switch {
	case s.rig.tableErr != nil:
		return "", false, s.rig.tableErr
	case s.rig.tableMiss:
		return "", false, nil
	}
	return "mapped-" + key, true, nil
}

type authRig struct {
	mu        sync.Mutex
	cur       []provOutcome
	calls     int
	tableErr  error
	tableMiss bool

	addr  string
	endp  module.Module
	table *scriptTable
}

var authRigSeq int

func newAuthRig(kind string, nProv int, login, withMap bool) (*authRig, error) {
	authRigSeq++
	w := &authRig{}
	suffix := fmt.Sprintf("%d_%d", authRigSeq, time.Now().UnixNano()%1000000)
	lg := mx.NewLog()
	tgt := mx.NewTarget("c16atgt_"+suffix, lg)
	mx.RegisterInstance(tgt)
	cfg := "hostname mx.example.org\ntls off\n"
	for i := 0; i < nProv; i++ {
		au := &scriptAuth{name: fmt.Sprintf("c16aprov%d_%s", i, suffix), rig: w, idx: i}
		mx.RegisterInstance(au)
		cfg += "auth &" + au.name + "\n"
	}
	if login {
		cfg += "sasl_login yes\n"
	}
	if withMap {
		w.table = &scriptTable{name: "c16atab_" + suffix, rig: w}
		mx.RegisterInstance(w.table)
		cfg += "auth_map &" + w.table.name + "\n"
	}
	cfg += "default_destination {\n  deliver_to &" + tgt.InstName + "\n}\n"
	w.addr = filepath.Join(os.TempDir(), fmt.Sprintf("c16a-%d-%d.sock", os.Getpid(), authRigSeq))
	os.Remove(w.addr)
	endp, err := smtpendp.New(kind, []string{"unix://" + w.addr})
	if err != nil {
		return nil, err
	}
	if err := mx.InitModule(endp, cfg, map[string]interface{}{}); err != nil {
		return nil, err
	}
	w.endp = endp
	return w, nil
}

func (w *authRig) close() {
	if c, _, err := dial(w.addr); err == nil {
		c.cmd("QUIT")
		c.close()
	}
	if c, ok := w.endp.(closer); ok {
		done := make(chan struct{})
		go func() { c.Close(); close(done) }()
		select {
		case <-done:
		case <-time.After(30 * time.Second):
		}
	}
	os.Remove(w.addr)
}

// genProvFailure draws one failing provider answer. want: "" any, "perm", "temp".
func genProvFailure(p *prng.R, want string) provOutcome {
	for {
		var o provOutcome
		switch p.Intn(8) {
		case 0:
			o = provOutcome{Kind: "refused", Nature: "perm", err: module.ErrUnknownCredentials}
		case 1:
			tok := secretToken(p)
			o = provOutcome{Kind: "refused-text", Nature: "perm", Tokens: []string{tok},
				err: exterrors.WithTemporary(errors.New("wrong password for account "+tok+" in /var/lib/internal.example/passwd"), false)}
		case 2:
			tok := secretToken(p)
			o = provOutcome{Kind: "temporary", Nature: "temp", Tokens: []string{tok},
				err: exterrors.WithTemporary(errors.New("backend "+tok+".internal.example (10.1.2.3) is down"), true)}
		case 3:
			ch := &chain{Nodes: []node{{Kind: "operr", Text: secretToken(p)}, {Kind: "dnserr", Temp: true, Text: secretToken(p)}}}
			ch.model()
			o = provOutcome{Kind: "temporary-net", Nature: "temp", Chain: ch, Tokens: ch.Tokens, err: ch.build()}
		case 4:
			// no SMTP annotation, no Temporary method: the documented default of the
			// endpoint (exterrors.IsTemporary) is permanent
			tok := secretToken(p)
			o = provOutcome{Kind: "internal", Nature: "perm", Tokens: []string{tok},
				err: fmt.Errorf("sql: query %s failed on db.internal.example: %w", tok, errors.New("pq: relation does not exist"))}
		default:
			group := "consistent"
			if p.Chance(1, 4) {
				group = "conflicting"
			}
			ch := genGroup(p, group)
			o = provOutcome{Kind: "chain", Chain: ch, Annotated: ch.Annotated, err: ch.build()}
			switch {
			case group == "conflicting":
				o.Nature = "contested"
			case ch.temporary():
				o.Nature = "temp"
			default:
				o.Nature = "perm"
			}
			if !ch.Annotated {
				o.Tokens = ch.Tokens
			}
		}
		if want == "" || o.Nature == want {
			return o
		}
	}
}

type authObs struct {
	Endpoint  string        `json:"endpoint"`
	Scenario  string        `json:"scenario"`
	Mech      string        `json:"mechanism"`
	InitResp  bool          `json:"initial_response"`
	Lines     []string      `json:"client_lines"`
	Providers []provOutcome `json:"providers,omitempty"`
	Table     string        `json:"auth_map,omitempty"`
	Nature    string        `json:"nature"`
	Replies   []string      `json:"replies"`
}

func b64(s string) string {
	if s == "" {
		return "="
	}
	return base64.StdEncoding.EncodeToString([]byte(s))
}

var authScenarios = []string{
	"provider-failure", "provider-failure", "provider-failure", "provider-failure", "provider-failure", "provider-failure",
	"provider-failure", "provider-failure", "provider-failure", "provider-failure",
	"table-miss", "table-temporary-error", "table-internal-error",
	"authzid-mismatch", "authzid-mismatch",
	"odd-username", "empty-credentials",
	"malformed-base64", "malformed-plain", "cancelled", "unsupported-mechanism",
	"accepted",
}

func runAuthCase(t *testing.T, r *rep.Reporter, c *rep.Case, ci int) {
	p := prng.New(r.Seed(), uint64(ci), "c16-auth")
	kind := prng.Pick(p, []string{"smtp", "submission"})
	nProv := prng.Pick(p, []int{1, 1, 2, 3})
	login := p.Chance(2, 3)
	withMap := p.Chance(1, 3)
	verifkit.ResetSMTPErrorObservations()
	resetInjected()
	var rig *authRig
	var err error
	for try := 0; try < 5; try++ {
		if rig, err = newAuthRig(kind, nProv, login, withMap); err == nil {
			break
		}
		time.Sleep(50 * time.Millisecond)
	}
	if err != nil {
		c.Inconclusive("cannot build the endpoint: " + err.Error())
		c.Done("no-endpoint", false)
		return
	}
	defer rig.close()
	epName := fmt.Sprintf("%s/providers=%d", kind, nProv)
	if login {
		epName += "/login"
	}
	if withMap {
		epName += "/auth_map"
	}
	shapes := map[string]bool{}
	judged := 0

	for k := 0; k < exchangesPerAuthCase; k++ {
		scen := prng.Pick(p, authScenarios)
		if strings.HasPrefix(scen, "table-") && !withMap {
			scen = "provider-failure"
		}
		mech := prng.Pick(p, []string{"PLAIN", "PLAIN", "PLAIN", "PLAIN", "LOGIN", "LOGIN", "LOGIN"})
		if scen == "authzid-mismatch" || scen == "malformed-plain" {
			mech = "PLAIN"
		}
		if scen == "unsupported-mechanism" {
			mech = prng.Pick(p, []string{"CRAM-MD5", "XOAUTH2", "LOGIN", "GSSAPI", "PLAIN-CLIENTTOKEN"})
			if mech == "LOGIN" && login {
				mech = "SCRAM-SHA-256"
			}
		} else if mech == "LOGIN" && !login {
			scen = "unsupported-mechanism"
		}
		ir := p.Bool()
		if scen == "cancelled" {
			ir = false
		}
		user := fmt.Sprintf("u%dx%d@example.org", ci, k)
		pass := "pw-" + fmt.Sprint(p.Intn(100000))
		authzid := ""
		if mech == "PLAIN" && p.Chance(1, 3) {
			authzid = user
		}
		ob := authObs{Endpoint: epName, Mech: mech, InitResp: ir}

		// ---- what the providers and the table answer, and the nature of the outcome
		var provs []provOutcome
		nature := "" // "" = not maddy's to decide / not judged; perm; temp; contested; accepted
		var tokens []string
		wellFormed := false
		switch scen {
		case "provider-failure":
			wellFormed = true
			want := prng.Pick(p, []string{"", "", "perm", "temp"})
			for i := 0; i < nProv; i++ {
				provs = append(provs, genProvFailure(p, want))
			}
			nature = provs[0].Nature
			for _, o := range provs {
				if o.Nature != nature {
					nature = "mixed"
				}
				tokens = append(tokens, o.Tokens...)
			}
		case "accepted":
			wellFormed = true
			acc := p.Intn(nProv)
			for i := 0; i < nProv; i++ {
				if i == acc {
					provs = append(provs, provOutcome{Kind: "accept"})
				} else {
					provs = append(provs, genProvFailure(p, ""))
				}
			}
			nature = "accepted"
		case "table-miss", "table-temporary-error", "table-internal-error":
			wellFormed = true
			for i := 0; i < nProv; i++ {
				provs = append(provs, provOutcome{Kind: "accept"}) // never asked
			}
			nature = "perm"
			if scen == "table-temporary-error" {
				nature = "temp"
			}
		case "authzid-mismatch":
			wellFormed = true
			authzid = prng.Pick(p, []string{"admin@example.org", "postmaster", user + "x", "U" + user[1:]})
			for i := 0; i < nProv; i++ {
				provs = append(provs, provOutcome{Kind: "accept"}) // never asked: refused by the identity rule
			}
			nature = "perm"
		case "odd-username", "empty-credentials":
			wellFormed = true
			if scen == "odd-username" {
				user = prng.Pick(p, []string{"почта@пример.рф", "us\u0080er@example.org", "user\xff\xfe@example.org", strings.Repeat("a", 3000) + "@example.org", "\"quoted user\"@example.org", "Ⅷuser", "a b c", "user@@example.org"})
			} else {
				switch p.Intn(3) {
				case 0:
					user = ""
				case 1:
					pass = ""
				default:
					user, pass = "", ""
				}
			}
			if authzid != "" {
				authzid = user
			}
			// whether normalisation or auth_map accept such a name is not modelled:
			// every provider refuses, so the outcome is a refusal in any case
			for i := 0; i < nProv; i++ {
				provs = append(provs, genProvFailure(p, "perm"))
				tokens = append(tokens, provs[i].Tokens...)
			}
			nature = "perm"
		default:
			// protocol-level scenarios: providers would refuse if they were asked
			for i := 0; i < nProv; i++ {
				provs = append(provs, provOutcome{Kind: "refused", Nature: "perm", err: module.ErrUnknownCredentials})
			}
		}
		tableNote := ""
		var tableErr error
		tableMiss := false
		if withMap {
			switch scen {
			case "table-miss":
				tableMiss = true
				tableNote = "no entry"
			case "table-temporary-error":
				tok := secretToken(p)
				tokens = append(tokens, tok)
				tableErr = exterrors.WithTemporary(errors.New("table backend "+tok+".internal.example timed out"), true)
				tableNote = "temporary lookup error"
			case "table-internal-error":
				tok := secretToken(p)
				tokens = append(tokens, tok)
				tableErr = errors.New("sql: table auth_map_" + tok + " is corrupted on db.internal.example")
				tableNote = "lookup error without annotation"
			default:
				tableNote = "mapped"
			}
		}
		ob.Providers, ob.Table = provs, tableNote

		// ---- the client's lines
		var lines []string
		switch mech {
		case "LOGIN":
			if ir {
				lines = []string{"AUTH LOGIN " + b64(user), b64(pass)}
			} else {
				lines = []string{"AUTH LOGIN", b64(user), b64(pass)}
			}
		case "PLAIN":
			msg := authzid + "\x00" + user + "\x00" + pass
			if scen == "malformed-plain" {
				msg = prng.Pick(p, []string{user + "\x00" + pass, "no separators at all", "a\x00b\x00c\x00d", "", "\x00", user})
			}
			if ir {
				lines = []string{"AUTH PLAIN " + b64(msg)}
			} else {
				lines = []string{"AUTH PLAIN", b64(msg)}
			}
		default:
			lines = []string{"AUTH " + mech}
			if ir {
				lines[0] += " " + b64("\x00"+user+"\x00"+pass)
			}
		}
		if p.Chance(1, 8) {
			lines[0] = strings.ToLower(lines[0][:len("AUTH "+mech)]) + lines[0][len("AUTH "+mech):]
		}
		switch scen {
		case "malformed-base64":
			bad := prng.Pick(p, []string{"!!!not-base64!!!", "YWJj*", "YWJjZA", "=YWJj", "YW Jj", "ümläut"})
			// a line that carries base64: the initial response or a continuation
			at := p.Intn(len(lines)) // 0 = the initial response
			if at == 0 && !ir {
				at = 1 // without initial response there are at least two lines
			}
			if at == 0 {
				f := strings.Fields(lines[0])
				lines = []string{f[0] + " " + f[1] + " " + strings.ReplaceAll(bad, " ", "*")}
			} else {
				lines = append(lines[:at], bad)
			}
		case "cancelled":
			at := 1
			if mech == "LOGIN" && p.Bool() {
				at = 2
			}
			lines = append(lines[:at], "*")
		}
		ob.Scenario, ob.Lines, ob.Nature = scen, lines, nature

		// ---- run the exchange on a fresh connection
		rig.mu.Lock()
		rig.cur = provs
		rig.calls = 0
		rig.tableErr, rig.tableMiss = tableErr, tableMiss
		rig.mu.Unlock()
		var rp, mailRp reply
		haveMail := false
		followMail := kind == "submission" && p.Chance(1, 3)
		run := func() error {
			cl, g, err := dial(rig.addr)
			if err != nil {
				return fmt.Errorf("dial: %v (%s)", err, g)
			}
			defer cl.close()
			x, err := cl.cmd("EHLO client.example")
			if err != nil {
				return err
			}
			if x.Code != 250 {
				return fmt.Errorf("EHLO refused: %s", x)
			}
			ob.Replies = nil
			for i, l := range lines {
				x, err = cl.cmd(l)
				if err != nil {
					return err
				}
				ob.Replies = append(ob.Replies, x.String())
				rp = x
				if x.Code != 334 {
					break
				}
				if i == len(lines)-1 {
					// the server wants more than the mechanism defines
					cl.cmd("*")
				}
			}
			haveMail = false
			if followMail && rp.Code/100 >= 4 {
				// the session is still unauthenticated: a submission endpoint refuses MAIL
				// (the connection may be gone after a protocol error; then there is no reply)
				if x, err := cl.cmd("MAIL FROM:<sender@example.org>"); err == nil {
					mailRp, haveMail = x, true
				}
			}
			return nil
		}
		err := run()
		if err != nil {
			err = run() // environment hiccup: once more
		}
		if err != nil {
			c.Inconclusive(fmt.Sprintf("AUTH dialogue failed (%v) in scenario %s", err, scen))
			continue
		}
		r.Count("auth_exchanges", 1)
		r.Count("auth_exchanges/"+scen, 1)
		r.Distinct("auth_replies", fmt.Sprintf("%s/%s -> %d %d.%d.%d %s", scen, nature, rp.Code, rp.Enh[0], rp.Enh[1], rp.Enh[2], rp.Text))
		if judged == 0 {
			r.Sample(ob)
		}
		if rp.Code == 235 {
			if nature != "accepted" {
				c.Inconclusive(fmt.Sprintf("scenario %s: a failure was expected, the exchange succeeded: %v", scen, ob.Replies))
			} else {
				r.Count("auth_accepted(contrast)", 1)
			}
			continue
		}
		if rp.Code/100 != 4 && rp.Code/100 != 5 {
			c.Inconclusive(fmt.Sprintf("scenario %s: exchange ended with %q", scen, rp))
			continue
		}
		if nature == "accepted" {
			c.Inconclusive(fmt.Sprintf("scenario %s: success was expected, got %q", scen, rp))
			continue
		}
		judged++
		r.Count("auth_failure_replies", 1)
		mechClass := mech
		if scen == "unsupported-mechanism" {
			mechClass = "other"
		}
		// (a) classes agree
		if !rp.HasEnh {
			c.Violation("auth/no-enhanced-code/"+scen, fmt.Sprintf("reply %q carries no enhanced status code", rp), ob)
		} else if rp.Enh[0] != rp.Code/100 {
			c.Violation("auth/class-mismatch/"+scen, fmt.Sprintf("reply %q: basic code class %d, enhanced code class %d", rp, rp.Code/100, rp.Enh[0]), ob)
		}
		// (b) class agrees with the nature of the failure
		switch nature {
		case "perm":
			r.Count("auth_judged_nature/credentials-refused", 1)
			r.Count("auth_judged_nature/credentials-refused/"+mechClass, 1)
			if rp.Code/100 != 5 {
				c.Violation("auth/class-vs-nature/credentials-refused-answered-4yz/"+scen, fmt.Sprintf("the credentials were refused (permanent: the same credentials will be refused again) but the reply is %q", rp), ob)
			}
		case "temp":
			r.Count("auth_judged_nature/temporary-failure", 1)
			r.Count("auth_judged_nature/temporary-failure/"+mechClass, 1)
			if rp.Code/100 != 4 {
				c.Violation("auth/class-vs-nature/temporary-failure-answered-5yz/"+scen, fmt.Sprintf("the credentials could not be checked (temporary failure of every provider / of auth_map) but the reply is %q", rp), ob)
			}
		case "mixed":
			r.Count("auth_providers_disagree_in_nature(not judged)", 1)
		case "contested":
			r.Count("auth_conflicting_chain(not judged)", 1)
		default:
			r.Count("auth_library_worded_reply(class-vs-nature not judged)", 1)
		}
		// (c) no internal detail of errors without annotation
		if len(tokens) > 0 {
			r.Count("auth_unannotated_failures", 1)
			leaked := false
			for _, tok := range tokens {
				if strings.Contains(string(rp.Raw), tok) {
					leaked = true
				}
			}
			if strings.Contains(string(rp.Raw), "internal.example") || strings.Contains(string(rp.Raw), "10.0.0.53") || strings.Contains(string(rp.Raw), "10.1.2.3") {
				leaked = true
			}
			if leaked {
				c.Violation("auth/generic-text/detail-disclosed/"+scen, fmt.Sprintf("reply %q contains text of a provider / table error without SMTP annotation", rp), ob)
			}
		}
		// (d) ASCII only: SMTPUTF8 is a MAIL parameter, it cannot have been negotiated
		if hasHigh(rp.Raw) {
			c.Violation("auth/non-ascii-reply-without-smtputf8/"+scen, fmt.Sprintf("reply %q contains bytes >= 0x80", rp), ob)
		}
		// the reply to MAIL on the still unauthenticated submission session
		if haveMail {
			r.Count("auth_mail_after_failed_exchange", 1)
			r.Distinct("auth_mail_after_failed_exchange_replies", fmt.Sprintf("%d %d.%d.%d %s", mailRp.Code, mailRp.Enh[0], mailRp.Enh[1], mailRp.Enh[2], mailRp.Text))
			if mailRp.Code/100 == 4 || mailRp.Code/100 == 5 {
				mob := ob
				mob.Replies = append(append([]string(nil), ob.Replies...), "MAIL: "+mailRp.String())
				if !mailRp.HasEnh {
					c.Violation("auth/no-enhanced-code/mail-after-failed-exchange", fmt.Sprintf("reply %q carries no enhanced status code", mailRp), mob)
				} else if mailRp.Enh[0] != mailRp.Code/100 {
					c.Violation("auth/class-mismatch/mail-after-failed-exchange", fmt.Sprintf("reply %q: basic code class %d, enhanced code class %d", mailRp, mailRp.Code/100, mailRp.Enh[0]), mob)
				}
				if hasHigh(mailRp.Raw) {
					c.Violation("auth/non-ascii-reply-without-smtputf8/mail-after-failed-exchange", fmt.Sprintf("reply %q contains bytes >= 0x80", mailRp), mob)
				}
			} else {
				// MAIL accepted without authentication: not a reply-coherence matter
				r.Count("auth_mail_accepted_after_failed_exchange(not judged)", 1)
			}
		}
		shape := scen + "/" + mechClass + "/" + nature
		if ir {
			shape += "/ir"
		}
		for _, o := range provs {
			if o.Kind != "accept" && wellFormed {
				shape += "/" + o.Kind
				if o.Chain != nil {
					shape += ":" + o.Chain.shape()
				}
			}
		}
		shapes[shape] = true
		r.Distinct("auth_paths", epName+"/"+scen+"/"+mechClass)
	}

	judgeObserver(r, c, "auth")
	var sh []string
	for s := range shapes {
		sh = append(sh, s)
	}
	for _, s := range sh {
		r.Eval(0, "auth/"+s)
	}
	c.Done(fmt.Sprintf("auth/%s/%d", epName, len(sh)), judged > 0)
}
