//go:build verif

// C16 — error replies are coherent: basic and enhanced code classes agree and
// match the retry behaviour; generic text for failures without SMTP
// annotation; ASCII-only replies without SMTPUTF8.
// See DESIGN.md section 5, C16 and NOTES.md in this directory.
package c16

import (
	"fmt"
	"testing"

	mlog "github.com/foxcpp/maddy/framework/log"
	"github.com/foxcpp/maddy/internal/target/queue"
	"verifkit/rep"
)

// Index ranges: wire cases from 0, queue cases from 1_000_000, remote-layer
// cases (queue 1_500_000, endpoint 1_700_000, remote-MX 1_800_000, mixed-MX worlds
// 1_850_000), AUTH cases from 1_900_000, helper-law batches from 2_000_000, the
// literal census is case 3_000_000.
const (
	wireBase    = 0
	queueBase   = 1_000_000
	remoteQBase = 1_500_000
	remoteWBase = 1_700_000
	remoteMXBase = 1_800_000
	mixedMXBase  = 1_850_000
	authBase     = 1_900_000
	lawBase     = 2_000_000
	censusCase  = 3_000_000
)

func TestVerif(t *testing.T) {
	r := rep.Open("C16")
	defer r.Close()
	queue.VerifSetDontRecover(false)
	mlog.DefaultLogger.Out = mlog.NopOutput{}

	nWire := r.N(600, 10000)  // x 30 chains
	nQueue := r.N(3000, 60000) // 1..4 recipients x up to 3 attempts
	nLaw := r.N(120, 1500)     // x 500 chains
	for i := 0; i < nWire; i++ {
		r.Run(wireBase+i, fmt.Sprintf("wire-%d", i), func(c *rep.Case) { runWireCase(t, r, c, wireBase+i) })
	}
	for i := 0; i < nQueue; i++ {
		r.Run(queueBase+i, fmt.Sprintf("queue-%d", i), func(c *rep.Case) { runQueueCase(t, r, c, queueBase+i) })
	}
	// Every remote transaction is a TCP connection whose closing side stays in
	// TIME_WAIT for a minute; 70 000 of them in 2.5 minutes exhausted the
	// ephemeral ports of the machine (bind :0 failed for 3 000 cases), hence the
	// moderate thorough size of this layer.
	nRemoteQ := r.N(1200, 8000)
	nRemoteW := r.N(300, 2000) // x 6 transactions
	for i := 0; i < nRemoteQ; i++ {
		r.Run(remoteQBase+i, fmt.Sprintf("remote-queue-%d", i), func(c *rep.Case) { runRemoteQueueCase(t, r, c, remoteQBase+i) })
	}
	for i := 0; i < nRemoteW; i++ {
		r.Run(remoteWBase+i, fmt.Sprintf("remote-wire-%d", i), func(c *rep.Case) { runRemoteWireCase(t, r, c, remoteWBase+i) })
	}
	// remote-MX layer: failures target.remote produces itself; every world of the
	// fixed table is visited equally often (world = index mod table size)
	nRemoteMX := r.N(len(mxWorlds)*8, len(mxWorlds)*80)
	for i := 0; i < nRemoteMX; i++ {
		r.Run(remoteMXBase+i, fmt.Sprintf("remote-mx-%d", i), func(c *rep.Case) { runRemoteMXCase(t, r, c, remoteMXBase+i) })
	}
	// mixed-MX worlds of the remote-MX layer: 2-3 MX records, each failing in its own way
	nMixedMX := r.N(mixedMXSlots*2, mixedMXSlots*20)
	for i := 0; i < nMixedMX; i++ {
		r.Run(mixedMXBase+i, fmt.Sprintf("mixed-mx-%d", i), func(c *rep.Case) { runMixedMXCase(t, r, c, mixedMXBase+i) })
	}
	// AUTH layer: failed SASL exchanges at an endpoint with authentication configured
	nAuth := r.N(120, 1500) // x 24 exchanges
	for i := 0; i < nAuth; i++ {
		r.Run(authBase+i, fmt.Sprintf("auth-%d", i), func(c *rep.Case) { runAuthCase(t, r, c, authBase+i) })
	}
	for i := 0; i < nLaw; i++ {
		r.Run(lawBase+i, fmt.Sprintf("law-%d", i), func(c *rep.Case) { runLawCase(r, c, lawBase+i) })
	}
	r.Run(censusCase, "census", func(c *rep.Case) { runCensus(t, r, c) })
}
