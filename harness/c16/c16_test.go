//go:build verif

// C16 — error replies are coherent: basic and enhanced code classes agree and
// match the retry behaviour; generic text for failures without SMTP
// annotation; ASCII-only replies without SMTPUTF8.
// See DESIGN.md section 5, C16 and NOTES.md in this directory.
package c16

import (
	"fmt"
	"testing"

	mlog "github.com/foxcpp/maddy/framework/log"
	"github.com/foxcpp/maddy/internal/target/queue"
	"verifkit/rep"
)

// Index ranges: wire cases from 0, queue cases from 1_000_000, helper-law
// batches from 2_000_000, the literal census is case 3_000_000.
const (
	wireBase   = 0
	queueBase  = 1_000_000
	lawBase    = 2_000_000
	censusCase = 3_000_000
)

func TestVerif(t *testing.T) {
	r := rep.Open("C16")
	defer r.Close()
	queue.VerifSetDontRecover(false)
	mlog.DefaultLogger.Out = mlog.NopOutput{}

	nWire := r.N(100, 10000)  // x 30 chains
	nQueue := r.N(600, 60000) // 1..4 recipients x up to 3 attempts
	nLaw := r.N(20, 1500)     // x 500 chains
	for i := 0; i < nWire; i++ {
		r.Run(wireBase+i, fmt.Sprintf("wire-%d", i), func(c *rep.Case) { runWireCase(t, r, c, wireBase+i) })
	}
	for i := 0; i < nQueue; i++ {
		r.Run(queueBase+i, fmt.Sprintf("queue-%d", i), func(c *rep.Case) { runQueueCase(t, r, c, queueBase+i) })
	}
	for i := 0; i < nLaw; i++ {
		r.Run(lawBase+i, fmt.Sprintf("law-%d", i), func(c *rep.Case) { runLawCase(r, c, lawBase+i) })
	}
	r.Run(censusCase, "census", func(c *rep.Case) { runCensus(t, r, c) })
}
