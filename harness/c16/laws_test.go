//go:build verif

package c16

// Helper laws on generated chains, the passive SMTPError observer, and the
// census of SMTP error literals in the source tree.

import (
	"fmt"
	"go/ast"
	"go/parser"
	"go/token"
	"os"
	"path/filepath"
	"sort"
	"strconv"
	"strings"
	"sync"
	"testing"

	"github.com/foxcpp/maddy/framework/exterrors"
	"verifkit"
	"verifkit/prng"
	"verifkit/rep"
)

// ---------------------------------------------------------------- helper laws

const chainsPerLawCase = 500

type lawObs struct {
	Chain  *chain `json:"chain"`
	Args   string `json:"args"`
	Result string `json:"result"`
}

func runLawCase(r *rep.Reporter, c *rep.Case, ci int) {
	p := prng.New(r.Seed(), uint64(ci), "c16-law")
	shapes := map[string]bool{}
	for k := 0; k < chainsPerLawCase; k++ {
		g := "consistent"
		if p.Chance(3, 10) {
			g = "conflicting"
		}
		ch := genGroup(p, g)
		err := ch.build()
		tc := prng.Pick(p, tempCodes)
		pc := prng.Pick(p, permCodes)
		base := exterrors.EnhancedCode{p.Intn(6), p.Intn(8), p.Intn(30)}
		code := exterrors.SMTPCode(err, tc.code, pc.code)
		enh := exterrors.SMTPEnchCode(err, base)
		ob := lawObs{Chain: ch, Args: fmt.Sprintf("SMTPCode(e,%d,%d) SMTPEnchCode(e,%v)", tc.code, pc.code, base), Result: fmt.Sprintf("%d %v", code, enh)}
		kind := ch.class()
		// class(SMTPCode) == SMTPEnchCode[0] — for every chain, conflicting or not
		if code/100 != enh[0] {
			c.Violation("law/helper-classes-disagree/"+kind, fmt.Sprintf("SMTPCode gives %d but SMTPEnchCode gives class %d for a %s chain (%s)", code, enh[0], kind, ch.shape()), ob)
		}
		if enh[1] != base[1] || enh[2] != base[2] {
			c.Violation("law/helper-changes-subject-or-detail", fmt.Sprintf("SMTPEnchCode(%v) = %v", base, enh), ob)
		}
		if code != tc.code && code != pc.code {
			c.Violation("law/helper-code-not-an-argument", fmt.Sprintf("SMTPCode(e,%d,%d) = %d", tc.code, pc.code, code), ob)
		}
		// the helpers follow the temporariness of the chain (documented: IsTemporary)
		if (code/100 == 4) != ch.temporary() {
			c.Violation("law/helper-code-vs-temporariness/"+kind, fmt.Sprintf("SMTPCode(e,%d,%d) = %d for a %s chain (%s)", tc.code, pc.code, code, kind, ch.shape()), ob)
		}
		// temporariness of the chain itself: 4yz annotations and markers
		if exterrors.IsTemporary(err) != ch.temporary() {
			c.Violation("law/is-temporary/"+kind+"/outermost="+ch.markerKind(), fmt.Sprintf("IsTemporary = %v for chain %s", exterrors.IsTemporary(err), ch.shape()), ob)
		}
		if exterrors.IsTemporaryOrUnspec(err) != ch.temporaryOrUnspec() {
			c.Violation("law/is-temporary-or-unspec/"+kind+"/outermost="+ch.markerKind(), fmt.Sprintf("IsTemporaryOrUnspec = %v for chain %s", exterrors.IsTemporaryOrUnspec(err), ch.shape()), ob)
		}
		// the fields the reply conversions read
		if ch.Annotated && !ch.BareGoSMTP {
			f := exterrors.Fields(err)
			fc, _ := f["smtp_code"].(int)
			fe, _ := f["smtp_enchcode"].(exterrors.EnhancedCode)
			if fc != ch.Code || [3]int(fe) != ch.Enh {
				c.Violation("law/fields-annotation-lost", fmt.Sprintf("Fields gives %d %v, outermost annotation is %d %v (%s)", fc, fe, ch.Code, ch.Enh, ch.shape()), ob)
			}
		}
		shapes[ch.Group+"/"+ch.shape()] = true
	}
	r.Count("law_chains", chainsPerLawCase)
	r.Eval(chainsPerLawCase * 6)
	for s := range shapes {
		r.Eval(0, "law/"+s)
	}
	c.Done(fmt.Sprintf("law/%d", len(shapes)), true)
}

func (c *chain) markerKind() string {
	for _, n := range c.Nodes {
		if hasTempMethod(n.Kind) {
			return n.Kind
		}
	}
	return "none"
}

// ---------------------------------------------------------------- passive observer

func slug(s string) string {
	var w []string
	for _, f := range strings.Fields(s) {
		ok := f != ""
		for _, r := range f {
			if !(r >= 'a' && r <= 'z' || r >= 'A' && r <= 'Z') {
				ok = false
			}
		}
		if !ok {
			break
		}
		w = append(w, strings.ToLower(f))
		if len(w) == 4 {
			break
		}
	}
	return strings.Join(w, "-")
}

// judgeObserver reports every SMTPError that passed through Fields() since the
// case started whose basic and enhanced code classes disagree.
func judgeObserver(r *rep.Reporter, c *rep.Case, where string, relayed ...map[string]bool) {
	obs := verifkit.SMTPErrorObservations()
	total := verifkit.SMTPErrorTotal()
	recordReach(r, where, obs)
	r.Count("observer_smtp_errors", int64(total))
	for _, o := range obs {
		r.Distinct("observer_pairs", fmt.Sprintf("%d %d.%d.%d", o.Code, o.Enh[0], o.Enh[1], o.Enh[2]))
		if o.Code/100 == o.Enh[0] && (o.Enh[0] == 4 || o.Enh[0] == 5) {
			continue
		}
		if len(relayed) > 0 && relayed[0][fmt.Sprintf("%d %v", o.Code, o.Enh)] {
			// a copy of what the scripted remote server answered (no or foreign-class
			// enhanced code): relayed, not generated, by maddy
			r.Count("observer_relayed_remote_pairs", int64(o.Count))
			continue
		}
		if wasInjected(o.Code, o.Enh, o.Msg) {
			// built by the harness (an annotation with a basic code only), not by maddy
			r.Count("observer_injected_basic_code_only", int64(o.Count))
			continue
		}
		src := "check=" + o.Check + "/target=" + o.Target
		sig := fmt.Sprintf("observer/class-mismatch/%d/%d.%d.%d/%s/%s", o.Code, o.Enh[0], o.Enh[1], o.Enh[2], src, slug(o.Msg))
		if len(relayed) > 0 {
			// codes and texts come from the generated remote replies: keep the
			// signature free of that data
			sig = fmt.Sprintf("observer/class-mismatch/remote-layer/code-class-%d/enhanced-class-%d", o.Code/100, o.Enh[0])
		}
		c.Violation(sig,
			fmt.Sprintf("an SMTPError with code %d and enhanced code %d.%d.%d (%q) was converted for reporting (%s workload)", o.Code, o.Enh[0], o.Enh[1], o.Enh[2], o.Msg, where), o)
	}
}

// ---------------------------------------------------------------- census

type literalSite struct {
	File     string `json:"file"`
	Func     string `json:"func"`
	Line     int    `json:"line"`
	Type     string `json:"type"`
	Code     string `json:"code"`
	Enh      string `json:"enhanced_code"`
	Kind     string `json:"kind"`
	Messsage string `json:"message,omitempty"`

	msgPrefix string // constant leading text of the Message expression
	msgExact  bool   // the whole Message is that constant
	// constant CheckName / TargetName of the literal ("" = absent or computed)
	checkName, targetName string
}

// constPrefix: the constant leading text of a string expression ("a", "a" + "b",
// "a" + x) and whether it is the whole value.
func constPrefix(e ast.Expr) (string, bool) {
	switch v := e.(type) {
	case *ast.BasicLit:
		if v.Kind == token.STRING {
			if u, err := strconv.Unquote(v.Value); err == nil {
				return u, true
			}
		}
	case *ast.ParenExpr:
		return constPrefix(v.X)
	case *ast.BinaryExpr:
		if v.Op == token.ADD {
			l, lex := constPrefix(v.X)
			if !lex {
				return l, false
			}
			r, rex := constPrefix(v.Y)
			return l + r, rex
		}
	}
	return "", false
}

// Run-time reach of the census: a literal site counts as reached when an
// SMTPError with its constant message (or constant message prefix) and - where
// constant - its code passed through Fields() during a case, i.e. was converted
// for a reply, a record, a report or a log line. Sites that share file,
// function, code and message are one key.
var (
	reachOnce  sync.Once
	reachSites []literalSite
)

func siteKey(s *literalSite) string {
	return fmt.Sprintf("%s:%s code=%s %q", s.File, s.Func, s.Code, s.msgPrefix)
}

func recordReach(r *rep.Reporter, where string, obs []verifkit.SMTPErrObs) {
	reachOnce.Do(func() {
		if root := os.Getenv("VERIF_REPO"); root != "" {
			all, _ := collectLiteralSites(root)
			for _, s := range all {
				if len(s.msgPrefix) >= 8 {
					reachSites = append(reachSites, s)
				}
			}
		}
	})
	for _, o := range obs {
		for i := range reachSites {
			s := &reachSites[i]
			if s.msgExact && o.Msg != s.msgPrefix || !strings.HasPrefix(o.Msg, s.msgPrefix) {
				continue
			}
			if code, ok := strconv.Atoi(s.Code); ok == nil && code != o.Code {
				continue
			}
			if s.checkName != "" && s.checkName != o.Check || s.targetName != "" && s.targetName != o.Target {
				// a literal naming its check / target is only matched by an error carrying that name
				continue
			}
			r.Distinct("census_literal_sites_reached_at_run_time", siteKey(s))
			r.Distinct("census_literal_sites_reached_by_workload", where+": "+siteKey(s))
		}
	}
}

func exprStr(e ast.Expr) string {
	switch v := e.(type) {
	case *ast.BasicLit:
		return v.Value
	case *ast.CompositeLit:
		var parts []string
		for _, x := range v.Elts {
			parts = append(parts, exprStr(x))
		}
		return "{" + strings.Join(parts, ",") + "}"
	case *ast.CallExpr:
		var parts []string
		for _, x := range v.Args {
			parts = append(parts, exprStr(x))
		}
		return exprStr(v.Fun) + "(" + strings.Join(parts, ",") + ")"
	case *ast.SelectorExpr:
		return exprStr(v.X) + "." + v.Sel.Name
	case *ast.Ident:
		return v.Name
	case nil:
		return ""
	}
	return fmt.Sprintf("<%T>", e)
}

func constInt(e ast.Expr) (int, bool) {
	if b, ok := e.(*ast.BasicLit); ok && b.Kind == token.INT {
		n, err := strconv.Atoi(b.Value)
		return n, err == nil
	}
	return 0, false
}

// constEnh recognises EnhancedCode{a,b,c} with constant elements.
func constEnh(e ast.Expr) ([3]int, bool) {
	var out [3]int
	cl, ok := e.(*ast.CompositeLit)
	if !ok || len(cl.Elts) != 3 {
		return out, false
	}
	if !strings.HasSuffix(exprStr(cl.Type), "EnhancedCode") {
		return out, false
	}
	for i, x := range cl.Elts {
		n, ok := constInt(x)
		if !ok {
			return out, false
		}
		out[i] = n
	}
	return out, true
}

func helperCall(e ast.Expr, name string) (*ast.CallExpr, bool) {
	ce, ok := e.(*ast.CallExpr)
	if !ok {
		return nil, false
	}
	fn := exprStr(ce.Fun)
	if fn == name || strings.HasSuffix(fn, "."+name) {
		return ce, true
	}
	return nil, false
}

// collectLiteralSites parses the non-test Go files below root and classifies
// every SMTPError composite literal (see runCensus).
func collectLiteralSites(root string) ([]literalSite, int) {
	fset := token.NewFileSet()
	var sites []literalSite
	files := 0
	filepath.Walk(root, func(p string, info os.FileInfo, err error) error {
		if err != nil {
			return nil
		}
		if info.IsDir() {
			n := info.Name()
			if n == ".git" || n == "zzverif" || n == "testdata" || n == "tests" {
				return filepath.SkipDir
			}
			return nil
		}
		if !strings.HasSuffix(p, ".go") || strings.HasSuffix(p, "_test.go") || strings.HasPrefix(info.Name(), "zz_verif_") {
			return nil
		}
		f, err := parser.ParseFile(fset, p, nil, 0)
		if err != nil {
			return nil
		}
		files++
		rel, _ := filepath.Rel(root, p)
		for _, decl := range f.Decls {
			fnName := "(package level)"
			if fd, ok := decl.(*ast.FuncDecl); ok {
				fnName = fd.Name.Name
				if fd.Recv != nil && len(fd.Recv.List) == 1 {
					if st, ok := fd.Recv.List[0].Type.(*ast.StarExpr); ok {
						fnName = exprStr(st.X) + "." + fd.Name.Name
					} else {
						fnName = exprStr(fd.Recv.List[0].Type) + "." + fd.Name.Name
					}
				}
			}
			ast.Inspect(decl, func(nd ast.Node) bool {
				cl, ok := nd.(*ast.CompositeLit)
				if !ok {
					return true
				}
				tn := exprStr(cl.Type)
				if tn != "exterrors.SMTPError" && tn != "smtp.SMTPError" && !(tn == "SMTPError" && (f.Name.Name == "exterrors" || f.Name.Name == "smtp")) {
					return true
				}
				var codeE, enhE, msgE ast.Expr
				msg, checkN, targetN := "", "", ""
				for _, e := range cl.Elts {
					kv, ok := e.(*ast.KeyValueExpr)
					if !ok {
						continue
					}
					k, _ := kv.Key.(*ast.Ident)
					if k == nil {
						continue
					}
					switch k.Name {
					case "Code":
						codeE = kv.Value
					case "EnhancedCode":
						enhE = kv.Value
					case "Message":
						msg = exprStr(kv.Value)
						msgE = kv.Value
					case "CheckName":
						checkN, _ = constPrefix(kv.Value)
					case "TargetName":
						targetN, _ = constPrefix(kv.Value)
					}
				}
				s := literalSite{File: rel, Func: fnName, Line: fset.Position(cl.Pos()).Line, Type: tn, Code: exprStr(codeE), Enh: exprStr(enhE), Messsage: msg}
				s.msgPrefix, s.msgExact = constPrefix(msgE)
				s.checkName, s.targetName = checkN, targetN
				code, codeConst := constInt(codeE)
				enh, enhConst := constEnh(enhE)
				_, hc := helperCall(codeE, "SMTPCode")
				_, he := helperCall(enhE, "SMTPEnchCode")
				switch {
				case codeE == nil && enhE == nil:
					s.Kind = "empty"
				case codeConst && enhConst:
					if code/100 == enh[0] && (enh[0] == 4 || enh[0] == 5) {
						s.Kind = "constant-coherent"
					} else {
						s.Kind = "constant-class-mismatch"
					}
				case codeConst && enhE == nil:
					if tn == "smtp.SMTPError" {
						s.Kind = "constant-enhanced-derived-by-go-smtp"
					} else {
						s.Kind = "constant-missing-enhanced-code"
					}
				case codeConst && exprStr(enhE) == "smtp.EnhancedCodeNotSet":
					s.Kind = "constant-enhanced-derived-by-go-smtp"
				case hc && he:
					s.Kind = "helper-pair"
					cc, _ := helperCall(codeE, "SMTPCode")
					if len(cc.Args) == 3 {
						a, aok := constInt(cc.Args[1])
						b, bok := constInt(cc.Args[2])
						if aok && bok && (a/100 != 4 || b/100 != 5) {
							s.Kind = "helper-arguments-class-mismatch"
						}
					}
				case hc != he:
					s.Kind = "helper-unpaired"
				case !codeConst && enhConst:
					s.Kind = "dynamic-code-constant-enhanced"
				default:
					s.Kind = "dynamic"
				}
				sites = append(sites, s)
				return true
			})
		}
		return nil
	})
	return sites, files
}

func runCensus(t *testing.T, r *rep.Reporter, c *rep.Case) {
	root := os.Getenv("VERIF_REPO")
	if root == "" {
		c.Inconclusive("VERIF_REPO is not set; the literal census cannot run")
		c.Done("census", false)
		return
	}
	sites, files := collectLiteralSites(root)
	if files < 50 || len(sites) < 20 {
		c.Inconclusive(fmt.Sprintf("census saw %d files and %d literals under %s; that is not the source tree", files, len(sites), root))
		c.Done("census", false)
		return
	}
	kinds := map[string]int{}
	var gaps []string
	for _, s := range sites {
		kinds[s.Kind]++
		switch s.Kind {
		case "constant-class-mismatch":
			c.Violation("census/class-mismatch/"+s.File+":"+s.Func, fmt.Sprintf("SMTP error literal with code %s and enhanced code %s (%s)", s.Code, s.Enh, s.Messsage), s)
		case "constant-missing-enhanced-code":
			c.Violation("census/missing-enhanced-code/"+s.File+":"+s.Func, fmt.Sprintf("SMTP error literal with code %s and no enhanced code, i.e. 0.0.0 (%s)", s.Code, s.Messsage), s)
		case "helper-arguments-class-mismatch", "helper-unpaired":
			c.Violation("census/"+s.Kind+"/"+s.File+":"+s.Func, fmt.Sprintf("SMTP error literal computes code %s and enhanced code %s", s.Code, s.Enh), s)
		case "dynamic-code-constant-enhanced":
			gaps = append(gaps, fmt.Sprintf("%s:%s code=%s enhanced=%s", s.File, s.Func, s.Code, s.Enh))
		}
	}
	sort.Strings(gaps)
	for k, n := range kinds {
		r.Count("census_"+k, int64(n))
	}
	keys := map[string]bool{}
	for i := range sites {
		if len(sites[i].msgPrefix) >= 8 {
			keys[siteKey(&sites[i])] = true
		}
	}
	r.Count("census_literal_site_keys(reach is counted over these)", int64(len(keys)))
	r.Count("census_literals", int64(len(sites)))
	r.Count("census_files", int64(files))
	r.Set("census_not_decided_dynamic_code_with_constant_enhanced_code", gaps)
	r.Set("census_root", root)
	c.Done("census", true)
}
