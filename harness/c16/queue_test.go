//go:build verif

package c16

// Below a queue: the same generated error chains are returned by the queue's
// delivery target. Observed: the retry decision and the per-recipient error
// the queue persists (spool .meta file, read when the next attempt starts) and
// the Status / Diagnostic-Code the failure report shows.

import (
	"bufio"
	"bytes"
	"context"
	"encoding/json"
	"fmt"
	"os"
	"path/filepath"
	"strings"
	"sync"
	"testing"
	"time"

	"github.com/emersion/go-message/textproto"
	"github.com/emersion/go-smtp"
	"github.com/foxcpp/maddy/framework/buffer"
	"github.com/foxcpp/maddy/framework/module"
	"github.com/foxcpp/maddy/internal/target/queue"
	"github.com/foxcpp/maddy/internal/zzverif/mx"
	"verifkit"
	"verifkit/prng"
	"verifkit/rep"
)

type storedErr struct {
	Code         int
	EnhancedCode [3]int
	Message      string
}

type metaSnap struct {
	To       []string
	RcptErrs map[string]*storedErr
}

func origID(id string) string {
	if i := strings.LastIndexByte(id, '-'); i >= 0 {
		return id[:i]
	}
	return id
}

type queueObs struct {
	Chain    *chain `json:"chain,omitempty"`
	Attempt  int    `json:"attempt"`
	MaxTries int    `json:"max_tries"`
	Stage    string `json:"stage"`
	Rcpt     string `json:"rcpt"`
	Retried  *bool  `json:"retried,omitempty"`
	Stored   string `json:"stored,omitempty"`
	Report   string `json:"report_fields,omitempty"`
}

// waitDrained waits until every spool file is gone (see the C18 harness for why
// the .meta file alone is not a reliable sign). Wall clock only as a watchdog.
func waitDrained(dir string, limit time.Duration) (bool, []string) {
	deadline := time.Now().Add(limit)
	for {
		es, _ := os.ReadDir(dir)
		var names []string
		broken := map[string]bool{}
		for _, e := range es {
			names = append(names, e.Name())
			if strings.HasSuffix(e.Name(), ".meta_broken") {
				broken[strings.TrimSuffix(e.Name(), ".meta_broken")] = true
			}
		}
		busy := false
		for _, n := range names {
			id := n
			if i := strings.IndexByte(n, '.'); i >= 0 {
				id = n[:i]
			}
			if !broken[id] {
				busy = true
			}
		}
		if !busy {
			return true, names
		}
		if time.Now().After(deadline) {
			return false, names
		}
		time.Sleep(2 * time.Millisecond)
	}
}

func runQueueCase(t *testing.T, r *rep.Reporter, c *rep.Case, ci int) {
	p := prng.New(r.Seed(), uint64(ci), "c16-queue")
	verifkit.ResetSMTPErrorObservations()
	resetInjected()
	maxTries := p.Range(2, 3)
	nR := p.Range(1, 4)
	partial := p.Bool()
	utf8 := p.Bool()
	msgID := fmt.Sprintf("q%d", ci)
	var rcpts []string
	for i := 0; i < nR; i++ {
		rcpts = append(rcpts, fmt.Sprintf("r%d@example.org", i))
	}

	// plan: (attempt, stage, rcpt) -> chain, decided lazily but deterministically
	var mu sync.Mutex
	plan := map[string]*chain{}
	decide := func(pt mx.Point) *chain {
		key := fmt.Sprintf("%d|%s|%s", pt.Attempt, pt.Stage, pt.Rcpt)
		mu.Lock()
		defer mu.Unlock()
		if ch, ok := plan[key]; ok {
			return ch
		}
		pa := prng.New(r.Seed(), uint64(ci), fmt.Sprintf("c16-q-att|%d", pt.Attempt))
		attKind := pa.Weighted([]int{7, 1, 1, 1}) // per recipient, start, body, commit
		pk := prng.New(r.Seed(), uint64(ci), "c16-q|"+key)
		var ch *chain
		gen := func() *chain {
			g := "consistent"
			if pk.Chance(3, 10) {
				g = "conflicting"
			}
			return genGroup(pk, g)
		}
		switch pt.Stage {
		case mx.StStart:
			if attKind == 1 {
				ch = gen()
			}
		case mx.StBody:
			if attKind == 2 {
				ch = gen()
			}
		case mx.StCommit:
			if attKind == 3 {
				ch = gen()
			}
		case mx.StRcpt:
			if attKind == 0 && pk.Chance(3, 5) {
				ch = gen()
			}
		case mx.StStatus:
			if attKind == 0 && pk.Chance(3, 5) {
				ch = gen()
			}
		}
		plan[key] = ch
		return ch
	}

	dir, err := os.MkdirTemp("", "c16q")
	if err != nil {
		t.Fatal(err)
	}
	defer os.RemoveAll(dir)

	lg := mx.NewLog()
	snaps := map[int]*metaSnap{} // state after attempt k, read when attempt k+1 starts
	snapErr := ""
	mainT := mx.NewTarget("main", lg)
	mainT.Partial = partial
	// mx.ScriptTarget numbers attempts per msgMeta.ID, which below a queue
	// carries the wall-clock second; attempts are counted here instead (one
	// message per case, attempts of a message never overlap).
	curAttempt := 0
	mainT.Script = func(pt mx.Point) error {
		if pt.Stage == mx.StAbort {
			return nil
		}
		mu.Lock()
		if pt.Stage == mx.StStart {
			curAttempt++
			if curAttempt >= 2 {
				// what the queue persisted after the previous attempt
				b, err := os.ReadFile(filepath.Join(dir, origID(pt.MsgID)+".meta"))
				var ms metaSnap
				if err == nil {
					err = json.Unmarshal(b, &ms)
				}
				if err != nil {
					snapErr = err.Error()
				} else {
					snaps[curAttempt-1] = &ms
				}
			}
		}
		pt.Attempt = curAttempt
		mu.Unlock()
		if ch := decide(pt); ch != nil {
			return ch.build()
		}
		return nil
	}
	bounceT := mx.NewTarget("bounce", lg)
	q, err := queue.VerifNewQueue(queue.VerifOpts{Dir: dir, Target: mainT, Bounce: bounceT, MaxTries: maxTries, Parallelism: 2, Hostname: "mx.example.org", AutogenMsgDomain: "example.org"})
	if err != nil {
		t.Fatal(err)
	}
	closed := false
	defer func() {
		if !closed {
			q.Close()
		}
	}()
	ctx := context.Background()
	meta := &module.MsgMetadata{ID: msgID, OriginalFrom: "sender@example.org"}
	meta.SMTPOpts.UTF8 = utf8
	d, err := q.Start(ctx, meta, "sender@example.org")
	if err != nil {
		t.Fatal(err)
	}
	for _, rc := range rcpts {
		d.AddRcpt(ctx, rc, smtp.RcptOptions{})
	}
	hdr, _ := textproto.ReadHeader(bufio.NewReader(bytes.NewReader([]byte("Subject: c16\r\n\r\n"))))
	if err := d.Body(ctx, hdr, buffer.MemoryBuffer{Slice: []byte("x\r\n")}); err != nil {
		t.Fatal(err)
	}
	d.Commit(ctx)
	ok, names := waitDrained(dir, 120*time.Second)
	if !ok {
		c.Inconclusive(fmt.Sprintf("queue did not drain within the watchdog; spool: %v", names))
		c.Done("undrained", false)
		return
	}
	q.Close()
	closed = true
	if snapErr != "" {
		c.Inconclusive("could not read the spool meta file: " + snapErr)
		c.Done("snapshot-failed", false)
		return
	}

	// ---- history: last chain per (attempt, recipient)
	events := lg.Events()
	var attempts []*mx.DeliverySummary
	for _, s := range mx.Summaries(events) {
		if s.Target == "main" {
			attempts = append(attempts, s)
		}
	}
	type fate struct {
		ch      *chain
		stage   string
		attempt int
	}
	pending := append([]string(nil), rcpts...)
	lastFate := map[string]fate{} // terminal fate per recipient
	shapes := map[string]bool{}
	judged := 0
	get := func(att int, stage, rcpt string) *chain { return plan[fmt.Sprintf("%d|%s|%s", att, stage, rcpt)] }

	judgeStored := func(f fate, rcpt string, code int, enh [3]int, text string, where string, retried *bool, extraText string) {
		ch := f.ch
		ob := queueObs{Chain: ch, Attempt: f.attempt, MaxTries: maxTries, Stage: f.stage, Rcpt: rcpt, Retried: retried, Stored: fmt.Sprintf("%s: %d %d.%d.%d %q", where, code, enh[0], enh[1], enh[2], text)}
		ann := "unannotated"
		if ch.Annotated {
			ann = "annotated"
		}
		if ch.BareGoSMTP {
			ann = "plain-go-smtp-error"
		}
		judged++
		r.Count("queue_records_"+where, 1)
		r.Count("queue_records_"+ch.Group, 1)
		if code/100 != enh[0] || (enh[0] != 4 && enh[0] != 5) {
			c.Violation("queue/"+where+"/class-mismatch/"+ch.Group+"/"+ann, fmt.Sprintf("recipient %s, attempt %d: %s records %d %d.%d.%d", rcpt, f.attempt, where, code, enh[0], enh[1], enh[2]), ob)
		}
		if ch.Group == "consistent" {
			wantTemp := ch.temporaryOrUnspec()
			if (code/100 == 4) != wantTemp {
				c.Violation("queue/"+where+"/class-vs-temporariness/"+ch.class()+"/"+ann, fmt.Sprintf("chain %s is %s (temporary=%v for the queue) but %s records %d %d.%d.%d", ch.shape(), ch.class(), wantTemp, where, code, enh[0], enh[1], enh[2]), ob)
			}
			if ch.Annotated {
				if code == ch.Code && enh == ch.Enh {
					r.Count("queue_annotation_preserved", 1)
				} else {
					r.Count("queue_annotation_changed(judged by C18)", 1)
				}
			}
		}
		if !ch.Annotated {
			all := text + "\n" + extraText
			for _, tok := range ch.Tokens {
				if strings.Contains(all, tok) {
					c.Violation("queue/"+where+"/generic-text/detail-disclosed", fmt.Sprintf("%s shows text of an error without SMTP annotation: %q", where, text), ob)
					break
				}
			}
			r.Count("queue_unannotated_records", 1)
		}
		shapes[ch.Group+"/"+ch.shape()+"/"+where] = true
	}

	for ai, att := range attempts {
		att.Attempt = ai + 1
		if len(pending) == 0 {
			break
		}
		last := map[string]fate{}
		if att.StartClass != mx.OK {
			for _, rc := range pending {
				last[rc] = fate{get(att.Attempt, mx.StStart, ""), mx.StStart, att.Attempt}
			}
		} else {
			acc := map[string]bool{}
			for _, a := range att.Accepted {
				acc[a] = true
			}
			for _, rc := range pending {
				if !acc[rc] {
					last[rc] = fate{get(att.Attempt, mx.StRcpt, rc), mx.StRcpt, att.Attempt}
				}
			}
			if att.BodyKind != "" {
				if att.BodyClass != mx.OK {
					for a := range acc {
						last[a] = fate{get(att.Attempt, mx.StBody, ""), mx.StBody, att.Attempt}
					}
				} else {
					for a := range att.Status {
						last[a] = fate{get(att.Attempt, mx.StStatus, a), mx.StStatus, att.Attempt}
					}
				}
			}
			if att.Commit != "" && att.Commit != mx.OK {
				// a failing Commit is the last error only of recipients without a
				// failure of their own in this attempt (queue fix a330894)
				for a := range acc {
					if _, has := last[a]; !has {
						last[a] = fate{get(att.Attempt, mx.StCommit, ""), mx.StCommit, att.Attempt}
					}
				}
			}
		}
		mu.Lock()
		snap := snaps[att.Attempt]
		mu.Unlock()
		inTo := map[string]bool{}
		if snap != nil {
			for _, a := range snap.To {
				inTo[a] = true
			}
		}
		var next []string
		for _, rc := range pending {
			f, failed := last[rc]
			if !failed {
				continue
			}
			if f.ch == nil {
				t.Fatalf("harness: no planned chain for attempt %d stage %s rcpt %s", att.Attempt, f.stage, rc)
			}
			retried := inTo[rc]
			triesLeft := att.Attempt < maxTries
			rv := retried
			if snap == nil && retried {
				t.Fatal("unreachable")
			}
			// retry decision
			if f.ch.Group == "consistent" {
				want := triesLeft && f.ch.temporaryOrUnspec()
				if retried != want {
					ob := queueObs{Chain: f.ch, Attempt: att.Attempt, MaxTries: maxTries, Stage: f.stage, Rcpt: rc, Retried: &rv}
					k := "retried-although-permanent"
					if want {
						k = "not-retried-although-temporary"
					}
					if !triesLeft {
						k = "retried-beyond-max-tries"
					}
					c.Violation("queue/retry/"+k+"/"+f.ch.class(), fmt.Sprintf("recipient %s failed in attempt %d of %d with chain %s (%s); retried=%v", rc, att.Attempt, maxTries, f.ch.shape(), f.ch.class(), retried), ob)
				}
				r.Count("queue_retry_decisions", 1)
			}
			if retried {
				next = append(next, rc)
				if se := snap.RcptErrs[rc]; se != nil {
					judgeStored(f, rc, se.Code, se.EnhancedCode, se.Message, "spool", &rv, "")
					// a retried failure must be recorded as class 4 — what is retried is what is called temporary
					if f.ch.Group == "consistent" && se.Code/100 != 4 {
						// already reported by class-vs-temporariness unless the retry decision itself deviated
						r.Count("queue_retried_but_recorded_permanent", 1)
					}
				} else {
					c.Violation("queue/spool/no-record-for-retried-recipient", fmt.Sprintf("recipient %s is scheduled for retry after attempt %d but RcptErrs has no entry", rc, att.Attempt), queueObs{Chain: f.ch, Attempt: att.Attempt, MaxTries: maxTries, Stage: f.stage, Rcpt: rc, Retried: &rv})
				}
			} else {
				lastFate[rc] = f
			}
		}
		pending = next
	}

	// ---- failure reports
	reported := map[string]bool{}
	for _, s := range mx.Summaries(events) {
		if s.Target != "bounce" || s.BodyKind == "" {
			continue
		}
		rp := mx.ParseReport(s.Header, s.Body)
		r.Count("queue_reports", 1)
		if len(rp.Problems) > 0 {
			r.Count("queue_reports_with_structural_problems(judged by C18)", 1)
		}
		human := ""
		if len(rp.Parts) > 0 {
			human = string(rp.Parts[0].Body)
		}
		for _, g := range rp.Rcpts {
			f, ok := lastFate[g.Addr]
			if !ok || !g.StatusOK || !g.DiagOK {
				r.Count("queue_report_groups_unusable(judged by C18)", 1)
				continue
			}
			reported[g.Addr] = true
			no := false
			judgeStored(f, g.Addr, g.DiagCode, g.DiagEnh, g.DiagText, "report", &no, human)
			if g.Status != g.DiagEnh {
				c.Violation("queue/report/status-differs-from-diagnostic-code", fmt.Sprintf("recipient %s: Status %v, Diagnostic-Code %d %v", g.Addr, g.Status, g.DiagCode, g.DiagEnh), queueObs{Chain: f.ch, Attempt: f.attempt, MaxTries: maxTries, Stage: f.stage, Rcpt: g.Addr})
			}
		}
	}
	for rc := range lastFate {
		if !reported[rc] {
			r.Count("queue_terminal_failure_without_report_group(judged by C18)", 1)
		}
	}
	judgeObserver(r, c, "queue")
	for s := range shapes {
		r.Eval(0, "queue/"+s)
	}
	c.Done(fmt.Sprintf("queue/tries=%d/partial=%v/rcpts=%d/attempts=%d", maxTries, partial, nR, len(attempts)), judged > 0)
}
