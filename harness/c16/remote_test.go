//go:build verif

package c16

// Remote layer: the failure originates in maddy's own SMTP client code
// (internal/smtpconn wrapClientErr, used by target.smtp / target.lmtp / remote).
// A real target.smtp (or target.lmtp) instance built from configuration text
// talks to the scripted server verifkit/smtpd, which answers with generated
// replies (coherent, without enhanced code, with an enhanced code of the other
// class, 552, 421, multi-line, non-ASCII) or drops the connection, and whose
// STARTTLS can be missing or broken. The target sits below a real queue
// (stored RcptErrs, retry decision, failure report) or directly behind a real
// SMTP endpoint (reply forwarded to a raw client).
//
// What is judged when the *remote* reply itself is incoherent (e.g. "550 4.1.1"):
// maddy relays such a reply, it does not generate it. The pair maddy records or
// forwards must then be either exactly the remote pair or a coherent one; a pair
// that is neither is maddy's doing. For coherent remote replies, replies without
// enhanced code, every reply maddy rewrites (552 -> 452) and every failure maddy
// words itself (connection, TLS, protocol failures) the recorded / forwarded pair
// must be coherent. The retry decision must follow the class of the recorded
// basic code in every case.

import (
	"bufio"
	"bytes"
	"context"
	"encoding/json"
	"fmt"
	"os"
	"path/filepath"
	"strings"
	"sync"
	"testing"
	"time"

	"github.com/emersion/go-message/textproto"
	"github.com/emersion/go-smtp"
	"github.com/foxcpp/maddy/framework/buffer"
	"github.com/foxcpp/maddy/framework/module"
	smtpendp "github.com/foxcpp/maddy/internal/endpoint/smtp"
	"github.com/foxcpp/maddy/internal/target/queue"
	smtptarget "github.com/foxcpp/maddy/internal/target/smtp"
	"github.com/foxcpp/maddy/internal/zzverif/mx"
	"verifkit"
	"verifkit/prng"
	"verifkit/rep"
	"verifkit/smtpd"
)

// remoteReply is what the scripted server answers.
type remoteReply struct {
	Code  int      `json:"code"`
	Enh   string   `json:"enh,omitempty"` // "" = none
	Lines []string `json:"lines"`
	Kind  string   `json:"kind"` // coherent | no-enhanced-code | incoherent
	Text  string   `json:"text_kind"`
}

func (r *remoteReply) enh3() ([3]int, bool) {
	if r.Enh == "" {
		return [3]int{}, false
	}
	return mx.ParseEnhanced(r.Enh)
}

// remoteSrc is the origin of one recipient's failure in one attempt.
type remoteSrc struct {
	Stage string       `json:"stage"` // connect tls mail rcpt data dot lmtp-status
	Reply *remoteReply `json:"reply,omitempty"`
	Drop  string       `json:"drop,omitempty"` // before | after
	TLS   string       `json:"tls,omitempty"`  // unsupported | reply454 | handshake
}

func (s *remoteSrc) cause() string {
	switch {
	case s.TLS != "":
		return "tls-" + s.TLS
	case s.Reply == nil:
		return "connection-dropped"
	case s.Reply.Code == 552:
		return "rewritten-552/" + s.Reply.Kind
	}
	return "relayed/" + s.Reply.Kind
}

var remoteCodes = []int{421, 450, 451, 452, 550, 551, 552, 552, 552, 553, 554, 500, 530}

func genRemoteReply(p *prng.R, n int) *remoteReply {
	r := &remoteReply{Code: prng.Pick(p, remoteCodes)}
	class := r.Code / 100
	switch p.Weighted([]int{6, 2, 1}) {
	case 0:
		r.Kind = "coherent"
		r.Enh = fmt.Sprintf("%d.%d.%d", class, p.Range(1, 7), p.Range(0, 9))
		if r.Code == 552 && p.Bool() {
			r.Enh = prng.Pick(p, []string{"5.3.4", "5.2.2", "5.2.3"})
		}
	case 1:
		r.Kind = "no-enhanced-code"
	default:
		r.Kind = "incoherent"
		r.Enh = fmt.Sprintf("%d.%d.%d", 9-class, p.Range(1, 7), p.Range(0, 9)) // 4 <-> 5
	}
	switch p.Intn(5) {
	case 0, 1:
		r.Lines, r.Text = []string{fmt.Sprintf("remote says no %d", n)}, "ascii"
	case 2:
		r.Lines, r.Text = []string{fmt.Sprintf("boîte pleine \u0080 邮箱 %d", n)}, "utf8"
	case 3:
		r.Lines, r.Text = []string{fmt.Sprintf("first line ünï %d", n), "second line", "third line"}, "multiline"
	default:
		r.Lines, r.Text = []string{"quota", fmt.Sprintf("exceeded %d", n)}, "multiline-ascii"
	}
	return r
}

type remotePlan struct {
	mu      sync.Mutex
	seed    uint64
	ci      int
	lmtp    bool
	tlsMode string // "", unsupported, reply454, handshake
	acts    map[string]*remoteSrc
	n       int
}

// decide: (connection number, stage, recipient index) -> scripted failure or nil.
// Connections are numbered by the server in accept order; every attempt of the
// queue and every transaction of the endpoint opens exactly one.
func (pl *remotePlan) decide(conn int, stage string, idx int) *remoteSrc {
	key := fmt.Sprintf("%d|%s|%d", conn, stage, idx)
	pl.mu.Lock()
	defer pl.mu.Unlock()
	if a, ok := pl.acts[key]; ok {
		return a
	}
	pa := prng.New(pl.seed, uint64(pl.ci), fmt.Sprintf("c16-remote-conn|%d", conn))
	// per-recipient, greeting, mail, data command, final dot, drop
	connKind := pa.Weighted([]int{6, 1, 1, 1, 3, 2})
	dropStage := prng.Pick(pa, []string{"connect", "mail", "data", "dot"})
	dropHow := prng.Pick(pa, []string{"before", "before", "after"})
	p := prng.New(pl.seed, uint64(pl.ci), "c16-remote|"+key)
	pl.n++
	var a *remoteSrc
	fail := func() *remoteSrc { return &remoteSrc{Stage: stage, Reply: genRemoteReply(p, pl.n)} }
	switch stage {
	case "connect":
		if connKind == 1 {
			a = fail()
			if a.Reply.Code == 552 || a.Reply.Code == 500 || a.Reply.Code == 530 {
				a.Reply.Code = 554
				if a.Reply.Kind == "coherent" {
					a.Reply.Enh = "5.3.2"
				} else if a.Reply.Kind == "incoherent" {
					a.Reply.Enh = "4.3.2"
				}
			}
		}
	case "mail":
		if connKind == 2 {
			a = fail()
		}
	case "data":
		if connKind == 3 {
			a = fail()
		}
	case "dot":
		if connKind == 4 && !pl.lmtp {
			a = fail()
		}
	case "rcpt":
		if connKind == 0 && p.Chance(1, 2) {
			a = fail()
		}
	case "lmtp-status":
		if (connKind == 0 || connKind == 4) && p.Chance(1, 2) {
			a = fail()
		}
	}
	if connKind == 5 && stage == dropStage && stage != "rcpt" && stage != "lmtp-status" {
		if stage == "dot" {
			// a positive reply to the final dot would mean "delivered"
			dropHow = "before"
		}
		a = &remoteSrc{Stage: stage, Drop: dropHow}
	}
	pl.acts[key] = a
	return a
}

// relayedPairs: the (code, enhanced code) pairs of the scripted replies that are
// not coherent themselves; the observer sees maddy's verbatim copies of them.
func (pl *remotePlan) relayedPairs() map[string]bool {
	pl.mu.Lock()
	defer pl.mu.Unlock()
	out := map[string]bool{}
	for _, a := range pl.acts {
		if a == nil || a.Reply == nil || a.Reply.Kind == "coherent" {
			continue
		}
		e, _ := a.Reply.enh3()
		out[fmt.Sprintf("%d %v", a.Reply.Code, e)] = true
	}
	return out
}

func (pl *remotePlan) script(ev smtpd.Event) *smtpd.Action {
	var stage string
	idx := -1
	switch ev.Stage {
	case smtpd.StageConnect:
		stage = "connect"
	case smtpd.StageMail:
		stage = "mail"
	case smtpd.StageRcpt:
		stage, idx = "rcpt", ev.RcptIndex
	case smtpd.StageData:
		stage = "data"
	case smtpd.StageDot:
		stage = "dot"
	case smtpd.StageLMTPRcptStatus:
		stage, idx = "lmtp-status", ev.RcptIndex
	default:
		return nil
	}
	a := pl.decide(ev.Conn, stage, idx)
	if a == nil {
		return nil
	}
	if a.Reply != nil {
		return &smtpd.Action{Code: a.Reply.Code, Enh: a.Reply.Enh, Text: a.Reply.Lines}
	}
	if a.Drop == "before" {
		return &smtpd.Action{DropBefore: true}
	}
	return &smtpd.Action{DropAfter: true}
}

// sources derives, from the transcript of one server connection, why each of
// the given recipients failed on it (nil entry = it did not fail there).
func (pl *remotePlan) sources(cr smtpd.ConnRecord, pending []string) (map[string]*remoteSrc, string) {
	out := map[string]*remoteSrc{}
	all := func(s *remoteSrc, only map[string]bool) {
		for _, r := range pending {
			if out[r] == nil && (only == nil || only[r]) {
				out[r] = s
			}
		}
	}
	get := func(stage string, idx int) *remoteSrc {
		pl.mu.Lock()
		defer pl.mu.Unlock()
		return pl.acts[fmt.Sprintf("%d|%s|%d", cr.ID, stage, idx)]
	}
	if a := get("connect", -1); a != nil {
		all(a, nil)
		return out, ""
	}
	if pl.tlsMode != "" {
		// STARTTLS comes right after the greeting and EHLO
		all(&remoteSrc{Stage: "tls", TLS: pl.tlsMode}, nil)
		return out, ""
	}
	if len(cr.Txns) == 0 {
		return nil, "no MAIL command on the connection although nothing was scripted to fail before it"
	}
	tx := cr.Txns[0]
	if a := get("mail", -1); a != nil {
		all(a, nil)
		return out, ""
	}
	accepted := map[string]bool{}
	for i, rc := range tx.Rcpts {
		if a := get("rcpt", i); a != nil {
			out[rc.Addr] = a
		} else {
			accepted[rc.Addr] = true
		}
	}
	if len(tx.Rcpts) != len(pending) {
		return nil, fmt.Sprintf("%d RCPT commands for %d pending recipients", len(tx.Rcpts), len(pending))
	}
	if len(accepted) == 0 {
		return out, ""
	}
	if a := get("data", -1); a != nil {
		all(a, accepted)
		return out, ""
	}
	if a := get("dot", -1); a != nil {
		all(a, accepted)
		return out, ""
	}
	if pl.lmtp {
		for i, rc := range tx.Rcpts {
			if accepted[rc.Addr] {
				if a := get("lmtp-status", i); a != nil {
					out[rc.Addr] = a
				}
			}
		}
	}
	return out, ""
}

// ---------------------------------------------------------------- target construction

type tapTarget struct {
	module.DeliveryTarget
	onStart func(msgID string)
}

func (t *tapTarget) Start(ctx context.Context, m *module.MsgMetadata, from string) (module.Delivery, error) {
	t.onStart(m.ID)
	return t.DeliveryTarget.Start(ctx, m, from)
}

var remoteSeq int

func newDownstream(srvAddr string, lmtp bool, starttls bool) (module.DeliveryTarget, string, error) {
	remoteSeq++
	modName := "target.smtp"
	if lmtp {
		modName = "target.lmtp"
	}
	name := fmt.Sprintf("c16ds_%d_%d", os.Getpid(), remoteSeq)
	mod, err := smtptarget.NewDownstream(modName, name, nil, []string{"tcp://" + srvAddr})
	if err != nil {
		return nil, "", err
	}
	cfg := "starttls no\n"
	if starttls {
		cfg = "starttls yes\n"
	}
	cfg += "connect_timeout 30s\ncommand_timeout 30s\nsubmission_timeout 30s\n"
	if err := mx.InitModule(mod, cfg, map[string]interface{}{"hostname": "mx.example.org"}); err != nil {
		return nil, "", err
	}
	mx.RegisterInstance(mod)
	return mod.(module.DeliveryTarget), name, nil
}

type remoteObs struct {
	Mode     string     `json:"mode"`
	Source   *remoteSrc `json:"source"`
	Attempt  int        `json:"attempt"`
	MaxTries int        `json:"max_tries,omitempty"`
	Rcpt     string     `json:"rcpt"`
	Recorded string     `json:"recorded"`
	Retried  *bool      `json:"retried,omitempty"`
	LMTP     bool       `json:"lmtp"`
}

// judgePair applies the coherence rule of this layer to one recorded pair.
func judgePair(r *rep.Reporter, c *rep.Case, where string, src *remoteSrc, code int, enh [3]int, hasEnh bool, ob remoteObs) {
	r.Count("remote_records_"+where, 1)
	r.Distinct("remote_causes", where+"/"+src.cause())
	coherent := hasEnh && code/100 == enh[0] && (enh[0] == 4 || enh[0] == 5)
	if coherent {
		return
	}
	if src.Reply != nil && src.Reply.Kind == "incoherent" {
		if re, ok := src.Reply.enh3(); ok && hasEnh && code == src.Reply.Code && enh == re {
			r.Count("remote_incoherent_reply_relayed_verbatim(not judged)", 1)
			return
		}
	}
	c.Violation("remote/"+where+"/class-mismatch/"+src.cause(), fmt.Sprintf("%s: %s (source: %s)", where, ob.Recorded, describeSrc(src)), ob)
}

func describeSrc(s *remoteSrc) string {
	switch {
	case s.TLS != "":
		return "STARTTLS " + s.TLS
	case s.Reply != nil:
		return fmt.Sprintf("remote answered %s with %d %s %q", s.Stage, s.Reply.Code, s.Reply.Enh, strings.Join(s.Reply.Lines, "\\n"))
	}
	return fmt.Sprintf("remote dropped the connection %s the reply to %s", s.Drop, s.Stage)
}

func newRemoteServer(pl *remotePlan, p *prng.R) (*smtpd.Server, error) {
	cfg := smtpd.Config{LMTP: pl.lmtp, SMTPUTF8: true, PIPELINING: p.Bool(), EightBitMIME: true, Script: pl.script}
	switch pl.tlsMode {
	case "reply454", "handshake":
		cfg.STARTTLS = true
		cfg.StartTLSBroken = pl.tlsMode
	}
	// no free ephemeral port (TIME_WAIT pile-up on a busy machine): wait a little
	var srv *smtpd.Server
	var err error
	for try := 0; try < 8; try++ {
		if srv, err = smtpd.New(cfg); err == nil {
			return srv, nil
		}
		time.Sleep(250 * time.Millisecond)
	}
	return nil, err
}

// ---------------------------------------------------------------- below a queue

func runRemoteQueueCase(t *testing.T, r *rep.Reporter, c *rep.Case, ci int) {
	p := prng.New(r.Seed(), uint64(ci), "c16-remote-queue")
	verifkit.ResetSMTPErrorObservations()
	resetInjected()
	pl := &remotePlan{seed: r.Seed(), ci: ci, acts: map[string]*remoteSrc{}}
	pl.lmtp = p.Chance(1, 4)
	if !pl.lmtp && p.Chance(1, 8) {
		pl.tlsMode = prng.Pick(p, []string{"unsupported", "reply454", "handshake"})
	}
	maxTries := p.Range(2, 3)
	nR := p.Range(1, 3)
	utf8 := p.Bool()
	srv, err := newRemoteServer(pl, p)
	if err != nil {
		c.Inconclusive("cannot start the scripted server: " + err.Error())
		c.Done("no-server", false)
		return
	}
	defer srv.Close()
	ds, _, err := newDownstream(srv.Addr(), pl.lmtp, pl.tlsMode != "")
	if err != nil {
		t.Fatalf("harness: cannot build the downstream target: %v", err)
	}

	dir, err := os.MkdirTemp("", "c16r")
	if err != nil {
		t.Fatal(err)
	}
	defer os.RemoveAll(dir)
	msgID := fmt.Sprintf("rq%d", ci)
	var mu sync.Mutex
	snaps := map[int]*metaSnap{}
	snapErr := ""
	starts := 0
	tap := &tapTarget{DeliveryTarget: ds, onStart: func(id string) {
		mu.Lock()
		defer mu.Unlock()
		starts++
		if starts < 2 {
			return
		}
		b, err := os.ReadFile(filepath.Join(dir, origID(id)+".meta"))
		var ms metaSnap
		if err == nil {
			err = json.Unmarshal(b, &ms)
		}
		if err != nil {
			snapErr = err.Error()
			return
		}
		snaps[starts-1] = &ms
	}}
	lg := mx.NewLog()
	bounceT := mx.NewTarget("bounce", lg)
	q, err := queue.VerifNewQueue(queue.VerifOpts{Dir: dir, Target: tap, Bounce: bounceT, MaxTries: maxTries, Parallelism: 1, Hostname: "mx.example.org", AutogenMsgDomain: "example.org"})
	if err != nil {
		t.Fatal(err)
	}
	closed := false
	defer func() {
		if !closed {
			q.Close()
		}
	}()
	var rcpts []string
	for i := 0; i < nR; i++ {
		rcpts = append(rcpts, fmt.Sprintf("r%d@example.org", i))
	}
	ctx := context.Background()
	meta := &module.MsgMetadata{ID: msgID, OriginalFrom: "sender@example.org"}
	meta.SMTPOpts.UTF8 = utf8
	d, err := q.Start(ctx, meta, "sender@example.org")
	if err != nil {
		t.Fatal(err)
	}
	for _, rc := range rcpts {
		d.AddRcpt(ctx, rc, smtp.RcptOptions{})
	}
	hdr, _ := textproto.ReadHeader(bufio.NewReader(bytes.NewReader([]byte("Subject: c16 remote\r\n\r\n"))))
	if err := d.Body(ctx, hdr, buffer.MemoryBuffer{Slice: []byte("x\r\n")}); err != nil {
		t.Fatal(err)
	}
	d.Commit(ctx)
	ok, names := waitDrained(dir, 180*time.Second)
	if !ok {
		c.Inconclusive(fmt.Sprintf("queue did not drain within the watchdog; spool: %v", names))
		c.Done("undrained", false)
		return
	}
	q.Close()
	closed = true
	if snapErr != "" {
		c.Inconclusive("could not read the spool meta file: " + snapErr)
		c.Done("snapshot-failed", false)
		return
	}
	srv.WaitIdle(10 * time.Second)
	conns := srv.Transcript()
	mu.Lock()
	nStarts := starts
	mu.Unlock()
	if len(conns) != nStarts {
		c.Inconclusive(fmt.Sprintf("%d delivery attempts but %d connections at the scripted server", nStarts, len(conns)))
		c.Done("conn-mismatch", false)
		return
	}

	type fate struct {
		src     *remoteSrc
		attempt int
	}
	pending := append([]string(nil), rcpts...)
	terminal := map[string]fate{}
	judged := 0
	mode := "queue"
	if pl.lmtp {
		mode = "queue+lmtp"
	}
	for k := 1; k <= nStarts && len(pending) > 0; k++ {
		srcs, problem := pl.sources(conns[k-1], pending)
		if problem != "" {
			c.Inconclusive("transcript does not fit the harness model: " + problem)
			c.Done("model-mismatch", false)
			return
		}
		snap := snaps[k]
		inTo := map[string]bool{}
		if snap != nil {
			for _, a := range snap.To {
				inTo[a] = true
			}
		}
		var next []string
		for _, rc := range pending {
			src := srcs[rc]
			retried := inTo[rc]
			if src == nil {
				if retried {
					c.Inconclusive(fmt.Sprintf("recipient %s was retried after attempt %d although nothing was scripted to fail for it", rc, k))
					c.Done("model-mismatch", false)
					return
				}
				continue
			}
			rv := retried
			if retried {
				next = append(next, rc)
				se := snap.RcptErrs[rc]
				if se == nil {
					c.Violation("remote/spool/no-record-for-retried-recipient", fmt.Sprintf("recipient %s is retried after attempt %d but RcptErrs has no entry", rc, k), remoteObs{Mode: mode, Source: src, Attempt: k, MaxTries: maxTries, Rcpt: rc, Retried: &rv, LMTP: pl.lmtp})
					continue
				}
				ob := remoteObs{Mode: mode, Source: src, Attempt: k, MaxTries: maxTries, Rcpt: rc, Retried: &rv, LMTP: pl.lmtp, Recorded: fmt.Sprintf("%d %d.%d.%d %q", se.Code, se.EnhancedCode[0], se.EnhancedCode[1], se.EnhancedCode[2], se.Message)}
				judgePair(r, c, "spool", src, se.Code, se.EnhancedCode, true, ob)
				judged++
				if se.Code/100 != 4 {
					c.Violation("remote/retry/retried-but-recorded-permanent/"+src.cause(), fmt.Sprintf("recipient %s is retried after attempt %d of %d but the queue recorded %s", rc, k, maxTries, ob.Recorded), ob)
				}
				if k >= maxTries {
					c.Violation("remote/retry/retried-beyond-max-tries", fmt.Sprintf("recipient %s is retried after attempt %d of %d", rc, k, maxTries), ob)
				}
				r.Count("remote_retry_decisions", 1)
			} else {
				terminal[rc] = fate{src, k}
			}
		}
		pending = next
	}

	reported := map[string]bool{}
	for _, s := range mx.Summaries(lg.Events()) {
		if s.Target != "bounce" || s.BodyKind == "" {
			continue
		}
		rp := mx.ParseReport(s.Header, s.Body)
		r.Count("remote_reports", 1)
		for _, g := range rp.Rcpts {
			f, ok := terminal[g.Addr]
			if !ok || !g.StatusOK || !g.DiagOK {
				r.Count("remote_report_groups_unusable(judged by C18)", 1)
				continue
			}
			reported[g.Addr] = true
			no := false
			ob := remoteObs{Mode: mode, Source: f.src, Attempt: f.attempt, MaxTries: maxTries, Rcpt: g.Addr, Retried: &no, LMTP: pl.lmtp, Recorded: fmt.Sprintf("Status %d.%d.%d, Diagnostic-Code %d %d.%d.%d %q", g.Status[0], g.Status[1], g.Status[2], g.DiagCode, g.DiagEnh[0], g.DiagEnh[1], g.DiagEnh[2], g.DiagText)}
			judgePair(r, c, "report", f.src, g.DiagCode, g.DiagEnh, true, ob)
			judged++
			if g.Status != g.DiagEnh {
				c.Violation("remote/report/status-differs-from-diagnostic-code", ob.Recorded, ob)
			}
			if f.attempt < maxTries && g.DiagCode/100 != 5 {
				c.Violation("remote/retry/not-retried-but-recorded-temporary/"+f.src.cause(), fmt.Sprintf("recipient %s was given up after attempt %d of %d although the report says %s", g.Addr, f.attempt, maxTries, ob.Recorded), ob)
			}
			if f.attempt < maxTries {
				r.Count("remote_retry_decisions", 1)
			}
			if f.src.Reply != nil && f.src.Reply.Code != 552 && g.DiagCode/100 != f.src.Reply.Code/100 {
				r.Count("remote_class_changed(not judged)", 1)
			}
		}
	}
	for rc := range terminal {
		if !reported[rc] {
			r.Count("remote_terminal_failure_without_report_group(judged by C18)", 1)
		}
	}
	judgeObserver(r, c, "remote-queue", pl.relayedPairs())
	tls := pl.tlsMode
	if tls == "" {
		tls = "plain"
	}
	c.Done(fmt.Sprintf("remote-queue/lmtp=%v/tls=%s/tries=%d/rcpts=%d/attempts=%d", pl.lmtp, tls, maxTries, nR, nStarts), judged > 0)
}

// ---------------------------------------------------------------- behind an endpoint

func runRemoteWireCase(t *testing.T, r *rep.Reporter, c *rep.Case, ci int) {
	p := prng.New(r.Seed(), uint64(ci), "c16-remote-wire")
	verifkit.ResetSMTPErrorObservations()
	resetInjected()
	pl := &remotePlan{seed: r.Seed(), ci: ci, acts: map[string]*remoteSrc{}}
	if p.Chance(1, 8) {
		pl.tlsMode = prng.Pick(p, []string{"unsupported", "reply454", "handshake"})
	}
	srv, err := newRemoteServer(pl, p)
	if err != nil {
		c.Inconclusive("cannot start the scripted server: " + err.Error())
		c.Done("no-server", false)
		return
	}
	defer srv.Close()
	_, dsName, err := newDownstream(srv.Addr(), false, pl.tlsMode != "")
	if err != nil {
		t.Fatalf("harness: cannot build the downstream target: %v", err)
	}
	rigSeq++
	sock := filepath.Join(os.TempDir(), fmt.Sprintf("c16-%d-%d.sock", os.Getpid(), rigSeq))
	os.Remove(sock)
	endp, err := smtpendp.New("smtp", []string{"unix://" + sock})
	if err != nil {
		t.Fatal(err)
	}
	cfg := "hostname mx.example.org\ntls off\ndefer_sender_reject no\ndeliver_to &" + dsName + "\n"
	if err := mx.InitModule(endp, cfg, map[string]interface{}{}); err != nil {
		c.Inconclusive("cannot build the endpoint: " + err.Error())
		c.Done("no-endpoint", false)
		return
	}
	rig := &wireRig{addr: sock, endp: endp}
	defer rig.close()

	judged := 0
	const txns = 6
	for k := 1; k <= txns; k++ {
		utf8 := p.Bool()
		// one recipient: a second RCPT after a failed Start makes the pipeline
		// connect again, which would shift the connection numbering
		nR := 1
		var rcpts []string
		for i := 0; i < nR; i++ {
			rcpts = append(rcpts, fmt.Sprintf("w%d@example.org", i))
		}
		cl, g, err := dial(sock)
		if err != nil {
			c.Inconclusive(fmt.Sprintf("SMTP dialogue failed: %v %s", err, g))
			continue
		}
		type got struct {
			rcpt string
			rp   reply
		}
		var replies []got
		func() {
			defer cl.close()
			if x, err := cl.cmd("EHLO client.example"); err != nil || x.Code != 250 {
				c.Inconclusive(fmt.Sprintf("EHLO failed: %v %s", err, x))
				return
			}
			mail := "MAIL FROM:<sender@example.org>"
			if utf8 {
				mail += " SMTPUTF8"
			}
			if x, err := cl.cmd(mail); err != nil || x.Code != 250 {
				c.Inconclusive(fmt.Sprintf("MAIL failed: %v %s", err, x))
				return
			}
			acc := 0
			for _, rc := range rcpts {
				x, err := cl.cmd("RCPT TO:<" + rc + ">")
				if err != nil {
					// a multi-line text relayed by the endpoint splits the reply; the
					// first line has been judged, the dialogue ends here
					return
				}
				if x.Code/100 == 2 {
					acc++
					continue
				}
				replies = append(replies, got{rc, x})
				if strings.ContainsAny(x.Text, "\r\n") || len(x.Lines) > 1 {
					return
				}
			}
			if acc == 0 {
				return
			}
			x, err := cl.cmd("DATA")
			if err != nil || x.Code != 354 {
				return
			}
			x, err = cl.cmd("From: <sender@example.org>\r\nSubject: x\r\n\r\nbody\r\n.")
			if err != nil {
				return
			}
			if x.Code/100 != 2 {
				replies = append(replies, got{"", x})
			}
		}()
		// one server connection per transaction that reached the target
		srv.WaitIdle(10 * time.Second)
		conns := srv.Transcript()
		if len(conns) == 0 {
			continue
		}
		cr := conns[len(conns)-1]
		srcs, problem := pl.sources(cr, rcpts)
		if problem != "" && pl.tlsMode == "" {
			// the first failing RCPT may have ended the dialogue early (reply splitting)
			r.Count("remote_wire_transcript_not_modelled", 1)
			continue
		}
		for _, gr := range replies {
			var src *remoteSrc
			if gr.rcpt != "" {
				src = srcs[gr.rcpt]
			} else {
				for _, rc := range rcpts {
					if s := srcs[rc]; s != nil && (s.Stage == "data" || s.Stage == "dot") {
						src = s
					}
				}
			}
			if src == nil {
				r.Count("remote_wire_reply_without_scripted_cause(not judged)", 1)
				continue
			}
			rp := gr.rp
			ob := remoteObs{Mode: "endpoint", Source: src, Attempt: k, Rcpt: gr.rcpt, Recorded: rp.String()}
			judgePair(r, c, "wire", src, rp.Code, rp.Enh, rp.HasEnh, ob)
			judged++
			if !utf8 && hasHigh(rp.Raw) {
				c.Violation("remote/wire/non-ascii-reply-without-smtputf8/"+src.cause(), fmt.Sprintf("reply %q contains bytes >= 0x80 although SMTPUTF8 was not negotiated", rp), ob)
			}
			if !utf8 && src.Reply != nil && (src.Reply.Text == "utf8" || src.Reply.Text == "multiline") {
				r.Count("remote_wire_non_ascii_text_without_smtputf8", 1)
			}
		}
	}
	judgeObserver(r, c, "remote-wire", pl.relayedPairs())
	tls := pl.tlsMode
	if tls == "" {
		tls = "plain"
	}
	c.Done(fmt.Sprintf("remote-wire/tls=%s/%d", tls, judged), judged > 0)
}
