//go:build verif

package c16

// Remote-MX layer: the failure originates in target.remote ITSELF - not at the
// next hop and not in the shared SMTP client code. A real remote.Target (export
// shim; production defaults) with MX authentication policies (mtasts, dane,
// dnssec, local_policy), a mock DNS (plain resolver or, when DNSSEC facts
// matter, a mock DNS server behind the DNSSEC-aware resolver) and scripted next
// hops (verifkit/smtpd, with or without working STARTTLS, trusted or
// self-signed certificate) sits below a real queue. A fixed table of worlds
// reaches the SMTPError literals of internal/target/remote: REQUIRETLS
// refusals (no / unauthenticated TLS, unauthenticated MX), local_policy minimum
// TLS / MX level, MTA-STS enforce mismatch / missing TLS / untrusted
// certificate, DANE refusals and TLSA lookup failure, null MX, MX lookup
// failures, no usable MX (refused, greeting refused, no address), quarantined
// message, <postmaster> / address literal recipients, malformed sender, and -
// for contrast - next-hop refusals relayed by the same target.
//
// Judged exactly what the other queue layers judge, cause-agnostic: the pair
// recorded in the spool / shown in the failure report has one class (every
// failure here is worded by maddy or is a coherent next-hop reply), a recipient
// that is retried has a 4yz record, a recipient given up before max_tries has a
// 5yz report. The expected outcome of a world is NOT modelled: whichever
// failure the target produces is judged by these rules.

import (
	"bufio"
	"bytes"
	"context"
	"crypto/sha256"
	"crypto/tls"
	"crypto/x509"
	"encoding/hex"
	"encoding/json"
	"errors"
	"fmt"
	"net"
	"os"
	"path/filepath"
	"strconv"
	"strings"
	"sync"
	"syscall"
	"testing"
	"time"

	"github.com/emersion/go-message/textproto"
	"github.com/emersion/go-smtp"
	"github.com/foxcpp/go-mockdns"
	"github.com/foxcpp/go-mtasts"
	"github.com/foxcpp/maddy/framework/buffer"
	"github.com/foxcpp/maddy/framework/dns"
	"github.com/foxcpp/maddy/framework/module"
	"github.com/foxcpp/maddy/internal/target/queue"
	"github.com/foxcpp/maddy/internal/target/remote"
	"github.com/foxcpp/maddy/internal/zzverif/mx"
	miekgdns "github.com/miekg/dns"
	"verifkit"
	"verifkit/certs"
	"verifkit/prng"
	"verifkit/rep"
	"verifkit/smtpd"
)

const mxDomain = "dest.example"

var mxHosts = []string{"mx1." + mxDomain, "mx2." + mxDomain}

// mxHosts3: the MX host names of the mixed-MX worlds (one failure kind per host).
var mxHosts3 = []string{"mx1." + mxDomain, "mx2." + mxDomain, "mx3." + mxDomain}

// mxKinds: how a single MX of a mixed-MX world fails. refused: the host resolves,
// the connection is refused; nxhost: the host name does not exist; dnstemp: the
// lookup of the host fails temporarily; greet-421 / greet-554: the hop greets with
// 4xx / 5xx; notls: local_policy demands TLS, the hop does not offer STARTTLS;
// sts-unlisted: the MTA-STS policy in enforce mode does not list this MX.
var mxKinds = []string{"refused", "nxhost", "dnstemp", "greet-421", "greet-554", "notls", "sts-unlisted"}

// ---------------------------------------------------------------- PKI (once per process)

type mxPKIT struct {
	root       *certs.CA
	valid      tls.Certificate
	self       tls.Certificate
	validLeaf  *x509.Certificate
	selfLeaf   *x509.Certificate
	stranger   *x509.Certificate
	strangerCA *x509.Certificate
}

var (
	mxPKIOnce sync.Once
	mxPKIVal  *mxPKIT
)

func mxPKI() *mxPKIT {
	mxPKIOnce.Do(func() {
		names := append([]string{mxDomain}, mxHosts...)
		p := &mxPKIT{root: certs.NewCA("c16 root")}
		v := p.root.Leaf(certs.LeafOpts{DNSNames: names})
		s := certs.SelfSigned(certs.LeafOpts{DNSNames: names})
		sca := certs.NewCA("c16 unrelated CA")
		sl := sca.Leaf(certs.LeafOpts{DNSNames: []string{"stranger." + mxDomain}})
		p.valid, p.validLeaf = v.TLSCertificate(), v.Cert
		p.self, p.selfLeaf = s.TLSCertificate(), s.Cert
		p.stranger, p.strangerCA = sl.Cert, sca.Cert
		mxPKIVal = p
	})
	return mxPKIVal
}

// ---------------------------------------------------------------- worlds

// mxWorld is one fixed configuration / DNS / next-hop / message combination.
type mxWorld struct {
	Name   string `json:"name"`
	Family string `json:"family"`

	// policies in force, production order: mtasts, dane, dnssec, local_policy
	STS      string `json:"mta_sts,omitempty"` // "" (policy not configured) | enforce | testing | error (fetch fails)
	STSMatch bool   `json:"mta_sts_lists_the_mx,omitempty"`
	DANE     bool   `json:"dane,omitempty"`
	DNSSEC   bool   `json:"dnssec,omitempty"`
	Local    bool   `json:"local_policy,omitempty"`
	MinTLS   int    `json:"min_tls_level,omitempty"` // 0 none 1 encrypted 2 authenticated
	MinMX    int    `json:"min_mx_level,omitempty"`  // 0 none 1 mtasts 2 dnssec

	// DNS
	MX   string `json:"mx"`                // records | none (address records of the domain itself) | none-noaddr | null | servfail | nxdomain
	AD   bool   `json:"dnssec_signed"`     // answers carry the AD bit (needs the DNSSEC-aware resolver)
	TLSA string `json:"tlsa,omitempty"`    // "" (no data) | ee-match | ee-mismatch | ta-mismatch | unusable | servfail
	Ext  bool   `json:"ext_resolver_needed,omitempty"`

	// PerMX, if set, gives every MX record (in order of preference) its own way to
	// fail (mxKinds); Hop is then the plain hop behind the hosts that connect.
	PerMX []string `json:"per_mx,omitempty"`

	// next hop(s): all MX hosts behave the same
	Hop string `json:"hop"` // plain | tls | tls-selfsigned | tls-handshake | tls-454 | down | greet-421 | greet-554 | drop | mail-451 | mail-550 | rcpt-550 | rcpt-450 | dot-452 | dot-554

	// message
	Req       bool   `json:"requiretls,omitempty"`
	Ovr       bool   `json:"tls_required_no,omitempty"`
	Quar      bool   `json:"quarantined,omitempty"`
	Rcpt      string `json:"rcpt_kind,omitempty"` // "" | postmaster | ip-literal
	BadSender bool   `json:"malformed_sender,omitempty"`
}

var mxWorlds = []mxWorld{
	// REQUIRETLS (connect.go connectionForDomain)
	{Name: "reqtls/plaintext-hop", Family: "requiretls", MX: "records", Hop: "plain", Req: true},
	{Name: "reqtls/selfsigned-hop", Family: "requiretls", MX: "records", Hop: "tls-selfsigned", Req: true},
	{Name: "reqtls/handshake-fails", Family: "requiretls", MX: "records", Hop: "tls-handshake", Req: true},
	{Name: "reqtls/trusted-tls/mx-not-authenticated", Family: "requiretls", MX: "records", Hop: "tls", Req: true},
	{Name: "reqtls/trusted-tls/mta-sts-testing-mismatch", Family: "requiretls", MX: "records", Hop: "tls", Req: true, STS: "testing"},
	{Name: "reqtls/trusted-tls/dnssec-unsigned", Family: "requiretls", MX: "records", Hop: "tls", Req: true, DNSSEC: true, Ext: true},
	{Name: "reqtls/override/plaintext-hop", Family: "requiretls", MX: "records", Hop: "plain", Req: true, Ovr: true, Local: true, MinTLS: 1},
	{Name: "reqtls/mx-authenticated-by-mta-sts/plaintext-hop", Family: "requiretls", MX: "records", Hop: "plain", Req: true, STS: "testing", STSMatch: true},
	{Name: "reqtls/satisfied", Family: "requiretls", MX: "records", Hop: "tls", Req: true, STS: "enforce", STSMatch: true},
	// local_policy
	{Name: "local/min-tls-encrypted/plaintext-hop", Family: "local-policy", MX: "records", Hop: "plain", Local: true, MinTLS: 1},
	{Name: "local/min-tls-authenticated/selfsigned-hop", Family: "local-policy", MX: "records", Hop: "tls-selfsigned", Local: true, MinTLS: 2},
	{Name: "local/min-mx-mtasts/no-policy-published", Family: "local-policy", MX: "records", Hop: "tls", Local: true, MinTLS: 1, MinMX: 1, STS: "error"},
	{Name: "local/min-mx-dnssec/unsigned-zone", Family: "local-policy", MX: "records", Hop: "tls", Local: true, MinTLS: 1, MinMX: 2, DNSSEC: true, Ext: true},
	{Name: "local/min-tls-encrypted/tls-required-no", Family: "local-policy", MX: "records", Hop: "plain", Local: true, MinTLS: 1, Ovr: true},
	// MTA-STS
	{Name: "mta-sts/enforce/mx-not-listed", Family: "mta-sts", MX: "records", Hop: "tls", STS: "enforce"},
	{Name: "mta-sts/enforce/plaintext-hop", Family: "mta-sts", MX: "records", Hop: "plain", STS: "enforce", STSMatch: true},
	{Name: "mta-sts/enforce/selfsigned-hop", Family: "mta-sts", MX: "records", Hop: "tls-selfsigned", STS: "enforce", STSMatch: true},
	// DANE
	{Name: "dane/tlsa-published/plaintext-hop", Family: "dane", MX: "records", Hop: "plain", DANE: true, AD: true, TLSA: "ee-match", Ext: true},
	{Name: "dane/tlsa-published/handshake-fails", Family: "dane", MX: "records", Hop: "tls-handshake", DANE: true, AD: true, TLSA: "ee-match", Ext: true},
	{Name: "dane/ee-record-mismatch", Family: "dane", MX: "records", Hop: "tls", DANE: true, AD: true, TLSA: "ee-mismatch", Ext: true},
	{Name: "dane/ta-record-mismatch", Family: "dane", MX: "records", Hop: "tls", DANE: true, AD: true, TLSA: "ta-mismatch", Ext: true},
	{Name: "dane/tlsa-lookup-fails", Family: "dane", MX: "records", Hop: "tls", DANE: true, AD: true, TLSA: "servfail", Ext: true},
	{Name: "dane/ee-record-matches-selfsigned", Family: "dane", MX: "records", Hop: "tls-selfsigned", DANE: true, AD: true, TLSA: "ee-match", Ext: true},
	// DNS
	{Name: "dns/null-mx", Family: "dns", MX: "null", Hop: "plain"},
	{Name: "dns/mx-lookup-servfail", Family: "dns", MX: "servfail", Hop: "plain"},
	{Name: "dns/mx-lookup-nxdomain", Family: "dns", MX: "nxdomain", Hop: "plain"},
	{Name: "dns/no-mx/address-fallback-refused", Family: "dns", MX: "none", Hop: "down"},
	{Name: "dns/no-mx/no-address", Family: "dns", MX: "none-noaddr", Hop: "plain"},
	// connection
	{Name: "conn/refused-on-every-mx", Family: "connection", MX: "records", Hop: "down"},
	{Name: "conn/greeting-554", Family: "connection", MX: "records", Hop: "greet-554"},
	{Name: "conn/greeting-421", Family: "connection", MX: "records", Hop: "greet-421"},
	{Name: "conn/dropped-before-greeting", Family: "connection", MX: "records", Hop: "drop"},
	{Name: "conn/starttls-454", Family: "connection", MX: "records", Hop: "tls-454"},
	// message / recipient / sender
	{Name: "msg/quarantined", Family: "message", MX: "records", Hop: "plain", Quar: true},
	{Name: "msg/postmaster-recipient", Family: "message", MX: "records", Hop: "plain", Rcpt: "postmaster"},
	{Name: "msg/address-literal-recipient", Family: "message", MX: "records", Hop: "plain", Rcpt: "ip-literal"},
	{Name: "msg/malformed-sender", Family: "message", MX: "records", Hop: "plain", BadSender: true},
	// next-hop refusals through target.remote (coherent replies only)
	{Name: "hop/mail-451", Family: "next-hop", MX: "records", Hop: "mail-451"},
	{Name: "hop/mail-550", Family: "next-hop", MX: "records", Hop: "mail-550"},
	{Name: "hop/rcpt-550", Family: "next-hop", MX: "records", Hop: "rcpt-550"},
	{Name: "hop/rcpt-450", Family: "next-hop", MX: "records", Hop: "rcpt-450"},
	{Name: "hop/dot-452", Family: "next-hop", MX: "records", Hop: "dot-452"},
	{Name: "hop/dot-554", Family: "next-hop", MX: "records", Hop: "dot-554"},
}

// mxDraw: the dimensions drawn per case on top of the world.
type mxDraw struct {
	World       mxWorld `json:"world"`
	TwoMX       bool    `json:"two_mx_records"`
	ExtResolver bool    `json:"dnssec_aware_resolver"`
	HopReqTLS   bool    `json:"hop_advertises_requiretls"`
	Relaxed     bool    `json:"relaxed_requiretls"`
	AllowOvr    bool    `json:"requiretls_override"`
	MaxTries    int     `json:"max_tries"`
	NRcpt       int     `json:"recipients"`
	UTF8        bool    `json:"smtputf8"`
}

type mxRun struct {
	d      mxDraw
	srv    *smtpd.Server
	extra  []*smtpd.Server
	dnsSrv *mockdns.Server
	tgt    *remote.Target
}

func (w *mxRun) close() {
	if w.tgt != nil {
		w.tgt.Close()
		w.tgt = nil
	}
	if w.srv != nil {
		w.srv.Close()
	}
	for _, s := range w.extra {
		s.Close()
	}
	w.extra = nil
	if w.dnsSrv != nil {
		w.dnsSrv.Close()
		w.dnsSrv = nil
	}
}

type nopPrintf struct{}

func (nopPrintf) Printf(string, ...interface{}) {}

func retryBindMX(f func() error) error {
	var err error
	for try := 0; try < 40; try++ {
		if err = f(); err == nil || !strings.Contains(err.Error(), "address already in use") {
			return err
		}
		time.Sleep(250 * time.Millisecond)
	}
	return err
}

func tlsaRR(name string, usage, sel, mt uint8, data []byte) miekgdns.RR {
	h := sha256.Sum256(data)
	return &miekgdns.TLSA{
		Hdr:   miekgdns.RR_Header{Name: name, Class: miekgdns.ClassINET, Rrtype: miekgdns.TypeTLSA, Ttl: 9999},
		Usage: usage, Selector: sel, MatchingType: mt, Certificate: hex.EncodeToString(h[:]),
	}
}

func hopScript(kind string) func(ev smtpd.Event) *smtpd.Action {
	reply := func(st smtpd.Stage, code int, enh, text string) func(ev smtpd.Event) *smtpd.Action {
		return func(ev smtpd.Event) *smtpd.Action {
			if ev.Stage == st {
				return &smtpd.Action{Code: code, Enh: enh, Text: []string{text}}
			}
			return nil
		}
	}
	switch kind {
	case "greet-421":
		return func(ev smtpd.Event) *smtpd.Action {
			if ev.Stage == smtpd.StageConnect {
				return &smtpd.Action{Code: 421, Enh: "4.3.2", Text: []string{"not now"}, DropAfter: true}
			}
			return nil
		}
	case "greet-554":
		return reply(smtpd.StageConnect, 554, "5.3.2", "no SMTP service here")
	case "drop":
		return func(ev smtpd.Event) *smtpd.Action {
			if ev.Stage == smtpd.StageConnect {
				return &smtpd.Action{DropBefore: true}
			}
			return nil
		}
	case "mail-451":
		return reply(smtpd.StageMail, 451, "4.3.0", "come back later")
	case "mail-550":
		return reply(smtpd.StageMail, 550, "5.7.1", "sender refused")
	case "rcpt-550":
		return reply(smtpd.StageRcpt, 550, "5.1.1", "no such user")
	case "rcpt-450":
		return reply(smtpd.StageRcpt, 450, "4.2.1", "mailbox busy")
	case "dot-452":
		return reply(smtpd.StageDot, 452, "4.3.1", "out of space")
	case "dot-554":
		return reply(smtpd.StageDot, 554, "5.6.0", "content refused")
	}
	return nil
}

func buildMXRun(d mxDraw) (*mxRun, error) {
	w := d.World
	pk := mxPKI()
	run := &mxRun{d: d}

	// next hop: one scripted server behind every MX host name
	cfg := smtpd.Config{Hostname: mxHosts[0], PIPELINING: true, EightBitMIME: true, SMTPUTF8: true, REQUIRETLS: d.HopReqTLS, Script: hopScript(w.Hop)}
	switch w.Hop {
	case "tls":
		cfg.STARTTLS, cfg.TLS = true, &tls.Config{Certificates: []tls.Certificate{pk.valid}}
	case "tls-selfsigned":
		cfg.STARTTLS, cfg.TLS = true, &tls.Config{Certificates: []tls.Certificate{pk.self}}
	case "tls-handshake":
		cfg.STARTTLS, cfg.TLS, cfg.StartTLSBroken = true, &tls.Config{Certificates: []tls.Certificate{pk.valid}}, "handshake"
	case "tls-454":
		cfg.STARTTLS, cfg.TLS, cfg.StartTLSBroken = true, &tls.Config{Certificates: []tls.Certificate{pk.valid}}, "reply454"
	}
	if err := retryBindMX(func() (e error) { run.srv, e = smtpd.New(cfg); return }); err != nil {
		return nil, err
	}

	// DNS
	servfail := func() error {
		return &net.DNSError{Err: "server misbehaving", Name: mxDomain, IsTemporary: true}
	}
	zones := map[string]mockdns.Zone{}
	hosts := mxHosts[:1]
	if d.TwoMX {
		hosts = mxHosts
	}
	// mixed-MX worlds: one failure kind per host; hops that greet badly get a
	// scripted server of their own
	kindOf := map[string]string{}
	addrOf := map[string]string{}
	var stsListed []string
	if len(w.PerMX) > 0 {
		hosts = mxHosts3[:len(w.PerMX)]
		byKind := map[string]string{}
		for i, h := range hosts {
			kind := w.PerMX[i]
			kindOf[h] = kind
			if kind != "sts-unlisted" {
				stsListed = append(stsListed, h)
			}
			if kind != "greet-421" && kind != "greet-554" {
				continue
			}
			if byKind[kind] == "" {
				var es *smtpd.Server
				ecfg := smtpd.Config{Hostname: h, PIPELINING: true, EightBitMIME: true, SMTPUTF8: true, Script: hopScript(kind)}
				if err := retryBindMX(func() (e error) { es, e = smtpd.New(ecfg); return }); err != nil {
					run.close()
					return nil, err
				}
				run.extra = append(run.extra, es)
				byKind[kind] = es.Addr()
			}
			addrOf[h] = byKind[kind]
		}
	}
	dom := mockdns.Zone{AD: w.AD}
	switch w.MX {
	case "records":
		for i, h := range hosts {
			dom.MX = append(dom.MX, net.MX{Host: h + ".", Pref: uint16(10 * (i + 1))})
		}
	case "none":
		dom.A = []string{"127.0.0.1"}
	case "none-noaddr":
		dom.TXT = []string{"v=spf1 -all"}
	case "null":
		dom.MX = []net.MX{{Host: ".", Pref: 0}}
	case "servfail":
		dom.Err = servfail()
	}
	if w.MX != "nxdomain" {
		zones[mxDomain+"."] = dom
	}
	leaf := pk.validLeaf
	if w.Hop == "tls-selfsigned" {
		leaf = pk.selfLeaf
	}
	for _, h := range hosts {
		zones[h+"."] = mockdns.Zone{AD: w.AD, A: []string{"127.0.0.1"}}
		tn := "_25._tcp." + h + "."
		var rrs []miekgdns.RR
		switch w.TLSA {
		case "ee-match":
			rrs = []miekgdns.RR{tlsaRR(tn, 3, 1, 1, leaf.RawSubjectPublicKeyInfo)}
		case "ee-mismatch":
			rrs = []miekgdns.RR{tlsaRR(tn, 3, 1, 1, pk.stranger.RawSubjectPublicKeyInfo)}
		case "ta-mismatch":
			rrs = []miekgdns.RR{tlsaRR(tn, 2, 0, 1, pk.strangerCA.Raw)}
		case "unusable":
			rrs = []miekgdns.RR{tlsaRR(tn, 1, 1, 1, leaf.RawSubjectPublicKeyInfo)}
		case "servfail":
			zones[tn] = mockdns.Zone{AD: w.AD, Err: servfail()}
		}
		if rrs != nil {
			zones[tn] = mockdns.Zone{AD: w.AD, Misc: map[miekgdns.Type][]miekgdns.RR{miekgdns.Type(miekgdns.TypeTLSA): rrs}}
		}
	}

	var extR *dns.ExtResolver
	if d.ExtResolver {
		if err := retryBindMX(func() (e error) { run.dnsSrv, e = mockdns.NewServerWithLogger(zones, nopPrintf{}, false); return }); err != nil {
			run.close()
			return nil, err
		}
		addr := run.dnsSrv.LocalAddr().(*net.UDPAddr)
		var err error
		if extR, err = dns.NewExtResolver(); err != nil {
			run.close()
			return nil, err
		}
		extR.Cfg.Servers = []string{addr.IP.String()}
		extR.Cfg.Port = strconv.Itoa(addr.Port)
	}

	// policies
	var pols []module.MXAuthPolicy
	if w.STS != "" {
		sts, match := w.STS, w.STSMatch
		get := func(ctx context.Context, domain string) (*mtasts.Policy, error) {
			if sts == "error" {
				return nil, errors.New("c16: no MTA-STS policy published")
			}
			pol := &mtasts.Policy{Mode: mtasts.ModeTesting, MaxAge: 86400}
			if sts == "enforce" {
				pol.Mode = mtasts.ModeEnforce
			}
			if len(stsListed) > 0 || len(kindOf) > 0 {
				pol.MX = append([]string{"listed-elsewhere." + mxDomain}, stsListed...)
			} else if match {
				pol.MX = append([]string{mxDomain}, mxHosts...)
			} else {
				pol.MX = []string{"elsewhere." + mxDomain}
			}
			return pol, nil
		}
		pl, err := remote.VerifMTASTSPolicy(get, nil)
		if err != nil {
			run.close()
			return nil, err
		}
		pols = append(pols, pl)
	}
	if w.DANE {
		pl, err := remote.VerifDANEPolicy(extR, nil)
		if err != nil {
			run.close()
			return nil, err
		}
		pols = append(pols, pl)
	}
	if w.DNSSEC {
		pl, err := remote.VerifDNSSECPolicy()
		if err != nil {
			run.close()
			return nil, err
		}
		pols = append(pols, pl)
	}
	if w.Local {
		pols = append(pols, remote.VerifLocalPolicy(module.TLSLevel(w.MinTLS), module.MXLevel(w.MinMX)))
	}

	srvAddr := run.srv.Addr()
	known := map[string]bool{}
	for _, h := range hosts {
		known[h] = true
	}
	if w.MX == "none" {
		known[mxDomain] = true
	}
	down := w.Hop == "down"
	dialer := func(ctx context.Context, network, addr string) (net.Conn, error) {
		host, _, err := net.SplitHostPort(addr)
		if err != nil {
			return nil, err
		}
		host = strings.TrimSuffix(host, ".")
		if !known[host] {
			return nil, &net.OpError{Op: "dial", Net: "tcp", Err: &net.DNSError{Err: "no such host", Name: host, IsNotFound: true}}
		}
		if down {
			return nil, &net.OpError{Op: "dial", Net: "tcp", Err: os.NewSyscallError("connect", syscall.ECONNREFUSED)}
		}
		switch kindOf[host] {
		case "refused":
			return nil, &net.OpError{Op: "dial", Net: "tcp", Err: os.NewSyscallError("connect", syscall.ECONNREFUSED)}
		case "nxhost":
			return nil, &net.OpError{Op: "dial", Net: "tcp", Err: &net.DNSError{Err: "no such host", Name: host, IsNotFound: true}}
		case "dnstemp":
			return nil, &net.OpError{Op: "dial", Net: "tcp", Err: &net.DNSError{Err: "server misbehaving", Name: host, Server: "10.0.0.53:53", IsTemporary: true}}
		}
		if a := addrOf[host]; a != "" {
			return (&net.Dialer{}).DialContext(ctx, "tcp", a)
		}
		return (&net.Dialer{}).DialContext(ctx, "tcp", srvAddr)
	}

	ao, rx := d.AllowOvr, d.Relaxed
	opts := remote.VerifTargetOpts{
		Resolver:           &mockdns.Resolver{Zones: zones},
		Dialer:             dialer,
		ExtResolver:        extR,
		Policies:           pols,
		TLSConfig:          &tls.Config{RootCAs: pk.root.Pool()},
		ConnectTimeout:     30 * time.Second,
		CommandTimeout:     30 * time.Second,
		SubmissionTimeout:  30 * time.Second,
		RequireTLSOverride: &ao,
		RelaxedRequireTLS:  &rx,
	}
	tgt, err := remote.VerifNewTarget(opts)
	if err != nil {
		run.close()
		return nil, err
	}
	run.tgt = tgt
	return run, nil
}

// ---------------------------------------------------------------- the case

type mxObs struct {
	Draw     mxDraw `json:"draw"`
	Attempt  int    `json:"attempt"`
	Rcpt     string `json:"rcpt"`
	Recorded string `json:"recorded"`
	Retried  bool   `json:"retried"`
}

func coherentPair(code int, enh [3]int) bool {
	return code/100 == enh[0] && (enh[0] == 4 || enh[0] == 5)
}

func runRemoteMXCase(t *testing.T, r *rep.Reporter, c *rep.Case, ci int) {
	k := ci - remoteMXBase
	runRemoteMXWorld(t, r, c, ci, mxWorlds[k%len(mxWorlds)])
}

// mixedMXSlots: every ordered pair of failure kinds once, and as many triples
// drawn from (seed, index).
var mixedMXSlots = 2 * len(mxKinds) * len(mxKinds)

// runMixedMXCase: a recipient domain with two or three MX records that ALL fail,
// each in its own way. "No usable MXs" is then built from several MX errors of
// different temporariness; the stored / reported pair and the retry decision are
// judged by the clauses of the remote-MX layer (cause-agnostic, no outcome model).
func runMixedMXCase(t *testing.T, r *rep.Reporter, c *rep.Case, ci int) {
	k := (ci - mixedMXBase) % mixedMXSlots
	n := len(mxKinds)
	var per []string
	if k < n*n {
		per = []string{mxKinds[k/n], mxKinds[k%n]}
	} else {
		p := prng.New(r.Seed(), uint64(ci), "c16-mixed-mx")
		per = []string{prng.Pick(p, mxKinds), prng.Pick(p, mxKinds), prng.Pick(p, mxKinds)}
	}
	w := mxWorld{Name: "mixed/" + strings.Join(per, ">"), Family: "mixed-mx", MX: "records", Hop: "plain", PerMX: per}
	distinct := map[string]bool{}
	for _, kind := range per {
		distinct[kind] = true
		switch kind {
		case "notls":
			w.Local, w.MinTLS = true, 1
		case "sts-unlisted":
			w.STS, w.STSMatch = "enforce", true
		}
	}
	r.Count(fmt.Sprintf("remote_mx_mixed_cases/%d-mx", len(per)), 1)
	if len(distinct) > 1 {
		r.Count("remote_mx_mixed_cases_heterogeneous", 1)
	}
	r.Distinct("remote_mx_mixed_worlds", w.Name)
	runRemoteMXWorld(t, r, c, ci, w)
}

func runRemoteMXWorld(t *testing.T, r *rep.Reporter, c *rep.Case, ci int, world mxWorld) {
	p := prng.New(r.Seed(), uint64(ci), "c16-remote-mx")
	verifkit.ResetSMTPErrorObservations()
	resetInjected()
	d := mxDraw{World: world}
	d.TwoMX = p.Chance(1, 3)
	d.ExtResolver = world.Ext || p.Chance(1, 3)
	d.HopReqTLS = p.Chance(2, 3)
	d.Relaxed = p.Chance(3, 4)
	d.AllowOvr = p.Chance(3, 4)
	d.MaxTries = p.Range(2, 3)
	d.NRcpt = p.Range(1, 2)
	d.UTF8 = p.Bool()

	run, err := buildMXRun(d)
	if err != nil {
		c.Inconclusive("cannot build the world (scripted server / mock DNS / target): " + err.Error())
		c.Done("no-world", false)
		return
	}
	defer run.close()

	dir, err := os.MkdirTemp("", "c16m")
	if err != nil {
		t.Fatal(err)
	}
	defer os.RemoveAll(dir)
	var mu sync.Mutex
	snaps := map[int]*metaSnap{}
	snapErr := ""
	starts := 0
	tap := &tapTarget{DeliveryTarget: run.tgt, onStart: func(id string) {
		mu.Lock()
		defer mu.Unlock()
		starts++
		if starts < 2 {
			return
		}
		b, err := os.ReadFile(filepath.Join(dir, origID(id)+".meta"))
		var ms metaSnap
		if err == nil {
			err = json.Unmarshal(b, &ms)
		}
		if err != nil {
			snapErr = err.Error()
			return
		}
		snaps[starts-1] = &ms
	}}
	lg := mx.NewLog()
	bounceT := mx.NewTarget("bounce", lg)
	q, err := queue.VerifNewQueue(queue.VerifOpts{Dir: dir, Target: tap, Bounce: bounceT, MaxTries: d.MaxTries, Parallelism: 1, Hostname: "mx.example.org", AutogenMsgDomain: "example.org"})
	if err != nil {
		t.Fatal(err)
	}
	closed := false
	defer func() {
		if !closed {
			q.Close()
		}
	}()

	var rcpts []string
	for i := 0; i < d.NRcpt; i++ {
		switch {
		case i == 0 && world.Rcpt == "postmaster":
			rcpts = append(rcpts, "postmaster")
		case i == 0 && world.Rcpt == "ip-literal":
			rcpts = append(rcpts, "user@[127.0.0.1]")
		default:
			rcpts = append(rcpts, fmt.Sprintf("r%d@%s", i, mxDomain))
		}
	}
	from := "sender@example.org"
	if world.BadSender {
		from = "sender.example.org"
	}
	ctx := context.Background()
	meta := &module.MsgMetadata{ID: fmt.Sprintf("rm%d", ci), OriginalFrom: "sender@example.org", DontTraceSender: true, Quarantine: world.Quar, TLSRequireOverride: world.Ovr}
	meta.SMTPOpts.UTF8 = d.UTF8
	meta.SMTPOpts.RequireTLS = world.Req
	dl, err := q.Start(ctx, meta, from)
	if err != nil {
		t.Fatal(err)
	}
	for _, rc := range rcpts {
		dl.AddRcpt(ctx, rc, smtp.RcptOptions{})
	}
	hdrText := "Subject: c16 remote mx\r\n"
	if world.Ovr {
		hdrText += "TLS-Required: No\r\n"
	}
	hdr, _ := textproto.ReadHeader(bufio.NewReader(bytes.NewReader([]byte(hdrText + "\r\n"))))
	if err := dl.Body(ctx, hdr, buffer.MemoryBuffer{Slice: []byte("x\r\n")}); err != nil {
		t.Fatal(err)
	}
	dl.Commit(ctx)
	ok, names := waitDrained(dir, 180*time.Second)
	if !ok {
		c.Inconclusive(fmt.Sprintf("queue did not drain within the watchdog; spool: %v", names))
		c.Done("undrained", false)
		return
	}
	q.Close()
	closed = true
	if snapErr != "" {
		c.Inconclusive("could not read the spool meta file: " + snapErr)
		c.Done("snapshot-failed", false)
		return
	}
	mu.Lock()
	nStarts := starts
	mu.Unlock()

	// Attempt k+1 handles exactly the recipients the spool file written after
	// attempt k lists; a recipient of attempt k that is not listed has ended there
	// (delivered, or failed for good and then in the report).
	judged := 0
	lastAttempt := map[string]int{}
	pending := append([]string(nil), rcpts...)
	for a := 1; a <= nStarts && len(pending) > 0; a++ {
		snap := snaps[a]
		inTo := map[string]bool{}
		if snap != nil {
			for _, x := range snap.To {
				inTo[x] = true
			}
		}
		var next []string
		for _, rc := range pending {
			lastAttempt[rc] = a
			if !inTo[rc] {
				continue
			}
			next = append(next, rc)
			se := snap.RcptErrs[rc]
			if se == nil {
				c.Violation("remote-mx/spool/no-record-for-retried-recipient/"+world.Family, fmt.Sprintf("recipient %s is retried after attempt %d but RcptErrs has no entry", rc, a), mxObs{Draw: d, Attempt: a, Rcpt: rc, Retried: true})
				continue
			}
			ob := mxObs{Draw: d, Attempt: a, Rcpt: rc, Retried: true, Recorded: fmt.Sprintf("%d %d.%d.%d %q", se.Code, se.EnhancedCode[0], se.EnhancedCode[1], se.EnhancedCode[2], se.Message)}
			r.Count("remote_mx_records_spool", 1)
			r.Count("remote_mx_failures_judged/"+world.Family, 1)
			r.Count("remote_mx_retry_decisions", 1)
			r.Distinct("remote_mx_recorded", world.Name+" -> "+recordKey(se.Code, se.EnhancedCode, se.Message))
			judged++
			cause := mxCause(world, se.Message)
			if !coherentPair(se.Code, se.EnhancedCode) {
				c.Violation("remote-mx/spool/class-mismatch/"+cause, "spool: "+ob.Recorded, ob)
			}
			if se.Code/100 != 4 {
				c.Violation("remote-mx/retry/retried-but-recorded-permanent/"+cause, fmt.Sprintf("recipient %s is retried after attempt %d of %d but the queue recorded %s", rc, a, d.MaxTries, ob.Recorded), ob)
			}
			if a >= d.MaxTries {
				c.Violation("remote-mx/retry/retried-beyond-max-tries", fmt.Sprintf("recipient %s is retried after attempt %d of %d", rc, a, d.MaxTries), ob)
			}
		}
		pending = next
	}

	reported := map[string]bool{}
	for _, s := range mx.Summaries(lg.Events()) {
		if s.Target != "bounce" || s.BodyKind == "" {
			continue
		}
		rp := mx.ParseReport(s.Header, s.Body)
		r.Count("remote_mx_reports", 1)
		for _, g := range rp.Rcpts {
			at, known := lastAttempt[g.Addr]
			if !known || !g.StatusOK || !g.DiagOK {
				r.Count("remote_mx_report_groups_unusable(judged by C18)", 1)
				continue
			}
			reported[g.Addr] = true
			ob := mxObs{Draw: d, Attempt: at, Rcpt: g.Addr, Recorded: fmt.Sprintf("Status %d.%d.%d, Diagnostic-Code %d %d.%d.%d %q", g.Status[0], g.Status[1], g.Status[2], g.DiagCode, g.DiagEnh[0], g.DiagEnh[1], g.DiagEnh[2], g.DiagText)}
			r.Count("remote_mx_records_report", 1)
			r.Count("remote_mx_failures_judged/"+world.Family, 1)
			r.Distinct("remote_mx_recorded", world.Name+" -> "+recordKey(g.DiagCode, g.DiagEnh, g.DiagText))
			judged++
			cause := mxCause(world, g.DiagText)
			if !coherentPair(g.DiagCode, g.DiagEnh) {
				c.Violation("remote-mx/report/class-mismatch/"+cause, "report: "+ob.Recorded, ob)
			}
			if g.Status != g.DiagEnh {
				c.Violation("remote-mx/report/status-differs-from-diagnostic-code", ob.Recorded, ob)
			}
			if at < d.MaxTries {
				r.Count("remote_mx_retry_decisions", 1)
				if g.DiagCode/100 != 5 {
					c.Violation("remote-mx/retry/not-retried-but-recorded-temporary/"+cause, fmt.Sprintf("recipient %s was given up after attempt %d of %d although the report says %s", g.Addr, at, d.MaxTries, ob.Recorded), ob)
				}
			}
		}
	}
	delivered := 0
	for _, rc := range rcpts {
		if !reported[rc] {
			delivered++
		}
	}
	if delivered > 0 {
		// delivered, or a terminal failure whose report group is missing / unusable (C18)
		r.Count("remote_mx_recipients_without_failure_report", int64(delivered))
	}
	judgeObserver(r, c, "remote-mx")
	c.Done(fmt.Sprintf("remote-mx/%s/two-mx=%v/ext=%v/tries=%d/rcpts=%d/attempts=%d", world.Name, d.TwoMX, d.ExtResolver, d.MaxTries, d.NRcpt, nStarts), judged > 0)
}

// recordKey: code, enhanced code and the leading words of the text (the texts
// are maddy's own literals here; host names and addresses follow later).
func recordKey(code int, enh [3]int, msg string) string {
	return fmt.Sprintf("%d %d.%d.%d %s", code, enh[0], enh[1], enh[2], slug(msg))
}

// mxCause names the cause class of a witness: the leading words of the recorded
// text, i.e. of the literal maddy built it from ("no-usable", "tls-it-not-available",
// ...; the scripted text for a relayed next-hop reply), or the world family when
// the text does not start with words.
func mxCause(w mxWorld, msg string) string {
	if s := slug(msg); s != "" {
		return s
	}
	return w.Family
}
