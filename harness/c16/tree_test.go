//go:build verif

package c16

// Error-chain generator with a harness-side model of each chain. A "tree" in
// the property text is a chain here: every wrapping primitive has one child.

import (
	"context"
	"errors"
	"fmt"
	"net"
	"strings"
	"sync"

	gosmtp "github.com/emersion/go-smtp"
	"github.com/foxcpp/maddy/framework/exterrors"
	"verifkit/prng"
)

type node struct {
	Kind string `json:"kind"` // smtp gosmtp temp fields operr dnserr wrapf plain deadline
	Code int    `json:"code,omitempty"`
	Enh  [3]int `json:"enh,omitempty"`
	Msg  string `json:"msg,omitempty"`
	Temp bool   `json:"temp,omitempty"` // temp: marker value; dnserr: IsTemporary
	Tmo  bool   `json:"timeout,omitempty"`
	Text string `json:"text,omitempty"` // text that must never be shown for unannotated chains
}

// chain is outermost-first.
type chain struct {
	Nodes []node `json:"nodes"`
	Group string `json:"group"` // consistent | conflicting

	// model
	Annotated   bool   `json:"annotated"`
	Code        int    `json:"ann_code,omitempty"`
	Enh         [3]int `json:"ann_enh,omitempty"`
	Msg         string `json:"ann_msg,omitempty"`
	HasMarker   bool   `json:"has_marker"`
	Marker      bool   `json:"marker_temporary,omitempty"`
	HasDeadline bool   `json:"has_deadline,omitempty"`
	// BareGoSMTP: the whole error is a plain go-smtp *SMTPError (the deprecated
	// but supported annotation type both reply conversions special-case).
	BareGoSMTP bool     `json:"bare_go_smtp,omitempty"`
	MultiLine  bool     `json:"multi_line,omitempty"`
	MsgKind    string   `json:"msg_kind,omitempty"`
	Tokens     []string `json:"-"`
}

type codePair struct {
	code int
	enh  [3]int
}

var tempCodes = []codePair{{450, [3]int{4, 2, 0}}, {451, [3]int{4, 3, 0}}, {452, [3]int{4, 2, 2}}, {421, [3]int{4, 4, 2}}, {451, [3]int{4, 7, 1}}, {450, [3]int{4, 4, 1}}, {454, [3]int{4, 7, 0}}, {451, [3]int{4, 0, 0}}, {432, [3]int{4, 7, 12}}}
var permCodes = []codePair{{550, [3]int{5, 1, 1}}, {551, [3]int{5, 1, 6}}, {552, [3]int{5, 2, 2}}, {553, [3]int{5, 1, 3}}, {554, [3]int{5, 7, 1}}, {550, [3]int{5, 7, 23}}, {556, [3]int{5, 1, 10}}, {501, [3]int{5, 1, 8}}, {554, [3]int{5, 0, 0}}, {523, [3]int{5, 3, 4}}}

var tokCounter int

func secretToken(p *prng.R) string {
	tokCounter++
	return fmt.Sprintf("zq%05xsecret%d", p.Intn(1<<20), tokCounter)
}

func genMsg(p *prng.R) (string, string) {
	switch p.Intn(10) {
	case 0, 1, 2:
		return "Policy says no " + fmt.Sprint(p.Intn(1000)), "ascii"
	case 3:
		return "почтовый ящик недоступен " + fmt.Sprint(p.Intn(1000)), "utf8"
	case 4:
		return "boundary \u0080 char " + fmt.Sprint(p.Intn(1000)), "u0080"
	case 5:
		return "café ÿ Ā 邮箱 \U0001F4E7", "utf8-mixed"
	case 6:
		return "tilde~ {braces} |bar| stay", "ascii-edge"
	case 7:
		return "\u0080", "u0080-only"
	case 8:
		return "first line " + fmt.Sprint(p.Intn(1000)) + "\nsecond line\r\nthird", "multiline"
	default:
		return "première ligne \u0080 " + fmt.Sprint(p.Intn(1000)) + "\nsecond line", "multiline-utf8"
	}
}

// genChain builds a random chain of depth 1..4.
func genChain(p *prng.R) *chain {
	depth := p.Range(1, 4)
	c := &chain{}
	for i := 0; i < depth; i++ {
		leaf := i == depth-1
		var n node
		var kinds []string
		if leaf {
			kinds = []string{"smtp", "smtp", "plain", "plain", "dnserr", "deadline", "gosmtp"}
			if depth == 1 {
				kinds = append(kinds, "gosmtp", "gosmtp")
			}
		} else {
			kinds = []string{"smtp", "smtp", "temp", "temp", "fields", "fields", "operr", "dnserr", "wrapf"}
		}
		n.Kind = prng.Pick(p, kinds)
		switch n.Kind {
		case "smtp":
			var cp codePair
			if p.Bool() {
				cp = prng.Pick(p, tempCodes)
			} else {
				cp = prng.Pick(p, permCodes)
			}
			n.Code, n.Enh = cp.code, cp.enh
			if p.Chance(1, 8) {
				// a basic code only, as copied from a next hop without enhanced codes
				n.Enh = [3]int{}
			}
			n.Msg, _ = genMsg(p)
			n.Text = secretToken(p) // Reason
		case "gosmtp":
			var cp codePair
			if p.Bool() {
				cp = prng.Pick(p, tempCodes)
			} else {
				cp = prng.Pick(p, permCodes)
			}
			n.Code, n.Enh = cp.code, cp.enh
			if p.Chance(1, 4) {
				n.Enh = [3]int{} // EnhancedCodeNotSet
			}
			if i == 0 {
				n.Msg, _ = genMsg(p)
			} else {
				// wrapped: nothing reads its annotation, its text is internal detail
				n.Text = secretToken(p)
				n.Msg = "downstream said " + n.Text
			}
		case "temp":
			n.Temp = p.Bool()
		case "fields":
			n.Text = secretToken(p)
		case "operr":
			n.Text = secretToken(p)
		case "dnserr":
			n.Temp = p.Bool()
			n.Tmo = p.Chance(1, 4)
			n.Text = secretToken(p)
		case "wrapf":
			n.Text = secretToken(p)
		case "plain":
			n.Text = secretToken(p)
			if p.Chance(1, 4) {
				n.Text += " \u0080 ünï"
			}
		case "deadline":
		}
		c.Nodes = append(c.Nodes, n)
	}
	c.model()
	return c
}

func hasTempMethod(kind string) bool {
	switch kind {
	case "smtp", "gosmtp", "temp", "operr", "dnserr", "deadline":
		return true
	}
	return false
}

// nodeTemp is the value the Temporary method of node i returns, from the
// documented behaviour of the primitive (not from calling maddy).
func (c *chain) nodeTemp(i int) bool {
	n := c.Nodes[i]
	switch n.Kind {
	case "smtp", "gosmtp":
		return n.Code/100 == 4
	case "temp":
		return n.Temp
	case "dnserr":
		return n.Temp || n.Tmo
	case "deadline":
		return true
	case "operr":
		// net.OpError.Temporary: its direct Err's Temporary method, if any
		if i+1 < len(c.Nodes) && hasTempMethod(c.Nodes[i+1].Kind) {
			return c.nodeTemp(i + 1)
		}
		return false
	}
	return false
}

func (c *chain) model() {
	c.Annotated, c.HasMarker, c.HasDeadline, c.BareGoSMTP = false, false, false, false
	c.Tokens = nil
	for i, n := range c.Nodes {
		if i == 0 && n.Kind == "gosmtp" {
			c.Annotated, c.BareGoSMTP = true, true
			c.Code, c.Enh, c.Msg = n.Code, n.Enh, n.Msg
		}
		if !c.HasMarker && hasTempMethod(n.Kind) {
			c.HasMarker = true
			c.Marker = c.nodeTemp(i)
		}
		if !c.Annotated && n.Kind == "smtp" {
			c.Annotated = true
			c.Code, c.Enh, c.Msg = n.Code, n.Enh, n.Msg
		}
		if n.Kind == "deadline" {
			c.HasDeadline = true
		}
		if n.Text != "" {
			c.Tokens = append(c.Tokens, strings.Fields(n.Text)[0])
		}
	}
	c.Group = "consistent"
	if c.Annotated {
		if c.HasMarker && c.Marker != (c.Code/100 == 4) {
			c.Group = "conflicting"
		}
		if c.HasDeadline {
			c.Group = "conflicting"
		}
	}
	// The endpoint answers anything that wraps context.DeadlineExceeded as an
	// overload (temporary); a chain that marks it permanent contradicts that.
	if c.HasDeadline && !(c.HasMarker && c.Marker) {
		c.Group = "conflicting"
	}
	if c.Annotated {
		c.MsgKind = msgKind(c.Msg)
		c.MultiLine = strings.ContainsAny(c.Msg, "\r\n")
	}
}

func msgKind(s string) string {
	k := "ascii"
	for _, r := range s {
		if r == 0x80 {
			return "u0080"
		}
		if r > 0x80 {
			k = "utf8"
		}
	}
	return k
}

// genGroup generates a chain of the wanted group.
func genGroup(p *prng.R, want string) *chain {
	for tries := 0; ; tries++ {
		c := genChain(p)
		if c.Group == want {
			return c
		}
		if tries > 200 {
			// a minimal member of each group
			if want == "conflicting" {
				c = &chain{Nodes: []node{{Kind: "temp", Temp: true}, {Kind: "smtp", Code: 550, Enh: [3]int{5, 1, 1}, Msg: "no", Text: secretToken(p)}}}
			} else {
				c = &chain{Nodes: []node{{Kind: "plain", Text: secretToken(p)}}}
			}
			c.model()
			return c
		}
	}
}

// temporaryOrUnspec / temporary: the two documented defaults.
func (c *chain) temporaryOrUnspec() bool { return !c.HasMarker || c.Marker }
func (c *chain) temporary() bool         { return c.HasMarker && c.Marker }

func (c *chain) class() string {
	switch {
	case !c.HasMarker:
		return "unclassified"
	case c.Marker:
		return "temp"
	}
	return "perm"
}

// shape names the chain's structure without data.
func (c *chain) shape() string {
	var k []string
	for _, n := range c.Nodes {
		s := n.Kind
		switch n.Kind {
		case "smtp", "gosmtp":
			s += fmt.Sprint(n.Code / 100)
			if n.Enh == [3]int{} {
				s += "noenh"
			}
		case "temp", "dnserr":
			if n.Temp || n.Tmo {
				s += "+"
			} else {
				s += "-"
			}
		}
		k = append(k, s)
	}
	return strings.Join(k, ">")
}

// injected remembers the (code, enhanced code, message) triples of the
// SMTPErrors the harness itself built, so that the passive observer can tell
// them from the ones maddy generates.
var (
	injectedMu sync.Mutex
	injected   = map[string]bool{}
)

func injectedKey(code int, enh [3]int, msg string) string {
	return fmt.Sprintf("%d|%v|%s", code, enh, msg)
}

func resetInjected() {
	injectedMu.Lock()
	injected = map[string]bool{}
	injectedMu.Unlock()
}

func wasInjected(code int, enh [3]int, msg string) bool {
	injectedMu.Lock()
	defer injectedMu.Unlock()
	return injected[injectedKey(code, enh, msg)]
}

// build constructs the real error value.
func (c *chain) build() error {
	var err error
	for i := len(c.Nodes) - 1; i >= 0; i-- {
		n := c.Nodes[i]
		switch n.Kind {
		case "smtp":
			injectedMu.Lock()
			injected[injectedKey(n.Code, n.Enh, n.Msg)] = true
			injectedMu.Unlock()
			se := &exterrors.SMTPError{
				Code:         n.Code,
				EnhancedCode: exterrors.EnhancedCode{n.Enh[0], n.Enh[1], n.Enh[2]},
				Message:      n.Msg,
				Err:          err,
				Misc:         map[string]interface{}{"detail": n.Text},
			}
			switch i % 3 {
			case 0:
				se.TargetName = "verif"
			case 1:
				se.CheckName = "verif"
				se.Reason = "internal reason " + n.Text
			}
			if err == nil && i%2 == 0 {
				se.Reason = "internal reason " + n.Text
			}
			err = se
		case "gosmtp":
			err = &gosmtp.SMTPError{Code: n.Code, EnhancedCode: gosmtp.EnhancedCode{n.Enh[0], n.Enh[1], n.Enh[2]}, Message: n.Msg}
		case "temp":
			err = exterrors.WithTemporary(err, n.Temp)
		case "fields":
			err = exterrors.WithFields(err, map[string]interface{}{"remote_server": n.Text, "effective_rcpt": n.Text + "@internal.example"})
		case "operr":
			err = &net.OpError{Op: "dial", Net: "tcp", Addr: &net.TCPAddr{IP: net.IPv4(10, 1, 2, 3), Port: 25}, Err: err}
		case "dnserr":
			err = &net.DNSError{Err: "lookup failure " + n.Text, Name: n.Text + ".internal.example", Server: "10.0.0.53", IsTemporary: n.Temp, IsTimeout: n.Tmo, UnwrapErr: err}
		case "wrapf":
			err = fmt.Errorf("while doing %s: %w", n.Text, err)
		case "plain":
			err = errors.New("failure " + n.Text)
		case "deadline":
			err = context.DeadlineExceeded
		}
	}
	return err
}
