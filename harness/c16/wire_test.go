//go:build verif

package c16

// Wire level: a real SMTP endpoint built from configuration text; the errors
// come from a scripted check / delivery target; a raw client reads the replies.

import (
	modconfig "github.com/foxcpp/maddy/framework/config/module"
	"bufio"
	"encoding/base64"
	"errors"
	"fmt"
	"net"
	"os"
	"path/filepath"
	"regexp"
	"strconv"
	"strings"
	"sync"
	"testing"
	"time"

	"github.com/emersion/go-milter"
	"github.com/foxcpp/maddy/framework/config"
	"github.com/foxcpp/maddy/framework/module"
	_ "github.com/foxcpp/maddy/internal/check/milter"
	smtpendp "github.com/foxcpp/maddy/internal/endpoint/smtp"
	"github.com/foxcpp/maddy/internal/zzverif/mx"
	"verifkit"
	"verifkit/prng"
	"verifkit/rep"
)

// ---------------------------------------------------------------- raw client

type reply struct {
	Code   int
	Enh    [3]int
	HasEnh bool
	Text   string // text of the last line after the codes
	Lines  []string
	Raw    []byte
}

func (r reply) String() string { return strings.Join(r.Lines, " | ") }

type client struct {
	conn net.Conn
	rd   *bufio.Reader
}

var errIO = errors.New("connection lost")

func dial(addr string) (*client, reply, error) {
	c, err := net.DialTimeout("unix", addr, 20*time.Second)
	if err != nil {
		return nil, reply{}, err
	}
	cl := &client{conn: c, rd: bufio.NewReaderSize(c, 1<<16)}
	rp, err := cl.read()
	if err != nil {
		c.Close()
		return nil, rp, err
	}
	return cl, rp, nil
}

func (cl *client) close() {
	if cl != nil && cl.conn != nil {
		cl.conn.Close()
	}
}

func (cl *client) read() (reply, error) {
	var rp reply
	cl.conn.SetReadDeadline(time.Now().Add(60 * time.Second))
	for {
		line, err := cl.rd.ReadBytes('\n')
		rp.Raw = append(rp.Raw, line...)
		if err != nil {
			return rp, errIO
		}
		s := strings.TrimRight(string(line), "\r\n")
		rp.Lines = append(rp.Lines, s)
		if len(s) < 3 {
			return rp, fmt.Errorf("short reply line %q", s)
		}
		code, err := strconv.Atoi(s[:3])
		if err != nil {
			return rp, fmt.Errorf("reply line without code %q", s)
		}
		rp.Code = code
		if len(s) == 3 || s[3] == ' ' {
			rest := ""
			if len(s) > 4 {
				rest = s[4:]
			}
			f := strings.SplitN(rest, " ", 2)
			if enh, ok := mx.ParseEnhanced(f[0]); ok {
				rp.Enh, rp.HasEnh = enh, true
				if len(f) > 1 {
					rp.Text = f[1]
				}
			} else {
				rp.Text = rest
			}
			return rp, nil
		}
		if s[3] != '-' {
			return rp, fmt.Errorf("malformed reply line %q", s)
		}
	}
}

func (cl *client) cmd(line string) (reply, error) {
	cl.conn.SetWriteDeadline(time.Now().Add(60 * time.Second))
	if _, err := cl.conn.Write([]byte(line + "\r\n")); err != nil {
		return reply{}, errIO
	}
	return cl.read()
}

// ---------------------------------------------------------------- scripted modules

type armed struct {
	stage string // ehlo mail rcpt data
	via   string // check-early check-init check-conn check-sender check-rcpt check-body target-start target-rcpt target-body target-commit
	err   error
	// act, if set, is the configured check action (modconfig.ParseActionDirective of a
	// `fail_action reject [CODE [ENHANCED [TEXT]]]` line) the scripted check applies to its
	// result, as every real check with an *_action directive does.
	act *modconfig.FailAction
}

// actionDirectives: argument lists of a check's fail_action directive with a reply override
// (docs/reference/checks/actions.md); nil = the check rejects on its own, without FailAction.
var actionDirectives = [][]string{
	nil, nil,
	{"reject"},
	{"reject", "550", "5.7.1", "Rejected by local policy"},
	{"reject", "554", "5.7.0", "Not welcome here"},
	{"reject", "451", "4.7.1", "Come back later"},
	{"reject", "450", "4.7.0", "Policy check failed for now"},
	{"reject", "552", "5.3.4", "Too much"},
	// one- and two-argument forms: the enhanced code (its class) and the text are
	// derived by ParseRejectDirective (seeded C16-w6-1: `reject 450` kept 5.7.0)
	{"reject", "450"},
	{"reject", "451"},
	{"reject", "452"},
	{"reject", "550"},
	{"reject", "554"},
	{"reject", "451", "4.3.0"},
	{"reject", "550", "5.1.1"},
}

func (w *wireRig) takeAction() *modconfig.FailAction {
	w.mu.Lock()
	defer w.mu.Unlock()
	if w.cur != nil {
		return w.cur.act
	}
	return nil
}

type wireRig struct {
	mu   sync.Mutex
	cur  *armed
	addr string
	endp module.Module
	lg   *mx.Log
	kind string // smtp | submission

	milterSrv *milter.Server
}

func (w *wireRig) take(via string) error {
	w.mu.Lock()
	defer w.mu.Unlock()
	if w.cur != nil && w.cur.via == via {
		return w.cur.err
	}
	return nil
}

func (w *wireRig) arm(a *armed) {
	w.mu.Lock()
	w.cur = a
	w.mu.Unlock()
}

// scriptMilter answers MAIL FROM of two magic senders with a custom reply code.
type scriptMilter struct{ milter.NoOpMilter }

func (scriptMilter) MailFrom(from string, m *milter.Modifier) (milter.Response, error) {
	switch {
	case strings.Contains(from, "milter-temp"):
		return milter.NewResponseStr(byte(milter.ActReplyCode), "451 4.7.1 slow down"), nil
	case strings.Contains(from, "milter-perm"):
		return milter.NewResponseStr(byte(milter.ActReplyCode), "550 5.7.1 go away"), nil
	}
	return milter.RespContinue, nil
}

type plainAuth struct{ name string }

func (a *plainAuth) Name() string                          { return "verif_auth" }
func (a *plainAuth) InstanceName() string                  { return a.name }
func (a *plainAuth) Init(*config.Map) error                { return nil }
func (a *plainAuth) AuthPlain(user, password string) error { return nil }

var rigSeq int

// Checks inside a check { } block are named by directive, which cannot be an
// &instance reference; a module factory hands out the pre-built scripted check.
var (
	checkRegOnce sync.Once
	checkRegMu   sync.Mutex
	checkReg     = map[string]*mx.ScriptCheck{}
)

func registerCheckFactory() {
	checkRegOnce.Do(func() {
		module.Register("check.c16script", func(modName, instName string, aliases, inlineArgs []string) (module.Module, error) {
			if len(inlineArgs) != 1 {
				return nil, errors.New("c16script: one argument expected")
			}
			checkRegMu.Lock()
			defer checkRegMu.Unlock()
			chk := checkReg[inlineArgs[0]]
			if chk == nil {
				return nil, errors.New("c16script: unknown scripted check " + inlineArgs[0])
			}
			return chk, nil
		})
	})
}

func newRig(kind string, deferReject, withMilter bool) (*wireRig, error) {
	rigSeq++
	w := &wireRig{lg: mx.NewLog(), kind: kind}
	suffix := fmt.Sprintf("%d_%d", rigSeq, time.Now().UnixNano()%1000000)
	chk := mx.NewCheck("c16chk_"+suffix, w.lg)
	chk.EarlyErr = func(p mx.CheckPoint) error { return w.take("check-early") }
	chk.InitErr = func(p mx.CheckPoint) error { return w.take("check-init") }
	chk.Result = func(p mx.CheckPoint) module.CheckResult {
		if err := w.take("check-" + p.Stage); err != nil {
			if act := w.takeAction(); act != nil {
				return act.Apply(module.CheckResult{Reason: err})
			}
			return module.CheckResult{Reject: true, Reason: err}
		}
		return module.CheckResult{}
	}
	tgt := mx.NewTarget("c16tgt_"+suffix, w.lg)
	tgt.Script = func(p mx.Point) error {
		switch p.Stage {
		case mx.StStart:
			return w.take("target-start")
		case mx.StRcpt:
			return w.take("target-rcpt")
		case mx.StBody:
			return w.take("target-body")
		case mx.StCommit:
			return w.take("target-commit")
		}
		return nil
	}
	au := &plainAuth{name: "c16auth_" + suffix}
	mx.RegisterInstance(chk)
	mx.RegisterInstance(tgt)
	mx.RegisterInstance(au)

	cfg := "hostname mx.example.org\ntls off\n"
	if kind == "submission" {
		cfg += "auth &" + au.name + "\n"
	}
	if deferReject {
		cfg += "defer_sender_reject yes\n"
	} else {
		cfg += "defer_sender_reject no\n"
	}
	registerCheckFactory()
	checkRegMu.Lock()
	checkReg[chk.InstName] = chk
	checkRegMu.Unlock()
	cfg += "check {\n  c16script " + chk.InstName + "\n"
	if withMilter {
		ml, err := net.Listen("tcp", "127.0.0.1:0")
		if err != nil {
			return nil, err
		}
		w.milterSrv = &milter.Server{NewMilter: func() milter.Milter { return scriptMilter{} }}
		go w.milterSrv.Serve(ml)
		cfg += "  milter tcp://" + ml.Addr().String() + "\n"
	}
	cfg += "}\n"
	cfg += "destination reject-default.example {\n  reject\n}\n"
	cfg += "destination reject-perm.example {\n  reject 550\n}\n"
	cfg += "destination reject-temp.example {\n  reject 450\n}\n"
	cfg += "destination reject-full.example {\n  reject 451 4.7.1 \"Come back later\"\n}\n"
	cfg += "default_destination {\n  deliver_to &" + tgt.InstName + "\n}\n"

	// The endpoint wants an address, not a listener, and does not tell which
	// port it got for ":0". Picking a free TCP port first and letting the
	// endpoint bind it later loses the port to other processes on a loaded
	// machine, so the endpoint listens on a unix socket inside TMPDIR.
	w.addr = filepath.Join(os.TempDir(), fmt.Sprintf("c16-%d-%d.sock", os.Getpid(), rigSeq))
	os.Remove(w.addr)
	endp, err := smtpendp.New(kind, []string{"unix://" + w.addr})
	if err != nil {
		return nil, err
	}
	if err := mx.InitModule(endp, cfg, map[string]interface{}{}); err != nil {
		return nil, err
	}
	w.endp = endp
	return w, nil
}

type closer interface{ Close() error }

func (w *wireRig) close() {
	if w.milterSrv != nil {
		defer w.milterSrv.Close()
	}
	// go-smtp registers the listener inside Serve: make sure it got there.
	if c, _, err := dial(w.addr); err == nil {
		c.cmd("QUIT")
		c.close()
	}
	if c, ok := w.endp.(closer); ok {
		done := make(chan struct{})
		go func() { c.Close(); close(done) }()
		select {
		case <-done:
		case <-time.After(30 * time.Second):
		}
	}
	os.Remove(w.addr)
}

// ---------------------------------------------------------------- the wire cases

var msgIDSuffix = regexp.MustCompile(`\s*\(msg ID = [0-9a-zA-Z]+\)$`)

type wireObs struct {
	Chain    *chain `json:"chain,omitempty"`
	Stage    string `json:"stage"`
	Via      string `json:"via"`
	UTF8     bool   `json:"smtputf8"`
	Endpoint string `json:"endpoint"`
	Reply    string `json:"reply"`
}

func hasHigh(b []byte) bool {
	for _, x := range b {
		if x >= 0x80 {
			return true
		}
	}
	return false
}

var viaByStage = map[string][]string{
	"ehlo": {"check-early"},
	"mail": {"check-init", "check-conn", "check-sender"},
	"rcpt": {"check-rcpt", "target-start", "target-rcpt"},
	"data": {"check-body", "target-body", "target-commit"},
}

const chainsPerWireCase = 30

func runWireCase(t *testing.T, r *rep.Reporter, c *rep.Case, ci int) {
	p := prng.New(r.Seed(), uint64(ci), "c16-wire")
	kind := "smtp"
	if p.Chance(1, 5) {
		kind = "submission"
	}
	deferReject := p.Chance(1, 3)
	verifkit.ResetSMTPErrorObservations()
	resetInjected()
	withMilter := p.Chance(1, 4)
	var rig *wireRig
	var err error
	for try := 0; try < 5; try++ {
		if rig, err = newRig(kind, deferReject, withMilter); err == nil {
			break
		}
		time.Sleep(50 * time.Millisecond)
	}
	if err != nil {
		// environment (e.g. no ephemeral port for the milter listener on a loaded
		// machine), not a verdict; a systematic failure leaves wire_replies below
		// min_observed and the whole run inconclusive
		c.Inconclusive("cannot build the endpoint: " + err.Error())
		c.Done("no-endpoint", false)
		return
	}
	defer rig.close()

	var cl *client
	defer func() { cl.close() }()
	connect := func() error {
		cl.close()
		var err error
		var g reply
		cl, g, err = dial(rig.addr)
		if err != nil {
			return fmt.Errorf("dial: %v (%s)", err, g)
		}
		rp, err := cl.cmd("EHLO client.example")
		if err != nil {
			return err
		}
		if rp.Code != 250 {
			return fmt.Errorf("EHLO refused: %s", rp)
		}
		if kind == "submission" {
			rp, err = cl.cmd("AUTH PLAIN " + base64.StdEncoding.EncodeToString([]byte("\x00user@example.org\x00pw")))
			if err != nil {
				return err
			}
			if rp.Code != 235 {
				return fmt.Errorf("AUTH refused: %s", rp)
			}
		}
		return nil
	}

	generic := map[bool]string{} // hasDeadline -> generic text first seen
	shapes := map[string]bool{}
	judged := 0
	epName := kind
	if deferReject {
		epName += "+defer"
	}

	judge := func(ch *chain, stage, via string, utf8 bool, rp reply) {
		ob := wireObs{Chain: ch, Stage: stage, Via: via, UTF8: utf8, Endpoint: epName, Reply: rp.String()}
		r.Count("wire_replies", 1)
		r.Count("wire_replies_"+ch.Group, 1)
		judged++
		if judged == 1 {
			r.Sample(ob) // the reporter keeps the first few as literal samples for the evidence file
		}
		if rp.Code/100 != 4 && rp.Code/100 != 5 {
			c.Inconclusive(fmt.Sprintf("injected failure at %s/%s was not reported to the client: %s", stage, via, rp))
			return
		}
		ann := "unannotated"
		if ch.Annotated {
			ann = "annotated"
		}
		if ch.BareGoSMTP {
			ann = "plain-go-smtp-error"
		}
		// (a) classes agree — promised for every chain
		if !rp.HasEnh {
			c.Violation("wire/no-enhanced-code/"+ch.Group+"/"+ann, fmt.Sprintf("reply %q carries no enhanced status code", rp), ob)
		} else if rp.Enh[0] != rp.Code/100 {
			c.Violation("wire/class-mismatch/"+ch.Group+"/"+ann, fmt.Sprintf("reply %q: basic code class %d, enhanced code class %d", rp, rp.Code/100, rp.Enh[0]), ob)
		}
		// (b) class agrees with temporariness — only where the chain does not contradict itself
		if ch.Group == "consistent" {
			wantTemp := ch.temporary()
			if (rp.Code/100 == 4) != wantTemp {
				c.Violation("wire/class-vs-temporariness/"+ch.class()+"/"+ann, fmt.Sprintf("chain %s is %s (temporary=%v at the endpoint) but the reply is %q", ch.shape(), ch.class(), wantTemp, rp), ob)
			}
			if ch.Annotated {
				if rp.Code == ch.Code && rp.HasEnh && rp.Enh == ch.Enh {
					r.Count("wire_annotation_preserved", 1)
				} else {
					r.Count("wire_annotation_changed(not judged)", 1)
				}
			}
		}
		// (c) generic text for chains without SMTP annotation
		if !ch.Annotated {
			txt := msgIDSuffix.ReplaceAllString(rp.Text, "")
			leaked := false
			for _, tok := range ch.Tokens {
				if strings.Contains(string(rp.Raw), tok) {
					leaked = true
				}
			}
			if strings.Contains(string(rp.Raw), "internal.example") || strings.Contains(string(rp.Raw), "10.0.0.53") || strings.Contains(string(rp.Raw), "10.1.2.3") {
				leaked = true
			}
			if leaked {
				c.Violation("wire/generic-text/detail-disclosed", fmt.Sprintf("reply %q to an error without SMTP annotation contains text of the error", rp), ob)
			}
			if g, ok := generic[ch.HasDeadline]; !ok {
				generic[ch.HasDeadline] = txt
			} else if g != txt {
				c.Violation("wire/generic-text/varies-with-error", fmt.Sprintf("two errors without SMTP annotation were reported with different texts: %q and %q", g, txt), ob)
			}
			r.Count("wire_unannotated_replies", 1)
		}
		// (d) ASCII only unless SMTPUTF8 was negotiated
		if !utf8 {
			if hasHigh(rp.Raw) {
				k := ch.MsgKind
				if !ch.Annotated {
					k = "unannotated"
				}
				if ch.BareGoSMTP {
					k += "/plain-go-smtp-error"
				}
				c.Violation("wire/non-ascii-reply-without-smtputf8/"+k, fmt.Sprintf("reply %q contains bytes >= 0x80 although SMTPUTF8 was not negotiated", rp), ob)
			}
			if ch.Annotated && ch.MsgKind != "ascii" {
				r.Count("wire_non_ascii_text_without_smtputf8", 1)
			}
		} else if hasHigh(rp.Raw) {
			r.Count("wire_non_ascii_reply_with_smtputf8", 1)
		}
		shapes[ch.Group+"/"+ch.shape()+"/"+stage] = true
		r.Distinct("wire_paths", epName+"/"+stage+"/"+via)
	}

	for k := 0; k < chainsPerWireCase; k++ {
		group := "consistent"
		if p.Chance(3, 10) {
			group = "conflicting"
		}
		ch := genGroup(p, group)
		stage := prng.Pick(p, []string{"ehlo", "mail", "mail", "rcpt", "rcpt", "rcpt", "data", "data", "data"})
		via := prng.Pick(p, viaByStage[stage])
		utf8 := p.Bool() && stage != "ehlo"
		a := &armed{stage: stage, via: via, err: ch.build()}
		if strings.HasPrefix(via, "check-") && via != "check-early" && via != "check-init" {
			// own stream: the chains and stages above stay what they were
			pa := prng.New(r.Seed(), uint64(ci)<<16|uint64(judged+len(shapes)), "c16-wire-action")
			if args := prng.Pick(pa, actionDirectives); args != nil {
				act, err := modconfig.ParseActionDirective(args)
				if err != nil {
					t.Fatalf("c16: action directive %v refused: %v", args, err)
				}
				a.act = &act
				if act.ReasonOverride != nil {
					// The configured reply replaces the check's own: the chain the client can
					// see is an annotated one with the configured code (the reason stays
					// wrapped inside). Whether the configured class or the reason's decides
					// temporariness is not stated, so only code/enhanced-code coherence,
					// non-disclosure and ASCII are judged for it.
					ch2 := *ch
					ch2.Group = "action-override"
					ch2.Annotated = true
					ch2.BareGoSMTP = false
					ch2.Code = act.ReasonOverride.Code
					ch2.Enh = [3]int{int(act.ReasonOverride.EnhancedCode[0]), int(act.ReasonOverride.EnhancedCode[1]), int(act.ReasonOverride.EnhancedCode[2])}
					ch2.MsgKind = "ascii"
					ch2.MultiLine = false
					ch = &ch2
					r.Count("wire_check_action_reply_override_over_"+map[bool]string{true: "temporary", false: "non-temporary"}[ch.temporary()]+"_reason", 1)
				} else {
					r.Count("wire_check_action_without_override", 1)
				}
			}
		}

		var rp reply
		var ioerr error
		attempt := func() (bool, error) {
			if stage == "ehlo" {
				cl.close()
				cl = nil
				rig.arm(a)
				defer rig.arm(nil)
				ncl, g, err := dial(rig.addr)
				if err != nil {
					return false, fmt.Errorf("dial: %v %s", err, g)
				}
				defer ncl.close()
				rp, err = ncl.cmd("EHLO client.example")
				return err == nil, err
			}
			if cl == nil {
				if err := connect(); err != nil {
					return false, err
				}
			} else if x, err := cl.cmd("RSET"); err != nil || x.Code != 250 {
				if err := connect(); err != nil {
					return false, err
				}
			}
			rig.arm(a)
			defer rig.arm(nil)
			mail := "MAIL FROM:<sender@example.org>"
			if utf8 {
				mail += " SMTPUTF8"
			}
			x, err := cl.cmd(mail)
			if err != nil {
				return false, err
			}
			if stage == "mail" && !deferReject {
				rp = x
				return true, nil
			}
			if x.Code != 250 {
				return false, fmt.Errorf("MAIL refused unexpectedly: %s", x)
			}
			x, err = cl.cmd("RCPT TO:<rcpt@example.org>")
			if err != nil {
				return false, err
			}
			if stage == "rcpt" || stage == "mail" {
				rp = x
				return true, nil
			}
			if x.Code != 250 {
				return false, fmt.Errorf("RCPT refused unexpectedly: %s", x)
			}
			x, err = cl.cmd("DATA")
			if err != nil {
				return false, err
			}
			if x.Code != 354 {
				return false, fmt.Errorf("DATA refused unexpectedly: %s", x)
			}
			hdr := "From: <sender@example.org>\r\nTo: <rcpt@example.org>\r\nSubject: x\r\n"
			x, err = cl.cmd(hdr + "\r\nbody\r\n.")
			if err != nil {
				return false, err
			}
			rp = x
			return true, nil
		}
		ok, ioerr := attempt()
		if !ok {
			// one retry on a fresh connection: the server may have dropped the old one
			cl.close()
			cl = nil
			ok, ioerr = attempt()
		}
		if !ok {
			c.Inconclusive(fmt.Sprintf("SMTP dialogue failed (%v) at %s/%s", ioerr, stage, via))
			continue
		}
		judge(ch, stage, via, utf8, rp)
		if ch.MultiLine {
			// go-smtp writes the text as it is: the rest of the message is still
			// in the pipe (reply splitting is not C16's subject)
			cl.close()
			cl = nil
		}
		if cl != nil && stage == "mail" && deferReject {
			// With defer_sender_reject the session keeps the failed MAIL result and
			// repeats it for later transactions of the connection (RSET does not
			// clear it; that is C03's subject, not C16's): use a fresh connection.
			cl.close()
			cl = nil
		}
	}

	// ---- replies maddy builds from its own literals and directives
	fixed := func(name, rcpt, mailArg string, data string) {
		if err := connect(); err != nil {
			c.Inconclusive("SMTP dialogue failed: " + err.Error())
			return
		}
		x, err := cl.cmd("MAIL FROM:" + mailArg)
		var rp reply
		switch {
		case err != nil:
			c.Inconclusive("SMTP dialogue failed: " + err.Error())
			return
		case x.Code != 250:
			rp = x
		default:
			x, err = cl.cmd("RCPT TO:<" + rcpt + ">")
			if err != nil {
				c.Inconclusive("SMTP dialogue failed: " + err.Error())
				return
			}
			rp = x
			if x.Code == 250 && data != "" {
				if x, err = cl.cmd("DATA"); err != nil || x.Code != 354 {
					c.Inconclusive(fmt.Sprintf("SMTP dialogue failed at DATA: %v %s", err, x))
					return
				}
				if x, err = cl.cmd(data + "\r\n."); err != nil {
					c.Inconclusive("SMTP dialogue failed: " + err.Error())
					return
				}
				rp = x
			}
		}
		r.Count("wire_fixed_replies", 1)
		r.Distinct("wire_fixed_scenarios", name+" -> "+fmt.Sprintf("%d %d.%d.%d", rp.Code, rp.Enh[0], rp.Enh[1], rp.Enh[2]))
		if rp.Code/100 != 4 && rp.Code/100 != 5 {
			r.Count("wire_fixed_accepted(not judged)", 1)
			return
		}
		ob := wireObs{Stage: name, Endpoint: epName, Reply: rp.String()}
		if !rp.HasEnh {
			c.Violation("wire/no-enhanced-code/"+name, fmt.Sprintf("reply %q carries no enhanced status code", rp), ob)
		} else if rp.Enh[0] != rp.Code/100 {
			c.Violation("wire/class-mismatch/"+name, fmt.Sprintf("reply %q: basic code class %d, enhanced code class %d", rp, rp.Code/100, rp.Enh[0]), ob)
		}
		if hasHigh(rp.Raw) && !strings.Contains(mailArg, "SMTPUTF8") {
			c.Violation("wire/non-ascii-reply-without-smtputf8/"+name, fmt.Sprintf("reply %q contains bytes >= 0x80", rp), ob)
		}
		shapes["fixed/"+name] = true
	}
	fixed("reject-directive/no-arguments", "a@reject-default.example", "<sender@example.org>", "")
	fixed("reject-directive/permanent-basic-code-only", "a@reject-perm.example", "<sender@example.org>", "")
	fixed("reject-directive/temporary-basic-code-only", "a@reject-temp.example", "<sender@example.org>", "")
	fixed("reject-directive/all-arguments", "a@reject-full.example", "<sender@example.org>", "")
	fixed("non-ascii-recipient-without-smtputf8", "ю@example.org", "<sender@example.org>", "")
	fixed("invalid-recipient-domain", "a@xn--", "<sender@example.org>", "")
	fixed("too-many-received", "rcpt@example.org", "<sender@example.org>", strings.Repeat("Received: from a by b; Mon, 1 Jan 2024 00:00:00 +0000\r\n", 60)+"From: <sender@example.org>\r\n\r\nx")
	if withMilter {
		fixed("milter/reply-code-temporary", "rcpt@example.org", "<milter-temp@example.org>", "")
		fixed("milter/reply-code-permanent", "rcpt@example.org", "<milter-perm@example.org>", "")
	}
	if kind == "submission" {
		fixed("submission/malformed-date", "rcpt@example.org", "<sender@example.org>", "From: <sender@example.org>\r\nDate: not a date\r\n\r\nx")
		fixed("submission/no-from", "rcpt@example.org", "<sender@example.org>", "Subject: x\r\n\r\nx")
		fixed("submission/bad-from", "rcpt@example.org", "<sender@example.org>", "From: <<>>\r\n\r\nx")
		fixed("submission/two-from-no-sender", "rcpt@example.org", "<sender@example.org>", "From: <a@example.org>, <b@example.org>\r\n\r\nx")
		fixed("submission/bad-sender", "rcpt@example.org", "<sender@example.org>", "From: <a@example.org>\r\nSender: <<>>\r\n\r\nx")
	}
	// observation only (not part of the C16 statement): a sender with U+0080 and no SMTPUTF8
	if err := connect(); err == nil {
		if x, err := cl.cmd("MAIL FROM:<a\u0080b@example.org>"); err == nil {
			if x.Code == 250 {
				r.Count("u0080_sender_without_smtputf8_accepted(not judged)", 1)
			} else {
				r.Count("u0080_sender_without_smtputf8_refused", 1)
				if hasHigh(x.Raw) {
					c.Violation("wire/non-ascii-reply-without-smtputf8/sender-refusal", fmt.Sprintf("reply %q contains bytes >= 0x80", x), wireObs{Stage: "mail", Endpoint: epName, Reply: x.String()})
				}
			}
		}
	}

	judgeObserver(r, c, "wire")
	var sh []string
	for s := range shapes {
		sh = append(sh, s)
	}
	for _, s := range sh {
		r.Eval(0, "wire/"+s)
	}
	c.Done(fmt.Sprintf("wire/%s/%d", epName, len(sh)), judged > 0)
}
